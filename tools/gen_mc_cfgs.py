#!/usr/bin/env python3
"""Write spec/MCResonaate_<name>.cfg for the exhaustive configurations of Resonaate.tla."""
from pathlib import Path
INV = ["OneRecordPerTasking", "NoRecordWithoutTasking", "PointingReflectsTasking", "LastStepMissesOnly", "RowsExact",
       "StepResultIsCanonical", "OnlyVisibleTasked", "TruthAtClock", "EstimatesAtClock", "DbComplete", "DbNoDup", "DbRefs",
       "ExactlyOnceInstant", "DurationActiveExactly", "OnlyAddressee", "DvOnce", "NeverTwice", "BiasActiveExactly"]
PROPS = ["NonInterference", "CommitAtomic"]
def cfg(name, T, S, E="E1", ET="AllT", ES="AllS", pol="PolGreedy", nsteps=2, out=1, est=True, ser=False,
        reset=False, squared=False, keep=False, prio_all=False, prune_eq=False, events="NoEvents", dt=1,
        IT=None, IS=None, faults=False, partial=False, out_dt=None, interf=False, live=False, span=None, lastmerge=False):
    B = lambda b: "TRUE" if b else "FALSE"
    txt = f"""SPECIFICATION {'FairSpec' if live else 'Spec'}
CONSTANTS
  Targets <- {T}
  Sensors <- {S}
  InitTargets <- {IT or T}
  InitSensors <- {IS or S}
  Engines <- {E}
  EngTargets <- {ET}
  EngSensors <- {ES}
  Policy <- {pol}
  NSteps = {nsteps}
  SpanSteps = {nsteps if span is None else span}
  Dt = {dt}
  OutDt = {out_dt or out * dt}
  Events <- {events}
  WithEstimation = {B(est)}
  WithSerendipity = {B(ser)}
  WithFaults = {B(faults)}
  ResetChangesPerJob = {B(reset)}
  MissListSquared = {B(squared)}
  KeepMissedAcrossSteps = {B(keep)}
  PriorityToAllEngines = {B(prio_all)}
  PruneKeepsEqual = {B(prune_eq)}
  PartialCommit = {B(partial)}
  UpdateTouchesTruth = {B(interf)}
  TRank <- RankT
  LastMergeWins = {B(lastmerge)}
""" + "".join(f"INVARIANT {i}\n" for i in INV) + "".join(f"PROPERTY {p}\n" for p in PROPS + (["RunCompletes"] if live else []))
    Path(__file__).resolve().parent.parent.joinpath("spec", f"MCResonaate_{name}.cfg").write_text(txt)
cfg("greedy22", "T2", "S2")
cfg("munkres22", "T2", "S2", pol="PolMunkres")
cfg("random22", "T2", "S2", pol="PolRandom")
cfg("allvisible22", "T2", "S2", pol="PolAllVisible")
cfg("greedy22_2eng", "T2", "S2", E="E2", ET="SplitT", ES="SplitS", pol="PolMixed", out=2)
cfg("greedy22_ser", "T2", "S2", ser=True, nsteps=1)
cfg("munkres23", "T2", "S3", pol="PolMunkres", nsteps=1)
cfg("greedy32", "T3", "S2", nsteps=1)
cfg("random23", "T2", "S3", pol="PolRandom", nsteps=1)
cfg("truthonly", "T2", "S2", est=False, nsteps=3, out=2, faults=True)
cfg("faults", "T1", "S1", nsteps=3, out=2, faults=True)
cfg("coded_lastmerge", "T2", "S2", pol="PolAllVisible", lastmerge=True)
cfg("coded_reset", "T2", "S2", reset=True)
cfg("coded_squared", "T2", "S2", squared=True)
cfg("coded_keep", "T2", "S2", keep=True)
# C01: events (Dt = 3 ticks, 3 steps); one config per impulse tick
for t in range(1, 10):
    cfg(f"ev_imp{t}", "T1", "S1", nsteps=3, dt=3, events=f"Imp{t}")
cfg("ev_imppair", "T1", "S1", nsteps=3, dt=3, events="ImpPair")
cfg("ev_addremove", "T2", "S2", IT="T1", nsteps=3, dt=3, events="AddRemove", out=2)
cfg("ev_durations", "T2", "S2", E="E2", ET="SplitT", ES="SplitS", pol="PolMixed", nsteps=3, dt=3, events="Durations")
cfg("coded_prune", "T1", "S1", nsteps=3, dt=3, events="Imp3", prune_eq=True)
cfg("coded_prio", "T2", "S2", E="E2", pol="PolMixed", nsteps=3, dt=3, events="Durations", prio_all=True)
cfg("out_nonmultiple", "T1", "S1", nsteps=6, dt=2, out_dt=3, faults=True)
cfg("out_faults_events", "T2", "S2", IT="T1", nsteps=3, dt=3, events="AddRemove", out_dt=6, faults=True)
cfg("coded_partialcommit", "T1", "S1", nsteps=2, faults=True, partial=True)
cfg("coded_interference", "T1", "S1", nsteps=2, interf=True)
cfg("live_events", "T2", "S2", E="E2", ET="SplitT", ES="SplitS", pol="PolMixed", nsteps=3, dt=3, events="Durations", live=True)
cfg("live_faults", "T1", "S1", nsteps=3, out=2, faults=True, live=True)
cfg("live_addremove", "T2", "S2", IT="T1", nsteps=3, dt=3, events="AddRemove", out=2, live=True)
cfg("coded_prio_stuck", "T2", "S2", E="E2", ET="SplitT", ES="SplitS", pol="PolMixed", nsteps=3, dt=3, events="Durations", prio_all=True, live=True)
cfg("greedy33", "T3", "S3", nsteps=1)
cfg("munkres33", "T3", "S3", pol="PolMunkres", nsteps=1)
cfg("random33", "T3", "S3", pol="PolRandom", nsteps=1)
cfg("munkres22_3steps", "T2", "S2", pol="PolMunkres", nsteps=3, out=2)
cfg("beyond_span", "T1", "S1", nsteps=4, span=2, out=2, faults=True)
