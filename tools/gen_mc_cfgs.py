#!/usr/bin/env python3
"""Write spec/MCResonaate_<name>.cfg for the exhaustive configurations of Resonaate.tla."""
from pathlib import Path
INV = """INVARIANT OneRecordPerTasking
INVARIANT NoRecordWithoutTasking
INVARIANT PointingReflectsTasking
INVARIANT LastStepMissesOnly
INVARIANT RowsExact
INVARIANT StepResultIsCanonical
INVARIANT OnlyVisibleTasked
INVARIANT TruthAtClock
INVARIANT EstimatesAtClock
INVARIANT DbComplete
INVARIANT DbNoDup
INVARIANT DbRefs
INVARIANT ObsRowsHaveEpoch
"""
def cfg(name, T, S, E="E1", ET="AllT", ES="AllS", pol="PolGreedy", nsteps=2, out=1, est=True, ser=False,
        reset=False, squared=False, keep=False):
    B = lambda b: "TRUE" if b else "FALSE"
    txt = f"""SPECIFICATION Spec
CONSTANTS
  Targets <- {T}
  Sensors <- {S}
  Engines <- {E}
  EngTargets <- {ET}
  EngSensors <- {ES}
  Policy <- {pol}
  NSteps = {nsteps}
  OutEvery = {out}
  WithEstimation = {B(est)}
  WithSerendipity = {B(ser)}
  ResetChangesPerJob = {B(reset)}
  MissListSquared = {B(squared)}
  KeepMissedAcrossSteps = {B(keep)}
""" + INV
    Path(__file__).resolve().parent.parent.joinpath("spec", f"MCResonaate_{name}.cfg").write_text(txt)
cfg("greedy22", "T2", "S2")
cfg("munkres22", "T2", "S2", pol="PolMunkres")
cfg("random22", "T2", "S2", pol="PolRandom")
cfg("allvisible22", "T2", "S2", pol="PolAllVisible")
cfg("greedy22_2eng", "T2", "S2", E="E2", ET="SplitT", ES="SplitS", pol="PolMixed", out=2)
cfg("greedy22_ser", "T2", "S2", ser=True, nsteps=1)
cfg("munkres23", "T2", "S3", pol="PolMunkres", nsteps=1)
cfg("greedy32", "T3", "S2", nsteps=1)
cfg("random23", "T2", "S3", pol="PolRandom", nsteps=1)
cfg("truthonly", "T2", "S2", est=False, nsteps=3, out=2)
cfg("coded_reset", "T2", "S2", reset=True)
cfg("coded_squared", "T2", "S2", squared=True)
cfg("coded_keep", "T2", "S2", keep=True)
