#!/bin/sh
# tools/benign_eval.sh <change dir> "<checks>": apply a behaviour-preserving patch to a scratch worktree of /repo HEAD and run
# the named checks against it (VERIF_REPO); every check must exit 0.  Prints one line per check.
d=$1; checks=$2
wt=/tmp/benignrun_$$
git -C /repo worktree add -q --detach $wt HEAD || exit 2
( cd $wt && git apply "$d/patch.diff" ) || { echo "$d: patch does not apply"; git -C /repo worktree remove --force $wt; exit 2; }
cd "$(dirname "$0")/.." || exit 2
for c in $checks; do
  out=$(VERIF_REPO=$wt timeout 3000 ./check $c --tier quick 2>&1); rc=$?
  echo "$d $c exit=$rc $(echo "$out" | grep -c '^VIOLATION') violations"
  [ $rc -ne 0 ] && echo "$out" | grep -E "^#|MACHINERY|Error" | head -5 | cut -c1-400
done
git -C /repo worktree remove --force $wt; rm -rf /tmp/verif_alt_out/$(basename $wt)
