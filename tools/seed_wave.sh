#!/bin/sh
# tools/seed_wave.sh <wave root> <PID> ["extra checks"]: confirm + evaluate both changes of one seeding agent, keep them
# as seeded/<PID>/change<next>.  Output: <root>/<PID>/eval_<i>.json
root=$1; pid=$2; extra=$3
cd "$(dirname "$0")/.." || exit 2
tests=$(python3 - "$pid" <<'PY'
import sys,re
src=open('tools/seed_tasks.py').read()
m=re.search(r'"%s": "([^"]+)"'%sys.argv[1],src)
print(" ".join(("tests/"+d if not d.startswith("tests/") else d) for d in m.group(1).split()))
PY
)
for i in 1 2; do
  d=$root/$pid/seed_out/change$i
  [ -f "$d/patch.diff" ] || { echo "no $d"; continue; }
  n=$(ls seeded/$pid 2>/dev/null | sed 's/change//' | sort -n | tail -1); n=$((n+1))
  python3 tools/seed_eval.py "$pid" "$d" --tests "$tests" --checks "$pid $extra" --keep "change$n" > "$root/$pid/eval_$i.json" 2>&1
  python3 - "$root/$pid/eval_$i.json" "$pid" "$n" <<'PY'
import sys,json,re
t=open(sys.argv[1]).read()
try:
    d=json.loads(t[t.index('{'):])
    print(sys.argv[2],"change"+sys.argv[3],"confirmed=",d.get("confirmed_breaks_property_demo"),"tests=",d.get("tests",{}).get("failures"),d.get("tests",{}).get("errors"),
          {k:(v["exit"],v["violations"]) for k,v in d.get("checks",{}).items()})
except Exception as e: print("eval parse fail",e,t[-300:])
PY
done
