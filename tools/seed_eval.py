#!/usr/bin/env python3
"""Confirm a seeded change and run our checks against it.

usage: tools/seed_eval.py <PID> <change_dir> [--tests "tests/a tests/b"] [--checks "C01 C09"] [--tier quick] [--keep NAME]

1. fresh scratch worktree of /repo HEAD (outside /repo and /verif): demo.py must exit 0;
2. apply patch.diff there: demo.py must exit non-zero; the given test paths must pass;
3. apply the patch to /repo, run ./check <id> for each listed check, undo it straight afterwards;
4. with --keep: copy patch.diff, demo.py, meta.json (+ our results) to /verif/seeded/<PID>/<NAME>/.
The scratch worktree is removed at the end.
"""
import argparse
import json
import os
import shutil
import subprocess
import sys
import time
from pathlib import Path

VERIF = Path(__file__).resolve().parent.parent


def sh(cmd, cwd=None, timeout=3600, env=None):
    e = dict(os.environ)
    if env:
        e.update(env)
    p = subprocess.run(cmd, shell=True, cwd=cwd, capture_output=True, text=True, timeout=timeout, env=e)
    return p.returncode, p.stdout + p.stderr


def main():
    ap = argparse.ArgumentParser()
    ap.add_argument("pid")
    ap.add_argument("change_dir")
    ap.add_argument("--tests", default="")
    ap.add_argument("--checks", default="")
    ap.add_argument("--tier", default="quick")
    ap.add_argument("--keep", default="")
    ap.add_argument("--inplace", action="store_true", help="apply the patch to /repo itself (undone afterwards) instead of a scratch worktree")
    a = ap.parse_args()
    cdir = Path(a.change_dir).resolve()
    patch = cdir / "patch.diff"
    demo = cdir / "demo.py"
    wt = Path(f"/tmp/seedver_{a.pid}_{os.getpid()}")
    res = {"property": a.pid, "change_dir": str(cdir)}
    sh(f"git -C /repo worktree add -q --detach {wt} HEAD")
    try:
        shutil.copytree(cdir, wt / "seed_out" / "change", dirs_exist_ok=True)
        env = {"PYTHONPATH": f"{wt}/src", "PYTHONHASHSEED": "0"}
        rc0, out0 = sh(f"timeout 900 /venv/bin/python -W ignore seed_out/change/demo.py", cwd=wt, env=env)
        res["demo_without_patch_rc"] = rc0
        rcp, outp = sh(f"git apply {patch}", cwd=wt)
        if rcp != 0:
            res["error"] = "patch does not apply: " + outp[-500:]
            print(json.dumps(res, indent=1))
            return 2
        rc1, out1 = sh(f"timeout 900 /venv/bin/python -W ignore seed_out/change/demo.py", cwd=wt, env=env)
        res["demo_with_patch_rc"] = rc1
        res["demo_with_patch_tail"] = out1[-600:]
        if a.tests:
            t0 = time.time()
            rct, outt = sh(f"timeout 3000 /venv/bin/python -m pytest -q -p no:cacheprovider --timeout=900 -n 6 {a.tests} --junitxml={wt}/junit.xml",
                           cwd=wt, env=env)
            try:
                import xml.etree.ElementTree as E
                r = E.parse(wt / "junit.xml").getroot()
                s = r if r.tag == "testsuite" else r[0]
                res["tests"] = {k: s.attrib[k] for k in ("tests", "failures", "errors")}
                res["tests"]["failed_names"] = [l for l in outt.splitlines() if l.startswith("FAILED")][:8]
            except Exception as ex:  # noqa: BLE001
                res["tests"] = {"error": str(ex), "tail": outt[-400:]}
            res["tests"]["paths"] = a.tests
            res["tests"]["wall_s"] = round(time.time() - t0)
    finally:
        sh(f"git -C /repo worktree remove --force {wt}")
        shutil.rmtree(wt, ignore_errors=True)
    confirmed = res.get("demo_without_patch_rc") == 0 and res.get("demo_with_patch_rc") not in (0, None)
    res["confirmed_breaks_property_demo"] = confirmed
    checks = a.checks.split()
    if checks and not a.inplace:
        # run our checks against a scratch worktree carrying the patch (VERIF_REPO), /repo itself stays untouched
        rw = Path(f"/tmp/seedrun_{a.pid}_{os.getpid()}")
        sh(f"git -C /repo worktree add -q --detach {rw} HEAD")
        try:
            rc, out = sh(f"git apply {patch}", cwd=rw)
            res["checks"] = {}
            for c in checks:
                t0 = time.time()
                rcc, outc = sh(f"./check {c} --tier {a.tier}", cwd=VERIF, timeout=7200, env={"VERIF_REPO": str(rw)})
                viol = [l for l in outc.splitlines() if l.startswith("VIOLATION")]
                expl = [l for l in outc.splitlines() if l.startswith("# ")]
                res["checks"][c] = {"exit": rcc, "violations": len(viol), "first": (expl[:2] if expl else outc.splitlines()[-3:]),
                                    "wall_s": round(time.time() - t0), "against": "scratch worktree via VERIF_REPO"}
        finally:
            sh(f"git -C /repo worktree remove --force {rw}")
            shutil.rmtree(rw, ignore_errors=True)
    elif checks:
        rc, out = sh("git -C /repo status --porcelain")
        if out.strip():
            print("refusing: /repo has uncommitted changes", file=sys.stderr)
            return 2
        rc, out = sh(f"git -C /repo apply {patch}")
        try:
            res["checks"] = {}
            for c in checks:
                t0 = time.time()
                rcc, outc = sh(f"./check {c} --tier {a.tier}", cwd=VERIF, timeout=7200)
                viol = [l for l in outc.splitlines() if l.startswith("VIOLATION")]
                expl = [l for l in outc.splitlines() if l.startswith("# ")]
                res["checks"][c] = {"exit": rcc, "violations": len(viol), "first": (expl[:2] if expl else outc.splitlines()[-3:]),
                                    "wall_s": round(time.time() - t0), "against": "/repo with the patch applied, undone afterwards"}
        finally:
            sh("git -C /repo checkout -- .")
            rc, out = sh("git -C /repo status --porcelain")
            if out.strip():
                print("WARNING: /repo not clean after undo:", out, file=sys.stderr)
    print(json.dumps(res, indent=1))
    if a.keep:
        dst = VERIF / "seeded" / a.pid / a.keep
        dst.mkdir(parents=True, exist_ok=True)
        for f in ("patch.diff", "demo.py", "meta.json"):
            if (cdir / f).exists() and (cdir / f).resolve() != (dst / f).resolve():
                shutil.copy(cdir / f, dst / f)
        meta = {}
        if (dst / "meta.json").exists():
            try:
                meta = json.loads((dst / "meta.json").read_text())
            except Exception:  # noqa: BLE001
                meta = {"raw": (dst / "meta.json").read_text()}
        meta["confirmed_by_maintainer"] = {k: v for k, v in res.items() if k != "change_dir"}
        (dst / "meta.json").write_text(json.dumps(meta, indent=1) + "\n")
    return 0


if __name__ == "__main__":
    sys.exit(main())
