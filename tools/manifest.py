#!/usr/bin/env python3
"""Regenerate /verif/MANIFEST.json from the table below and validate it against the schema.

Run:  python3 tools/manifest.py
"""
import json
import sys
from pathlib import Path

ROOT = Path(__file__).resolve().parent.parent

TRUST = ("trusted base: TLC 1.8.0; harness/sched.py (deterministic stand-in for ray, pickle copy semantics); "
         "python datetime/numpy; the projection functions of the driver")

CLAIMED = {
    "C07": dict(
        text=("TLC checks the policy theorems of Decisions.tla (feasibility, optimality, relabelling equivariance, non-empty "
              "admissible set) over the whole bounded instance space; every record (policy,R,V,D) produced by the real "
              "Decision.calculate over all small-integer matrices up to 3x3 (plus tie-heavy 4x4/5x5 samples and all masks) is "
              "trace-validated against the spec (D must be in Admissible); 5..40-sized munkres instances are decided by a dual "
              "certificate that TLC verifies; every state of Rewards.tla (exact rationals) is replayed into the real reward classes."),
        ref="5 C07", technique="TLA+ spec (Decisions.tla, Rewards.tla) + TLC; trace validation of real decision records; spec->impl replay of reward states",
        note=TRUST + "; integer rewards in records (ties exact); independent Hungarian duals are checked, not trusted",
        engine="decisions"),
}

CLAIMED["C08"] = dict(
    text=("TLC checks Resonaate.tla (the simulator's step loop, one action per critical section, any pending job of a batch may be "
          "merged next) exhaustively on small networks: every completion order of the propagate/predict/reward/task-execution/update "
          "batches and every visibility/slew/hit outcome satisfies OneRecordPerTasking, PointingReflectsTasking, StepResultIsCanonical "
          "(order independence as an invariant) and the row invariants; each named as-coded deviation is shown to yield a counterexample. "
          "Real scenarios (real engine, executors, registrations, sensors' collectObservations, SQLite output) are run under a "
          "deterministic scheduler with all permutations of each batch and seeded outcome tables, and with fully real geometry; every "
          "recorded execution is validated by TLC against TraceResonaate.tla (all invariants in every state) and the numeric step "
          "results must equal those of the FIFO schedule."),
    ref="5 C08", technique="TLA+ system spec Resonaate.tla + TLC exhaustive; trace validation (TraceResonaate.tla) of real scenario executions under controlled completion orders",
    note=TRUST + "; table-driven runs stub only Sensor.canSlew/attemptObservation/predictObservation; job bodies run at submission so only merge order varies",
    engine="resonaate-system")

CLAIMED["C01"] = dict(
    text=("TLC checks Resonaate.tla exhaustively for event families on a tick lattice (an impulse on every tick of the span - on and "
          "off step boundaries -, two impulses in one step, agent addition/removal, priority/time-bias/burn intervals, two engines): "
          "ExactlyOnceInstant, DurationActiveExactly, OnlyAddressee, DvOnce, NeverTwice, BiasActiveExactly; the as-coded deviations "
          "(D1, D3) yield counterexamples, and Windows.tla shows which repairs suffice for every rounding of the date paths. Real "
          "scenarios over a sweep of (start instant, step, event time) triples - every aligned time start+j*step, interior times, all "
          "event kinds, added through the public config and run with propagateTo - are traced (every handler call, every impulse "
          "application inside the propagation/prediction jobs, membership, DB rows) and validated by TLC against TraceResonaate.tla."),
    ref="5 C01", technique="TLA+ system spec Resonaate.tla (+ Windows.tla) + TLC exhaustive; trace validation of real scenario executions over the (start, step, event time) lattice",
    note=TRUST + "; event times mapped to spec ticks by their order relative to step boundaries (integer arithmetic on configured datetimes); duration events end on a boundary or beyond the span",
    engine="resonaate-system")

CLAIMED["C09"] = dict(
    text=("TLC checks the database clauses of Resonaate.tla exhaustively (DbComplete, DbNoDup, DbRefs, RowsExact as invariants; "
          "CommitAtomic as an action property) for equal / multiple / non-multiple output intervals, agent sets changing through "
          "events, estimation on/off and a commit that may fail at any output step; a partial-commit spec mutant is refuted. Real "
          "scenarios on file-backed SQLite databases (physics/output step pairs, 1-3 consecutive propagateTo calls, addition/removal "
          "events, estimation on/off) are traced; after every save ALL tables are audited with plain SQL and the bags of row keys must "
          "equal the spec's database, epochs must be unique/increasing with timestamps matching an independent Julian-date conversion, "
          "no row may reference a missing epoch or agent, stored states/covariances must be bit-equal to the held ones. Every crash "
          "point inside a save (each bulk-save and commit operation) is enumerated with an injected failure and the audit afterwards "
          "must equal the pre-step database."),
    ref="5 C09", technique="TLA+ system spec Resonaate.tla + TLC exhaustive; trace validation with full SQL audit; crash-point enumeration inside saveDatabaseOutput",
    note=TRUST + "; sqlite3/SQLAlchemy transactions; epoch rows are the pre-populated calendar of the configured span",
    engine="resonaate-system", category="model_checking")

CLAIMED["C14"] = dict(
    text=("Visibility.tla evaluates field-of-view, azimuth/elevation-mask, line-of-sight, Earth-limb and Sun-fraction predicates in "
          "exact integer arithmetic on lattices (azimuth circle Z_360 with the seam at 1 degree resolution, lattice cube of side 7 "
          "Earth radii); TLC checks reflexivity, rotation invariance across the north seam, line-of-sight symmetry and closed form = "
          "segment test, limb = blocked ray, mask complement/equivariance as spec theorems. Every expected answer with its exact "
          "margin (about 210k quick / 3.0M thorough) is replayed into the real inFieldOfView, Sensor.isVisible, lineOfSight, "
          "checkSpaceSensorEarthLimbObscuration and calculateSunVizFraction, plus rotated twins and seeded off-lattice relation "
          "checks; margin 0 (exactly on an edge) is undecided."),
    ref="5 C14", technique="TLA+ exact-lattice spec Visibility.tla + TLC as oracle; spec->impl replay of every emitted state",
    note=TRUST + "; degree/lattice-to-float projection in harness/drivers/c14.py; off-lattice inputs are compared with double-precision formulas outside a 1e-9 band",
    engine="visibility")

CLAIMED["C10"] = dict(
    text=("NonInterference - only scenario-step events, propagation-event queueing, ticToc and propagation merges may change a "
          "truth variable - is an action property of Resonaate.tla checked by TLC over every schedule, policy, visibility pattern, "
          "output cadence and fault of the exhaustive configurations (a spec mutant in which an update merge writes a truth variable "
          "is refuted). Families of real scenarios sharing dynamics settings, initial states and truth-affecting events but differing "
          "in estimation on/off, policy, reward, sensor noise/masks, filter noise, output cadence, run split, completion schedule, "
          "stubbed vs real sensing and in the presence of other agents (configured, added or removed mid-run) log the SHA-256 digest "
          "of every agent's truth state per epoch; TLC validates each family against TruthPairs.tla (a value once defined for "
          "(agent, epoch) must be repeated bit for bit)."),
    ref="5 C10", technique="TLA+ action property NonInterference on Resonaate.tla + TLC; trace validation of digest records of scenario families (TruthPairs.tla)",
    note=TRUST + "; digests are the first 56 bits of SHA-256 over float64 bytes; variants run the truth through identical float operations; every variant runs in a forked process of its own",
    engine="resonaate-system")

CLAIMED["C19"] = dict(
    text=("TLC checks Importer.tla exhaustively over EVERY importer row set (scenario agents, unrelated agents, two epochs), every "
          "realtime/imported mix and every observation set: ImportFaithful, NoStaleState (a gap must raise), ObsReachFilter, "
          "ImporterReadOnly; the as-coded count-based completeness check is refuted. A real realtime run produces a source database; "
          "importer databases are derived from it with plain sqlite3 (exact, supersets with unrelated agents, a gap at every (agent "
          "kind, epoch) with and without unrelated extras, thinned observations) and the real scenario is run against each; per step "
          "the trace records which database record each imported agent's state is bit-equal to, whether MissingEphemerisError was "
          "raised, which imported observations reached each estimate update, and the file hash before/after; TLC validates the "
          "traces against TraceImporter.tla."),
    ref="5 C19", technique="TLA+ spec Importer.tla + TLC exhaustive over row sets; trace validation of real runs against derived importer databases",
    note=TRUST + "; sqlite3 for deriving/reading importer databases; state-to-row matching by exact float equality",
    engine="importer")

CLAIMED["C06"] = dict(
    text=("TLC enumerates LinearGaussian.tla, an exact-rational Kalman reference (QMatrices.tla: checked 32-bit rational matrices) that "
          "states the two resampling modes and the covariance invariants (WeightsSumToOne, Symmetric, PSD, PosteriorIsPriorMinusKSKt, "
          "PosteriorLePrior, NoObsReturnsPropagatedMean, RedrawIsTextbookKalman, NoRedrawIsVariant) over 1-2-state systems, stacks of "
          "simultaneous observations, 1-2 steps and rational unscented-transform tunings; every behaviour is replayed into the real "
          "UnscentedKalmanFilter through its result objects and must agree with the rationals to 1e-9, once in the posed units and once more "
          "in units scaled by a power of two (UnitChangeEquivariant: gain unchanged, covariances scale by c^2). For dimensions 1-8, dense "
          "matrices and up to 4 stacked observations the same relations are evaluated on logged matrices and validated by TLC against "
          "TraceLinearGaussian.tla as integer-projected residuals (relations only)."),
    ref="5 C06", technique="TLA+ exact-rational spec LinearGaussian.tla + TLC as oracle; spec->impl replay into the real UKF; trace validation of integer-projected residuals",
    note=TRUST + "; QMatrices.tla overflow guards; numpy for float residuals; linear Dynamics/MeasurementType adapters in the driver; exact equality with the Kalman filter only for dimension <= 2",
    engine="linear-gaussian")
CLAIMED["C12"] = dict(
    text=("TLC checks OrbitLattice.tla exhaustively (rational Kepler orbits: 7 families x 88 orientations x 4 anomalies; vis-viva, "
          "constant angular momentum, element and equinoctial round trips, singular-case classification as invariants; the as-coded "
          "retrograde convention is refuted as a spec mutant). Every lattice state is replayed into the real eci2coe/coe2eci/eci2eqe/"
          "eqe2eci/coe2eqe/eqe2coe, the element classes, the anomaly conversions and the three StateConfig descriptions; threshold-"
          "straddling and seeded generic orbits are checked as round-trip relations."),
    ref="5 C12", technique="TLA+ exact-lattice spec OrbitLattice.tla + TLC as oracle; spec->impl replay",
    note=TRUST + "; Rationals.tla; math.pi and math.acos multiply the spec's exact rational coefficients; documented unit scaling; non-lattice orbits only as relations",
    engine="orbit-lattice")
CLAIMED["C16"] = dict(
    text=("TLC checks Angles.tla (wrap, residual and circular-mean identities on the circle Z_24 with turn offsets and both wrap branches, "
          "exact circular mean in Q(sqrt2, sqrt3) incl. negative centre weights) and ObsGroup.tla (the symmetry group of a stacked "
          "measurement: turn offsets, wrap-point moves, all 24 orders of four mixed observations, with the action property that the "
          "abstract posterior is unchanged). Every helper state is replayed into the real maths.py helpers against an exact rational "
          "oracle of the float inputs; every group behaviour is replayed into a real UnscentedKalmanFilter.update on seam-straddling "
          "geometries for six sigma-point weightings (posterior equal to 1e-9, 1e-7 under reordering; innovations in (-pi, pi])."),
    ref="5 C16", technique="TLA+ specs Angles.tla / ObsGroup.tla + TLC; spec->impl replay into helpers and the real UKF",
    note=TRUST + "; tick-to-radian projection; 7-entry cosine table (identities checked by TLC); tolerance plus a weight-conditioning floor for the default tuning",
    engine="angles")
CLAIMED["C20"] = dict(
    text=("OrbitLattice.tla supplies exact end-point velocities and times of flight (rational coefficients of pi and acos e) for all "
          "90/270 degree lattice arcs; both real Lambert solvers must return them to 1e-8. Seeded arcs are closed through the "
          "repository's own Kepler solver with a sensitivity-bounded tolerance; the radar-observation inversion is checked against "
          "the real measurement model; LambertIOD runs through a real in-memory database against exact circular lattice orbits and "
          "seeded near-circular ones up to 40 % of a period apart."),
    ref="5 C20", technique="TLA+ exact-lattice spec OrbitLattice.tla + TLC as oracle; spec->impl replay; relations on seeded arcs",
    note=TRUST + "; Rationals.tla; math.pi/math.acos; non-lattice arcs, radar inversion and seeded IOD are relations between implementation functions",
    engine="orbit-lattice")

CLAIMED["C04"] = dict(
    text=("On an exact integer lattice (vectors in (-K..K)^3, quarter-turn angles, sites on the quarter-turn grid) the real cross-product "
          "matrix, elementary rotations and their derivatives, the SEZ/RAZEL conventions and the RSW/NTW triads equal what TLC computes "
          "from Lattice3.tla, which also checks their algebraic identities as invariants. Every closed walk of length <= 6 in the frame "
          "graph (FrameGraph.tla, 22 conversion edges with rigid/date/site attributes) is executed with the real conversion functions on "
          "points from the surface to 10 radii at dates across the bundled EOP span: it must return its start coordinates, keep "
          "constellation distances and norms on rigid edges and put ecef2lla on the WGS-84 ellipsoid. EarthClock.tla validates the "
          "day-of-year of every day 2014-2022 and recorded rotation advances across every midnight, minute, hour, month, leap-day and "
          "year boundary (elapsed UT1 within 2e-9 rad; jumps only at the inserted leap seconds)."),
    ref="5 C04", technique="TLA+ exact-lattice spec Lattice3.tla + FrameGraph.tla closed walks + EarthClock.tla; spec->impl replay and impl->spec record validation",
    note=TRUST + "; two-line ellipsoid and spherical definitions in the driver; independent parse of the EOP table (the per-day EOP lookup is taken as designed: the expected advance includes the table's own UT1 step); absolute sidereal orientation is not decided",
    engine="frames")

CLAIMED["C02"] = dict(
    text=("SensorChain.tla specifies the observation-attempt chain (slew, field of view, per-kind visibility, serendipitous loop) as "
          "a nondeterministic decision procedure over independently evaluated tri-state constraints (fails / holds / undecided inside "
          "a tolerance band); TLC checks ObservationAllowed, MissReasonTrue, ExactlyOneMissForPrimary, BackgroundOnlyObservations, "
          "BoresightUpdatedIffSlew, BackgroundNeedsSlew and the measurement bound over all constraint vectors x sensor kinds x host "
          "kinds x background targets. Every record of the real Sensor.collectObservations (about 5k quick / 64k thorough, real Radar / "
          "AdvRadar / Optical sensors on ground and space hosts from the repository's configurations plus placements on the edges +- "
          "delta of every constraint, the 0/360 seam, zenith and horizon) is validated by TLC against TraceSensorChain.tla; constraint "
          "values and noise-free measurements come from an independent first-principles geometry. 'Within the stated noise' is "
          "additionally decided by a seeded statistic: 300 repeated observations per selected sensor (diagonal and correlated "
          "configured covariance) whitened with the configured covariance must have mean 0 and covariance I within 5.5 standard errors."),
    ref="5 C02", technique="TLA+ spec SensorChain.tla + TLC exhaustive; trace validation of real collectObservations records against an independent geometry oracle",
    note=TRUST + "; the code's FK5 rotation at the authoritative datetime and its Sun ephemeris; stated tolerance bands (undecided accepted both ways); photometric formulas checked for wiring only",
    engine="sensor-chain")

CLAIMED["C17"] = dict(
    text=("Detectors.tla is an explicit state machine of the three maneuver detectors in exact rational / BigNat arithmetic; TLC checks "
          "the documented statistic over the whole history (DocStandard / DocSliding / DocFading), WindowIsLastW, the dof bookkeeping, "
          "DetectIffReaches and MonotoneInLatest. Every TLC-enumerated or -simulate'd history (dimension varying per step, windows to "
          "10, histories to length 50) is replayed into the real classes with inputs whose quadratic form is exactly the posed NIS "
          "(metric to 1e-9, detection per threshold), and recorded runs of the real detectors through "
          "SequentialFilter.checkManeuverDetection are validated by TLC against the same Step actions (TraceDetectors.tla)."),
    ref="5 C17", technique="TLA+ spec Detectors.tla + TLC exhaustive and -simulate; spec->impl replay and impl->spec trace validation",
    note=TRUST + "; scipy.stats.chi2.isf tabulates the bound per occurring dof (statistics within 1e-7 of it are undecided); numpy/scipy linear algebra builds the inputs",
    engine="detectors")

CLAIMED["C18"] = dict(
    text=("MMAE.tla is an explicit state machine of the SMM / GPB1 update life-cycle (update, zero-mass reset, renormalise, prune, "
          "converge, gate, close) with integer probability masses and exact rational moment matching; TLC checks SumToOne, NonNegative, "
          "AtLeastOneModel, BayesRule, ModeMixValid, MixtureMoments, HandBackIsSurvivor. Exhaustive behaviours for 2-5 models and "
          "-simulate samples up to 30 models are replayed into real StaticMultipleModel / GeneralizedPseudoBayesian1 objects over real "
          "UKF models fed prepared innovations and compared with the spec's exact values at 1e-9; update records of real objects over "
          "6-D filters on random observation sequences are validated by TLC (TraceMMAE.tla) after integer projection."),
    ref="5 C18", technique="TLA+ spec MMAE.tla + TLC exhaustive and -simulate; spec->impl replay and impl->spec trace validation",
    note=TRUST + "; the UKF update and measurement code feeding the innovations; the harness's likelihood recomputation and projection intervals; excluded: initialize(), the chi-square gate (environment input), exact threshold ties",
    engine="mmae")

CLAIMED["C05"] = dict(
    text=("TLC walks Calendar.tla, an explicit state machine of the proleptic Gregorian calendar (every day 1901-2099, second ticks "
          "across minute / hour / noon / day / month / leap-day / year ends; MonthLengths, LeapRule, closed-form day number, RoundTrip, "
          "Monotone) and Durations.tla, a state machine of Scenario.propagateTo (start second 0..59 x step 2..900 s x 1-3 requests; "
          "StepsHonoured, EpochsAreStartPlusKDt; the as-coded second-truncation variant is refuted). Every spec instant (2.3M quick / "
          "19M thorough) is replayed into the real Julian-date / calendar functions (JD to 1e-9 d, exact inverse, strict "
          "monotonicity, offsets to 1e-4 s); traces of real timed runs (API and CLI-style targets, every start second, 1-3 calls, "
          "clock, Julian date and epoch rows) are validated by TLC against TraceDurations.tla."),
    ref="5 C05", technique="TLA+ specs Calendar.tla / Durations.tla + TLC; spec->impl replay of calendar instants, impl->spec trace validation of timed runs",
    note=TRUST + "; Python datetime as the authoritative calendar for driving the implementation; leap seconds, sub-second instants and years outside 1901-2099 are out of scope",
    engine="calendar")
CLAIMED["C11"] = dict(
    text=("GroundSite.tla states that a ground agent's Earth-fixed coordinates never change, its velocity is the Earth-rotation velocity "
          "and its epoch is the clock (SiteEpochAgrees, StartInversionExact, SiteFixed, VelIsRotation; the as-coded start inversion is "
          "refuted). Traces of real scenarios with LLA-configured ground sensors (every start second 0..59, midnight crossings, steps "
          "2-900 s, runs up to a day, sites across latitudes and the 0 / 180 degree longitude seams) are projected to integer "
          "millimetres against the authoritative start + k*step datetime and validated by TLC against TraceGroundSite.tla "
          "(< 1 m, Earth-fixed velocity < 1e-6 km/s, agent epoch, ecef/lla fields and truth rows)."),
    ref="5 C11", technique="TLA+ spec GroundSite.tla + TLC; impl->spec trace validation of real ground agents",
    note=TRUST + "; the simulator's eci2ecef / lla2ecef as projection (themselves covered by C04); dates inside the 2014-2022 Earth-orientation table; poles excluded",
    engine="calendar")

CLAIMED["C03"] = dict(
    text=("Kinematics.tla models the propagation driver (propagate / propagateBulk, event preparation, restart after terminal events) "
          "on an exactly integrable law; TLC checks Semigroup, BulkConsistent, ExactAtBoundaries and StepwiseEqualsRun over all call "
          "splits, batches (K = 1..4) and output grids, and refutes them under the as-coded deviations. Every behaviour is replayed "
          "through the real Celestial.propagate/propagateBulk on the exact law with the spec's integers as oracle, and on real TwoBody / "
          "SpecialPerturbations x RK45 / DOP853 as relations: split vs unsplit, batch column vs single run, bulk output vs separate "
          "call, epoch-shift twins incl. calendar boundaries, agreement with the repository's and an independent closed-form Kepler "
          "solution, and TLC-validated conservation of energy and angular momentum (TraceKinematics.tla)."),
    ref="5 C03", technique="TLA+ spec Kinematics.tla + TLC; spec->impl replay (exact-law oracle) and relations between implementation runs on real dynamics",
    note=TRUST + "; scipy solve_ivp; reduced strength: real-dynamics numerics are relations between implementation runs within scaled integrator tolerances, no external truth for perturbed propagation",
    engine="kinematics")
CLAIMED["C15"] = dict(
    text=("Kinematics.tla, checked exhaustively by TLC over all burn alignments (inside one step, spanning several, starting/ending "
          "exactly on a boundary), step sizes and thrust kinds on a tick grid, specifies that a finite burn thrusts exactly on "
          "[t_start, t_end) and delivers a*(t_end - t_start) (ThrustExactlyInterval, DeliveredDv; the as-coded deviations are refuted). "
          "Every behaviour is replayed (a) through the real agent queue, prunePropagateEvents, Celestial.propagate and "
          "ScheduledFiniteBurn/Maneuver on an exactly integrable law with the spec's integers as oracle (1e-9), including back-to-back "
          "burns, a mid-burn impulse and burns starting at the scenario start, and (b) as real SpecialPerturbations scenarios with LEO, "
          "MEO and GEO targets (burns added through the public config) compared with an independent twin integration that thrusts only "
          "inside the spec's interval."),
    ref="5 C15", technique="TLA+ spec Kinematics.tla + TLC exhaustive; spec->impl replay (exact law) and twin integration of real scenarios",
    note=TRUST + "; scipy solve_ivp; the driver's own thrust and NTW model in the twin; tolerances 2e-6 km / 2e-8 km/s (dense-output restart residual); overlapping burns not decided",
    engine="kinematics")

NOT_APPLICABLE = {
    "C13": ("an explicit TLA+ specification cannot evaluate a degree-20 spherical-harmonic gradient or analytic ephemerides; "
            "the property IS equality with an independent numerical reference, which would be differential testing, a "
            "different technique (DESIGN.md 5 C13)"),
}

PENDING_REASON = "machinery not built yet (DESIGN.md section 10 build order); not claimed until its spec and binding are demonstrated"


def main() -> int:
    props = [json.loads(l) for l in (ROOT / "properties.jsonl").read_text().splitlines() if l.strip()]
    checks, na = [], []
    for p in props:
        pid = p["id"]
        if pid in CLAIMED:
            c = CLAIMED[pid]
            checks.append({
                "property_id": pid,
                "quick_cmd": f"./check {pid} --tier quick",
                "thorough_cmd": f"./check {pid} --tier thorough",
                "evidence_file": f"/verif/evidence/{pid}.json",
                "replay_cmd_template": f"./check {pid} --replay {{path}}",
                "engine": c.get("engine", "resonaate-tla"),
                "level_claimed": {"category": c.get("category", "model_checking"), "text": c["text"],
                                  "design_ref": f"DESIGN.md section {c['ref']}"},
                "level_note": c["note"],
                "technique": c["technique"],
            })
        else:
            na.append({"property_id": pid, "reason": NOT_APPLICABLE.get(pid, PENDING_REASON)})
    engines = {}
    for c in checks:
        engines.setdefault(c["engine"], []).append(c["property_id"])
    m = {
        "version": 1,
        "setup_cmd": "./check --setup",
        "hooks": {
            "guard": "RESONAATE_VERIF",
            "enable": ("no source hooks in /repo: ./check sets RESONAATE_VERIF=1 and the harness wraps public methods of "
                       "resonaate (imported from /repo/src, the current working tree) at run time; a deterministic stand-in "
                       "for the ray module is registered before import"),
            "baseline_off_cmd": "cd /repo && /venv/bin/python -m pytest -ra -q -p no:cacheprovider --timeout=900 --continue-on-collection-errors",
            "source_commits": [],
            "add_only": True,
        },
        "engines": [{"name": n, "path": "/verif/spec + /verif/harness", "serves_properties": ps,
                     "kind_free_text": "TLA+ specifications checked with TLC, bound to the implementation by trace validation and behaviour replay"}
                    for n, ps in sorted(engines.items())],
        "checks": checks,
        "notes": "Design, per-property decisions, soundness rules and findings: /verif/DESIGN.md. Known findings: /verif/known_findings.json.",
        "not_applicable": na,
    }
    (ROOT / "MANIFEST.json").write_text(json.dumps(m, indent=1) + "\n")
    try:
        import jsonschema
        jsonschema.validate(m, json.loads(Path("/root/.vp/MANIFEST.schema.json").read_text()))
        print(f"MANIFEST.json valid: {len(checks)} claimed, {len(na)} not applicable/pending")
    except ImportError:
        print("jsonschema not importable here; written without validation")
    return 0


if __name__ == "__main__":
    sys.exit(main())
