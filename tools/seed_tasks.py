#!/usr/bin/env python3
"""Prepare scratch worktrees + TASK.md for fresh seeding sub-agents.

usage: tools/seed_tasks.py <root dir, e.g. /tmp/seed3> C02 C03 ...

Each sub-agent gets ONLY the property text and its own worktree of /repo (nothing from /verif),
plus one line naming the mechanisms other people already used for that property (taken from
the summaries in /verif/seeded/<id>/*/meta.json) so that it does something different.
"""
import json
import subprocess
import sys
from pathlib import Path

VERIF = Path(__file__).resolve().parent.parent
DIRS = {"C01": "scenario tests/agents tests/dynamics tests/data", "C02": "sensors tests/tasking", "C03": "dynamics tests/physics/orbits",
        "C04": "physics", "C05": "physics tests/scenario", "C06": "estimation", "C07": "tasking",
        "C08": "tasking tests/scenario tests/agents", "C09": "scenario tests/data", "C10": "scenario tests/agents tests/dynamics",
        "C11": "dynamics tests/agents tests/physics", "C12": "physics/orbits tests/scenario", "C14": "sensors tests/physics",
        "C15": "dynamics tests/agents", "C16": "physics tests/estimation", "C17": "estimation", "C18": "estimation",
        "C19": "dynamics tests/tasking tests/scenario tests/data", "C20": "physics tests/estimation"}

TMPL = '''You are a careful software engineer helping to evaluate a verification effort by SEEDING a realistic defect. Work ONLY inside your own scratch git worktree of the repository vtnsi/resonaate (a Python space-surveillance simulator) at {wt} (source under {wt}/src/resonaate, tests under {wt}/tests). Do NOT read, list or use anything under /verif, /repo or other directories under {root}; do not use the network. Python: /venv/bin/python (the package is importable with PYTHONPATH={wt}/src). Run tests like: cd {wt} && PYTHONPATH={wt}/src /venv/bin/python -m pytest -q -p no:cacheprovider --timeout=900 tests/<subdir or file> . The machine is heavily loaded: run only the test directories relevant to the files you touch plus one broader run at the end (tests/{dirs}), never the whole suite more than once; always wrap long commands in `timeout`. NEVER use `git stash` (the stash stack is shared with other people's worktrees): to set a change aside use `git diff > some_file; git checkout -- .` and `git apply some_file` to bring it back.

The property under study ({pid}: {title}):
STATEMENT: {statement}
QUANTIFIED OVER: {quant}
{used}
Your task: produce TWO different, independent source changes (two separate patches, different mechanisms / different places in the code) each of which BREAKS this property while (a) the code still imports and runs, and (b) the repository's existing tests that you run still pass (no test edits). Each change must be the kind of slip a real developer could make in a refactoring or "optimisation" (an off-by-one, a wrong comparison at a boundary, a reused stale value, a dropped reset, a swapped index, a cache that is not invalidated, an ordering assumption ...), NOT an obviously malicious edit, and it must need something SPECIFIC to manifest - a particular interleaving / completion order, a fault at a particular point, a multi-step sequence of operations, an unusual or boundary input, or two cooperating sites that each look fine alone - rather than failing on ordinary use at once. Read the relevant code first and understand what makes the property hold.

For each change i in (1, 2) write into {wt}/seed_out/change{{i}}/ :
  - patch.diff  : `git diff` of ONLY that change against the worktree's HEAD (make the change, save the diff, then `git checkout -- .` before starting the next change);
  - demo.py     : a small self-contained program (run as: cd {wt} && PYTHONPATH={wt}/src /venv/bin/python seed_out/change{{i}}/demo.py) that exits 0 WITHOUT the patch and exits non-zero WITH the patch applied, printing what went wrong; it must exercise the public behaviour the property talks about (not poke at private details), and be deterministic;
  - meta.json   : {{"property": "{pid}", "summary": "...one sentence...", "files": [...], "needs_to_manifest": "...what specific input/schedule/sequence...", "tests_run": "...which test paths you ran with the patch and the pass/fail counts...", "why_tests_miss_it": "..."}}.
Verify both directions of each demo yourself (without patch: exit 0; with patch: non-zero) and that the tests you ran pass with the patch applied. Leave the worktree clean (no uncommitted source changes) at the end; keep only seed_out/. Final message: a short summary of the two changes, what each needs to manifest, and the verification you did. If, while reading the code, you notice that the UNCHANGED code already breaks the property for some specific input or sequence, do not fix it and do not build on it, but describe it precisely (input, what happens, where in the code) at the end of your final message under the heading 'Defects at HEAD' - only things you have actually reproduced with a small script.'''


def main():
    root = Path(sys.argv[1])
    root.mkdir(parents=True, exist_ok=True)
    props = {json.loads(l)["id"]: json.loads(l) for l in (VERIF / "properties.jsonl").read_text().splitlines() if l.strip()}
    for pid in sys.argv[2:]:
        wt = root / pid
        subprocess.run(["git", "-C", "/repo", "worktree", "add", "-q", "--detach", str(wt), "HEAD"], check=True)
        used = []
        for m in sorted((VERIF / "seeded" / pid).glob("*/meta.json")):
            try:
                used.append(json.loads(m.read_text()).get("summary", "")[:220])
            except Exception:  # noqa: BLE001
                pass
        used_txt = ""
        if used:
            used_txt = ("\nMechanisms ALREADY used by other people for this property - do something different from all of them:\n"
                        + "\n".join(f"  - {u}" for u in used) + "\n")
        p = props[pid]
        (wt / "TASK.md").write_text(TMPL.format(wt=wt, root=root, pid=pid, title=p["title"], statement=p["statement"],
                                                quant=p["quantifier"]["text"], dirs=DIRS[pid], used=used_txt))
        print("prepared", wt)


if __name__ == "__main__":
    main()
