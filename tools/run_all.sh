#!/bin/sh
# run every claimed check (quick tier by default) sequentially; summary at the end
cd "$(dirname "$0")/.." || exit 2
tier="${1:-quick}"
ids=$(python3 -c "import json;print(' '.join(c['property_id'] for c in json.load(open('MANIFEST.json'))['checks']))")
rc_all=0
for id in $ids; do
  out=$(./check "$id" --tier "$tier" 2>&1); rc=$?
  echo "$out" | grep -E "^(VIOLATION|KNOWN-FINDING|MACHINERY)" | cut -c1-160
  echo "$out" | tail -1 | cut -c1-200
  [ $rc -ne 0 ] && rc_all=1
done
exit $rc_all
