#!/usr/bin/env python3
"""Run the repository's baseline suite (guard off) and compare with /root/.vp/BASELINE.json stable_pass.

usage: tools/baseline.py [repo_dir] [-n workers]
"""
import json, os, subprocess, sys, tempfile, xml.etree.ElementTree as E
repo = sys.argv[1] if len(sys.argv) > 1 and not sys.argv[1].startswith("-") else "/repo"
n = sys.argv[sys.argv.index("-n") + 1] if "-n" in sys.argv else "8"
base = json.load(open("/root/.vp/BASELINE.json"))
stable = set(base["stable_pass"])
xml = tempfile.mktemp(suffix=".xml")
env = dict(os.environ); env.pop("RESONAATE_VERIF", None); env["PYTHONPATH"] = f"{repo}/src"
cmd = f"cd {repo} && /venv/bin/python -m pytest -ra -q -p no:cacheprovider --timeout=900 --continue-on-collection-errors -n {n} --junitxml={xml}"
subprocess.run(cmd, shell=True, env=env, stdout=subprocess.DEVNULL, stderr=subprocess.DEVNULL)
root = E.parse(xml).getroot()
passed, failed = set(), set()
for tc in root.iter("testcase"):
    name = f"{tc.attrib.get('classname','')}::{tc.attrib.get('name','')}"
    bad = any(ch.tag in ("failure", "error", "skipped") for ch in tc)
    (failed if bad else passed).add(name)
def norm(s): return s
missing = sorted(x for x in stable if x not in passed)
# classname formats may differ (tests.a.b.Class::test); try a tolerant match
if missing:
    pshort = {p.split("::")[-1] + "|" + p.split("::")[0].split(".")[-1] for p in passed}
    still = []
    for m in missing:
        key = m.split("::")[-1] + "|" + m.split("::")[0].split(".")[-1]
        if key not in pshort:
            still.append(m)
    missing = still
print(f"baseline: {len(passed)} passed, {len(failed)} failed/skipped; stable_pass={len(stable)}; stable tests not passing now: {len(missing)}")
for m in missing[:30]:
    print("  NOT PASSING:", m)
os.remove(xml)
sys.exit(1 if missing else 0)
