-------------------------- MODULE OrbitLatticeTrack --------------------------
(***************************************************************************)
(* Initial orbit determination over a TRACK of stored observations          *)
(* (property C20, last clause).  Mirrors                                    *)
(*   estimation/initial_orbit_determination.py:                             *)
(*     LambertIOD.getPreviousObservations  (the database query: this        *)
(*         target, detection time <= epoch <= current time, not optical,    *)
(*         ascending epoch)                                                 *)
(*     LambertIOD.determineNewEstimateState (no stored observation -> no    *)
(*         solution; otherwise Lambert between ONE stored observation and   *)
(*         the current one).                                                *)
(*                                                                         *)
(* A track is the time-ordered sequence of observations already stored when *)
(* the current radar observation arrives; each stored one is                *)
(*   "arc"      radar / advanced-radar observation of the target, at/after  *)
(*              the detection time (the driver alternates the two kinds and  *)
(*              stamps the sensor_type strings real sensors write)           *)
(*   "before"   radar observation of the target, before the detection time  *)
(*   "other"    radar observation of ANOTHER target                         *)
(*   "optical"  optical (angles-only) observation of the target             *)
(* Only "arc" observations are eligible (documented query).  Which eligible *)
(* observation the implementation pairs with the current one is its own     *)
(* choice - the property fixes the RESULT: the orbit's state at the current *)
(* observation - but the position and the time of flight handed to the      *)
(* solver must come from the SAME stored observation (SameArc).  With       *)
(* Pairing = "mixed" the model lets them differ (position of one, epoch of  *)
(* another): TLC refutes SameArc as soon as two eligible observations exist *)
(* - the specification-level image of a chord / transit-time mix-up.        *)
(*                                                                         *)
(* The driver (harness/drivers/c20.py) instantiates every emitted track on  *)
(* exact circular lattice orbits and seeded near-circular ones, stores REAL *)
(* Observation rows in a real in-memory database and calls the real         *)
(* determineNewEstimateState with both Lambert solvers.                     *)
(***************************************************************************)
EXTENDS Integers, Sequences, FiniteSets, TLC, Json

CONSTANTS MaxStored,     \* longest track explored
          MaxEligible,   \* most "arc" observations in a track
          Pairing        \* "same" | "mixed"

VARIABLES pc, track, ipos, itof
vars == <<pc, track, ipos, itof>>

Kinds == {"arc", "before", "other", "optical"}
ASSUME Pairing \in {"same", "mixed"} /\ MaxStored \in 1..6 /\ MaxEligible \in 1..MaxStored

Count(k) == Cardinality({i \in 1..Len(track) : track[i] = k})
Eligible == {i \in 1..Len(track) : track[i] = "arc"}

Init == pc = "build" /\ track = <<>> /\ ipos = 0 /\ itof = 0

\* a radar observation of the target that is older than the detection time cannot follow one that is newer
Store(k) == /\ pc = "build" /\ Len(track) < MaxStored
            /\ (k = "before" => Count("arc") = 0)
            /\ (k = "arc" => Count("arc") < MaxEligible)
            /\ track' = Append(track, k)
            /\ UNCHANGED <<pc, ipos, itof>>
\* the current radar observation arrives: the query is evaluated
Query == /\ pc = "build" /\ Len(track) >= 1
         /\ pc' = IF Eligible = {} THEN "nosolution" ELSE "queried"
         /\ UNCHANGED <<track, ipos, itof>>
\* the implementation picks the stored observation(s) it builds the Lambert problem from
Pair == /\ pc = "queried"
        /\ \E i \in Eligible, j \in Eligible :
              /\ (Pairing = "same" => i = j)
              /\ ipos' = i /\ itof' = j
        /\ pc' = "solved" /\ UNCHANGED track

Next == (\E k \in Kinds : Store(k)) \/ Query \/ Pair
Spec == Init /\ [][Next]_vars

\* ------------------------------------------------------------------ the property
\* chord and transit time belong to one arc
SameArc == pc = "solved" => ipos = itof
\* nothing that the documented query excludes is ever used
OnlyEligibleUsed == pc = "solved" => track[ipos] = "arc" /\ track[itof] = "arc"
\* what the caller must observe: the orbit's state at the current observation whenever an eligible
\* observation exists (whichever was used), no solution otherwise
Outcome == CASE pc = "solved" -> "state-at-current-observation"
             [] pc = "nosolution" -> "no-solution"
             [] OTHER -> "pending"
ResultFixed == (pc = "solved" => Outcome = "state-at-current-observation")
               /\ (pc = "nosolution" => Eligible = {})
BeforeIsPrefix == \A i, j \in 1..Len(track) : (track[i] = "arc" /\ track[j] = "before") => j < i

\* one record per track (emitted when the query is evaluated)
EmitTrack == (pc \in {"queried", "nosolution"}) =>
  PrintT("TRACK " \o ToJson([track |-> track, eligible |-> Eligible,
                             expected |-> IF Eligible = {} THEN "no-solution" ELSE "state-at-current-observation"]))
=============================================================================
