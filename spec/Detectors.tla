------------------------------ MODULE Detectors ------------------------------
(***************************************************************************)
(* Maneuver detectors of resonaate (property C17).                         *)
(*                                                                         *)
(* Mirrors src/resonaate/estimation/maneuver_detection.py:                 *)
(*    StandardNis.__call__, SlidingNis.__init__/__call__,                  *)
(*    FadingMemoryNis.__init__/__call__                                    *)
(* and the hypothesis test they hand their statistic to,                   *)
(*    src/resonaate/physics/statistics.py:oneSidedChiSquareTest            *)
(*    (detected = not (metric < chi2.isf(threshold, dof))),                *)
(* as they are invoked once per filter update by                           *)
(*    estimation/sequential_filter.py:checkManeuverDetection.              *)
(*                                                                         *)
(* A behaviour is: Construct a detector (kind, window w, fading factor     *)
(* delta = p/q, significance indices alphas), then a history of calls      *)
(* Step(n, d), where the input of one call is abstracted to                *)
(*    n : numerator of the normalised innovation squared, NIS = n/NisDen   *)
(*        (the value of chiSquareQuadraticForm(residual, innov_cvr)),      *)
(*    d : residual.shape[0], the measurement dimension of this step.       *)
(* The state is the detector's memory, attribute by attribute              *)
(*    nisList, dimList            SlidingNis.nis_list / dim_list (deques)  *)
(*    priorNum, qpow              FadingMemoryNis.prior_nis                *)
(*                                   = priorNum / (NisDen * q^total)       *)
(*    totalDim, total             FadingMemoryNis.total_dim / total        *)
(* and what the call reports: metric (exact rational, BigNat limbs), dof   *)
(* (exact rational), detect.  All arithmetic is exact; nothing is rounded. *)
(*                                                                         *)
(* The chi-square bound is transcendental: BoundTable[alpha] lists, for    *)
(* every dof that can occur, round(chi2.isf(threshold_alpha, dof) * 10^8)  *)
(* (tabulated by the harness with scipy; trusted base).  A dof missing     *)
(* from the table is an error (Assert), never a silent pass.  Metrics      *)
(* within Band/10^8 of the tabulated bound are Undecided: the table cannot *)
(* adjudicate them and both answers are admissible (DESIGN.md 7-2).        *)
(*                                                                         *)
(* Formulas that state C17:                                                *)
(*   DetectIffReaches    detect[a] = (metric >= Bound[a][dof])             *)
(*   DocStandard/DocSliding/DocFading                                      *)
(*                       metric and dof equal the documented statistic     *)
(*                       written declaratively over the whole history      *)
(*                       (current NIS; sum over the last w steps; faded    *)
(*                       sum times (1 + delta), dof = running average      *)
(*                       dimension times (1+delta)/(1-delta))              *)
(*   WindowIsLastW       the window holds exactly the last min(k, w) steps *)
(*   MonotoneInLatest    a larger latest NIS (same dimension) never turns  *)
(*                       a detection into a non-detection                  *)
(*   NisScaleInvariant   the NIS consumed per step is the full quadratic   *)
(*                       form nu' S^-1 nu, the same at every absolute      *)
(*                       scale of the measurement units (deviation         *)
(*                       OffDiagDropped is refuted)                        *)
(* The harness replays every emitted history into the real classes         *)
(* (spec -> impl) and validates recorded runs of the real classes with     *)
(* TraceDetectors.tla, which reuses the Step actions (impl -> spec).       *)
(***************************************************************************)
EXTENDS Integers, Sequences, FiniteSets, TLC, Json, IOUtils, Rationals, BigNat

CONSTANTS Kinds,      \* subset of {"standard", "sliding", "fading"}
          Windows,    \* window sizes tried for SlidingNis
          Deltas,     \* fading factors <<p, q>>, 0 < p < q
          NAlpha,     \* significance levels are indexed 1..NAlpha (values live in the harness)
          Bank,       \* TRUE: one behaviour stands for the NAlpha detectors that differ only in
                      \* their threshold (see "alphas" below); FALSE: one threshold per behaviour
          NisVals,    \* numerators n of the NIS values n/NisDen posed per step
          NisDen,
          Dims,       \* measurement dimensions posed per step
          MaxLen,     \* longest history
          FadeLen,    \* longest history of a fading-memory detector when Trim
          Trim,       \* TRUE: shorter histories where longer ones add nothing (see MaxLenOf)
          KeepHist    \* TRUE: the state also carries the history (needed to emit / Doc*)

VARIABLES pc, cfg, nisList, dimList, priorNum, qpow, totalDim, total, k,
          metric, dof, detect, hist
mem  == <<nisList, dimList, priorNum, qpow, totalDim, total>>
outs == <<metric, dof, detect>>
vars == <<pc, cfg, nisList, dimList, priorNum, qpow, totalDim, total, k, metric, dof, detect, hist>>

\* ---------------------------------------------------------------- chi-square bound
\* BoundTable[a] : sequence of <<dofNum, dofDen, B>> sorted by dof, where the BigNat B is
\* round(chi2.isf(threshold_a, dof) * BoundDen) and BoundDen = Base^2 = 10^8
Band       == 10              \* |metric - bound| <= Band/BoundDen (1e-7) is left undecided
BoundTable == JsonDeserialize(IOEnv.BOUND_FILE)
TimesBoundDen(x) == IF x = <<>> THEN <<>> ELSE <<0, 0>> \o x

RECURSIVE FindDof(_, _, _, _)
FindDof(T, x, lo, hi) ==
  IF lo > hi THEN 0
  ELSE LET mid == (lo + hi) \div 2
           l == T[mid][1] * x[2]
           r == x[1] * T[mid][2]
       IN IF l = r THEN mid
          ELSE IF l < r THEN FindDof(T, x, mid + 1, hi) ELSE FindDof(T, x, lo, mid - 1)
BoundBig(a, x) ==
  LET T  == BoundTable[a]
      ix == FindDof(T, x, 1, Len(T))
  IN IF ix = 0 THEN Assert(FALSE, <<"NOBOUND", a, x>>) ELSE T[ix][3]

\* not oneSidedChiSquareTest(metric, threshold, dof)  ==  metric >= bound.
\* Verdict = [det |-> metric >= B/BoundDen, und |-> |metric - B/BoundDen| <= Band/BoundDen]
\* (cross-multiplied: s = num * BoundDen, t = B * den, slack = Band * den)
Verdict(a, m, x) ==
  LET s     == TimesBoundDen(m.num)
      t     == BMul(m.den, BoundBig(a, x))
      slack == BMulSmall(m.den, Band)
      det   == BLe(t, s)
  IN [det |-> det,
      und |-> IF det THEN BLe(s, BAdd(t, slack)) ELSE BLe(t, BAdd(s, slack))]
Reaches(a, m, x)   == Verdict(a, m, x).det
Undecided(a, m, x) == Verdict(a, m, x).und

\* ---------------------------------------------------------------- helpers
RECURSIVE SumSeq(_)
SumSeq(s) == IF s = <<>> THEN 0 ELSE Head(s) + SumSeq(Tail(s))
MinOf(a, b) == IF a < b THEN a ELSE b
\* deque(maxlen = w).append(x)
Push(s, x, w) == IF Len(s) = w THEN Append(Tail(s), x) ELSE Append(s, x)

\* A detector of the code has one threshold.  The threshold enters nothing but the final
\* test, so detectors that differ only in it have identical memory, metric and dof; the
\* configuration therefore carries the SET of significance levels (alphas) at which the
\* statistic is tested and detect is a function over it.  A singleton is the code's
\* detector; a larger set is a bank of them fed the same history (one TLC behaviour
\* instead of NAlpha identical ones).
StdCfg(A)      == [kind |-> "standard", w |-> 0, delta |-> <<0, 1>>, alphas |-> A]
SlideCfg(A, w) == [kind |-> "sliding", w |-> w, delta |-> <<0, 1>>, alphas |-> A]
FadeCfg(A, d)  == [kind |-> "fading", w |-> 0, delta |-> d, alphas |-> A]
NoCfg          == [kind |-> "none", w |-> 0, delta |-> <<0, 1>>, alphas |-> {}]
AlphaSets      == IF Bank THEN {1..NAlpha} ELSE {{a} : a \in 1..NAlpha}

\* histories longer than this add nothing for the detector at hand: StandardNis has no
\* memory; a window of w has been filled and has evicted twice after w + 2 calls; the
\* fading-memory recursion is the same at every step (FadeLen bounds its cost)
MaxLenOf(c) == IF ~Trim THEN MaxLen
               ELSE CASE c.kind = "standard" -> MinOf(2, MaxLen)
                      [] c.kind = "sliding"  -> MinOf(c.w + 2, MaxLen)
                      [] OTHER               -> MinOf(FadeLen, MaxLen)

\* ---------------------------------------------------------------- one call, as a function
\* memory as a record (so that a call can also be evaluated hypothetically)
Mem == [nisList |-> nisList, dimList |-> dimList, priorNum |-> priorNum, qpow |-> qpow,
        totalDim |-> totalDim, total |-> total]
Mem0 == [nisList |-> <<>>, dimList |-> <<>>, priorNum |-> <<>>, qpow |-> <<1>>,
         totalDim |-> 0, total |-> 0]

\* StandardNis.__call__: dof = residual.shape[0]; metric = NIS
StandardCall(c, m, n, d) ==
  [mem |-> m, metric |-> BRat(n, NisDen), dof |-> Q(d)]

\* SlidingNis.__call__: append to both deques; dof = sum(dim_list); metric = sum(nis_list)
SlidingCall(c, m, n, d) ==
  LET nl == Push(m.nisList, n, c.w)
      dl == Push(m.dimList, d, c.w)
  IN [mem |-> [m EXCEPT !.nisList = nl, !.dimList = dl],
      metric |-> BRat(SumSeq(nl), NisDen), dof |-> Q(SumSeq(dl))]

\* FadingMemoryNis.__call__:
\*   total += 1; total_dim += dim; avg_dim = total_dim / total
\*   dof = avg_dim * (1 + delta) / (1 - delta)
\*   prior_nis = delta * prior_nis + NIS;  metric = prior_nis * (1 + delta)
\* with delta = p/q and prior_nis = priorNum / (NisDen * q^total):
\*   priorNum' = p * priorNum + n * q^total'
FadingCall(c, m, n, d) ==
  LET p  == c.delta[1]
      q  == c.delta[2]
      t  == m.total + 1
      td == m.totalDim + d
      qp == BMulSmall(m.qpow, q)
      pn == BAdd(BMulSmall(m.priorNum, p), BMulSmall(qp, n))
  IN [mem |-> [m EXCEPT !.priorNum = pn, !.qpow = qp, !.totalDim = td, !.total = t],
      metric |-> [num |-> BMulSmall(pn, p + q), den |-> BMulSmall(BMulSmall(qp, q), NisDen)],
      dof |-> QMul(Norm(td, t), Norm(q + p, q - p))]

Call(c, m, n, d) ==
  CASE c.kind = "standard" -> StandardCall(c, m, n, d)
    [] c.kind = "sliding"  -> SlidingCall(c, m, n, d)
    [] c.kind = "fading"   -> FadingCall(c, m, n, d)

B01(b) == IF b THEN 1 ELSE 0

\* ---------------------------------------------------------------- state machine
Init == /\ pc = "new" /\ cfg = NoCfg /\ k = 0
        /\ nisList = <<>> /\ dimList = <<>> /\ priorNum = <<>> /\ qpow = <<1>>
        /\ totalDim = 0 /\ total = 0
        /\ metric = BRat(0, 1) /\ dof = Q(0) /\ detect = <<>> /\ hist = <<>>

\* the three __init__ methods: empty deques of maxlen w / prior_nis = 0, total_dim = total = 0
ConstructAs(c) == /\ pc = "new"
                  /\ cfg' = c /\ pc' = "ready"
                  /\ UNCHANGED <<mem, outs, k, hist>>
ConstructStandard == "standard" \in Kinds /\ \E A \in AlphaSets : ConstructAs(StdCfg(A))
ConstructSliding  == "sliding" \in Kinds /\ \E A \in AlphaSets, w \in Windows : ConstructAs(SlideCfg(A, w))
ConstructFading   == "fading" \in Kinds /\ \E A \in AlphaSets, dl \in Deltas : ConstructAs(FadeCfg(A, dl))

Apply(r, n, d) ==
  LET v   == [a \in cfg.alphas |-> Verdict(a, r.metric, r.dof)]
      det == [a \in cfg.alphas |-> v[a].det]
  IN /\ nisList' = r.mem.nisList /\ dimList' = r.mem.dimList
     /\ priorNum' = r.mem.priorNum /\ qpow' = r.mem.qpow
     /\ totalDim' = r.mem.totalDim /\ total' = r.mem.total
     /\ metric' = r.metric /\ dof' = r.dof /\ detect' = det
     /\ k' = k + 1
     /\ hist' = IF KeepHist
                  THEN Append(hist, <<n, d, r.metric.num, r.metric.den, r.dof[1], r.dof[2],
                                      [a \in cfg.alphas |-> B01(v[a].det)],
                                      [a \in cfg.alphas |-> B01(v[a].und)]>>)
                  ELSE hist
     /\ UNCHANGED <<pc, cfg>>

Ready == pc = "ready" /\ k < MaxLenOf(cfg)
StandardStep(n, d) == Ready /\ cfg.kind = "standard" /\ Apply(StandardCall(cfg, Mem, n, d), n, d)
SlidingStep(n, d)  == Ready /\ cfg.kind = "sliding"  /\ Apply(SlidingCall(cfg, Mem, n, d), n, d)
FadingStep(n, d)   == Ready /\ cfg.kind = "fading"   /\ Apply(FadingCall(cfg, Mem, n, d), n, d)
Step(n, d) == StandardStep(n, d) \/ SlidingStep(n, d) \/ FadingStep(n, d)

Next == \/ ConstructStandard \/ ConstructSliding \/ ConstructFading
        \/ \E n \in NisVals, d \in Dims : Step(n, d)
Spec == Init /\ [][Next]_vars

\* for tlc -simulate: the same behaviours, but the input of each call is drawn by TLC's
\* seeded generator instead of enumerating every (n, d) just to pick one of them
\* (the sets mention k so that TLC does not evaluate the draw once as a constant)
Draw(S) == RandomElement(IF k >= 0 THEN S ELSE {})
SimNext == \/ ConstructStandard \/ ConstructSliding \/ ConstructFading
           \/ \E n \in {Draw(NisVals)}, d \in {Draw(Dims)} : Step(n, d)
SimSpec == Init /\ [][SimNext]_vars

\* ---------------------------------------------------------------- properties
Called == pc = "ready" /\ k > 0

TypeOK ==
  /\ pc \in {"new", "ready"} /\ k \in 0..MaxLen
  /\ Len(nisList) = Len(dimList)
  /\ BWellFormed(priorNum) /\ BWellFormed(qpow)
  /\ BWellFormed(metric.num) /\ BWellFormed(metric.den) /\ metric.den # <<>>
  /\ dof[2] > 0
  /\ detect \in [IF k = 0 THEN {} ELSE cfg.alphas -> BOOLEAN]
  /\ (KeepHist => Len(hist) = k)

\* C17, clause 1: a maneuver is declared exactly when the statistic reaches the bound
DetectIffReaches == Called => \A a \in cfg.alphas : detect[a] <=> Reaches(a, metric, dof)

\* the sliding window holds exactly the last min(k, w) steps
WindowIsLastW ==
  (pc = "ready" /\ cfg.kind = "sliding") =>
     /\ Len(nisList) = MinOf(k, cfg.w)
     /\ (KeepHist => \A j \in 1..Len(nisList) :
            LET h == hist[k - Len(nisList) + j] IN nisList[j] = h[1] /\ dimList[j] = h[2])
\* the other detectors never touch memory that is not theirs
MemoryUntouched ==
  /\ (pc = "ready" /\ cfg.kind # "sliding") => nisList = <<>> /\ dimList = <<>>
  /\ (pc = "ready" /\ cfg.kind # "fading") => priorNum = <<>> /\ qpow = <<1>> /\ total = 0 /\ totalDim = 0
  /\ (pc = "ready" /\ cfg.kind = "fading") => total = k

\* the documented statistic, written over the whole history (needs KeepHist)
RECURSIVE SumHist(_, _, _)      \* sum of field f of hist[lo..hi]
SumHist(f, lo, hi) == IF lo > hi THEN 0 ELSE hist[lo][f] + SumHist(f, lo + 1, hi)
DocStandard ==
  (Called /\ KeepHist /\ cfg.kind = "standard") =>
     /\ BRatEq(metric, BRat(hist[k][1], NisDen))
     /\ QEq(dof, Q(hist[k][2]))
DocSliding ==
  (Called /\ KeepHist /\ cfg.kind = "sliding") =>
     LET lo == IF k > cfg.w THEN k - cfg.w + 1 ELSE 1
     IN /\ BRatEq(metric, BRat(SumHist(1, lo, k), NisDen))
        /\ QEq(dof, Q(SumHist(2, lo, k)))
\* (1 + p/q) * sum_j (p/q)^(k-j) * n_j / NisDen
\*     = (p + q) * sum_j p^(k-j) q^j n_j  /  (NisDen * q^(k+1))
RECURSIVE FadedSum(_, _, _)
FadedSum(p, q, j) ==
  IF j = 0 THEN <<>>
  ELSE BAdd(BMulSmall(BMul(BPowSmall(p, k - j), BPowSmall(q, j)), hist[j][1]), FadedSum(p, q, j - 1))
DocFading ==
  (Called /\ KeepHist /\ cfg.kind = "fading") =>
     LET p == cfg.delta[1]
         q == cfg.delta[2]
     IN /\ BRatEq(metric, [num |-> BMulSmall(FadedSum(p, q, k), p + q),
                           den |-> BMulSmall(BPowSmall(q, k + 1), NisDen)])
        /\ QEq(dof, QDiv(QMul(Norm(SumHist(2, 1, k), k), Norm(q + p, q)), Norm(q - p, q)))

\* C17, last clause.  Scaling the latest innovation by c >= 1 multiplies its NIS by c^2 and
\* leaves the dimension alone: the dof is unchanged, the statistic does not decrease, and a
\* detection stays a detection.
\* (TLCEval: build the table once instead of re-evaluating a call at every use)
After(d) == TLCEval([n \in NisVals |-> LET r == Call(cfg, Mem, n, d)
                                         IN [metric |-> r.metric, dof |-> r.dof,
                                             det |-> [a \in cfg.alphas |-> Reaches(a, r.metric, r.dof)]]])
MonoPair(f, n1, n2) ==
  /\ f[n1].dof = f[n2].dof
  /\ BRatLe(f[n1].metric, f[n2].metric)
  /\ \A a \in cfg.alphas : f[n1].det[a] => f[n2].det[a]
MonotoneInLatest ==
  Ready => \A d \in Dims : LET f == After(d)
                           IN \A n1, n2 \in NisVals : n1 < n2 => MonoPair(f, n1, n2)
\* one pseudo-randomly drawn dimension and pair of neighbouring values per state: the
\* cheap form used with -simulate (neighbouring pairs imply all pairs by transitivity)
MonotoneInLatestSampled ==
  Ready => LET d  == Draw(Dims)
               n1 == Draw(NisVals)
               up == {x \in NisVals : x > n1}
           IN up # {} =>
                LET n2 == CHOOSE x \in up : \A y \in up : x <= y
                    r1 == Call(cfg, Mem, n1, d)
                    r2 == Call(cfg, Mem, n2, d)
                IN /\ r1.dof = r2.dof
                   /\ BRatLe(r1.metric, r2.metric)
                   /\ \A a \in cfg.alphas : Reaches(a, r1.metric, r1.dof) => Reaches(a, r2.metric, r2.dof)
\* neighbouring values, every dimension (merged-state configurations)
MonotoneInLatestAdj ==
  Ready => \A d \in Dims :
             LET f == After(d)
             IN \A n1 \in NisVals :
                  LET up == {x \in NisVals : x > n1}
                  IN up # {} => MonoPair(f, n1, CHOOSE x \in up : \A y \in up : x <= y)

\* ---------------------------------------------------------------- to the harness
\* a finished history with what every call must report:
\*   <<kind, w, p, q, <<n, d, metricNum, metricDen, dofNum, dofDen, detect, undecided>>...>>
\* with detect / undecided listed per significance level 1..NAlpha (needs Bank)
Emit == (KeepHist /\ Bank /\ pc = "ready" /\ k = MaxLenOf(cfg)) =>
          PrintT("HIST " \o ToJson(<<cfg.kind, cfg.w, cfg.delta[1], cfg.delta[2], hist>>))

\* ---------------------------------------------------------------- the NIS itself
\* chiSquareQuadraticForm(nu, S) = nu' S^-1 nu, written out exactly for two dimensions on
\* an integer lattice (S = <<s11, s12, s22>> positive definite):
\*     (nu1^2 s22 - 2 nu1 nu2 s12 + nu2^2 s11) / (s11 s22 - s12^2)
\* It depends on the correlation s12 and is invariant under a change of measurement units
\* (nu -> c nu, S -> c^2 S): the statistic the detectors consume is the same posed NIS at
\* every absolute scale.  "floor" > 0 is the named deviation OffDiagDropped: off-diagonal
\* entries below an ABSOLUTE floor are treated as zero ("the covariance is diagonal
\* anyway"); it is exact at one scale and wrong at another, i.e. not scale invariant.
AbsI(x) == IF x < 0 THEN -x ELSE x
QF2(nu, S, floor) ==
  LET s12 == IF AbsI(S[2]) < floor THEN 0 ELSE S[2]
  IN Norm(nu[1] * nu[1] * S[3] - 2 * nu[1] * nu[2] * s12 + nu[2] * nu[2] * S[1],
          S[1] * S[3] - s12 * s12)
QFNus    == (-2..2) \X (-2..2)
QFCovs   == {S \in (1..3) \X (-2..2) \X (1..3) : S[1] * S[3] - S[2] * S[2] > 0}
QFScales == {1, 3, 10}
ScaleNu(nu, c) == <<c * nu[1], c * nu[2]>>
ScaleS(S, c)   == <<c * c * S[1], c * c * S[2], c * c * S[3]>>
ScaleInvariant(floor) ==
  \A nu \in QFNus, S \in QFCovs, c \in QFScales :
     QF2(ScaleNu(nu, c), ScaleS(S, c), floor) = QF2(nu, S, 0)
NisScaleInvariant == ScaleInvariant(0)
OffDiagDropped    == ScaleInvariant(5)      \* the deviation; must be refuted
\* checked by TLC at the start of every run: the documented form is scale invariant and the
\* deviation is not (spec mutant killed)
ASSUME NisScaleInvariant /\ ~OffDiagDropped
\* the lattice with its exact values, for the harness to replay into the real
\* chiSquareQuadraticForm at several physical scales (printed once, in the initial state)
EmitQF2 == pc = "new" =>
  \A nu \in QFNus, S \in QFCovs, c \in QFScales :
     PrintT("QF2 " \o ToJson(<<ScaleNu(nu, c), ScaleS(S, c), QF2(nu, S, 0)>>))

\* ---- named constant values for cfg files (cfg syntax has no tuples) ----
DeltasQuick == {<<1, 2>>, <<4, 5>>}
DeltasWide  == {<<1, 2>>, <<4, 5>>, <<1, 10>>, <<9, 10>>, <<1, 3>>, <<2, 3>>}
=============================================================================
