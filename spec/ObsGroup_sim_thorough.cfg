SPECIFICATION Spec
CONSTANTS Tunings = {"default", "a1", "a1k3", "a05", "a01", "a1k0"} MaxGroup = 4 PermSet = "all"
CONSTANT KindSets <- KindSetsThorough
CONSTANT Placements <- PlacementsThorough
CONSTANT SubPatterns <- SubsThorough
CONSTANT TurnVals <- TurnsThorough
INVARIANT PosteriorIsBasePosterior
INVARIANT InnovationInRange
INVARIANT InnovationIsAngleResidual
INVARIANT StackIsPermutation
INVARIANT Emit
PROPERTY GroupKeepsPosterior
