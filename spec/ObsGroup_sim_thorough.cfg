SPECIFICATION Spec
CONSTANTS Tunings = {"default", "a1", "a1k3", "a05", "a01", "a1k0", "a1e4", "a1e5"} MaxGroup = 4 PermSet = "all"
CONSTANT KindSets <- KindSetsSim
CONSTANT Placements <- PlacementsThorough
CONSTANT SubPatterns <- SubsThorough
CONSTANT TurnVals <- TurnsThorough
CONSTANT RangePatterns <- RangeAll
CONSTANTS MaxHist = 2 ContinueFrom = "any"
INVARIANT PosteriorIsBasePosterior
INVARIANT InnovationInRange
INVARIANT InnovationIsAngleResidual
INVARIANT StackIsPermutation
INVARIANT Emit
PROPERTY GroupKeepsPosterior
PROPERTY PosteriorIgnoresHistory
