------------------------------- MODULE BigNat -------------------------------
(* Exact natural numbers of any size for TLC (whose integers are 32 bit).    *)
(* A number is a little-endian sequence of limbs in base 10000 without a     *)
(* leading (= last) zero limb; zero is <<>>.  Every intermediate product is  *)
(* below 2^31:  limb * m + carry < 10^4 * m  for a "small" factor            *)
(* m <= 200000.  Used by Detectors.tla for the fading-memory accumulator,    *)
(* whose denominator is q^k (k up to 50).  The harness rebuilds the value as *)
(* sum(limb[i] * 10000^(i-1)) with Python integers.                          *)
EXTENDS Integers, Sequences

Base     == 10000
SmallMax == 200000

RECURSIVE BFromNat(_)
BFromNat(n) == IF n = 0 THEN <<>> ELSE <<n % Base>> \o BFromNat(n \div Base)

BLimb(a, i) == IF i <= Len(a) THEN a[i] ELSE 0
BWellFormed(a) == /\ \A i \in 1..Len(a) : a[i] \in 0..(Base - 1)
                  /\ (Len(a) > 0 => a[Len(a)] # 0)

RECURSIVE BAddFrom(_, _, _, _)
BAddFrom(a, b, i, c) ==
  IF i > Len(a) /\ i > Len(b)
    THEN (IF c = 0 THEN <<>> ELSE <<c>>)
    ELSE LET s == BLimb(a, i) + BLimb(b, i) + c
         IN <<s % Base>> \o BAddFrom(a, b, i + 1, s \div Base)
BAdd(a, b) == BAddFrom(a, b, 1, 0)

\* a * m for 0 <= m <= SmallMax
RECURSIVE BMulSmallFrom(_, _, _, _)
BMulSmallFrom(a, m, i, c) ==
  IF i > Len(a)
    THEN BFromNat(c)
    ELSE LET s == a[i] * m + c
         IN <<s % Base>> \o BMulSmallFrom(a, m, i + 1, s \div Base)
BMulSmall(a, m) == IF m = 0 \/ a = <<>> THEN <<>> ELSE BMulSmallFrom(a, m, 1, 0)

BShift(a) == IF a = <<>> THEN <<>> ELSE <<0>> \o a      \* a * Base

\* schoolbook product  a * b = a * b[1] + Base * (a * b[2..])
RECURSIVE BMulFrom(_, _, _)
BMulFrom(a, b, i) ==
  IF i > Len(b) THEN <<>>
  ELSE BAdd(BMulSmall(a, b[i]), BShift(BMulFrom(a, b, i + 1)))
BMul(a, b) == BMulFrom(a, b, 1)

RECURSIVE BCmpFrom(_, _, _)
BCmpFrom(a, b, i) ==
  IF i = 0 THEN 0
  ELSE IF a[i] < b[i] THEN -1
  ELSE IF a[i] > b[i] THEN 1
  ELSE BCmpFrom(a, b, i - 1)
\* -1, 0, 1  (both arguments well formed)
BCmp(a, b) == IF Len(a) < Len(b) THEN -1
              ELSE IF Len(a) > Len(b) THEN 1
              ELSE BCmpFrom(a, b, Len(a))
BLe(a, b) == BCmp(a, b) <= 0
BLt(a, b) == BCmp(a, b) < 0

RECURSIVE BPowSmall(_, _)
BPowSmall(m, e) == IF e = 0 THEN <<1>> ELSE BMulSmall(BPowSmall(m, e - 1), m)

\* non-negative big rationals [num |-> big, den |-> big], den > 0, not normalised
BRat(n, d)     == [num |-> BFromNat(n), den |-> BFromNat(d)]
BRatLe(x, y)   == BLe(BMul(x.num, y.den), BMul(y.num, x.den))
BRatEq(x, y)   == BMul(x.num, y.den) = BMul(y.num, x.den)
=============================================================================
