------------------------------ MODULE Resonaate ------------------------------
(***************************************************************************)
(* System specification of the RESONAATE simulator's step loop.            *)
(*                                                                         *)
(* One action per critical section of the implementation (driver process): *)
(*                                                                         *)
(*   Scenario.stepForward           BeginStep .. output                    *)
(*   handleRelevantEvents /         Deliver(e): one handler call; the      *)
(*     getRelevantEvents + handler  phase-closing actions (EndStepEvents,  *)
(*                                  TicToc, EndBiasEvents, Decide) demand  *)
(*                                  that exactly the relevant events of    *)
(*                                  the phase were handled                 *)
(*   ScenarioClock.ticToc +         TicToc (also prunes the agents'        *)
(*     PropagateRegistration          event queues and enqueues the        *)
(*     .generateSubmission            propagation batch)                   *)
(*   JobExecutor.join               CompleteXxx(j): the ONLY place a job   *)
(*                                  result is merged; any pending job may  *)
(*                                  complete next (= ray.wait order)       *)
(*   PropagateRegistration          CompletePropagate(a)                   *)
(*   EstPredictRegistration         CompletePredict(t)                     *)
(*   TaskingRewardRegistration      CompleteReward(t, row)                 *)
(*   CentralizedTaskingEngine       EngineReset(e), RewardJoined, Decide   *)
(*   TaskExecutionRegistration      CompleteExec(t, slew, hit, ser)        *)
(*   Scenario: sensor.updateInfo    ApplyChanges, NextEngine               *)
(*   EstUpdateRegistration          CompleteUpdate(t)                      *)
(*   Scenario.saveDatabaseOutput    SaveOutput / SkipOutput / SaveFail     *)
(*                                                                         *)
(* Time is integer ticks (seconds); step j covers ((j-1)*Dt, j*Dt].        *)
(* Environment inputs (visibility, slew / observation success,             *)
(* serendipitous observations, a failing commit) are revealed by job       *)
(* results, so a recorded execution determines every nondeterministic      *)
(* choice.                                                                 *)
(*                                                                         *)
(* Deliberate deviations of the code from the design are NAMED constants   *)
(* (as-coded behaviour before the repairs), used to show that TLC finds    *)
(* the counterexample: ResetChangesPerJob (D6), MissListSquared (D5),      *)
(* KeepMissedAcrossSteps (D6b), PriorityToAllEngines (D1),                 *)
(* PruneKeepsEqual (D3).                                                   *)
(*                                                                         *)
(* Properties:                                                             *)
(*  C01  ExactlyOnceInstant, DurationActiveExactly, OnlyAddressee, DvOnce  *)
(*  C08  OneRecordPerTasking, NoRecordWithoutTasking,                      *)
(*       PointingReflectsTasking, LastStepMissesOnly, StepResultIsCanonical *)
(*  C09  DbComplete, DbNoDup, DbRefs, RowsExact, CommitAtomic              *)
(*  C10  TruthAtClock, NonInterference (only truth actions change truth)   *)
(***************************************************************************)
EXTENDS Integers, Sequences, FiniteSets, FiniteSetsExt, TLC

CONSTANTS
  Targets,            \* universe of target ids (including targets added by events)
  Sensors,            \* universe of sensor ids
  InitTargets,        \* targets present at the start
  InitSensors,
  Engines,            \* tasking engine ids
  EngTargets,         \* [Engines -> SUBSET InitTargets]  initial membership
  EngSensors,         \* [Engines -> SUBSET InitSensors]
  Policy,             \* [Engines -> {"munkres","greedy","random","allvisible"}]
  NSteps,             \* number of physics steps that may be taken
  SpanSteps,          \* steps of the CONFIGURED span (start..stop): the clock pre-populates these epoch rows;
                      \* a run may continue beyond it, saveDatabaseOutput then inserts the epoch row itself
  Dt,                 \* ticks (seconds) per physics step
  OutDt,              \* output interval in ticks: rows are written when clock time % OutDt = 0
  Events,             \* set of event records [id, kind, t0, t1, who, eng, tgt, planned]
  WithEstimation,     \* FALSE = truth_simulation_only
  WithSerendipity,    \* background (serendipitous) observations modelled
  WithFaults,         \* a database commit may fail
  ResetChangesPerJob, MissListSquared, KeepMissedAcrossSteps,   \* D6, D5, D6b as coded
  PriorityToAllEngines,                                         \* D1 as coded
  PruneKeepsEqual,                                              \* D3 as coded
  PartialCommit,      \* hypothetical: a failing commit leaves the truth rows of the step behind
  UpdateTouchesTruth, \* hypothetical: merging an estimate update writes the target's truth epoch
  TRank,              \* [Targets -> Nat], the order of the target ids (ties between simultaneous taskings of one sensor)
  LastMergeWins       \* D13 as coded: the sensor change of the job merged last wins, a failed slew included

None     == "none"
NoChange == <<0, "none">>       \* sensor not mentioned in sensor_changes
Keep     == <<0, "keep">>       \* mentioned, but slew failed: old boresight re-applied
Universe == Targets \cup Sensors
EventIds == {e.id : e \in Events}
Ev(id)   == CHOOSE e \in Events : e.id = id

StepKinds == {"addTarget", "addSensor", "removeTarget", "removeSensor"}
PropKinds == {"impulse", "burn", "maneuver"}
ScopeOf(e) == IF e.kind \in StepKinds THEN "step"
              ELSE IF e.kind \in PropKinds THEN "prop"
              ELSE IF e.kind = "bias" THEN "obs" ELSE "reward"
\* the documented delivery rule: start <= upper bound and end > lower bound of step j
Relevant(e, j) == e.t0 <= j * Dt /\ e.t1 > (j - 1) * Dt
\* instantaneous events carry t1 = t0; the query uses end > lb, i.e. t0 in ((j-1)Dt, jDt]
Instant(e) == e.kind \in StepKinds \cup {"impulse"}

VARIABLES
  k,          \* step index = clock time / Dt
  pc,         \* program point inside Scenario.stepForward
  eng,        \* engine being assessed or None
  todo,       \* engines still to assess in this step
  targets, sensors,   \* agents currently in the scenario
  engT, engS,         \* [Engines -> current member sets]
  truthAt,    \* [Universe -> epoch index of the truth state held by the agent]
  estAt,      \* [Targets -> <<epoch index, "pred" | "upd">>]
  estObs,     \* [Targets -> set of observations handed to the update of this step]
  pend,       \* outstanding jobs of the current batch (job id = agent / target id)
  visM,       \* [Targets -> set of sensors]: visibility rows merged so far (zero row until merged)
  decision,   \* set of <<t, s>> tasked by the current engine
  slewOK, hit,\* environment, revealed by exec results: sets of <<t, s>>
  obsStep,    \* engine._observations: set of <<tObserved, s, tPrimary>> (all engines, this step)
  missStep,   \* misses recorded this step by the current engine: bag <<t, s>> -> count
  missHeld,   \* engine.missed_observations (public list): bag <<step, t, s>> -> count
  changes,    \* engine.sensor_changes: [Sensors -> NoChange | Keep | <<k, t>>]
  pointing,   \* [Sensors -> <<step last tasked, target pointed at>>]
  savedObs,   \* engine._saved_observations awaiting output: set of <<step, tObs, s, tPrim>>
  savedMiss,  \* engine._saved_missed_observations awaiting output: bag <<step, t, s>> -> count
  db,         \* output database: record of bags / sets (see DbInit)
  alive,      \* history: alive[j+1] = agents in the scenario when step j ended (j = 0..k)
  delivered,  \* history: [EventIds -> sequence of <<step, handler>>] handler runs
  handled,    \* event ids handled in the current phase of the current step
  queue,      \* [Universe -> set of event ids] truth propagation event queues
  estQueue,   \* [Targets -> set of event ids] estimate propagation event queues (planned events)
  applied,    \* [EventIds -> number of times the impulse changed the truth velocity]
  appliedEst, \* [EventIds -> number of times it changed the estimate]
  biasQ       \* [Sensors -> set of event ids] time-bias queues

truthVars == <<targets, sensors, truthAt, queue, applied>>
vars == <<k, pc, eng, todo, targets, sensors, engT, engS, truthAt, estAt, estObs, pend, visM, decision, slewOK, hit,
          obsStep, missStep, missHeld, changes, pointing, savedObs, savedMiss, db, alive,
          delivered, handled, queue, estQueue, applied, appliedEst, biasQ>>

-----------------------------------------------------------------------------
(* bags as functions with finite domain *)
EmptyBag == [x \in {} |-> 0]
BagAdd(b, x, n) == IF n = 0 THEN b
                   ELSE IF x \in DOMAIN b THEN [b EXCEPT ![x] = @ + n] ELSE b @@ (x :> n)
Cnt(b, x) == IF x \in DOMAIN b THEN b[x] ELSE 0
BagUnion(b, c) == [x \in DOMAIN b \cup DOMAIN c |-> Cnt(b, x) + Cnt(c, x)]
BagOfSet(S) == [x \in S |-> 1]

Agents == targets \cup sensors
AllPairs == UNION {engT[e] \X engS[e] : e \in Engines}
TaskedOf(d, t)        == {s \in Sensors : <<t, s>> \in d}
TargetsOfSensor(d, s) == {t \in Targets : <<t, s>> \in d}
OnePerSensor(d) == \A s \in Sensors : Cardinality(TargetsOfSensor(d, s)) <= 1
OnePerTarget(d) == \A t \in Targets : Cardinality(TaskedOf(d, t)) <= 1

\* abstract feasible set of each policy (C07 decides optimality; here only the shape matters)
Feasible(e, v) ==
  CASE Policy[e] = "munkres"    -> {d \in SUBSET v : OnePerSensor(d) /\ OnePerTarget(d)}
    [] Policy[e] = "greedy"     -> {d \in SUBSET v : OnePerSensor(d)}
    [] Policy[e] = "random"     -> {d \in SUBSET v : /\ OnePerSensor(d)
                                      /\ \A s \in engS[e] :
                                           (\E t \in engT[e] : <<t, s>> \in v) => TargetsOfSensor(d, s) # {}}
    [] Policy[e] = "allvisible" -> {v}

InitPairs == UNION {EngTargets[e] \X EngSensors[e] : e \in Engines}
\* the clock pre-populates the epoch table for the whole configured span (0..SpanSteps)
DbInit == [epochs |-> 0..SpanSteps,
           truth  |-> BagOfSet({<<0, a>> : a \in InitTargets \cup InitSensors}),
           est    |-> IF WithEstimation THEN BagOfSet({<<0, t>> : t \in InitTargets}) ELSE EmptyBag,
           obs    |-> EmptyBag,      \* <<step, tObs, s>> -> count
           miss   |-> EmptyBag,      \* <<step, t, s>> -> count
           tasks  |-> IF WithEstimation THEN BagOfSet({<<0, p[1], p[2]>> : p \in InitPairs}) ELSE EmptyBag]

Init ==
  /\ k = 0 /\ pc = "idle" /\ eng = None /\ todo = {}
  /\ targets = InitTargets /\ sensors = InitSensors
  /\ engT = EngTargets /\ engS = EngSensors
  /\ truthAt = [a \in Universe |-> 0]
  /\ estAt = [t \in Targets |-> <<0, "upd">>]
  /\ estObs = [t \in Targets |-> {}]
  /\ pend = {}
  /\ visM = [t \in Targets |-> {}]
  /\ decision = {} /\ slewOK = {} /\ hit = {}
  /\ obsStep = {} /\ missStep = EmptyBag /\ missHeld = EmptyBag
  /\ changes = [s \in Sensors |-> NoChange]
  /\ pointing = [s \in Sensors |-> <<0, None>>]
  /\ savedObs = {} /\ savedMiss = EmptyBag
  /\ db = DbInit
  /\ alive = <<InitTargets \cup InitSensors>>
  /\ delivered = [e \in EventIds |-> <<>>]
  /\ handled = {}
  /\ queue = [a \in Universe |-> {}] /\ estQueue = [t \in Targets |-> {}]
  /\ applied = [e \in EventIds |-> 0] /\ appliedEst = [e \in EventIds |-> 0]
  /\ biasQ = [s \in Sensors |-> {}]

-----------------------------------------------------------------------------
(* Scenario.stepForward, part 1: events of the step that is about to be taken (index k+1) *)
BeginStep ==
  /\ pc = "idle" /\ k < NSteps
  /\ pc' = "stepev" /\ handled' = {}
  /\ obsStep' = {}
  /\ UNCHANGED <<k, eng, todo, targets, sensors, engT, engS, truthAt, estAt, estObs, pend, visM, decision, slewOK, hit,
                 missStep, missHeld, changes, pointing, savedObs, savedMiss, db, alive,
                 delivered, queue, estQueue, applied, appliedEst, biasQ>>

\* the step an event handled in the current phase belongs to
PhaseStep == IF pc \in {"stepev", "propev"} THEN k + 1 ELSE k
PhaseScope == CASE pc = "stepev" -> "step" [] pc = "propev" -> "prop" [] pc = "biasev" -> "obs"
                [] pc = "prioev" -> "reward" [] OTHER -> "nophase"
\* events the current phase must handle (as designed: priority events only by the engine they name)
MustHandle ==
  {e \in Events : /\ ScopeOf(e) = PhaseScope /\ Relevant(e, PhaseStep)
                  /\ (PhaseScope = "reward" => (PriorityToAllEngines \/ e.who = eng))}
AllHandled == MustHandle \subseteq {Ev(i) : i \in handled}

\* one handler call (Event.handleEvent)
Deliver(id) ==
  LET e == Ev(id) IN
  /\ e \in MustHandle /\ id \notin handled
  /\ handled' = handled \cup {id}
  /\ delivered' = [delivered EXCEPT ![id] = Append(@, <<PhaseStep, IF PhaseScope = "reward" THEN eng ELSE e.who>>)]
  /\ CASE e.kind = "addTarget" ->
            /\ e.who \notin targets
            /\ targets' = targets \cup {e.who}
            /\ engT' = [engT EXCEPT ![e.eng] = @ \cup {e.who}]
            /\ truthAt' = [truthAt EXCEPT ![e.who] = k]
            /\ estAt' = [estAt EXCEPT ![e.who] = <<k, "upd">>]
            /\ UNCHANGED <<sensors, engS, queue, estQueue, biasQ, pointing>>
       [] e.kind = "addSensor" ->
            /\ e.who \notin sensors
            /\ sensors' = sensors \cup {e.who}
            /\ engS' = [engS EXCEPT ![e.eng] = @ \cup {e.who}]
            /\ truthAt' = [truthAt EXCEPT ![e.who] = k]
            /\ pointing' = [pointing EXCEPT ![e.who] = <<k, None>>]   \* last-tasked time = creation time
            /\ UNCHANGED <<targets, engT, estAt, queue, estQueue, biasQ>>
       [] e.kind = "removeTarget" ->
            /\ e.who \in targets
            /\ targets' = targets \ {e.who}
            /\ engT' = [engT EXCEPT ![e.eng] = @ \ {e.who}]
            /\ UNCHANGED <<sensors, engS, truthAt, estAt, queue, estQueue, biasQ, pointing>>
       [] e.kind = "removeSensor" ->
            /\ e.who \in sensors
            /\ sensors' = sensors \ {e.who}
            /\ engS' = [engS EXCEPT ![e.eng] = @ \ {e.who}]
            /\ UNCHANGED <<targets, engT, truthAt, estAt, queue, estQueue, biasQ, pointing>>
       [] e.kind \in PropKinds ->
            /\ e.who \in targets
            /\ queue' = [queue EXCEPT ![e.who] = @ \cup {id}]
            /\ estQueue' = IF e.planned THEN [estQueue EXCEPT ![e.who] = @ \cup {id}] ELSE estQueue
            /\ UNCHANGED <<targets, sensors, engT, engS, truthAt, estAt, biasQ, pointing>>
       [] e.kind = "bias" ->
            /\ e.who \in sensors
            /\ biasQ' = [biasQ EXCEPT ![e.who] = @ \cup {id}]
            /\ UNCHANGED <<targets, sensors, engT, engS, truthAt, estAt, queue, estQueue, pointing>>
       [] e.kind = "priority" ->
            /\ (PriorityToAllEngines => e.tgt \in engT[eng])   \* as coded (D1): the handler indexed the target list and raised
            /\ UNCHANGED <<targets, sensors, engT, engS, truthAt, estAt, queue, estQueue, biasQ, pointing>>
  /\ UNCHANGED <<k, pc, eng, todo, estObs, pend, visM, decision, slewOK, hit, obsStep, missStep, missHeld, changes,
                 savedObs, savedMiss, db, alive, applied, appliedEst>>

\* Scenario.stepForward: a maneuver event whose agent is not (or no longer, or not yet) a target of the scenario,
\* and a time-bias event whose sensor is not in it, are skipped with a warning - neither handed over nor do they
\* stop the step (D43, D50); a priority event is still handed to its engine, whose handler ignores a target the
\* engine does not track (any more)
Absent == "absent"
SkipAbsent(id) ==
  LET e == Ev(id) IN
  /\ e \in MustHandle /\ id \notin handled
  /\ \/ e.kind \in PropKinds /\ e.who \notin targets
     \/ e.kind = "bias" /\ e.who \notin sensors          \* a time bias of a sensor that has left the scenario
  /\ handled' = handled \cup {id}
  /\ delivered' = [delivered EXCEPT ![id] = Append(@, <<PhaseStep, Absent>>)]
  /\ UNCHANGED <<k, pc, eng, todo, targets, sensors, engT, engS, truthAt, estAt, estObs, pend, visM, decision, slewOK, hit,
                 obsStep, missStep, missHeld, changes, pointing, savedObs, savedMiss, db, alive,
                 queue, estQueue, applied, appliedEst, biasQ>>

EndStepEvents ==
  /\ pc = "stepev" /\ AllHandled
  /\ pc' = "propev" /\ handled' = {}
  /\ UNCHANGED <<k, eng, todo, targets, sensors, engT, engS, truthAt, estAt, estObs, pend, visM, decision, slewOK, hit,
                 obsStep, missStep, missHeld, changes, pointing, savedObs, savedMiss, db, alive,
                 delivered, queue, estQueue, applied, appliedEst, biasQ>>

\* an event stays queued while its (end) time is still ahead of the agent's time
StillAhead(id, now) == LET e == Ev(id) IN
                          IF PruneKeepsEqual /\ Instant(e) THEN e.t1 >= now ELSE e.t1 > now

\* clock.ticToc(); every PropagateRegistration.generateSubmission prunes the agent's queue
TicToc ==
  /\ pc = "propev" /\ AllHandled
  /\ k' = k + 1
  /\ queue' = [a \in Universe |-> {id \in queue[a] : StillAhead(id, k * Dt)}]
  /\ pend' = Agents
  /\ pc' = "propagate" /\ handled' = {}
  /\ UNCHANGED <<eng, todo, targets, sensors, engT, engS, truthAt, estAt, estObs, visM, decision, slewOK, hit,
                 obsStep, missStep, missHeld, changes, pointing, savedObs, savedMiss, db, alive,
                 delivered, estQueue, applied, appliedEst, biasQ>>

\* impulses of a queue that fall inside step j: solve_ivp's rule (g <= 0 at start, g >= 0 at end)
FiresIn(q, j) == {id \in q : Ev(id).kind = "impulse" /\ (j - 1) * Dt <= Ev(id).t0 /\ Ev(id).t0 <= j * Dt}

CompletePropagate(a) ==
  /\ pc = "propagate" /\ a \in pend
  /\ truthAt' = [truthAt EXCEPT ![a] = @ + 1]    \* time := final_time, eci := final_eci
  /\ applied' = [id \in EventIds |-> IF id \in FiresIn(queue[a], k) THEN applied[id] + 1 ELSE applied[id]]
  /\ pend' = pend \ {a}
  /\ UNCHANGED <<k, pc, eng, todo, targets, sensors, engT, engS, estAt, estObs, visM, decision, slewOK, hit, obsStep,
                 missStep, missHeld, changes, pointing, savedObs, savedMiss, db, alive,
                 delivered, handled, queue, estQueue, appliedEst, biasQ>>

JoinPropagate ==
  /\ pc = "propagate" /\ pend = {}
  /\ IF WithEstimation
       THEN /\ pend' = targets /\ pc' = "predict"
            /\ estQueue' = [t \in Targets |-> {id \in estQueue[t] : StillAhead(id, (k - 1) * Dt)}]
       ELSE pend' = {} /\ pc' = "output" /\ UNCHANGED estQueue
  /\ UNCHANGED <<k, eng, todo, targets, sensors, engT, engS, truthAt, estAt, estObs, visM, decision, slewOK, hit, obsStep,
                 missStep, missHeld, changes, pointing, savedObs, savedMiss, db, alive,
                 delivered, handled, queue, applied, appliedEst, biasQ>>

CompletePredict(t) ==
  /\ pc = "predict" /\ t \in pend
  /\ estAt' = [estAt EXCEPT ![t] = <<@[1] + 1, "pred">>]
  /\ appliedEst' = [id \in EventIds |-> IF id \in FiresIn(estQueue[t], k) THEN appliedEst[id] + 1 ELSE appliedEst[id]]
  /\ pend' = pend \ {t}
  /\ UNCHANGED <<k, pc, eng, todo, targets, sensors, engT, engS, truthAt, estObs, visM, decision, slewOK, hit, obsStep,
                 missStep, missHeld, changes, pointing, savedObs, savedMiss, db, alive,
                 delivered, handled, queue, estQueue, applied, biasQ>>

\* predictor.join(); then the sensor time-bias events of this step are handled
JoinPredict ==
  /\ pc = "predict" /\ pend = {}
  /\ pc' = "biasev" /\ handled' = {}
  /\ UNCHANGED <<k, eng, todo, targets, sensors, engT, engS, truthAt, estAt, estObs, pend, visM, decision, slewOK, hit,
                 obsStep, missStep, missHeld, changes, pointing, savedObs, savedMiss, db, alive,
                 delivered, queue, estQueue, applied, appliedEst, biasQ>>

\* sensor.pruneTimeBiasEvents() (closed interval at the observation instant); ray.put; engine loop
EndBiasEvents ==
  /\ pc = "biasev" /\ AllHandled
  /\ biasQ' = [s \in Sensors |-> {id \in biasQ[s] : Ev(id).t0 <= k * Dt /\ k * Dt <= Ev(id).t1}]
  /\ todo' = Engines /\ eng' = None
  /\ pc' = "engines" /\ handled' = {}
  /\ UNCHANGED <<k, targets, sensors, engT, engS, truthAt, estAt, estObs, pend, visM, decision, slewOK, hit,
                 obsStep, missStep, missHeld, changes, pointing, savedObs, savedMiss, db, alive,
                 delivered, queue, estQueue, applied, appliedEst>>

-----------------------------------------------------------------------------
(* CentralizedTaskingEngine.assess *)
EngineReset(e) ==
  /\ pc = "engines" /\ e \in todo
  /\ eng' = e /\ todo' = todo \ {e}
  /\ visM' = [t \in Targets |-> {}]
  /\ decision' = {} /\ slewOK' = {} /\ hit' = {}
  /\ missStep' = EmptyBag
  /\ missHeld' = IF KeepMissedAcrossSteps THEN missHeld ELSE EmptyBag
  /\ changes' = [s \in Sensors |-> NoChange]
  /\ pend' = engT[e]                              \* one TaskingRewardRegistration per target
  /\ pc' = "reward"
  /\ UNCHANGED <<k, targets, sensors, engT, engS, truthAt, estAt, estObs, obsStep, pointing, savedObs, savedMiss, db, alive,
                 delivered, handled, queue, estQueue, applied, appliedEst, biasQ>>

CompleteReward(t, row) ==
  /\ pc = "reward" /\ t \in pend
  /\ row \subseteq engS[eng]
  /\ visM' = [visM EXCEPT ![t] = row]
  /\ pend' = pend \ {t}
  /\ UNCHANGED <<k, pc, eng, todo, targets, sensors, engT, engS, truthAt, estAt, estObs, decision, slewOK, hit, obsStep,
                 missStep, missHeld, changes, pointing, savedObs, savedMiss, db, alive,
                 delivered, handled, queue, estQueue, applied, appliedEst, biasQ>>

\* reward_executor.join(); the engine's task-priority events are handled next
RewardJoined ==
  /\ pc = "reward" /\ pend = {}
  /\ pc' = "prioev" /\ handled' = {}
  /\ UNCHANGED <<k, eng, todo, targets, sensors, engT, engS, truthAt, estAt, estObs, pend, visM, decision, slewOK, hit,
                 obsStep, missStep, missHeld, changes, pointing, savedObs, savedMiss, db, alive,
                 delivered, queue, estQueue, applied, appliedEst, biasQ>>

Vis == {<<t, s>> \in engT[eng] \X engS[eng] : s \in visM[t]}

\* calculateRewards, generateTasking, enqueue the task-execution jobs
Decide ==
  /\ pc = "prioev" /\ AllHandled
  /\ decision' \in Feasible(eng, Vis)
  /\ pend' = {t \in engT[eng] : TaskedOf(decision', t) # {}}
  /\ pc' = "exec" /\ handled' = {}
  /\ UNCHANGED <<k, eng, todo, targets, sensors, engT, engS, truthAt, estAt, estObs, visM, slewOK, hit, obsStep, missStep,
                 missHeld, changes, pointing, savedObs, savedMiss, db, alive,
                 delivered, queue, estQueue, applied, appliedEst, biasQ>>

\* TaskExecutionRegistration.processResults for the job of target t:
\*   slewT: tasked sensors that could slew; hitT: those that observed the primary;
\*   ser: serendipitous observations <<t2, s>> of background targets
\* TaskingEngine.updateFromAsyncTaskExecution: a sensor can be tasked to several targets in one step (all-visible
\* policy) and the jobs are merged in any order: the most recent tasking wins (a failed slew re-applies the old
\* pointing and never replaces a recorded change), ties between successful slews go to the highest target id.
MergeChange(old, new) ==
  IF LastMergeWins THEN new
  ELSE IF new = Keep THEN (IF old = NoChange THEN Keep ELSE old)
  ELSE IF old \in {NoChange, Keep} THEN new
  ELSE IF TRank[new[2]] >= TRank[old[2]] THEN new ELSE old

CompleteExec(t, slewT, hitT, ser) ==
  /\ pc = "exec" /\ t \in pend
  /\ slewT \subseteq TaskedOf(decision, t) /\ hitT \subseteq slewT
  /\ ser \subseteq (targets \ {t}) \X slewT      \* serendipitous observations only about a pointing that was reached
  /\ (~WithSerendipity => ser = {})
  /\ slewOK' = slewOK \cup {<<t, s>> : s \in slewT}
  /\ hit' = hit \cup {<<t, s>> : s \in hitT}
  /\ LET ss     == TaskedOf(decision, t)
         misses == ss \ hitT
         n      == Cardinality(misses)
         mult   == IF MissListSquared THEN n ELSE 1
         base   == IF ResetChangesPerJob THEN [s \in Sensors |-> NoChange] ELSE changes
         newObs == {<<t, s, t>> : s \in hitT} \cup {<<p[1], p[2], t>> : p \in ser}
     IN /\ obsStep' = obsStep \cup newObs
        /\ savedObs' = savedObs \cup {<<k, o[1], o[2], o[3]>> : o \in newObs}
        /\ missStep' = FoldSet(LAMBDA s, b : BagAdd(b, <<t, s>>, mult), missStep, misses)
        /\ missHeld' = FoldSet(LAMBDA s, b : BagAdd(b, <<k, t, s>>, mult), missHeld, misses)
        /\ savedMiss' = FoldSet(LAMBDA s, b : BagAdd(b, <<k, t, s>>, mult), savedMiss, misses)
        /\ changes' = [s \in Sensors |-> IF s \in ss
                                           THEN MergeChange(base[s], IF s \in slewT THEN <<k, t>> ELSE Keep)
                                           ELSE base[s]]
  /\ pend' = pend \ {t}
  /\ UNCHANGED <<k, pc, eng, todo, targets, sensors, engT, engS, truthAt, estAt, estObs, visM, decision, pointing, db, alive,
                 delivered, handled, queue, estQueue, applied, appliedEst, biasQ>>

\* Scenario: for sensor_change in engine.sensor_changes: sensor.updateInfo(...); resetHandles
ApplyChanges ==
  /\ pc = "exec" /\ pend = {}
  /\ pointing' = [s \in Sensors |-> IF changes[s] \notin {NoChange, Keep} THEN changes[s] ELSE pointing[s]]
  /\ pc' = "applied"
  /\ UNCHANGED <<k, eng, todo, targets, sensors, engT, engS, truthAt, estAt, estObs, pend, visM, decision, slewOK, hit,
                 obsStep, missStep, missHeld, changes, savedObs, savedMiss, db, alive,
                 delivered, handled, queue, estQueue, applied, appliedEst, biasQ>>

\* next engine, or leave the engine loop and enqueue the estimate updates
NextEngine ==
  /\ pc = "applied"
  /\ IF todo # {}
       THEN pc' = "engines" /\ UNCHANGED <<pend, estObs>>
       ELSE /\ pc' = "update"
            /\ pend' = targets
            /\ estObs' = [t \in Targets |-> {o \in obsStep : o[1] = t}]
  /\ UNCHANGED <<k, eng, todo, targets, sensors, engT, engS, truthAt, estAt, visM, decision, slewOK, hit, obsStep,
                 missStep, missHeld, changes, pointing, savedObs, savedMiss, db, alive,
                 delivered, handled, queue, estQueue, applied, appliedEst, biasQ>>

\* a scenario without engines goes straight from the bias events to the updates
NoEngines ==
  /\ pc = "engines" /\ todo = {} /\ eng = None
  /\ pc' = "update" /\ pend' = targets
  /\ estObs' = [t \in Targets |-> {}]
  /\ UNCHANGED <<k, eng, todo, targets, sensors, engT, engS, truthAt, estAt, visM, decision, slewOK, hit, obsStep,
                 missStep, missHeld, changes, pointing, savedObs, savedMiss, db, alive,
                 delivered, handled, queue, estQueue, applied, appliedEst, biasQ>>

CompleteUpdate(t) ==
  /\ pc = "update" /\ t \in pend
  /\ estAt' = [estAt EXCEPT ![t] = <<@[1], "upd">>]
  /\ pend' = pend \ {t}
  /\ truthAt' = IF UpdateTouchesTruth /\ estObs[t] # {} THEN [truthAt EXCEPT ![t] = 0] ELSE truthAt
  /\ UNCHANGED <<k, pc, eng, todo, targets, sensors, engT, engS, estObs, visM, decision, slewOK, hit, obsStep,
                 missStep, missHeld, changes, pointing, savedObs, savedMiss, db, alive,
                 delivered, handled, queue, estQueue, applied, appliedEst, biasQ>>

JoinUpdate ==
  /\ pc = "update" /\ pend = {}
  /\ pc' = "output"
  /\ UNCHANGED <<k, eng, todo, targets, sensors, engT, engS, truthAt, estAt, estObs, pend, visM, decision, slewOK, hit,
                 obsStep, missStep, missHeld, changes, pointing, savedObs, savedMiss, db, alive,
                 delivered, handled, queue, estQueue, applied, appliedEst, biasQ>>

-----------------------------------------------------------------------------
(* Scenario.propagateTo: saveDatabaseOutput on the output interval *)
IsOutputStep == (k * Dt) % OutDt = 0

Written ==
  [epochs |-> db.epochs \cup {k} \cup {o[1] : o \in savedObs} \cup {x[1] : x \in DOMAIN savedMiss},   \* every epoch a saved row refers to
   truth  |-> BagUnion(db.truth, BagOfSet({<<k, a>> : a \in Agents})),
   est    |-> IF WithEstimation THEN BagUnion(db.est, BagOfSet({<<k, t>> : t \in targets})) ELSE db.est,
   obs    |-> FoldSet(LAMBDA o, b : BagAdd(b, <<o[1], o[2], o[3]>>, 1), db.obs, savedObs),
   miss   |-> BagUnion(db.miss, savedMiss),
   tasks  |-> IF WithEstimation
                THEN BagUnion(db.tasks, BagOfSet({<<k, p[1], p[2]>> : p \in AllPairs}))
                ELSE db.tasks]

SaveOutput ==
  /\ pc = "output" /\ IsOutputStep
  /\ db' = Written
  /\ savedObs' = {} /\ savedMiss' = EmptyBag
  /\ alive' = Append(alive, Agents)
  /\ pc' = "idle"
  /\ UNCHANGED <<k, eng, todo, targets, sensors, engT, engS, truthAt, estAt, estObs, pend, visM, decision, slewOK, hit,
                 obsStep, missStep, missHeld, changes, pointing,
                 delivered, handled, queue, estQueue, applied, appliedEst, biasQ>>

\* the commit raises: nothing of the step's rows may be visible afterwards; the run stops
SaveFail ==
  /\ WithFaults /\ pc = "output" /\ IsOutputStep
  /\ pc' = "failed"
  /\ savedObs' = {} /\ savedMiss' = EmptyBag      \* the transient lists were already handed over
  /\ db' = IF PartialCommit THEN [db EXCEPT !.truth = Written.truth] ELSE db
  /\ UNCHANGED <<k, eng, todo, targets, sensors, engT, engS, truthAt, estAt, estObs, pend, visM, decision, slewOK, hit,
                 obsStep, missStep, missHeld, changes, pointing, alive,
                 delivered, handled, queue, estQueue, applied, appliedEst, biasQ>>

SkipOutput ==
  /\ pc = "output" /\ ~IsOutputStep
  /\ alive' = Append(alive, Agents)
  /\ pc' = "idle"
  /\ UNCHANGED <<k, eng, todo, targets, sensors, engT, engS, truthAt, estAt, estObs, pend, visM, decision, slewOK, hit,
                 obsStep, missStep, missHeld, changes, pointing, savedObs, savedMiss, db,
                 delivered, handled, queue, estQueue, applied, appliedEst, biasQ>>

Next ==
  \/ BeginStep \/ EndStepEvents \/ TicToc \/ JoinPropagate \/ JoinPredict \/ EndBiasEvents
  \/ RewardJoined \/ Decide \/ ApplyChanges \/ NextEngine \/ NoEngines \/ JoinUpdate
  \/ SaveOutput \/ SkipOutput \/ SaveFail
  \/ \E id \in EventIds : Deliver(id) \/ SkipAbsent(id)
  \/ \E a \in Universe : CompletePropagate(a)
  \/ \E t \in Targets : \/ CompletePredict(t) \/ CompleteUpdate(t)
                        \/ \E row \in SUBSET Sensors : CompleteReward(t, row)
                        \/ \E sl \in SUBSET Sensors : \E h \in SUBSET sl :
                              \E ser \in (IF WithSerendipity THEN SUBSET ((Targets \ {t}) \X sl) ELSE {{}}) :
                                 CompleteExec(t, sl, h, ser)
  \/ \E e \in Engines : EngineReset(e)

Spec == Init /\ [][Next]_vars
\* liveness is checked only under this fair specification (never under a state constraint)
FairSpec == Spec /\ WF_vars(Next)
\* every run completes its span or stops at a failed commit: no phase of the step loop can
\* get stuck (e.g. waiting for an event that no handler will ever accept)
RunCompletes == <>((pc = "idle" /\ k = NSteps) \/ pc = "failed")

-----------------------------------------------------------------------------
(* C01 - events *)
StepOf(t) == (t + Dt - 1) \div Dt            \* the step whose interval (prev, new] contains t
HandledSteps(id) == {delivered[id][i][1] : i \in DOMAIN delivered[id]}
\* every instantaneous event inside the span is handled in exactly one step, the right one
ExactlyOnceInstant ==
  pc = "idle" =>
    \A e \in Events : (Instant(e) /\ e.t0 >= 1 /\ StepOf(e.t0) <= k) =>
        /\ Len(delivered[e.id]) = 1
        /\ delivered[e.id][1][1] = StepOf(e.t0)
\* events with a duration are handled in exactly the steps their interval overlaps
\* (priority events: once per step by their own engine)
DurationActiveExactly ==
  pc = "idle" =>
    \A e \in Events : ~Instant(e) =>
        /\ HandledSteps(e.id) = {j \in 1..k : Relevant(e, j)}
        /\ (~PriorityToAllEngines => Len(delivered[e.id]) = Cardinality(HandledSteps(e.id)))
\* only the engine / agent an event names ever handles it
OnlyAddressee ==
  \A e \in Events : \A i \in DOMAIN delivered[e.id] : delivered[e.id][i][2] \in {e.who, Absent}
\* an impulse changes the truth velocity (and the estimate's, when planned) exactly once
DvOnce ==
  pc = "idle" =>
    \A e \in Events : (e.kind = "impulse" /\ e.t0 >= 1 /\ StepOf(e.t0) <= k) =>
        LET skipped == \E i \in DOMAIN delivered[e.id] : delivered[e.id][i][2] = Absent IN   \* addressee not in the scenario
        /\ applied[e.id] = IF skipped THEN 0 ELSE 1
        /\ (WithEstimation => appliedEst[e.id] = IF e.planned /\ ~skipped THEN 1 ELSE 0)
NeverTwice == \A id \in EventIds : applied[id] <= 1 /\ appliedEst[id] <= 1
\* a time bias is active at an observation instant iff that instant lies in its closed interval
BiasActiveExactly ==
  pc \in {"engines", "reward", "prioev", "exec", "applied"} =>
    \A s \in sensors : biasQ[s] = {e.id : e \in {x \in Events : x.kind = "bias" /\ x.who = s
                                                   /\ x.t0 <= k * Dt /\ k * Dt <= x.t1}}

(* C08 - bookkeeping *)
AfterExec == pc = "applied"
PrimaryObsCount(p) == Cardinality({o \in obsStep : o[1] = p[1] /\ o[2] = p[2] /\ o[3] = p[1]})
OneRecordPerTasking ==
  AfterExec => \A p \in decision : PrimaryObsCount(p) + Cnt(missStep, p) = 1
NoRecordWithoutTasking ==
  AfterExec => /\ \A o \in obsStep : o[3] \in engT[eng] => <<o[3], o[2]>> \in decision
               /\ DOMAIN missStep \subseteq decision
PointingReflectsTasking ==
  AfterExec => \A s \in engS[eng] :
      LET ts == {t \in TargetsOfSensor(decision, s) : <<t, s>> \in slewOK}
      IN IF ts # {} THEN pointing[s] \in {<<k, t>> : t \in ts}
         ELSE pointing[s][1] < k
LastStepMissesOnly ==
  AfterExec => \A key \in DOMAIN missHeld : key[1] = k /\ missHeld[key] = 1
RowsExact == \A key \in DOMAIN db.miss : db.miss[key] = 1
\* Order independence as an invariant: after all jobs of an engine are merged the state is
\* the schedule-free function of the environment inputs (decision, slewOK, hit, obsStep).
CanonMiss == BagOfSet(decision \ {<<o[1], o[2]>> : o \in {x \in obsStep : x[1] = x[3]}})
CanonPointing(s) ==
  LET ts == {t \in TargetsOfSensor(decision, s) : <<t, s>> \in slewOK}
  IN IF ts # {} THEN <<k, CHOOSE t \in ts : \A u \in ts : TRank[t] >= TRank[u]>> ELSE pointing[s]
StepResultIsCanonical ==
  AfterExec =>
     /\ missStep = CanonMiss
     /\ \A s \in engS[eng] :
          {t \in TargetsOfSensor(decision, s) : <<t, s>> \in slewOK} # {} => pointing[s] = CanonPointing(s)
OnlyVisibleTasked == pc \in {"exec", "applied"} => decision \subseteq Vis

(* C10 / C09 clauses *)
TruthAtClock     == pc \in {"idle", "output"} => \A a \in Agents : truthAt[a] = k
EstimatesAtClock == (WithEstimation /\ pc \in {"idle", "output"}) => \A t \in targets : estAt[t] = <<k, "upd">>
\* only the truth sub-system (scenario-step events, propagation-event queueing, ticToc,
\* propagation merges) may change a truth variable: non-interference of estimation / tasking /
\* output with the truth trajectories
NonInterference ==
  [][truthVars' # truthVars => pc \in {"stepev", "propev", "propagate"}]_vars
OutputSteps == {j \in 0..k : (j * Dt) % OutDt = 0}
AliveAt(j) == alive[j + 1]
DbComplete ==
  pc = "idle" =>
     /\ OutputSteps \subseteq db.epochs
     /\ DOMAIN db.truth = UNION {{<<j, a>> : a \in AliveAt(j)} : j \in OutputSteps}
     /\ (WithEstimation =>
           DOMAIN db.est = UNION {{<<j, t>> : t \in AliveAt(j) \cap Targets} : j \in OutputSteps})
DbNoDup ==
  /\ \A x \in DOMAIN db.truth : db.truth[x] = 1
  /\ \A x \in DOMAIN db.est : db.est[x] = 1
  /\ \A x \in DOMAIN db.miss : db.miss[x] = 1
  /\ \A x \in DOMAIN db.tasks : db.tasks[x] = 1
DbRefs ==
  /\ \A x \in DOMAIN db.truth \cup DOMAIN db.est : x[1] \in db.epochs /\ x[2] \in Universe
  /\ \A x \in DOMAIN db.obs \cup DOMAIN db.miss : x[1] \in db.epochs /\ x[2] \in Targets /\ x[3] \in Sensors
  /\ \A x \in DOMAIN db.tasks : x[1] \in db.epochs
\* a failing commit leaves the database exactly as it was
CommitAtomic == [][pc' = "failed" => db' = db]_vars
=============================================================================
