------------------------------ MODULE Resonaate ------------------------------
(***************************************************************************)
(* System specification of the RESONAATE simulator's step loop.            *)
(*                                                                         *)
(* One action per critical section of the implementation (driver process): *)
(*                                                                         *)
(*   Scenario.stepForward           BeginStep .. EndStep                   *)
(*   ScenarioClock.ticToc           TicToc                                 *)
(*   JobExecutor.join               CompleteXxx(j): the ONLY place a       *)
(*                                  job result is merged; any pending job  *)
(*                                  may complete next (= ray.wait order)   *)
(*   PropagateRegistration          CompletePropagate(a)                   *)
(*   EstPredictRegistration         CompletePredict(t)                     *)
(*   TaskingRewardRegistration      CompleteReward(e, t, row)              *)
(*   CentralizedTaskingEngine       EngineReset(e), Decide(e),             *)
(*     .assess / generateTasking    EnqueueExec(e)                         *)
(*   TaskExecutionRegistration      CompleteExec(e, t, slew, hit, ser)     *)
(*     saveObservations, saveMissedObservations,                           *)
(*     updateFromAsyncTaskExecution                                        *)
(*   Scenario: sensor.updateInfo    ApplyChanges(e)                        *)
(*   EstUpdateRegistration          CompleteUpdate(t)                      *)
(*   Scenario.saveDatabaseOutput    SaveOutput / SkipOutput                *)
(*                                                                         *)
(* Environment inputs (visibility, slew success, observation success,      *)
(* serendipitous observations) are revealed by the job results, so a       *)
(* recorded execution determines every nondeterministic choice.            *)
(*                                                                         *)
(* Deliberate deviations of the code from the design are NAMED constants   *)
(* so that the model can be run "as designed" (what traces of the repaired *)
(* implementation must satisfy) and "as coded" (to show TLC finds the      *)
(* counterexample):  ResetChangesPerJob (D6), MissListSquared (D5),        *)
(* KeepMissedAcrossSteps (D6b).                                            *)
(*                                                                         *)
(* Properties (C08):  OneRecordPerTasking, NoRecordWithoutTasking,         *)
(* PointingReflectsTasking, LastStepMissesOnly, RowsExact,                 *)
(* StepResultIsCanonical.  (C09/C10 clauses on the same state: TruthAtClock, *)
(* EstimatesAtClock, DbComplete, DbNoDup, DbRefs.)                         *)
(***************************************************************************)
EXTENDS Integers, Sequences, FiniteSets, FiniteSetsExt, TLC

CONSTANTS
  Targets,            \* target agent ids
  Sensors,            \* sensor agent ids
  Engines,            \* tasking engine ids
  EngTargets,         \* [Engines -> SUBSET Targets]
  EngSensors,         \* [Engines -> SUBSET Sensors]
  Policy,             \* [Engines -> {"munkres","greedy","random","allvisible"}]
  NSteps,             \* number of physics steps explored
  OutEvery,           \* an output row set is written every OutEvery-th step
  WithEstimation,     \* FALSE = truth_simulation_only
  WithSerendipity,    \* background (serendipitous) observations modelled
  ResetChangesPerJob, \* as coded (D6): sensor_changes = {} in every processResults
  MissListSquared,    \* as coded (D5): n misses of a job are stored n*n times
  KeepMissedAcrossSteps \* as coded (D6b): engine.missed_observations never reset

None     == "none"
NoChange == <<0, "none">>       \* sensor not mentioned in sensor_changes
Keep     == <<0, "keep">>       \* mentioned, but slew failed: old boresight re-applied
Agents   == Targets \cup Sensors

VARIABLES
  k,          \* step index = clock time / dt
  pc,         \* program point inside Scenario.stepForward
  eng,        \* engine being assessed (element of Engines) or None
  todo,       \* engines still to assess in this step
  truthAt,    \* [Agents -> epoch index of the truth state held by the agent]
  estAt,      \* [Targets -> <<epoch index, "pred" | "upd">>]
  estObs,     \* [Targets -> set of observations handed to the update of this step]
  pend,       \* set of outstanding jobs of the current batch (job id = agent / target id)
  visM,       \* [Targets -> set of sensors]: visibility rows merged so far (zero row until merged)
  decision,   \* set of <<t, s>> tasked by the current engine
  slewOK, hit,\* environment, revealed by exec results: sets of <<t, s>>
  obsStep,    \* engine._observations: set of <<tObserved, s, tPrimary>> (all engines, this step)
  missStep,   \* misses recorded this step: bag <<t, s>> -> count
  missHeld,   \* engine.missed_observations (public list): bag <<step, t, s>> -> count
  changes,    \* engine.sensor_changes: [Sensors -> NoChange | Keep | <<k, t>>]
  pointing,   \* [Sensors -> <<step last tasked, target pointed at>>]
  savedObs,   \* engine._saved_observations awaiting output: set of <<step, tObs, s, tPrim>>
  savedMiss,  \* engine._saved_missed_observations awaiting output: bag <<step, t, s>> -> count
  tasked,     \* decision matrices of this step for the task rows: set of <<t, s>> (all engines)
  db          \* output database: record of bags / sets (see DbInit)

vars == <<k, pc, eng, todo, truthAt, estAt, estObs, pend, visM, decision, slewOK, hit,
          obsStep, missStep, missHeld, changes, pointing, savedObs, savedMiss, tasked, db>>

-----------------------------------------------------------------------------
(* bags as functions with finite domain *)
EmptyBag == [x \in {} |-> 0]
BagAdd(b, x, n) == IF n = 0 THEN b
                   ELSE IF x \in DOMAIN b THEN [b EXCEPT ![x] = @ + n] ELSE b @@ (x :> n)
Cnt(b, x) == IF x \in DOMAIN b THEN b[x] ELSE 0
BagUnion(b, c) == [x \in DOMAIN b \cup DOMAIN c |-> Cnt(b, x) + Cnt(c, x)]
BagOfSet(S) == [x \in S |-> 1]

TaskedOf(d, t)        == {s \in Sensors : <<t, s>> \in d}
TargetsOfSensor(d, s) == {t \in Targets : <<t, s>> \in d}
OnePerSensor(d) == \A s \in Sensors : Cardinality(TargetsOfSensor(d, s)) <= 1
OnePerTarget(d) == \A t \in Targets : Cardinality(TaskedOf(d, t)) <= 1

\* abstract feasible set of each policy (C07 decides optimality; here only the shape matters)
Feasible(e, v) ==
  CASE Policy[e] = "munkres"    -> {d \in SUBSET v : OnePerSensor(d) /\ OnePerTarget(d)}
    [] Policy[e] = "greedy"     -> {d \in SUBSET v : OnePerSensor(d)}
    [] Policy[e] = "random"     -> {d \in SUBSET v : /\ OnePerSensor(d)
                                      /\ \A s \in EngSensors[e] :
                                           (\E t \in EngTargets[e] : <<t, s>> \in v) => TargetsOfSensor(d, s) # {}}
    [] Policy[e] = "allvisible" -> {v}

AllPairs == UNION {EngTargets[e] \X EngSensors[e] : e \in Engines}
\* the clock pre-populates the epoch table for the whole configured span (0..NSteps)
DbInit == [epochs |-> 0..NSteps,
           truth  |-> BagOfSet({<<0, a>> : a \in Agents}),
           est    |-> IF WithEstimation THEN BagOfSet({<<0, t>> : t \in Targets}) ELSE EmptyBag,
           obs    |-> EmptyBag,      \* <<step, tObs, s>> -> count
           miss   |-> EmptyBag,      \* <<step, t, s>> -> count
           tasks  |-> IF WithEstimation THEN BagOfSet({<<0, p[1], p[2]>> : p \in AllPairs}) ELSE EmptyBag]

Init ==
  /\ k = 0 /\ pc = "idle" /\ eng = None /\ todo = {}
  /\ truthAt = [a \in Agents |-> 0]
  /\ estAt = [t \in Targets |-> <<0, "upd">>]
  /\ estObs = [t \in Targets |-> {}]
  /\ pend = {}
  /\ visM = [t \in Targets |-> {}]
  /\ decision = {} /\ slewOK = {} /\ hit = {}
  /\ obsStep = {} /\ missStep = EmptyBag /\ missHeld = EmptyBag
  /\ changes = [s \in Sensors |-> NoChange]
  /\ pointing = [s \in Sensors |-> <<0, None>>]
  /\ savedObs = {} /\ savedMiss = EmptyBag /\ tasked = {}
  /\ db = DbInit

-----------------------------------------------------------------------------
(* Scenario.stepForward: events, ticToc, enqueue propagation jobs *)
BeginStep ==
  /\ pc = "idle" /\ k < NSteps
  /\ k' = k + 1                                  \* clock.ticToc()
  /\ pend' = Agents                              \* one PropagateRegistration per agent
  /\ pc' = "propagate"
  /\ obsStep' = {} /\ tasked' = {}
  /\ UNCHANGED <<eng, todo, truthAt, estAt, estObs, visM, decision, slewOK, hit, missStep, missHeld,
                 changes, pointing, savedObs, savedMiss, db>>

CompletePropagate(a) ==
  /\ pc = "propagate" /\ a \in pend
  /\ truthAt' = [truthAt EXCEPT ![a] = @ + 1]    \* time := final_time, eci := final_eci
  /\ pend' = pend \ {a}
  /\ UNCHANGED <<k, pc, eng, todo, estAt, estObs, visM, decision, slewOK, hit, obsStep, missStep, missHeld,
                 changes, pointing, savedObs, savedMiss, tasked, db>>

JoinPropagate ==
  /\ pc = "propagate" /\ pend = {}
  /\ IF WithEstimation
       THEN pend' = Targets /\ pc' = "predict"
       ELSE pend' = {} /\ pc' = "output"
  /\ UNCHANGED <<k, eng, todo, truthAt, estAt, estObs, visM, decision, slewOK, hit, obsStep, missStep, missHeld,
                 changes, pointing, savedObs, savedMiss, tasked, db>>

CompletePredict(t) ==
  /\ pc = "predict" /\ t \in pend
  /\ estAt' = [estAt EXCEPT ![t] = <<@[1] + 1, "pred">>]
  /\ pend' = pend \ {t}
  /\ UNCHANGED <<k, pc, eng, todo, truthAt, estObs, visM, decision, slewOK, hit, obsStep, missStep, missHeld,
                 changes, pointing, savedObs, savedMiss, tasked, db>>

\* predictor.join(); time-bias events; ray.put of every agent; start of the engine loop
JoinPredict ==
  /\ pc = "predict" /\ pend = {}
  /\ todo' = Engines /\ eng' = None
  /\ pc' = "engines"
  /\ UNCHANGED <<k, truthAt, estAt, estObs, pend, visM, decision, slewOK, hit, obsStep, missStep, missHeld,
                 changes, pointing, savedObs, savedMiss, tasked, db>>

-----------------------------------------------------------------------------
(* CentralizedTaskingEngine.assess *)
EngineReset(e) ==
  /\ pc = "engines" /\ e \in todo
  /\ eng' = e /\ todo' = todo \ {e}
  /\ visM' = [t \in Targets |-> {}]
  /\ decision' = {} /\ slewOK' = {} /\ hit' = {}
  /\ missStep' = EmptyBag
  /\ missHeld' = IF KeepMissedAcrossSteps THEN missHeld ELSE EmptyBag
  /\ changes' = [s \in Sensors |-> NoChange]
  /\ pend' = EngTargets[e]                        \* one TaskingRewardRegistration per target
  /\ pc' = "reward"
  /\ UNCHANGED <<k, truthAt, estAt, estObs, obsStep, pointing, savedObs, savedMiss, tasked, db>>

CompleteReward(t, row) ==
  /\ pc = "reward" /\ t \in pend
  /\ row \subseteq EngSensors[eng]
  /\ visM' = [visM EXCEPT ![t] = row]
  /\ pend' = pend \ {t}
  /\ UNCHANGED <<k, pc, eng, todo, truthAt, estAt, estObs, decision, slewOK, hit, obsStep, missStep, missHeld,
                 changes, pointing, savedObs, savedMiss, tasked, db>>

Vis == {<<t, s>> \in EngTargets[eng] \X EngSensors[eng] : s \in visM[t]}

\* reward join, priority events, calculateRewards, generateTasking, enqueue exec jobs
Decide ==
  /\ pc = "reward" /\ pend = {}
  /\ decision' \in Feasible(eng, Vis)
  /\ tasked' = tasked \cup decision'
  /\ pend' = {t \in EngTargets[eng] : TaskedOf(decision', t) # {}}
  /\ pc' = "exec"
  /\ UNCHANGED <<k, eng, todo, truthAt, estAt, estObs, visM, slewOK, hit, obsStep, missStep, missHeld,
                 changes, pointing, savedObs, savedMiss, db>>

\* TaskExecutionRegistration.processResults for the job of target t:
\*   slewT: tasked sensors that could slew; hitT: those that observed the primary;
\*   ser: serendipitous observations <<t2, s>> of background targets
CompleteExec(t, slewT, hitT, ser) ==
  /\ pc = "exec" /\ t \in pend
  /\ slewT \subseteq TaskedOf(decision, t) /\ hitT \subseteq slewT
  /\ ser \subseteq (Targets \ {t}) \X TaskedOf(decision, t)
  /\ (~WithSerendipity => ser = {})
  /\ slewOK' = slewOK \cup {<<t, s>> : s \in slewT}
  /\ hit' = hit \cup {<<t, s>> : s \in hitT}
  /\ LET ss     == TaskedOf(decision, t)
         misses == ss \ hitT
         n      == Cardinality(misses)
         mult   == IF MissListSquared THEN n ELSE 1
         base   == IF ResetChangesPerJob THEN [s \in Sensors |-> NoChange] ELSE changes
         newObs == {<<t, s, t>> : s \in hitT} \cup {<<p[1], p[2], t>> : p \in ser}
     IN /\ obsStep' = obsStep \cup newObs
        /\ savedObs' = savedObs \cup {<<k, o[1], o[2], o[3]>> : o \in newObs}
        /\ missStep' = FoldSet(LAMBDA s, b : BagAdd(b, <<t, s>>, mult), missStep, misses)
        /\ missHeld' = FoldSet(LAMBDA s, b : BagAdd(b, <<k, t, s>>, mult), missHeld, misses)
        /\ savedMiss' = FoldSet(LAMBDA s, b : BagAdd(b, <<k, t, s>>, mult), savedMiss, misses)
        /\ changes' = [s \in Sensors |-> IF s \in ss
                                           THEN (IF s \in slewT THEN <<k, t>> ELSE Keep)
                                           ELSE base[s]]
  /\ pend' = pend \ {t}
  /\ UNCHANGED <<k, pc, eng, todo, truthAt, estAt, estObs, visM, decision, pointing, tasked, db>>

\* Scenario: for sensor_change in engine.sensor_changes: sensor.updateInfo(...); resetHandles
ApplyChanges ==
  /\ pc = "exec" /\ pend = {}
  /\ pointing' = [s \in Sensors |-> IF changes[s] \notin {NoChange, Keep} THEN changes[s] ELSE pointing[s]]
  /\ pc' = "applied"
  /\ UNCHANGED <<k, eng, todo, truthAt, estAt, estObs, pend, visM, decision, slewOK, hit, obsStep, missStep,
                 missHeld, changes, savedObs, savedMiss, tasked, db>>

\* next engine, or leave the engine loop and enqueue the estimate updates
NextEngine ==
  /\ pc = "applied"
  /\ IF todo # {}
       THEN pc' = "engines" /\ UNCHANGED <<pend, estObs>>
       ELSE /\ pc' = "update"
            /\ pend' = Targets
            /\ estObs' = [t \in Targets |-> {o \in obsStep : o[1] = t}]
  /\ UNCHANGED <<k, eng, todo, truthAt, estAt, visM, decision, slewOK, hit, obsStep, missStep, missHeld,
                 changes, pointing, savedObs, savedMiss, tasked, db>>

CompleteUpdate(t) ==
  /\ pc = "update" /\ t \in pend
  /\ estAt' = [estAt EXCEPT ![t] = <<@[1], "upd">>]
  /\ pend' = pend \ {t}
  /\ UNCHANGED <<k, pc, eng, todo, truthAt, estObs, visM, decision, slewOK, hit, obsStep, missStep, missHeld,
                 changes, pointing, savedObs, savedMiss, tasked, db>>

JoinUpdate ==
  /\ pc = "update" /\ pend = {}
  /\ pc' = "output"
  /\ UNCHANGED <<k, eng, todo, truthAt, estAt, estObs, pend, visM, decision, slewOK, hit, obsStep, missStep,
                 missHeld, changes, pointing, savedObs, savedMiss, tasked, db>>

-----------------------------------------------------------------------------
(* Scenario.propagateTo: saveDatabaseOutput on the output interval *)
IsOutputStep == k % OutEvery = 0

SaveOutput ==
  /\ pc = "output" /\ IsOutputStep
  /\ db' = [epochs |-> db.epochs \cup {k},
            truth  |-> BagUnion(db.truth, BagOfSet({<<k, a>> : a \in Agents})),
            est    |-> IF WithEstimation THEN BagUnion(db.est, BagOfSet({<<k, t>> : t \in Targets})) ELSE db.est,
            obs    |-> FoldSet(LAMBDA o, b : BagAdd(b, <<o[1], o[2], o[3]>>, 1), db.obs, savedObs),
            miss   |-> BagUnion(db.miss, savedMiss),
            tasks  |-> IF WithEstimation
                         THEN BagUnion(db.tasks, BagOfSet({<<k, p[1], p[2]>> : p \in AllPairs}))
                         ELSE db.tasks]
  /\ savedObs' = {} /\ savedMiss' = EmptyBag
  /\ pc' = "idle"
  /\ UNCHANGED <<k, eng, todo, truthAt, estAt, estObs, pend, visM, decision, slewOK, hit, obsStep, missStep,
                 missHeld, changes, pointing, tasked>>

SkipOutput ==
  /\ pc = "output" /\ ~IsOutputStep
  /\ pc' = "idle"
  /\ UNCHANGED <<k, eng, todo, truthAt, estAt, estObs, pend, visM, decision, slewOK, hit, obsStep, missStep,
                 missHeld, changes, pointing, savedObs, savedMiss, tasked, db>>

Next ==
  \/ BeginStep \/ JoinPropagate \/ JoinPredict \/ Decide \/ ApplyChanges \/ NextEngine \/ JoinUpdate
  \/ SaveOutput \/ SkipOutput
  \/ \E a \in Agents : CompletePropagate(a)
  \/ \E t \in Targets : \/ CompletePredict(t) \/ CompleteUpdate(t)
                        \/ \E row \in SUBSET Sensors : CompleteReward(t, row)
                        \/ \E sl \in SUBSET Sensors : \E h \in SUBSET sl :
                              \E ser \in (IF WithSerendipity THEN SUBSET ((Targets \ {t}) \X sl) ELSE {{}}) :
                                 CompleteExec(t, sl, h, ser)
  \/ \E e \in Engines : EngineReset(e)

Spec == Init /\ [][Next]_vars

-----------------------------------------------------------------------------
(* C08 - bookkeeping *)
AfterExec == pc = "applied"

PrimaryObsCount(p) == Cardinality({o \in obsStep : o[1] = p[1] /\ o[2] = p[2] /\ o[3] = p[1]})
\* each tasked pair: exactly one record for its primary target
OneRecordPerTasking ==
  AfterExec => \A p \in decision : PrimaryObsCount(p) + Cnt(missStep, p) = 1
NoRecordWithoutTasking ==
  AfterExec => /\ \A o \in obsStep : o[3] \in EngTargets[eng] => <<o[3], o[2]>> \in decision
               /\ DOMAIN missStep \subseteq decision
\* every tasked sensor's pointing and last-tasked time reflect that tasking
PointingReflectsTasking ==
  AfterExec => \A s \in EngSensors[eng] :
      LET ts == {t \in TargetsOfSensor(decision, s) : <<t, s>> \in slewOK}
      IN IF ts # {} THEN pointing[s] \in {<<k, t>> : t \in ts}
         ELSE pointing[s][1] < k
\* the public per-step miss list holds this step's misses only, once each
LastStepMissesOnly ==
  AfterExec => \A key \in DOMAIN missHeld : key[1] = k /\ missHeld[key] = 1
\* stored miss rows: one per missed tasking
RowsExact == \A key \in DOMAIN db.miss : db.miss[key] = 1

\* Order independence as an invariant: after all jobs of an engine are merged the state is
\* the schedule-free function of the environment inputs (decision, slewOK, hit, obsStep).
CanonMiss == BagOfSet(decision \ {<<o[1], o[2]>> : o \in {x \in obsStep : x[1] = x[3]}})
CanonPointing(s) ==
  LET ts == {t \in TargetsOfSensor(decision, s) : <<t, s>> \in slewOK}
  IN IF Cardinality(ts) = 1 THEN <<k, CHOOSE t \in ts : TRUE>> ELSE pointing[s]
StepResultIsCanonical ==
  AfterExec =>
     /\ missStep = CanonMiss
     /\ \A s \in EngSensors[eng] :
          Cardinality({t \in TargetsOfSensor(decision, s) : <<t, s>> \in slewOK}) = 1
             => pointing[s] = CanonPointing(s)

OnlyVisibleTasked == pc \in {"exec", "applied"} => decision \subseteq Vis

(* C10/C09 clauses visible on this state *)
TruthAtClock     == pc \in {"idle", "output"} => \A a \in Agents : truthAt[a] = k
EstimatesAtClock == (WithEstimation /\ pc \in {"idle", "output"}) => \A t \in Targets : estAt[t] = <<k, "upd">>
OutputSteps == {j \in 0..k : j % OutEvery = 0}
DbComplete ==
  pc = "idle" =>
     /\ OutputSteps \subseteq db.epochs
     /\ DOMAIN db.truth = OutputSteps \X Agents
     /\ (WithEstimation => DOMAIN db.est = OutputSteps \X Targets)
DbNoDup ==
  /\ \A x \in DOMAIN db.truth : db.truth[x] = 1
  /\ \A x \in DOMAIN db.est : db.est[x] = 1
  /\ \A x \in DOMAIN db.miss : db.miss[x] = 1
  /\ \A x \in DOMAIN db.tasks : db.tasks[x] = 1
DbRefs ==
  /\ \A x \in DOMAIN db.truth \cup DOMAIN db.est : x[1] \in db.epochs
  /\ \A x \in DOMAIN db.obs \cup DOMAIN db.miss : x[2] \in Targets /\ x[3] \in Sensors
  /\ \A x \in DOMAIN db.tasks : x[1] \in db.epochs
\* observations/misses are only stored for epochs that exist when OutEvery = 1
ObsRowsHaveEpoch == OutEvery = 1 => \A x \in DOMAIN db.obs \cup DOMAIN db.miss : x[1] \in db.epochs
=============================================================================
