SPECIFICATION Spec
CONSTANTS Dt = 3
 NSteps = 3
 M = 4
 SharedWindowPath = FALSE
 PruneKeepsEqual = TRUE
 RoundSimTime = FALSE
INVARIANT DeliveredExactlyOnce
INVARIANT AppliedExactlyOnce
INVARIANT NeverTwice
