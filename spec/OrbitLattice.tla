----------------------------- MODULE OrbitLattice -----------------------------
(***************************************************************************)
(* Kepler orbits on an exact rational lattice (properties C12 and C20).    *)
(*                                                                         *)
(* WHAT IS MODELLED.  A family is (mu, a, e) with e = m/n from a           *)
(* Pythagorean triple (or 0) and mu, a chosen so that                      *)
(*   s = sqrt(1-e^2),  p = a(1-e^2),  sqrt(mu/p),  sqrt(a^3/mu),           *)
(*   |h| = sqrt(mu p)                                                      *)
(* are all rational (FamilyOk checks it; nothing is tabulated).  At true   *)
(* anomaly nu = k*90 deg the perifocal state                               *)
(*   r = p/(1+e cos nu) (cos nu, sin nu, 0)                                *)
(*   v = sqrt(mu/p) (-sin nu, e + cos nu, 0)                               *)
(* is rational, and it stays rational under every orientation used here:   *)
(*   "cube": the 24 rotations of the cube (signed permutation matrices,    *)
(*           det 1) - inclinations 0 / 90 / 180 deg, all quadrant cases;   *)
(*   "tilt": R3(W) R1(i) R3(w) with W, w quarter turns and                 *)
(*           (cos i, sin i) in {(+-3/5, 4/5), (+-4/5, 3/5)}.               *)
(*                                                                         *)
(* WHICH CODE IT MIRRORS (one action per step of the implementation):      *)
(*   Perifocal, Rotate  physics/orbits/conversions.py:coe2eci              *)
(*   Vectors            conversions.py:eci2coe (first half),               *)
(*                      utils.py:getSemiMajorAxis/getAngularMomentum/      *)
(*                      getEccentricity/getLineOfNodes                     *)
(*   Classify           orbits/__init__.py:isInclined/isEccentric,         *)
(*                      utils.py:singularityCheck                          *)
(*   Elements           eci2coe (four branches), utils.py:getRightAscension*)
(*                      /getArgumentPerigee/getTrueAnomaly/                *)
(*                      getTrueLongitudePeriapsis/getArgumentLatitude/     *)
(*                      getTrueLongitude with __init__.py:fixAngleQuadrant *)
(*   Equinoctial        conversions.py:eci2eqe, utils.py:                  *)
(*                      getEquinoctialBasisVectors; anomaly.py (E, M)      *)
(*   PoseArc, ComputeArc  the boundary-value problem handed to             *)
(*                      physics/orbit_determination/lambert.py:            *)
(*                      lambertUniversal / lambertBattin (C20)             *)
(*                                                                         *)
(* WHICH FORMULAS STATE THE PROPERTY.                                      *)
(*   C12: ElementRoundTrip (coe2eci o eci2coe = id, in Cartesian space),   *)
(*        EquatorialSplit (singularityCheck keeps the orbit),              *)
(*        EquinoctialRoundTrip (eqe2eci o eci2eqe = id), EqeMatchesCoe     *)
(*        (coe2eqe agrees with eci2eqe), KeplerGeometry (E, M of the       *)
(*        lattice anomalies), OnLattice (every defined angle is a quarter  *)
(*        turn, hence inside its documented range), plus the physical      *)
(*        invariants VisViva, EnergyConst, HConstant, EccVector.           *)
(*   C20: ArcSameOrbit, ArcLagrange: the two end points of a 90 / 270 deg  *)
(*        arc are joined by the Keplerian arc whose end-point velocities   *)
(*        are the lattice velocities - what a Lambert solver must return.  *)
(*        ArcMinimumEnergy: the arcs between the two "mirror points"       *)
(*        (-2ae, +-p) are exactly the minimum-energy transfers of their    *)
(*        chord, i.e. their time of flight is Lambert's t_min.             *)
(*                                                                         *)
(* SINGULAR CASES.  case = "IE" inclined eccentric, "EE" equatorial        *)
(* eccentric, "IC" inclined circular, "EC" equatorial circular; undefined  *)
(* angles are reported as -1 and never compared.  For an equatorial        *)
(* RETROGRADE orbit (i = 180 deg) the composite angle (longitude of        *)
(* periapsis / true longitude) can be measured eastward ("ccw", Vallado    *)
(* eqn 2-87/2-92, what eci2coe does) or in the direction of motion         *)
(* ("motion", what rot3(-raan) rot1(-pi) rot3(-argp) in coe2eci needs).    *)
(* The property only demands the round trip, so both values are emitted    *)
(* and either is admissible as a VALUE; RetroConvention selects which one  *)
(* ElementRoundTrip reconstructs with: "motion" is the consistent design,  *)
(* "ccw" is the code as written and makes TLC refute ElementRoundTrip      *)
(* (defect D14 reproduced at specification level; used as a spec mutant).  *)
(*                                                                         *)
(* TIME.  Mean anomaly and time of flight are transcendental; they are     *)
(* emitted as exact coefficient triples <<c_pi, c_acos, c_1>> meaning      *)
(*     c_pi * pi + c_acos * arccos(e) + c_1        (radians)               *)
(* and tof = sqrt(a^3/mu) * (that), sqrt(a^3/mu) rational.  The driver     *)
(* multiplies by math.pi and math.acos(e): these two constants are the     *)
(* only floating point ingredients of the lattice oracle.                  *)
(*                                                                         *)
(* SCALING TO KILOMETRES (done by the driver, harness/drivers/_orbits.py): *)
(* for a target semi-major axis A km put L = A / a;                        *)
(*   r_km = L r,  v_km/s = sqrt(mu_E / (mu L)) v,  t_s = sqrt(L^3 mu /     *)
(*   mu_E) t,  mu_E = Earth.mu of the repository; angles, e, (h,k,p,q)     *)
(* are scale free.                                                         *)
(***************************************************************************)
EXTENDS Integers, Sequences, FiniteSets, TLC, Json, OrbitVec

CONSTANTS Families,         \* subset of DOMAIN Fam
          OrientKinds,      \* subset of {"cube", "tilt"}
          WithArcs,         \* BOOLEAN: also explore transfer arcs (C20)
          RetroConvention   \* "motion" | "ccw"

VARIABLES pc, fam, rot, q, rv, vec, cls, el, eqe, arc
vars == <<pc, fam, rot, q, rv, vec, cls, el, eqe, arc>>
None == <<>>

\* ------------------------------------------------------------------ families
Fam == [ c0    |-> [mu |-> 4,   a |-> 4,   e |-> <<0, 1>>],
         e35   |-> [mu |-> 100, a |-> 25,  e |-> <<3, 5>>],
         e513  |-> [mu |-> 144, a |-> 169, e |-> <<5, 13>>],
         e725  |-> [mu |-> 576, a |-> 625, e |-> <<7, 25>>],
         e817  |-> [mu |-> 225, a |-> 289, e |-> <<8, 17>>],
         e2029 |-> [mu |-> 441, a |-> 841, e |-> <<20, 29>>],
         e45   |-> [mu |-> 36,  a |-> 25,  e |-> <<4, 5>>] ]
\* sets named by the cfg files (cfg syntax cannot spell them)
FamC12Quick == {"c0", "e35", "e513"}
FamC20Quick == {"c0", "e35", "e513"}
FamMutant   == {"c0", "e35"}
FamAll      == DOMAIN Fam
KindsAll    == {"cube", "tilt"}
KindsCube   == {"cube"}

SemiLatus(f) == QMul(Q(f.a), QSub(One, QSq(f.e)))
FamilyOk(f) ==
  /\ f.mu > 0 /\ f.a > 0 /\ QLe(Zero, f.e) /\ QLt(f.e, One)
  /\ QIsSquare(QSub(One, QSq(f.e)))
  /\ QIsSquare(QDiv(Q(f.mu), SemiLatus(f)))
  /\ QIsSquare(QDiv(Q(f.a * f.a * f.a), Q(f.mu)))
  /\ QIsSquare(QMul(Q(f.mu), SemiLatus(f)))
ASSUME \A n \in DOMAIN Fam : FamilyOk(Fam[n])
ASSUME Families \subseteq DOMAIN Fam /\ OrientKinds \subseteq KindsAll
ASSUME RetroConvention \in {"motion", "ccw"}

SqrtOneMinusE2(f) == QSqrt(QSub(One, QSq(f.e)))                    \* s
SpeedUnit(f)      == QSqrt(QDiv(Q(f.mu), SemiLatus(f)))            \* sqrt(mu/p)
TimeUnit(f)       == QSqrt(QDiv(Q(f.a * f.a * f.a), Q(f.mu)))      \* sqrt(a^3/mu) = 1/n
HMag(f)           == QSqrt(QMul(Q(f.mu), SemiLatus(f)))            \* |r x v|

\* -------------------------------------------------------------- orientations
Perms == {p \in [1..3 -> 1..3] : \A i, j \in 1..3 : i # j => p[i] # p[j]}
Signs == [1..3 -> {-1, 1}]
PermSign(p) == IF p = <<1, 2, 3>> \/ p = <<2, 3, 1>> \/ p = <<3, 1, 2>> THEN 1 ELSE -1
CubeRots == { QMat([i \in 1..3 |-> [j \in 1..3 |-> IF ps[1][i] = j THEN ps[2][i] ELSE 0]]) :
                ps \in {x \in Perms \X Signs : PermSign(x[1]) * x[2][1] * x[2][2] * x[2][3] = 1} }
IncPairs == { <<<<3, 5>>, <<4, 5>>>>, <<<<-3, 5>>, <<4, 5>>>>, <<<<4, 5>>, <<3, 5>>>>, <<<<-4, 5>>, <<3, 5>>>> }
TiltRots == { MatMul(R3q(W), MatMul(R1(ic[1], ic[2]), R3q(w))) : W \in 0..3, ic \in IncPairs, w \in 0..3 }
ASSUME Cardinality(CubeRots) = 24 /\ \A M \in CubeRots : IsRotation(M)
ASSUME Cardinality(TiltRots) = 64 /\ \A M \in TiltRots : IsRotation(M)
Orients == (IF "cube" \in OrientKinds THEN CubeRots ELSE {}) \cup (IF "tilt" \in OrientKinds THEN TiltRots ELSE {})

\* ------------------------------------------------- the orbit in its own plane
\* coe2eci: r_pqw = p/(1+e cos nu) [cos nu, sin nu, 0];  v_pqw = sqrt(mu/p) [-sin nu, e + cos nu, 0]
PerifocalCS(mu, sma, ecc, c, s) ==            \* c, s = exact cosine / sine of the true anomaly
  LET p  == QMul(sma, QSub(One, QSq(ecc)))
      rm == QDiv(p, QAdd(One, QMul(ecc, c)))
      vp == QSqrt(QDiv(mu, p))
  IN << <<QMul(rm, c), QMul(rm, s), Zero>>, <<QMul(vp, QNeg(s)), QMul(vp, QAdd(ecc, c)), Zero>> >>
Perifocal(mu, sma, ecc, k) == PerifocalCS(mu, sma, ecc, Q(CosQ(k)), Q(SinQ(k)))
StateAt(f, M, k) == LET pq == Perifocal(Q(f.mu), Q(f.a), f.e, k) IN <<MatVec(M, pq[1]), MatVec(M, pq[2])>>
StateAtCS(f, M, c, s) == LET pq == PerifocalCS(Q(f.mu), Q(f.a), f.e, c, s) IN <<MatVec(M, pq[1]), MatVec(M, pq[2])>>
\* The two points of the ellipse on the line through the VACANT focus perpendicular to the major
\* axis (mirror images of the ends of the latus rectum): perifocal (-2ae, +-p), radius 2a - p,
\*   cos nu = -2e/(1+e^2),  sin nu = +-(1-e^2)/(1+e^2)     - rational.
\* Their chord contains the vacant focus, so r1 + r2 + chord = 4a: the orbit is the MINIMUM-ENERGY
\* ellipse of that chord and the time of flight between them is exactly t_min of Lambert's problem.
\* Eccentric anomaly pi -+ acos(e) (mirror of cos E = e), mean anomaly by Kepler's equation.
MirrorCos(f) == QDiv(QMul(Q(-2), f.e), QAdd(One, QSq(f.e)))
MirrorSin(f) == QDiv(QSub(One, QSq(f.e)), QAdd(One, QSq(f.e)))

\* eccentric and mean anomaly at nu = k quarter turns:  cos E = (e + cos nu)/(1 + e cos nu)
CosSinE(f, k) == CASE k % 4 = 0 -> <<One, Zero>>
                   [] k % 4 = 1 -> <<f.e, SqrtOneMinusE2(f)>>
                   [] k % 4 = 2 -> <<QNeg(One), Zero>>
                   [] k % 4 = 3 -> <<f.e, QNeg(SqrtOneMinusE2(f))>>
\* triples <<c_pi, c_acos, c_1>> : value = c_pi pi + c_acos acos(e) + c_1
TAdd(x, y) == <<QAdd(x[1], y[1]), QAdd(x[2], y[2]), QAdd(x[3], y[3])>>
TSub(x, y) == <<QSub(x[1], y[1]), QSub(x[2], y[2]), QSub(x[3], y[3])>>
TQuarter(k) == <<Norm(k, 2), Zero, Zero>>
EccAnomT(f, k) == IF f.e[1] = 0 THEN TQuarter(k % 4)
                  ELSE CASE k % 4 = 0 -> <<Zero, Zero, Zero>>
                         [] k % 4 = 1 -> <<Zero, One, Zero>>
                         [] k % 4 = 2 -> <<One, Zero, Zero>>
                         [] k % 4 = 3 -> <<Q(2), QNeg(One), Zero>>
\* Kepler's equation  M = E - e sin E
MeanAnomT(f, k) == TSub(EccAnomT(f, k), <<Zero, Zero, QMul(f.e, CosSinE(f, k)[2])>>)

\* ------------------------------------------------------------- state machine
Init == /\ pc = "start" /\ fam = "none" /\ rot = None /\ q = 0 /\ rv = None
        /\ vec = None /\ cls = None /\ el = None /\ eqe = None /\ arc = None

PoseFamily == /\ pc = "start"
              /\ \E n \in Families : fam' = n
              /\ pc' = "family" /\ UNCHANGED <<rot, q, rv, vec, cls, el, eqe, arc>>
PoseOrient == /\ pc = "family"
              /\ \E M \in Orients : rot' = M
              /\ pc' = "orient" /\ UNCHANGED <<fam, q, rv, vec, cls, el, eqe, arc>>
PoseAnomaly == /\ pc = "orient"
               /\ \E k \in 0..3 : q' = k
               /\ pc' = "posed" /\ UNCHANGED <<fam, rot, rv, vec, cls, el, eqe, arc>>

F == Fam[fam]
\* coe2eci, first half: the perifocal state
Perifocal1 == /\ pc = "posed"
              /\ rv' = Perifocal(Q(F.mu), Q(F.a), F.e, q)
              /\ pc' = "pqw" /\ UNCHANGED <<fam, rot, q, vec, cls, el, eqe, arc>>
\* coe2eci, second half: rotate into the inertial frame
Rotate == /\ pc = "pqw"
          /\ rv' = <<MatVec(rot, rv[1]), MatVec(rot, rv[2])>>
          /\ pc' = "eci" /\ UNCHANGED <<fam, rot, q, vec, cls, el, eqe, arc>>

\* eci2coe, first half
VectorsOf(mu, r, v) ==
  LET rmag == QSqrt(Dot(r, r))
      v2   == Dot(v, v)
      en   == QSubL(QDiv(v2, Q(2)), QDiv(mu, rmag))                         \* getOrbitalEnergy
      sma  == QDiv(QNeg(mu), QMul(Q(2), en))                                \* getSemiMajorAxis
      h    == Cross(r, v)                                                   \* getAngularMomentum
      ev   == VScale(QDiv(One, mu),                                         \* getEccentricity
                     VSub(VScale(QSubL(v2, QDiv(mu, rmag)), r), VScale(Dot(r, v), v)))
      n    == Cross(<<Zero, Zero, One>>, h)                                 \* getLineOfNodes
  IN [rmag |-> rmag, v2 |-> v2, energy |-> en, sma |-> sma, h |-> h, evec |-> ev,
      ecc |-> QSqrt(Dot(ev, ev)), node |-> n, rdotv |-> Dot(r, v)]
Vectors == /\ pc = "eci"
           /\ vec' = VectorsOf(Q(F.mu), rv[1], rv[2])
           /\ pc' = "vectors" /\ UNCHANGED <<fam, rot, q, rv, cls, el, eqe, arc>>

\* isInclined / isEccentric on exact values (no tolerance needed on the lattice)
Classify == /\ pc = "vectors"
            /\ LET hmag == QSqrt(Dot(vec.h, vec.h))
                   ci   == QDiv(vec.h[3], hmag)
                   si   == QSqrt(QSub(One, QSq(ci)))
                   incl == si[1] # 0
                   eccn == vec.ecc[1] # 0
               IN cls' = [hmag |-> hmag, cosi |-> ci, sini |-> si, inclined |-> incl, eccentric |-> eccn,
                          retro |-> QSign(ci) < 0,
                          case |-> IF incl THEN (IF eccn THEN "IE" ELSE "IC") ELSE (IF eccn THEN "EE" ELSE "EC")]
            /\ pc' = "classified" /\ UNCHANGED <<fam, rot, q, rv, vec, el, eqe, arc>>

Motion(retro, ccw) == IF ccw < 0 THEN -1 ELSE IF retro THEN (4 - ccw) % 4 ELSE ccw
\* eci2coe, the four branches
Elements ==
  /\ pc = "classified"
  /\ LET r    == rv[1]
         rhat == VScale(QDiv(One, vec.rmag), r)
         nhat == IF cls.inclined THEN VScale(QDiv(One, QMul(cls.hmag, cls.sini)), vec.node) ELSE vec.node
         ehat == IF cls.eccentric THEN VScale(QDiv(One, vec.ecc), vec.evec) ELSE vec.evec
         raan == IF cls.inclined THEN FixQuadrant(AcosQ(nhat[1]), nhat[2]) ELSE -1                  \* getRightAscension
         argp == IF cls.case = "IE" THEN FixQuadrant(AcosQ(Dot(nhat, ehat)), ehat[3]) ELSE -1       \* getArgumentPerigee
         nu   == IF cls.eccentric THEN FixQuadrant(AcosQ(Dot(ehat, rhat)), vec.rdotv) ELSE -1       \* getTrueAnomaly
         lonp == IF cls.case = "EE" THEN FixQuadrant(AcosQ(ehat[1]), ehat[2]) ELSE -1               \* getTrueLongitudePeriapsis
         argl == IF cls.case = "IC" THEN FixQuadrant(AcosQ(Dot(nhat, rhat)), r[3]) ELSE -1          \* getArgumentLatitude
         tlon == IF cls.case = "EC" THEN FixQuadrant(AcosQ(rhat[1]), rhat[2]) ELSE -1               \* getTrueLongitude
     IN el' = [case |-> cls.case, retro |-> cls.retro, sma |-> vec.sma, ecc |-> vec.ecc,
               cosi |-> cls.cosi, sini |-> cls.sini, incq |-> IF cls.sini[1] = 0 \/ cls.cosi[1] = 0 THEN AcosQ(cls.cosi) ELSE -1,
               raan |-> raan, argp |-> argp, nu |-> nu,
               lonper_ccw |-> lonp, lonper_motion |-> Motion(cls.retro, lonp),
               arglat |-> argl,
               truelon_ccw |-> tlon, truelon_motion |-> Motion(cls.retro, tlon)]
  /\ pc' = "elements" /\ UNCHANGED <<fam, rot, q, rv, vec, cls, eqe, arc>>

\* eci2eqe (retro = TRUE exactly for the equatorial retrograde orbits, the documented use of the flag)
Equinoctial ==
  /\ pc = "elements"
  /\ LET II   == IF ~cls.inclined /\ cls.retro THEN -1 ELSE 1
         r    == rv[1]
         w    == VScale(QDiv(One, cls.hmag), vec.h)
         den  == QAdd(One, QMul(Q(II), w[3]))
         pp   == QDiv(w[1], den)
         qq   == QDiv(QNeg(w[2]), den)
         nt   == QDiv(One, QAdd(One, QAdd(QSq(pp), QSq(qq))))
         fv   == VScale(nt, <<QAdd(QSub(One, QSq(pp)), QSq(qq)), QMul(Q(2), QMul(pp, qq)), QMul(Q(-2 * II), pp)>>)
         gv   == VScale(nt, <<QMul(Q(2 * II), QMul(pp, qq)), QMul(Q(II), QSub(QAdd(One, QSq(pp)), QSq(qq))), QMul(Q(2), qq)>>)
         hh   == Dot(vec.evec, gv)
         kk   == Dot(vec.evec, fv)
         X    == Dot(r, fv)
         Y    == Dot(r, gv)
         s    == QSqrt(QSub(One, QAdd(QSq(hh), QSq(kk))))
         b    == QDiv(One, QAdd(One, s))
         dn   == QMul(vec.sma, s)
         hkb  == QMul(QMul(hh, kk), b)
         sinF == QAdd(hh, QDiv(QSub(QMul(QSub(One, QMul(QSq(hh), b)), Y), QMul(hkb, X)), dn))
         cosF == QAdd(kk, QDiv(QSub(QMul(QSub(One, QMul(QSq(kk), b)), X), QMul(hkb, Y)), dn))
         lonq == IF cls.eccentric THEN Atan2Q(hh, kk) ELSE 0
         lam  == IF cls.eccentric THEN TAdd(MeanAnomT(F, el.nu), TQuarter(lonq))     \* lambda = M + (omega + I Omega)
                 ELSE TQuarter(Atan2Q(sinF, cosF))                                  \* eccLong2MeanLong: lambda = F
     IN eqe' = [retro |-> II = -1, h |-> hh, k |-> kk, p |-> pp, q |-> qq, f |-> fv, g |-> gv,
                cosF |-> cosF, sinF |-> sinF, lonq |-> lonq, lam |-> lam]
  /\ pc' = "done" /\ UNCHANGED <<fam, rot, q, rv, vec, cls, el, arc>>

\* C20: a transfer of dq quarter turns (90 deg short way, 270 deg long way) along the same orbit
LambertOk == QLe(F.e, <<7, 10>>)
\* kinds: "q1" / "q3" quarter-turn arcs from the posed anomaly (90 deg short way, 270 deg long way);
\* "meS" / "meL" the minimum-energy arc between the two mirror points, through apoapsis (short way) /
\* through periapsis (long way) - posed once per orbit (q = 0), eccentric families only
\* (the mirror points have denominators (1+e^2): posed for the families whose invariants stay below 2^31)
ArcKinds == {"q1", "q3", "meS", "meL"}
MinEnergyFamilies == {"e35", "e513", "e817", "e725"}
PoseArc == /\ pc = "done" /\ WithArcs /\ LambertOk
           /\ \E k \in ArcKinds : /\ (k \in {"meS", "meL"} => q = 0 /\ fam \in MinEnergyFamilies)
                                  /\ arc' = [kind |-> k]
           /\ pc' = "arcposed" /\ UNCHANGED <<fam, rot, q, rv, vec, cls, el, eqe>>
ComputeArc ==
  /\ pc = "arcposed"
  /\ IF arc.kind \in {"q1", "q3"}
     THEN LET dq  == IF arc.kind = "q1" THEN 1 ELSE 3
              k2  == (q + dq) % 4
              rv2 == StateAt(F, rot, k2)
              dM  == TSub(MeanAnomT(F, k2), MeanAnomT(F, q))
              tof == IF k2 < q THEN TAdd(dM, <<Q(2), Zero, Zero>>) ELSE dM          \* less than one revolution
          IN arc' = [kind |-> arc.kind, dq |-> dq, r1 |-> rv[1], v1 |-> rv[2], r2 |-> rv2[1], v2 |-> rv2[2],
                     cd |-> Q(CosQ(dq)), sd |-> Q(SinQ(dq)), tof |-> tof, tm |-> IF dq = 1 THEN 1 ELSE -1, minenergy |-> FALSE]
     ELSE LET c   == MirrorCos(F)
              s   == MirrorSin(F)
              up  == StateAtCS(F, rot, c, s)                    \* nu = pi - atan(...)  (before apoapsis)
              dn  == StateAtCS(F, rot, c, QNeg(s))              \* nu = pi + atan(...)  (after apoapsis)
              es  == QMul(F.e, SqrtOneMinusE2(F))
              short == arc.kind = "meS"
              \* M(up) = pi - acos e - e s,  M(dn) = pi + acos e + e s
              tof == IF short THEN <<Zero, Q(2), QMul(Q(2), es)>> ELSE <<Q(2), Q(-2), QMul(Q(-2), es)>>
              \* transfer angle: short  -2 nu_up  (mod 2 pi),  long  2 nu_up
              cd  == QMul(QSub(c, s), QAdd(c, s))               \* c^2 - s^2 without squaring the denominators
              sd  == IF short THEN QMul(Q(-2), QMul(s, c)) ELSE QMul(Q(2), QMul(s, c))
          IN arc' = [kind |-> arc.kind, dq |-> 0,
                     r1 |-> IF short THEN up[1] ELSE dn[1], v1 |-> IF short THEN up[2] ELSE dn[2],
                     r2 |-> IF short THEN dn[1] ELSE up[1], v2 |-> IF short THEN dn[2] ELSE up[2],
                     cd |-> cd, sd |-> sd, tof |-> tof, tm |-> IF short THEN 1 ELSE -1, minenergy |-> TRUE]
  /\ pc' = "arcdone" /\ UNCHANGED <<fam, rot, q, rv, vec, cls, el, eqe>>

Next == PoseFamily \/ PoseOrient \/ PoseAnomaly \/ Perifocal1 \/ Rotate \/ Vectors \/ Classify
        \/ Elements \/ Equinoctial \/ PoseArc \/ ComputeArc
Spec == Init /\ [][Next]_vars

\* ------------------------------------------------------------------ theorems
\* every theorem is evaluated in the one state where its ingredients are first complete
\* (later states leave those variables unchanged)
At(stage) == pc = stage

\* v^2 = mu (2/r - 1/a)  - exact
VisViva == At("vectors") =>
  QEq(vec.v2, QMul(Q(F.mu), QSub(QDiv(Q(2), vec.rmag), QDiv(One, Q(F.a)))))
EnergyConst == At("vectors") =>
  /\ QEq(vec.energy, QDiv(Q(-F.mu), Q(2 * F.a)))
  /\ QEq(vec.sma, Q(F.a))
\* h = r x v does not depend on the anomaly: it is rot.(0, 0, sqrt(mu p)) at all four anomalies
HConstant == At("vectors") =>
  /\ VEq(vec.h, MatVec(rot, <<Zero, Zero, HMag(F)>>))
  /\ QEq(Dot(vec.h, rv[1]), Zero) /\ QEq(Dot(vec.h, rv[2]), Zero)
EccVector == At("vectors") =>
  /\ VEq(vec.evec, MatVec(rot, <<F.e, Zero, Zero>>))
  /\ QEq(vec.ecc, F.e) /\ QEq(Dot(vec.h, vec.evec), Zero)
\* r = a (1 - e cos E), perifocal x = a (cos E - e), y = a s sin E
KeplerGeometry == At("vectors") =>
  LET cs == CosSinE(F, q)
      pq == Perifocal(Q(F.mu), Q(F.a), F.e, q)
  IN /\ QEq(vec.rmag, QMul(Q(F.a), QSub(One, QMul(F.e, cs[1]))))
     /\ QEq(pq[1][1], QMul(Q(F.a), QSub(cs[1], F.e)))
     /\ QEq(pq[1][2], QMul(Q(F.a), QMul(SqrtOneMinusE2(F), cs[2])))
     /\ QEq(QAdd(QSq(cs[1]), QSq(cs[2])), One)

\* every angle that the singular case defines is a quarter turn (so it lies in [0, 2 pi)); the anomaly is the posed one
OnLattice == At("elements") =>
  /\ (el.case \in {"IE", "IC"}) => el.raan \in 0..3
  /\ (el.case = "IE") => el.argp \in 0..3
  /\ (el.case \in {"IE", "EE"}) => el.nu = q
  /\ (el.case = "EE") => el.lonper_ccw \in 0..3 /\ el.lonper_motion \in 0..3
  /\ (el.case = "IC") => el.arglat \in 0..3
  /\ (el.case = "EC") => el.truelon_ccw \in 0..3 /\ el.truelon_motion \in 0..3
  /\ QLe(QNeg(One), el.cosi) /\ QLe(el.cosi, One) /\ QLe(Zero, el.sini)
  /\ (el.case \in {"EE", "EC"}) <=> (el.sini[1] = 0)
  /\ (el.case \in {"IC", "EC"}) <=> (el.ecc[1] = 0)

\* coe2eci applied to the extracted elements (undefined angles = 0, composite angle in the
\* slot the implementation documents) gives back the Cartesian state
Composite(ccw, motion) == IF RetroConvention = "ccw" THEN ccw ELSE motion
Rebuild(e, W, w, an) ==
  LET pq == Perifocal(Q(F.mu), e.sma, e.ecc, an)
      M  == MatMul(R3q(W), MatMul(R1(e.cosi, e.sini), R3q(w)))
  IN <<MatVec(M, pq[1]), MatVec(M, pq[2])>>
Reconstruct(e) ==
  Rebuild(e, IF e.case \in {"IE", "IC"} THEN e.raan ELSE 0,
             CASE e.case = "IE" -> e.argp
               [] e.case = "EE" -> Composite(e.lonper_ccw, e.lonper_motion)
               [] OTHER -> 0,
             CASE e.case \in {"IE", "EE"} -> e.nu
               [] e.case = "IC" -> e.arglat
               [] OTHER -> Composite(e.truelon_ccw, e.truelon_motion))
ElementRoundTrip == At("elements") =>
  LET x == Reconstruct(el) IN VEq(x[1], rv[1]) /\ VEq(x[2], rv[2])
\* singularityCheck: on an equatorial orbit a redundant node angle W can be split off the composite
\* angle without changing the orbit: prograde  lon = W + w,  retrograde  lon = w - W
EquatorialSplit == At("elements") => (el.case \in {"EE", "EC"} =>
  \A W \in 0..3 :
    LET sg   == IF el.retro THEN -1 ELSE 1
        comp == IF el.case = "EE" THEN Composite(el.lonper_ccw, el.lonper_motion)
                ELSE Composite(el.truelon_ccw, el.truelon_motion)
        x    == IF el.case = "EE" THEN Rebuild(el, W, (comp - sg * W + 8) % 4, el.nu)
                ELSE Rebuild(el, W, 0, (comp - sg * W + 8) % 4)
    IN VEq(x[1], rv[1]) /\ VEq(x[2], rv[2]))

\* eqe2eci applied to the equinoctial elements gives back the Cartesian state
EquinoctialRoundTrip == At("done") =>
  LET a    == vec.sma
      h2   == QSq(eqe.h)
      k2   == QSq(eqe.k)
      s    == QSqrt(QSub(One, QAdd(h2, k2)))
      b    == QDiv(One, QAdd(One, s))
      hkb  == QMul(QMul(eqe.h, eqe.k), b)
      cF   == eqe.cosF
      sF   == eqe.sinF
      rr   == QMul(a, QSub(One, QAdd(QMul(eqe.h, sF), QMul(eqe.k, cF))))
      vt   == QDiv(QMul(QDiv(One, TimeUnit(F)), QSq(a)), rr)                  \* n a^2 / r
      x    == QMul(a, QSub(QAdd(QMul(QSub(One, QMul(h2, b)), cF), QMul(hkb, sF)), eqe.k))
      y    == QMul(a, QSub(QAdd(QMul(QSub(One, QMul(k2, b)), sF), QMul(hkb, cF)), eqe.h))
      xd   == QMul(vt, QSub(QMul(hkb, cF), QMul(QSub(One, QMul(h2, b)), sF)))
      yd   == QMul(vt, QSub(QMul(QSub(One, QMul(k2, b)), cF), QMul(hkb, sF)))
  IN /\ VEq(VAdd(VScale(x, eqe.f), VScale(y, eqe.g)), rv[1])
     /\ VEq(VAdd(VScale(xd, eqe.f), VScale(yd, eqe.g)), rv[2])
     /\ QEq(rr, vec.rmag)
     /\ QEq(QAdd(QSq(cF), QSq(sF)), One)
     \* the eccentric longitude is E + (longitude of periapsis)
     /\ LET cs == CosSinE(F, q)
            cl == Q(CosQ(eqe.lonq))
            sl == Q(SinQ(eqe.lonq))
        IN cls.eccentric => /\ eqe.lonq \in 0..3
                            /\ QEq(cF, QSub(QMul(cs[1], cl), QMul(cs[2], sl)))
                            /\ QEq(sF, QAdd(QMul(cs[2], cl), QMul(cs[1], sl)))

\* coe2eqe on the classical elements equals eci2eqe on the state (Danielson 2.1.2):
\* h = e sin(w + I W), k = e cos(w + I W), p = tan(i/2)^I sin W, q = tan(i/2)^I cos W
EqeMatchesCoe == At("done") =>
  LET T == IF cls.inclined THEN QDiv(cls.sini, QAdd(One, cls.cosi)) ELSE Zero     \* tan(i/2), or cot(90 deg) for I = -1
      lon == CASE el.case = "IE" -> el.argp + el.raan
               [] el.case = "EE" -> (IF eqe.retro THEN el.lonper_motion ELSE el.lonper_ccw)
               [] OTHER -> 0
  IN /\ QEq(eqe.h, QMul(el.ecc, Q(SinQ(lon))))
     /\ QEq(eqe.k, QMul(el.ecc, Q(CosQ(lon))))
     /\ cls.inclined => /\ QEq(eqe.p, QMul(T, Q(SinQ(el.raan))))
                        /\ QEq(eqe.q, QMul(T, Q(CosQ(el.raan))))
     /\ ~cls.inclined => eqe.p[1] = 0 /\ eqe.q[1] = 0
     /\ cls.eccentric => eqe.lonq = lon % 4

\* C20: both end points lie on one Keplerian orbit ...
ArcSameOrbit == pc = "arcdone" =>
  LET w1 == VectorsOf(Q(F.mu), arc.r1, arc.v1)
      w2 == VectorsOf(Q(F.mu), arc.r2, arc.v2)
  IN /\ VEq(w1.h, vec.h) /\ VEq(w1.evec, vec.evec) /\ QEq(w1.energy, vec.energy)
     /\ VEq(w2.h, vec.h) /\ VEq(w2.evec, vec.evec) /\ QEq(w2.energy, vec.energy)
     /\ (~arc.minenergy => VEq(arc.r1, rv[1]) /\ VEq(arc.v1, rv[2]))
\* ... and are joined by the Lagrange coefficients of the transfer angle (cd, sd) = (cos, sin):
\* r2 = f r1 + g v1,  v2 = fdot r1 + gdot v1,  f gdot - fdot g = 1
ArcLagrange == pc = "arcdone" =>
  LET p    == SemiLatus(F)
      r1   == QSqrt(Dot(arc.r1, arc.r1))
      r2   == QSqrt(Dot(arc.r2, arc.r2))
      cd   == arc.cd
      sd   == arc.sd
      f    == QSub(One, QMul(QDiv(r2, p), QSub(One, cd)))
      g    == QDiv(QMul(r1, QMul(r2, sd)), HMag(F))
      gd   == QSub(One, QMul(QDiv(r1, p), QSub(One, cd)))
      fd   == QDiv(QSub(QMul(f, gd), One), g)
  IN /\ VEq(arc.r2, VAdd(VScale(f, arc.r1), VScale(g, arc.v1)))
     /\ VEq(arc.v2, VAdd(VScale(fd, arc.r1), VScale(gd, arc.v1)))
     \* the transfer angle, counted in the direction of motion, has this cosine and sine
     \* (cd^2 + sd^2 = 1 follows from the two lines by Lagrange's identity)
     /\ QEq(Dot(arc.r1, arc.r2), QMul(r1, QMul(r2, cd)))
     /\ VEq(Cross(arc.r1, arc.r2), VScale(QDiv(QMul(r1, QMul(r2, sd)), cls.hmag), vec.h))
     \* told sense: short way iff the transfer angle is below 180 deg
     /\ arc.tm = (IF QSign(sd) > 0 THEN 1 ELSE -1)
     \* 0 < tof < one period: coefficient check with 3 < pi < 22/7 and 0 < acos(e) <= pi/2
     /\ \/ QSign(arc.tof[2]) = 0 /\ QLt(Zero, arc.tof[1]) /\ QLt(arc.tof[1], Q(2))
        \/ QSign(arc.tof[2]) # 0
\* the mirror-point arcs lie on the minimum-energy ellipse of their chord: r1 + r2 + chord = 4a,
\* so their time of flight is Lambert's t_min (where 2 arcsin sqrt(s / 2a) sits exactly at pi)
ArcMinimumEnergy == pc = "arcdone" =>
  LET r1    == QSqrt(Dot(arc.r1, arc.r1))
      r2    == QSqrt(Dot(arc.r2, arc.r2))
      d     == VSub(arc.r2, arc.r1)
      chord == QSqrt(Dot(d, d))
  IN arc.minenergy <=> QEq(QAdd(QAdd(r1, r2), chord), Q(4 * F.a))

NoOverflow == /\ At("eci") => VSmall(rv[1]) /\ VSmall(rv[2])
              /\ At("vectors") => VSmall(vec.h) /\ VSmall(vec.evec) /\ VSmall(vec.node)

\* ---------------------------------------------------- values for the drivers
Emit == pc = "done" =>
  PrintT("ORBIT " \o ToJson([fam |-> fam, mu |-> F.mu, a |-> F.a, e |-> F.e, s |-> SqrtOneMinusE2(F),
                             tu |-> TimeUnit(F), rot |-> rot, q |-> q, r |-> rv[1], v |-> rv[2],
                             h |-> vec.h, evec |-> vec.evec, energy |-> vec.energy, rmag |-> vec.rmag,
                             el |-> el, eqe |-> [retro |-> eqe.retro, h |-> eqe.h, k |-> eqe.k, p |-> eqe.p,
                                                 q |-> eqe.q, cosF |-> eqe.cosF, sinF |-> eqe.sinF, lam |-> eqe.lam],
                             cosE |-> CosSinE(F, q)[1], sinE |-> CosSinE(F, q)[2],
                             eccanom |-> EccAnomT(F, q), meananom |-> MeanAnomT(F, q)]))
EmitArc == pc = "arcdone" =>
  PrintT("ARC " \o ToJson([fam |-> fam, mu |-> F.mu, a |-> F.a, e |-> F.e, tu |-> TimeUnit(F), rot |-> rot,
                           q |-> q, kind |-> arc.kind, dq |-> arc.dq, minenergy |-> arc.minenergy, tm |-> arc.tm, r1 |-> arc.r1, v1 |-> arc.v1,
                           r2 |-> arc.r2, v2 |-> arc.v2, tof |-> arc.tof, case |-> el.case, retro |-> el.retro]))

\* which elements each singular case defines (read by the driver for non-lattice orbits, so that
\* the table lives in one place): singularityCheck / ClassicalElements docstring
CaseTable == [ IE |-> [raan |-> TRUE,  argp |-> TRUE,  anomaly |-> "true_anomaly",     argp_slot |-> "argument_periapsis"],
               EE |-> [raan |-> FALSE, argp |-> TRUE,  anomaly |-> "true_anomaly",     argp_slot |-> "true_longitude_periapsis"],
               IC |-> [raan |-> TRUE,  argp |-> FALSE, anomaly |-> "argument_latitude", argp_slot |-> "none"],
               EC |-> [raan |-> FALSE, argp |-> FALSE, anomaly |-> "true_longitude",    argp_slot |-> "none"] ]
EmitCases == pc = "start" => PrintT("CASES " \o ToJson(CaseTable))
=============================================================================
