SPECIFICATION Spec
CONSTANTS Clients = {"c1","c2"}
  RawKeys = {"k1","k2"}
  CacheKeys = {"k2"}
  Atoms = {"a","b"}
  SetLists <- Lists0
  Indexes <- IdxAll
  MaxLen = 2
  Records = {"r1","r2","r3"}
  CacheSizes = {0,1,2}
  Paths = {}
  Payloads = {}
  MaxPush = 0
  Times <- NoTimes
  RedMax = 128
  Ops = {"set","get","append","pop","flush","dump","xset","init","put","grab"}
  Dev = "none"
  EmitEdges = FALSE
VIEW NoLastView
INVARIANT TypeOK
INVARIANT ExclusiveSetAtMostOnce
INVARIANT WrittenConsistent
INVARIANT EvGhostAligned
INVARIANT PushedEventsFlushedExactlyOnce
INVARIANT FlusherFIFO
INVARIANT CacheBounded
INVARIANT ReductionCacheConsistent
INVARIANT ReductionPutsSurvive
PROPERTY ExclusiveSetNeverOverwrites
PROPERTY SetDBPathExactlyOnce
PROPERTY DbPathStable
PROPERTY GetConnReflectsPath
PROPERTY ClearDBPathUnsets
PROPERTY GetReturnsLastSet
PROPERTY FlushEmpties
PROPERTY PopRemovesWhatItReturns
PROPERTY AppendKeepsOrder
PROPERTY FlushLeavesStackEmpty
PROPERTY CacheMRU
PROPERTY CacheEvictsOnlyLRU
PROPERTY CacheNeverServesPurged
PROPERTY ReductionRaceBenign
