---------------------------- MODULE KeyValueStore ----------------------------
(***************************************************************************)
(* G01 (spec growth): the process-wide key-value store of resonaate as a    *)
(* LINEARIZABLE OBJECT, and the three protocols the simulator builds on it. *)
(*                                                                         *)
(* Mirrors                                                                 *)
(*   parallel/key_value_store/key_value_store.py  _KVSActor.executeTransaction (one  *)
(*       transaction = one atomic step: that is the actor's contract), KeyValueStore *)
(*       facade (getValue setValue appendValue popValue initCache cachePut cacheGrab *)
(*       dump flush);                                                       *)
(*   set_/get_/append_/pop_/flush_/dump_transaction.py  transact();         *)
(*   cache_transactions.py  InitCache CachePut CacheGrab, Cache.getRecord / putRecord *)
(*       (bounded, least-recently-used record purged; there is NO time-based expiry  *)
(*       in the code: validity of a record = it has not been purged);       *)
(*   data/db_connection.py  ExclusiveSet, _GetDBConnection, setDBPath, clearDBPath,  *)
(*       getDBConnection;                                                   *)
(*   dynamics/integration_events/event_stack.py  EventStack.pushEvent,      *)
(*       logAndFlushEvents (pop index 0 until a falsy reply);               *)
(*   physics/transforms/reductions.py  CachedReductionParams.build (grab; on an      *)
(*       uninitialised cache init - a lost init race is suppressed -; compute; put;  *)
(*       first the polar-motion cache keyed by date, then the precession-nutation    *)
(*       cache keyed by minute).                                            *)
(*                                                                         *)
(* State: store = the actor's dictionary, a function AllKeys -> value with  *)
(* value = [t, a, l, m]:  t = "absent" (no such key) | "none" | "atom" (a truthy     *)
(* scalar a) | "list" (l = sequence of atoms) | "cache" (m = max_size, l = sequence  *)
(* of <<record, atom>> in least-recently-used-first order).                 *)
(* Several clients issue transactions in any interleaving; a client inside a         *)
(* multi-transaction protocol call is parked in pc[c] between its transactions.      *)
(* `last` is the transaction just executed (who, which call, arguments, reply).      *)
(*                                                                         *)
(* Python truthiness is part of the documented-by-use contract: clearDBPath stores   *)
(* None and setDBPath must succeed afterwards, so ExclusiveSet refuses only a TRUTHY *)
(* value; append / pop treat None, a missing key and [] alike; InitCache and         *)
(* _GetDBConnection test `is None`.  Falsy scalars (0, "", False) are outside the    *)
(* modelled domain.                                                        *)
(*                                                                         *)
(* Properties (state invariants and action properties over `last'`):        *)
(*   ExclusiveSetAtMostOnce, ExclusiveSetNeverOverwrites, SetDBPathExactlyOnce,      *)
(*   ClearDBPathUnsets, DbPathStable, GetConnReflectsPath,                  *)
(*   GetReturnsLastSet (+ WrittenConsistent),                               *)
(*   FlushEmpties, PopRemovesWhatItReturns, AppendKeepsOrder,               *)
(*   PushedEventsFlushedExactlyOnce, EvGhostAligned, FlusherFIFO,           *)
(*   FlushLeavesStackEmpty, NoEventLost (configurations without a store flush),      *)
(*   CacheBounded, CacheMRU, CacheEvictsOnlyLRU, CacheNeverServesPurged,    *)
(*   ReductionCacheConsistent, ReductionPutsSurvive, ReductionRaceBenign.   *)
(* Ghost variables (evIds, pushed, deliveredAll, dup, lost, written, owners, built)  *)
(* never influence the store or a reply.                                    *)
(*                                                                         *)
(* Configurations (harness/drivers/g01.py): MCKeyValueStore_{prim,prim_quick,db,ev,  *)
(* ev_hostile,ev_hostile_quick,red,red_flush}.cfg exhaustive with every property;    *)
(* MCKeyValueStore_{prim_edges,prim_edges_thorough,proto_edges}.cfg print every      *)
(* transition for replay into the real store; SimKeyValueStore_{all,proto}.cfg give  *)
(* random behaviours; TraceKeyValueStore.tla validates recorded transactions.        *)
(* Dev # "none" switches on one named deviation that TLC must refute.       *)
(***************************************************************************)
EXTENDS Integers, Sequences, FiniteSets, TLC, Json

CONSTANTS Clients,     \* client processes
          RawKeys,     \* keys addressed by raw element / sequence transactions
          CacheKeys,   \* keys addressed by raw cache transactions
          Atoms,       \* truthy scalar payloads of raw transactions
          SetLists,    \* list payloads of raw Set
          Indexes,     \* pop indexes
          MaxLen,      \* raw Append only while the list is shorter (state-space bound)
          Records, CacheSizes,
          Paths,       \* database paths
          Payloads,    \* serialized event records
          MaxPush,     \* bound on the number of appends to the event stack
          Times, RedMax,   \* reduction protocol: instants [d |-> date record, m |-> minute record]; max_size of its caches
          Ops,         \* names of the calls clients may start
          EmitEdges,   \* print one EDGE line per generated transition (spec -> impl replay)
          Dev          \* "none" = as documented; otherwise a named deviation (spec mutant) that TLC must refute:
                       \* "xset_overwrites" "pop_keeps" "flush_keeps_keys" "init_clears" "evict_mru" "flush_stops_early"

VARIABLES store, pc, loc, got, last,
          evIds, pushed, deliveredAll, dup, lost, written, owners, built
vars == <<store, pc, loc, got, last, evIds, pushed, deliveredAll, dup, lost, written, owners, built>>

DbKey == "db_path"
EvKey == "event_stack"
PmKey == "fk5_polar_motion"
PnKey == "fk5_prec_nut"
AllKeys == RawKeys \cup CacheKeys \cup {DbKey, EvKey, PmKey, PnKey}

\* ---------------------------------------------------------------- values
V(t, a, l, m) == [t |-> t, a |-> a, l |-> l, m |-> m]
Absent    == V("absent", "", <<>>, 0)
NoneV     == V("none", "", <<>>, 0)
AtomV(a)  == V("atom", a, <<>>, 0)
ListV(l)  == V("list", "", l, 0)
CacheV(m, l) == V("cache", "", l, m)
Unknown   == V("unknown", "", <<>>, 0)

Truthy(v) == v.t \in {"atom", "cache"} \/ (v.t = "list" /\ v.l # <<>>)
IsNone(v) == v.t \in {"absent", "none"}          \* dict.get(key) is None
GetView(v) == IF v.t = "absent" THEN NoneV ELSE v

Range(s) == {s[i] : i \in DOMAIN s}
RemoveAt(s, p) == SubSeq(s, 1, p - 1) \o SubSeq(s, p + 1, Len(s))
PopPos(l, i) == IF i >= 0 THEN i + 1 ELSE Len(l) + i + 1     \* python index -> 1-based position
RecNames(l) == {l[i][1] : i \in DOMAIN l}
Without(l, r) == SelectSeq(l, LAMBDA e : e[1] # r)
Entry(l, r) == CHOOSE e \in Range(l) : e[1] = r

\* ---------------------------------------------------------------- replies
Val(v)  == [k |-> "value", v |-> v, e |-> ""]
Err(e)  == [k |-> "error", v |-> NoneV, e |-> e]
Echo    == [k |-> "echo", v |-> NoneV, e |-> ""]      \* reply echoes the arguments
Empty   == [k |-> "empty", v |-> NoneV, e |-> ""]     \* flush replies with the emptied dictionary
Dumped  == [k |-> "dumped", v |-> NoneV, e |-> ""]    \* dump replies None; the file holds the dictionary
NoRes   == [k |-> "none", v |-> NoneV, e |-> ""]
IsOk(r) == r.k # "error"

Arg(v, i, r, clear, m) == [v |-> v, i |-> i, r |-> r, clear |-> clear, m |-> m]
NoArg == Arg(NoneV, 0, "", FALSE, 0)

\* ---------------------------------------------------------------- transaction effects
\* each: [s |-> dictionary afterwards, r |-> reply]   (transact() of the transaction class)
Same(s, r) == [s |-> s, r |-> r]
Put1(s, k, v, r) == [s |-> [s EXCEPT ![k] = v], r |-> r]

SetEff(s, k, v)  == Put1(s, k, v, Val(v))                          \* SetTransaction
GetEff(s, k)     == Same(s, Val(GetView(s[k])))                    \* GetTransaction
AppendEff(s, k, a) ==                                              \* AppendTransaction
  IF Truthy(s[k])
    THEN IF s[k].t = "list" THEN LET nv == ListV(Append(s[k].l, a)) IN Put1(s, k, nv, Val(nv))
                            ELSE Same(s, Err("TypeError"))
    ELSE Put1(s, k, ListV(<<a>>), Val(ListV(<<a>>)))
PopEff(s, k, i) ==                                                 \* PopTransaction
  IF Truthy(s[k])
    THEN IF s[k].t = "list"
           THEN LET p == PopPos(s[k].l, i) IN
                IF p \in 1..Len(s[k].l) THEN Put1(s, k, IF Dev = "pop_keeps" THEN s[k] ELSE ListV(RemoveAt(s[k].l, p)),
                                                   Val(AtomV(s[k].l[p])))
                                        ELSE Same(s, Val(NoneV))   \* IndexError swallowed
           ELSE Same(s, Err("TypeError"))
    ELSE Same(s, Val(NoneV))
FlushEff(s) == [s |-> [k \in AllKeys |-> IF Dev = "flush_keeps_keys" /\ s[k] # Absent THEN NoneV ELSE Absent],
                r |-> Empty]                                        \* FlushTransaction
DumpEff(s)  == Same(s, Dumped)                                     \* DumpTransaction
XSetEff(s, k, v) ==                                                \* db_connection.ExclusiveSet
  IF Truthy(s[k]) /\ Dev # "xset_overwrites" THEN Same(s, Err("KeyError")) ELSE Put1(s, k, v, Val(v))
GetConnEff(s) ==                                                   \* db_connection._GetDBConnection
  IF IsNone(s[DbKey]) THEN Same(s, Err("DBConnectionError")) ELSE Same(s, Val(s[DbKey]))
InitEff(s, k, clear, m) ==                                         \* InitCache
  IF ~IsNone(s[k]) /\ ~clear THEN Same(s, Err("ValueAlreadySetError")) ELSE Put1(s, k, CacheV(m, <<>>), Echo)
PutEff(s, k, r, a) ==                                              \* CachePut / Cache.putRecord
  IF s[k].t # "cache" THEN Same(s, Err("UninitializedCacheError"))
  ELSE LET added == Append(Without(s[k].l, r), <<r, a>>)
           kept  == IF Len(added) > s[k].m
                      THEN (IF Dev = "evict_mru" /\ Len(added) >= 2 THEN RemoveAt(added, Len(added) - 1) ELSE Tail(added))
                      ELSE added
       IN Put1(s, k, CacheV(s[k].m, kept), Echo)
GrabEff(s, k, r) ==                                                \* CacheGrab / Cache.getRecord
  IF s[k].t # "cache" THEN Same(s, Err("UninitializedCacheError"))
  ELSE IF r \notin RecNames(s[k].l) THEN Same(s, Err("CacheMissError"))
  ELSE LET e == Entry(s[k].l, r) IN Put1(s, k, CacheV(s[k].m, Append(Without(s[k].l, r), e)), Val(AtomV(e[2])))

\* ---------------------------------------------------------------- ghosts
PopHit(tx, key, arg, eff) == tx = "pop" /\ eff.r.k = "value" /\ eff.r.v.t = "atom"
Ghosts(c, op, tx, key, arg, eff) ==
  LET old == store[EvKey]
      new == eff.s[EvKey]
      evAppend == tx = "append" /\ key = EvKey /\ IsOk(eff.r)
      evPop    == key = EvKey /\ PopHit(tx, key, arg, eff)
      p        == PopPos(evIds, arg.i)
      wiped    == ~evAppend /\ ~evPop /\ new # old
      \* a raw write of a whole list onto the stack key stacks its elements as new events
      fresh    == IF new.t = "list" THEN [i \in 1..Len(new.l) |-> pushed + i] ELSE <<>>
  IN
  /\ evIds' = IF evAppend THEN Append(evIds, pushed + 1)
              ELSE IF evPop THEN RemoveAt(evIds, p)
              ELSE IF wiped THEN fresh ELSE evIds
  /\ pushed' = IF evAppend THEN pushed + 1 ELSE IF wiped THEN pushed + Len(fresh) ELSE pushed
  /\ deliveredAll' = IF evPop /\ op = "logAndFlush" THEN deliveredAll \cup {evIds[p]} ELSE deliveredAll
  /\ dup' = (dup \/ (evPop /\ op = "logAndFlush" /\ evIds[p] \in deliveredAll))
  /\ lost' = IF evPop /\ op # "logAndFlush" THEN lost \cup {evIds[p]}
             ELSE IF wiped THEN lost \cup Range(evIds) ELSE lost
  /\ got' = IF op = "logAndFlush"
              THEN [got EXCEPT ![c] = IF pc[c] = "idle" THEN (IF evPop THEN <<evIds[p]>> ELSE <<>>)
                                      ELSE (IF evPop THEN Append(got[c], evIds[p]) ELSE got[c])]
              ELSE got
  /\ written' = [k \in AllKeys |->
                   IF tx \in {"set", "xset"} /\ key = k /\ IsOk(eff.r) THEN arg.v
                   ELSE IF eff.s[k] # store[k] THEN Unknown ELSE written[k]]
  /\ owners' = [k \in AllKeys |->
                   IF ~Truthy(eff.s[k]) THEN {}
                   ELSE IF tx = "xset" /\ key = k /\ IsOk(eff.r) THEN owners[k] \cup {c} ELSE owners[k]]
  /\ built' = LET keep == {b \in built : eff.s[b[1]].t = "cache"}
              IN IF op = "reduction" /\ tx = "put" /\ IsOk(eff.r) THEN keep \cup {<<key, arg.r>>} ELSE keep

\* only the keys that exist are printed
Compact(s) == [k \in {x \in AllKeys : s[x] # Absent} |-> s[k]]
\* one atomic transaction `tx` of call `op` by client c; afterwards c is at npc
Commit(c, op, tx, key, arg, eff, npc, nloc, opres) ==
  /\ store' = eff.s
  /\ pc' = [pc EXCEPT ![c] = npc]
  /\ loc' = [loc EXCEPT ![c] = nloc]
  /\ last' = [c |-> c, op |-> op, tx |-> tx, key |-> key, arg |-> arg, res |-> eff.r,
              done |-> (npc = "idle"), opres |-> opres]
  /\ Ghosts(c, op, tx, key, arg, eff)
  /\ (EmitEdges => PrintT("EDGE " \o ToJson([from |-> Compact(store), to |-> Compact(eff.s), idle |-> (\A d \in Clients : pc[d] = "idle"),
                                              c |-> c, op |-> op, tx |-> tx, key |-> key, arg |-> arg, res |-> eff.r,
                                              done |-> (npc = "idle"), opres |-> opres])))

OpRes(r) == IF IsOk(r) THEN "ok" ELSE r.e
NoLoc == [d |-> "", m |-> ""]
Idle(c) == pc[c] = "idle"
\* a single-transaction call
One(c, op, tx, key, arg, eff) == Idle(c) /\ Commit(c, op, tx, key, arg, eff, "idle", NoLoc, OpRes(eff.r))

\* ---------------------------------------------------------------- raw transactions (facade)
Set(c, k, v)      == One(c, "set", "set", k, Arg(v, 0, "", FALSE, 0), SetEff(store, k, v))
Get(c, k)         == One(c, "get", "get", k, NoArg, GetEff(store, k))
AppendTx(c, k, a) == One(c, "append", "append", k, Arg(AtomV(a), 0, "", FALSE, 0), AppendEff(store, k, a))
Pop(c, k, i)      == One(c, "pop", "pop", k, Arg(NoneV, i, "", FALSE, 0), PopEff(store, k, i))
Flush(c)          == One(c, "flush", "flush", "", NoArg, FlushEff(store))
\* json.dump of the dictionary: defined while every stored value is JSON-serialisable (no Cache object)
Dump(c)           == (\A k \in AllKeys : store[k].t # "cache") /\ One(c, "dump", "dump", "", NoArg, DumpEff(store))
XSet(c, k, v)     == One(c, "xset", "xset", k, Arg(v, 0, "", FALSE, 0), XSetEff(store, k, v))
InitCache(c, k, clear, m) == One(c, "init", "init", k, Arg(NoneV, 0, "", clear, m), InitEff(store, k, clear, m))
CachePut(c, k, r, a)  == One(c, "put", "put", k, Arg(AtomV(a), 0, r, FALSE, 0), PutEff(store, k, r, a))
CacheGrab(c, k, r)    == One(c, "grab", "grab", k, Arg(NoneV, 0, r, FALSE, 0), GrabEff(store, k, r))

\* ---------------------------------------------------------------- db_connection protocol
SetDBPath(c, p) ==
  LET eff == XSetEff(store, DbKey, AtomV(p)) IN
  Idle(c) /\ Commit(c, "setDBPath", "xset", DbKey, Arg(AtomV(p), 0, "", FALSE, 0), eff, "idle", NoLoc,
                    IF IsOk(eff.r) THEN "ok" ELSE "DBConnectionError")      \* KeyError is re-raised as DBConnectionError
ClearDBPath(c) == Idle(c) /\ Commit(c, "clearDBPath", "set", DbKey, Arg(NoneV, 0, "", FALSE, 0),
                                    SetEff(store, DbKey, NoneV), "idle", NoLoc, "ok")
GetDBConnection(c) == One(c, "getDBConnection", "getconn", DbKey, NoArg, GetConnEff(store))

\* ---------------------------------------------------------------- EventStack protocol
PushEvent(c, p) == One(c, "pushEvent", "append", EvKey, Arg(AtomV(p), 0, "", FALSE, 0), AppendEff(store, EvKey, p))
\* logAndFlushEvents: pop index 0 until the reply is falsy (None); a TypeError propagates
FlushPop(c) ==
  LET eff == PopEff(store, EvKey, 0)
      more == eff.r.k = "value" /\ eff.r.v.t = "atom" /\ Dev # "flush_stops_early"
  IN Commit(c, "logAndFlush", "pop", EvKey, Arg(NoneV, 0, "", FALSE, 0), eff,
            IF more THEN "flush" ELSE "idle", NoLoc, IF more THEN "" ELSE OpRes(eff.r))
LogFlushBegin(c) == Idle(c) /\ FlushPop(c)
LogFlushStep(c)  == pc[c] = "flush" /\ FlushPop(c)

\* ---------------------------------------------------------------- CachedReductionParams.build
PmVal(d) == "pm:" \o d          \* the PolarMotion computed for date d
PnVal(m) == "pn:" \o m          \* the PrecessionNutation computed for minute m
AfterGrab(r, hit, init, put) == IF IsOk(r) THEN hit ELSE IF r.e = "UninitializedCacheError" THEN init ELSE put
RedStart(c, d, m) ==
  LET eff == GrabEff(store, PmKey, d) IN
  Idle(c) /\ Commit(c, "reduction", "grab", PmKey, Arg(NoneV, 0, d, FALSE, 0), eff,
                    AfterGrab(eff.r, "pn_grab", "pm_init", "pm_put"), [d |-> d, m |-> m], "")
RedPmInit(c) ==      \* a lost init race (ValueAlreadySetError) is suppressed
  pc[c] = "pm_init" /\ Commit(c, "reduction", "init", PmKey, Arg(NoneV, 0, "", Dev = "init_clears", RedMax),
                              InitEff(store, PmKey, Dev = "init_clears", RedMax), "pm_put", loc[c], "")
RedPmPut(c) ==
  LET eff == PutEff(store, PmKey, loc[c].d, PmVal(loc[c].d)) IN
  pc[c] = "pm_put" /\ Commit(c, "reduction", "put", PmKey, Arg(AtomV(PmVal(loc[c].d)), 0, loc[c].d, FALSE, 0), eff,
                             IF IsOk(eff.r) THEN "pn_grab" ELSE "idle", IF IsOk(eff.r) THEN loc[c] ELSE NoLoc,
                             IF IsOk(eff.r) THEN "" ELSE eff.r.e)
RedPnGrab(c) ==
  LET eff == GrabEff(store, PnKey, loc[c].m)
      npc == AfterGrab(eff.r, "idle", "pn_init", "pn_put")
  IN pc[c] = "pn_grab" /\ Commit(c, "reduction", "grab", PnKey, Arg(NoneV, 0, loc[c].m, FALSE, 0), eff,
                                 npc, IF npc = "idle" THEN NoLoc ELSE loc[c], IF npc = "idle" THEN "ok" ELSE "")
RedPnInit(c) ==
  pc[c] = "pn_init" /\ Commit(c, "reduction", "init", PnKey, Arg(NoneV, 0, "", Dev = "init_clears", RedMax),
                              InitEff(store, PnKey, Dev = "init_clears", RedMax), "pn_put", loc[c], "")
RedPnPut(c) ==
  LET eff == PutEff(store, PnKey, loc[c].m, PnVal(loc[c].m)) IN
  pc[c] = "pn_put" /\ Commit(c, "reduction", "put", PnKey, Arg(AtomV(PnVal(loc[c].m)), 0, loc[c].m, FALSE, 0), eff,
                             "idle", NoLoc, OpRes(eff.r))

\* ---------------------------------------------------------------- behaviours
InitWith(s0) ==
  /\ store = s0
  /\ pc = [c \in Clients |-> "idle"] /\ loc = [c \in Clients |-> NoLoc] /\ got = [c \in Clients |-> <<>>]
  /\ last = [c |-> "", op |-> "", tx |-> "", key |-> "", arg |-> NoArg, res |-> NoRes, done |-> TRUE, opres |-> ""]
  \* events already on the stack when observation starts get the ghost ids 1..n
  /\ evIds = IF s0[EvKey].t = "list" THEN [i \in 1..Len(s0[EvKey].l) |-> i] ELSE <<>>
  /\ pushed = Len(evIds) /\ deliveredAll = {} /\ dup = FALSE /\ lost = {}
  /\ written = [k \in AllKeys |-> Unknown] /\ owners = [k \in AllKeys |-> {}] /\ built = {}
Init == InitWith([k \in AllKeys |-> Absent])

SetVals == {NoneV} \cup {AtomV(a) : a \in Atoms} \cup {ListV(l) : l \in SetLists}
On(name) == name \in Ops
\* one named action per call (TLC reports coverage and counterexample steps under these names)
N_Set    == On("set")    /\ \E c \in Clients, k \in RawKeys, v \in SetVals :
                              (k = EvKey => pushed + Len(v.l) <= MaxPush) /\ Set(c, k, v)
N_Get    == On("get")    /\ \E c \in Clients, k \in RawKeys \cup CacheKeys : Get(c, k)
N_Append == On("append") /\ \E c \in Clients, k \in RawKeys, a \in Atoms :
                              /\ (k = EvKey => pushed < MaxPush)
                              /\ (store[k].t = "list" => Len(store[k].l) < MaxLen)
                              /\ AppendTx(c, k, a)
N_Pop    == On("pop")    /\ \E c \in Clients, k \in RawKeys, i \in Indexes : Pop(c, k, i)
N_Flush  == On("flush")  /\ \E c \in Clients : Flush(c)
N_Dump   == On("dump")   /\ \E c \in Clients : Dump(c)
N_XSet   == On("xset")   /\ \E c \in Clients, k \in RawKeys, a \in Atoms : XSet(c, k, AtomV(a))
N_Init   == On("init")   /\ \E c \in Clients, k \in CacheKeys, clear \in BOOLEAN, m \in CacheSizes : InitCache(c, k, clear, m)
N_Put    == On("put")    /\ \E c \in Clients, k \in CacheKeys, r \in Records, a \in Atoms : CachePut(c, k, r, a)
N_Grab   == On("grab")   /\ \E c \in Clients, k \in CacheKeys, r \in Records : CacheGrab(c, k, r)
N_SetDBPath       == On("setDBPath")       /\ \E c \in Clients, p \in Paths : SetDBPath(c, p)
N_ClearDBPath     == On("clearDBPath")     /\ \E c \in Clients : ClearDBPath(c)
N_GetDBConnection == On("getDBConnection") /\ \E c \in Clients : GetDBConnection(c)
N_PushEvent       == On("pushEvent")       /\ pushed < MaxPush /\ \E c \in Clients, p \in Payloads : PushEvent(c, p)
N_LogFlushBegin   == On("logAndFlush")     /\ \E c \in Clients : LogFlushBegin(c)
N_LogFlushStep    == \E c \in Clients : LogFlushStep(c)
N_RedStart        == On("reduction")       /\ \E c \in Clients, t \in Times : RedStart(c, t.d, t.m)
N_RedPmInit == \E c \in Clients : RedPmInit(c)
N_RedPmPut  == \E c \in Clients : RedPmPut(c)
N_RedPnGrab == \E c \in Clients : RedPnGrab(c)
N_RedPnInit == \E c \in Clients : RedPnInit(c)
N_RedPnPut  == \E c \in Clients : RedPnPut(c)
Next ==
  \/ N_Set \/ N_Get \/ N_Append \/ N_Pop \/ N_Flush \/ N_Dump \/ N_XSet \/ N_Init \/ N_Put \/ N_Grab
  \/ N_SetDBPath \/ N_ClearDBPath \/ N_GetDBConnection
  \/ N_PushEvent \/ N_LogFlushBegin \/ N_LogFlushStep
  \/ N_RedStart \/ N_RedPmInit \/ N_RedPmPut \/ N_RedPnGrab \/ N_RedPnInit \/ N_RedPnPut
Spec == Init /\ [][Next]_vars

\* ================================================================ properties
\* action properties speak about real transactions only (a step that leaves every variable unchanged is stuttering)
Real == vars' # vars
\* ---- ExclusiveSet / database path
\* since the key last held a falsy value at most one ExclusiveSet on it has succeeded
ExclusiveSetAtMostOnce == \A k \in AllKeys : Cardinality(owners[k]) <= 1
ExclusiveSetNeverOverwrites ==
  [][Real => (last'.tx = "xset" =>
       IF Truthy(store[last'.key]) THEN store' = store /\ last'.res = Err("KeyError")
       ELSE store' = [store EXCEPT ![last'.key] = last'.arg.v] /\ last'.res = Val(last'.arg.v))]_vars
\* setDBPath succeeds exactly when no path is set, otherwise raises DBConnectionError and changes nothing
SetDBPathExactlyOnce ==
  [][Real => (last'.op = "setDBPath" =>
       /\ (last'.opres = "ok") = ~Truthy(store[DbKey])
       /\ (last'.opres = "ok" => store'[DbKey] = last'.arg.v)
       /\ (last'.opres # "ok" => last'.opres = "DBConnectionError" /\ store' = store))]_vars
\* an established path is never changed by setDBPath / getDBConnection (only clearDBPath, flush, raw writes)
DbPathStable ==
  [][Real => (Truthy(store[DbKey]) /\ last'.op \in {"setDBPath", "getDBConnection"} => store'[DbKey] = store[DbKey])]_vars
\* getDBConnection hands out the path that is set, and fails exactly when none is ("is None")
GetConnReflectsPath ==
  [][Real => (last'.op = "getDBConnection" =>
       IF IsNone(store[DbKey]) THEN last'.opres = "DBConnectionError" ELSE last'.res = Val(store[DbKey]))]_vars
\* clearDBPath leaves the key holding None, hence (SetDBPathExactlyOnce) setDBPath works again
ClearDBPathUnsets == [][Real => (last'.op = "clearDBPath" => store'[DbKey] = NoneV /\ last'.opres = "ok")]_vars

\* ---- get / set
WrittenConsistent == \A k \in AllKeys : written[k] # Unknown => store[k] = written[k]
GetReturnsLastSet ==
  [][Real => (last'.tx = "get" /\ written[last'.key] # Unknown =>
       last'.res = Val(GetView(written[last'.key])) /\ store' = store)]_vars
FlushEmpties == [][Real => (last'.tx = "flush" => \A k \in AllKeys : store'[k] = Absent)]_vars

\* ---- sequences
PopRemovesWhatItReturns ==
  [][Real => (PopHit(last'.tx, last'.key, last'.arg, [r |-> last'.res]) =>
       LET k == last'.key  p == PopPos(store[k].l, last'.arg.i) IN
       /\ last'.res.v.a = store[k].l[p]
       /\ store'[k] = ListV(RemoveAt(store[k].l, p)))]_vars
AppendKeepsOrder ==
  [][Real => (last'.tx = "append" /\ IsOk(last'.res) =>
       LET k == last'.key IN
       /\ store'[k].t = "list" /\ last'.res = Val(store'[k])
       /\ store'[k].l = (IF Truthy(store[k]) THEN store[k].l ELSE <<>>) \o <<last'.arg.v.a>>)]_vars

\* ---- event stack
Disjoint(A, B) == A \cap B = {}
EvGhostAligned == Len(evIds) = (IF store[EvKey].t = "list" THEN Len(store[EvKey].l) ELSE 0)
\* every pushed event is in exactly one place: still stacked, handed to exactly one logAndFlushEvents call
\* exactly once, or wiped by a store-level flush / raw write
PushedEventsFlushedExactlyOnce ==
  /\ ~dup
  /\ Cardinality(Range(evIds)) = Len(evIds)
  /\ 1..pushed = Range(evIds) \cup deliveredAll \cup lost
  /\ Disjoint(Range(evIds), deliveredAll) /\ Disjoint(Range(evIds), lost) /\ Disjoint(deliveredAll, lost)
NoEventLost == lost = {}
FlusherFIFO == \A c \in Clients : \A i, j \in DOMAIN got[c] : i < j => got[c][i] < got[c][j]
\* at the instant logAndFlushEvents returns normally the stack is empty
FlushLeavesStackEmpty ==
  [][Real => (last'.op = "logAndFlush" /\ last'.done /\ last'.opres = "ok" => ~Truthy(store'[EvKey]))]_vars

\* ---- caches
CacheBounded ==
  \A k \in AllKeys : store[k].t = "cache" =>
     /\ Len(store[k].l) <= store[k].m
     /\ Cardinality(RecNames(store[k].l)) = Len(store[k].l)
\* a record just stored or served is the most recently used one
CacheMRU ==
  [][Real => (last'.tx \in {"put", "grab"} /\ IsOk(last'.res) /\ store'[last'.key].m >= 1 =>
       LET l == store'[last'.key].l IN l # <<>> /\ l[Len(l)][1] = last'.arg.r)]_vars
\* a put purges at most one other record, and only the least recently used one
CacheEvictsOnlyLRU ==
  [][Real => (last'.tx = "put" /\ IsOk(last'.res) =>
       LET old == store[last'.key].l  new == store'[last'.key].l
           gone == (RecNames(old) \ RecNames(new)) \ {last'.arg.r}
       IN /\ Cardinality(gone) <= 1
          /\ \A r \in gone : r = Without(old, last'.arg.r)[1][1] /\ Len(Without(old, last'.arg.r)) >= store[last'.key].m
          /\ \A e \in Range(old) : (e[1] # last'.arg.r /\ e[1] \notin gone) => e \in Range(new))]_vars
\* a grab serves exactly what the cache holds for that record; a purged / never stored record is a miss
CacheNeverServesPurged ==
  [][Real => (last'.tx = "grab" /\ store[last'.key].t = "cache" =>
       IF last'.arg.r \in RecNames(store[last'.key].l)
         THEN last'.res = Val(AtomV(Entry(store[last'.key].l, last'.arg.r)[2]))
         ELSE last'.res = Err("CacheMissError") /\ store' = store)]_vars

\* ---- reduction parameter caches
\* whatever is cached under a date / minute is the value computed for that date / minute
ReductionCacheConsistent ==
  /\ store[PmKey].t = "cache" => \A e \in Range(store[PmKey].l) : e[2] = PmVal(e[1])
  /\ store[PnKey].t = "cache" => \A e \in Range(store[PnKey].l) : e[2] = PnVal(e[1])
\* a record put by a completed step of build() stays cached while the cache object exists (no other
\* client's init wipes it: the init race is resolved by clear_existing = False)
ReductionPutsSurvive ==
  RedMax >= Cardinality(Times) =>
     \A b \in built : store[b[1]].t = "cache" /\ b[2] \in RecNames(store[b[1]].l)
\* without a store-level flush concurrent builds never fail
ReductionRaceBenign ==
  [][Real => (last'.op = "reduction" /\ last'.done /\ ~On("flush") => last'.opres = "ok")]_vars

TypeOK ==
  /\ \A k \in AllKeys : store[k].t \in {"absent", "none", "atom", "list", "cache"}
  /\ \A c \in Clients : pc[c] \in {"idle", "flush", "pm_init", "pm_put", "pn_grab", "pn_init", "pn_put"}
  /\ pushed <= MaxPush

=============================================================================
