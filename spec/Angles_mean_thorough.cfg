SPECIFICATION SpecMean
CONSTANTS Algs = {"scalar"} VecReduceAsCoded = FALSE VecRecentreAsCoded = FALSE
CONSTANT TurnsA <- Turns0
CONSTANT TurnsB <- Turns0
CONSTANT MOffs <- OffsThorough
CONSTANT MW0 <- W0Thorough
CONSTANT MW1 <- W1All
CONSTANT MTurns <- MTurnsThorough
CONSTANT MRefCentres <- Ticks
CONSTANTS MMaxLen = 3 MMaxGroup = 1
INVARIANT MeanIsFunctionOfAngles
INVARIANT MeanEquivariant
INVARIANT MeanMatchesDefinition
INVARIANT MeanSymmetric
INVARIANT MeanInHull
INVARIANT EmitMean
PROPERTY GroupKeepsMean
