---------------------------- MODULE MCOutputStore ----------------------------
(* Constant sets for the configurations of OutputStore.tla (G05). *)
EXTENDS OutputStore
IdsAll   == SUBSET Agents
IdsThree == {{}, {1}, Agents}
=============================================================================
