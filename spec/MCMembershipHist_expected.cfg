\* Counterexample search for ONE expected-consistency invariant (layer 2) on the as-coded machine; set Focus:
\*   java -cp tla2tools.jar:CommunityModules-deps.jar tlc2.TLC -deadlock -workers 1 -config MCMembershipHist_expected.cfg MCMembershipHist.tla
\* TLC reports "Invariant FocusHolds is violated" with the shortest behaviour (the OBS line holds it as JSON).
SPECIFICATION MCSpec
CONSTANTS
  Ids <- Ids4
  EngIds <- Eng2
  EngArgs <- Eng3
  Classes <- ClsAB
  MaxOps = 2
  MaxLen = 3
  PoseMode = FALSE
  Roots <- RootsObs
  MaxEng = 2
  MaxT = 2
  MaxS = 2
  Focus = "EngineTargetsKnown"
  DevAddSkipsEstimate = FALSE
  DevRemoveSensorKeepsEngine = FALSE
  DevDupSensorAccepted = FALSE
  DevAddExistingAccepted = FALSE
  DevNoSort = FALSE
  DevRemoveAll = FALSE
CONSTRAINT LenOK
INVARIANT FocusHolds
