----------------------------- MODULE EarthClock -----------------------------
(***************************************************************************)
(* The UTC-labelled clock that drives the inertial -> Earth-fixed rotation *)
(* of resonaate, day by day over the years of the bundled Earth-           *)
(* orientation table (property C04, clauses "day-of-year" and "continuous  *)
(* in time").                                                              *)
(*                                                                         *)
(* Code mirrored:                                                          *)
(*   physics/time/conversions.py: dayOfYear(y, m, d, ..)  -> DayOfYear     *)
(*   physics/transforms/reductions.py: getRotR            -> the sidereal  *)
(*        angle is a function of (year, day-of-year + fraction + dUT1)     *)
(*   physics/transforms/eops: one table row per calendar day (dUT1, TAI-   *)
(*        UTC); the row of the day is used for every instant of that day   *)
(*                                                                         *)
(* Model.  The calendar is stepped one day at a time (Step) with its       *)
(* own running day-of-year counter; the closed form DayOfYear is a second, *)
(* independent definition (DoyMatchesClosedForm).  A "transition" is the   *)
(* step of the UTC label from second-of-day s to s+1 (s = 86399: to 0 of   *)
(* the next day).  It is classified by the boundaries it crosses (Kinds)   *)
(* and lasts Elapsed = 1 SI second, or 2 where a leap second is inserted   *)
(* (LeapSecondDays: the label 23:59:60 does not exist in datetime).        *)
(*                                                                         *)
(* Continuity (impl -> spec): for each measured transition the driver logs *)
(*   adv    the advance of UT1 implied by the change of the Earth-fixed    *)
(*          longitude of a fixed inertial direction, in units of 1e-8 s    *)
(*          (longitude change / Earth rotation rate)                       *)
(*   smooth the step of (UT1 - TAI) between the table rows of the two days *)
(*          (0 inside a day), same unit; dat = the step of TAI - UTC (s)   *)
(* (dur = 500 / 1 ms: transitions inside one second, expected dur * 1e5;   *)
(* they are posed in particular around the instants where terrestrial time *)
(* UTC + (TAI-UTC) + 32.184 s falls on a whole minute / hour / day, the    *)
(* boundary cases of utc2TerrestrialTime / seconds2hms; raised = 1 records *)
(* a conversion that raised - no instant of the span is illegal)           *)
(* and TLC accepts the record iff  adv = Elapsed*1e8 + smooth  within Tol, *)
(* the table's leap seconds are exactly the ones listed here, and the      *)
(* smooth part is bounded by SmoothMax (so a jump can only be a leap       *)
(* second): invariant ContinuityOK.                                        *)
(***************************************************************************)
EXTENDS Integers, Sequences, FiniteSets, TLC, Json, IOUtils

CONSTANTS FirstYear, LastYear,
          BaseDat,     \* TAI - UTC (s) on 1 January of FirstYear
          Tol,         \* admissible |adv - expected|, units of 1e-8 s of rotation
          SmoothMax    \* bound on the day-to-day step of UT1 - TAI, same unit

Abs(x) == IF x < 0 THEN -x ELSE x
IsLeap(y) == y % 4 = 0 /\ (y % 100 # 0 \/ y % 400 = 0)
DaysInMonth(y, m) == CASE m \in {1, 3, 5, 7, 8, 10, 12} -> 31
                       [] m \in {4, 6, 9, 11}           -> 30
                       [] m = 2                         -> IF IsLeap(y) THEN 29 ELSE 28
DaysInYear(y) == IF IsLeap(y) THEN 366 ELSE 365
RECURSIVE DaysBefore(_, _)
DaysBefore(y, m) == IF m = 1 THEN 0 ELSE DaysBefore(y, m - 1) + DaysInMonth(y, m - 1)
\* closed form: what time/conversions.dayOfYear must return for 00:00:00
DayOfYear(y, m, d) == DaysBefore(y, m) + d
RECURSIVE DaysBeforeYear(_)
DaysBeforeYear(y) == IF y = FirstYear THEN 0 ELSE DaysBeforeYear(y - 1) + DaysInYear(y - 1)

\* days whose last UTC minute has 61 seconds (IERS Bulletin C 49 and 52); the
\* only ones between FirstYear and LastYear = 2014..2022
LeapSecondDays == { <<2015, 6, 30>>, <<2016, 12, 31>> }

\* boundaries crossed by the transition s -> s+1 of day (y, m, d)
Kinds(y, m, d, s) ==
  IF s < 86399
    THEN (IF s % 60 = 59 THEN {"minute"} ELSE {"second"})
         \cup (IF s % 3600 = 3599 THEN {"hour"} ELSE {})
    ELSE {"minute", "hour", "day"}
         \cup (IF d = DaysInMonth(y, m) THEN {"month"} ELSE {})
         \cup (IF m = 12 /\ d = 31 THEN {"year"} ELSE {})
         \cup (IF IsLeap(y) /\ m = 2 /\ d \in {28, 29} THEN {"leapday"} ELSE {})
         \cup (IF <<y, m, d>> \in LeapSecondDays THEN {"leapsecond"} ELSE {})
\* SI seconds that pass during the transition
Elapsed(y, m, d, s) == IF s = 86399 /\ <<y, m, d>> \in LeapSecondDays THEN 2 ELSE 1

\* measured transitions, one sequence per day (index dayNo + 1); may be empty
Records == IF "RECORDS_FILE" \in DOMAIN IOEnv THEN JsonDeserialize(IOEnv.RECORDS_FILE) ELSE <<>>
RecsOf(n) == IF n + 1 <= Len(Records) THEN Records[n + 1] ELSE <<>>

VARIABLES y, m, d, doy, dayNo
vars == <<y, m, d, doy, dayNo>>

Init == y = FirstYear /\ m = 1 /\ d = 1 /\ doy = 1 /\ dayNo = 0

\* one action per way a day can end
NextDayInMonth == /\ d < DaysInMonth(y, m)
                  /\ d' = d + 1 /\ doy' = doy + 1 /\ dayNo' = dayNo + 1
                  /\ UNCHANGED <<y, m>>
NextMonth == /\ d = DaysInMonth(y, m) /\ m < 12
             /\ m' = m + 1 /\ d' = 1 /\ doy' = doy + 1 /\ dayNo' = dayNo + 1
             /\ UNCHANGED y
NextYear == /\ d = DaysInMonth(y, m) /\ m = 12 /\ y < LastYear
            /\ y' = y + 1 /\ m' = 1 /\ d' = 1 /\ doy' = 1 /\ dayNo' = dayNo + 1
Step == NextDayInMonth \/ NextMonth \/ NextYear
\* short cuts by the closed forms (from 1 January of the first year to 1 January of any year, from 1 January
\* to the first of any month): every day is also reached by stepping, so a disagreement between the stepped
\* counters and the closed forms shows up as a violation of DoyMatchesClosedForm / DayNoMatchesClosedForm; the
\* short cuts keep every behaviour shorter than 35 states (counterexamples stay small, workers share the days)
JumpYear == /\ dayNo = 0
            /\ \E yy \in (FirstYear + 1)..LastYear :
                  y' = yy /\ m' = 1 /\ d' = 1 /\ doy' = 1 /\ dayNo' = DaysBeforeYear(yy)
JumpMonth == /\ m = 1 /\ d = 1
             /\ \E mm \in 2..12 :
                   m' = mm /\ d' = 1 /\ doy' = DaysBefore(y, mm) + 1 /\ dayNo' = dayNo + DaysBefore(y, mm)
             /\ UNCHANGED y
Next == Step \/ JumpYear \/ JumpMonth
Spec == Init /\ [][Next]_vars

\* ------------------------------------------------------------- properties
TypeOK == y \in FirstYear..LastYear /\ m \in 1..12 /\ d \in 1..DaysInMonth(y, m)
DoyMatchesClosedForm == doy = DayOfYear(y, m, d) /\ doy \in 1..DaysInYear(y)
DayNoMatchesClosedForm == dayNo = DaysBeforeYear(y) + doy - 1
\* the day-of-year counter restarts exactly at a year boundary
DoyRestartsOnlyAtNewYear == [][Step => ((doy' = 1) <=> ("year" \in Kinds(y, m, d, 86399)))]_vars
\* a 2 s transition is always classified as a leap second, and only at midnight
LeapOnlyAtMidnight == \A s \in {0, 59, 3599, 43200, 86398, 86399} :
                         Elapsed(y, m, d, s) = 2 <=> "leapsecond" \in Kinds(y, m, d, s)

\* TAI - UTC on a day (s): BaseDat at the start of FirstYear plus the leap seconds inserted before that day
Earlier(a, b) == a[1] < b[1] \/ (a[1] = b[1] /\ (a[2] < b[2] \/ (a[2] = b[2] /\ a[3] < b[3])))
TaiMinusUtc(yy, mm, dd) == BaseDat + Cardinality({l \in LeapSecondDays : Earlier(l, <<yy, mm, dd>>)})
\* terrestrial time = UTC + (TAI - UTC) + 32.184 s; in milliseconds.  physics/time/conversions.py
\* utc2TerrestrialTime / seconds2hms split it again into hour, minute, second: the instants where TT falls
\* exactly on a whole minute (hour, day) are the boundary cases of that split
TtOffsetMs(yy, mm, dd) == TaiMinusUtc(yy, mm, dd) * 1000 + 32184
TtKinds(yy, mm, dd, ms) ==
  LET t == ms + TtOffsetMs(yy, mm, dd)
  IN (IF t % 60000 = 0 THEN {"tt-minute"} ELSE {})
     \cup (IF t % 3600000 = 0 THEN {"tt-hour"} ELSE {}) \cup (IF t % 86400000 = 0 THEN {"tt-day"} ELSE {})

\* a record: the transition of the UTC label from millisecond-of-day r.ms to r.ms + r.dur
\*   dur = 1000: one second (crosses midnight when it starts in second 86399)
\*   dur = 500, 1: a fraction of a second that stays inside one second (crosses nothing in UTC)
\* r.raised = 1: the real conversion raised at one of the two instants - every instant of the span is legal
RecordOK(r) ==
  LET s  == r.ms \div 1000
      el == IF r.dur = 1000 THEN Elapsed(y, m, d, s) ELSE 0
      expected == IF r.dur = 1000 THEN el * 100000000 + r.smooth ELSE r.dur * 100000
  IN /\ r.y = y /\ r.m = m /\ r.d = d /\ r.ms \in 0..86399999  \* the driver's datetime calendar is this calendar
     /\ r.dur \in {1, 500, 1000}
     /\ (r.dur < 1000 => (r.ms % 1000) + r.dur < 1000)
     /\ r.raised = 0                                          \* the conversion is defined at every instant
     /\ (r.dur = 1000 => r.dat = el - 1)                      \* the table's leap seconds are the listed ones
     /\ ((s < 86399 \/ r.dur < 1000) => r.smooth = 0 /\ r.dat = 0) \* one table row per day
     /\ Abs(r.smooth) <= SmoothMax
     /\ Abs(r.adv - expected) <= Tol                          \* rotation advances by the elapsed UT1
\* non-vacuity inside the spec: a day that has records has one that ends exactly on a TT minute boundary
TtBoundariesPosed ==
  Len(RecsOf(dayNo)) > 0 =>
     \E i \in 1..Len(RecsOf(dayNo)) :
        LET r == RecsOf(dayNo)[i] IN r.dur = 1 /\ "tt-minute" \in TtKinds(y, m, d, r.ms + r.dur)
ContinuityOK == \A i \in 1..Len(RecsOf(dayNo)) : RecordOK(RecsOf(dayNo)[i])

\* expected values for the driver (day-of-year oracle, classification of midnight)
EmitDay == PrintT("DAY " \o ToJson([y |-> y, m |-> m, d |-> d, doy |-> doy, n |-> dayNo,
                                    kinds |-> Kinds(y, m, d, 86399),
                                    elapsed |-> Elapsed(y, m, d, 86399),
                                    dat |-> TaiMinusUtc(y, m, d), ttoff |-> TtOffsetMs(y, m, d),
                                    nrec |-> Len(RecsOf(dayNo))]))
=============================================================================
