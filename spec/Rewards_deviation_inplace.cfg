\* NON-VACUITY (expected to FAIL): a calculate() that rescales the sensor column of its argument in place
\* must be refuted by the action property CalculateKeepsArgument
SPECIFICATION Spec
CONSTANTS NT = 1 NS = 2 Kinds = {"cost"}
CONSTANT MetricVals <- ValsQuick
CONSTANT Deltas <- DeltasQuick
CONSTANT FullOrders <- NoOrders
CONSTANT Rotations <- RotQuick
CONSTANT ScaledOrders <- NoOrders
CONSTANT Deviation = "CalculateScalesSensorInPlace"
PROPERTY CalculateKeepsArgument
