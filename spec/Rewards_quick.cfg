SPECIFICATION Spec
CONSTANTS NT = 1 NS = 2 Kinds = {"sum", "cost", "combined"}
CONSTANT MetricVals <- ValsQuick
CONSTANT Deltas <- DeltasQuick
\* whole lattice for the documented order; every other metric order gets the kind-distinct cubes
CONSTANT FullOrders <- DocOrdersOnly
CONSTANT Rotations <- RotQuick
CONSTANT ScaledOrders <- DocOrdersOnly
CONSTANT Deviation = "none"
INVARIANT RewardIsDocumentedCombination
INVARIANT NormalisedByKind
INVARIANT PositiveMaxBecomesOne
INVARIANT DistinctColumns
INVARIANT NormalisedAtMostOne
INVARIANT NormalisedAttainsOne
INVARIANT NormalisedOrderKept
INVARIANT Emit
PROPERTY CalculateKeepsArgument
PROPERTY RecalculateIsStuttering
