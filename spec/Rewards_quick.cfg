SPECIFICATION Spec
CONSTANTS NT = 1 NS = 2 Kinds = {"sum", "cost", "combined"}
CONSTANT MetricVals <- ValsQuick
CONSTANT Deltas <- DeltasQuick
INVARIANT NormalisedAtMostOne
INVARIANT NormalisedAttainsOne
INVARIANT NormalisedOrderKept
INVARIANT Emit
