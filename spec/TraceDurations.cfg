SPECIFICATION TraceSpec
CONSTANTS MaxCalls = 9 InvertStartBySecTruncation = FALSE SampleMod = 1 SampleSeed = 0
CONSTANT StartSecs <- Secs60
CONSTANT Dts <- DtsQuick
CONSTANT Quots <- QuotsQuick
CONSTANT Rems <- RemsQuick
INVARIANT BeginAllowed
INVARIANT StepAllowed
INVARIANT EndAllowed
INVARIANT ClockAgrees
INVARIANT RowsAgree
INVARIANT TableAgrees
INVARIANT StepsHonoured
INVARIANT EpochsAreStartPlusKDt
INVARIANT NoOvershoot
INVARIANT StopsOnlyWhenNoStepFits
INVARIANT Accepted
