\* thorough tier, metric ORDER stratum: every order x every rotation of the kind-distinct cubes,
\* all deltas, a 2 x 1 problem (targets vary instead of sensors)
SPECIFICATION Spec
CONSTANTS NT = 2 NS = 1 Kinds = {"sum", "cost", "combined"}
CONSTANT MetricVals <- ValsQuick
CONSTANT Deltas <- DeltasAll
CONSTANT FullOrders <- NoOrders
CONSTANT Rotations <- RotAll
CONSTANT ScaledOrders <- NoOrders
CONSTANT Deviation = "none"
INVARIANT RewardIsDocumentedCombination
INVARIANT NormalisedByKind
INVARIANT PositiveMaxBecomesOne
INVARIANT DistinctColumns
INVARIANT NormalisedAtMostOne
INVARIANT NormalisedAttainsOne
INVARIANT NormalisedOrderKept
INVARIANT Emit
PROPERTY CalculateKeepsArgument
PROPERTY RecalculateIsStuttering
