SPECIFICATION TraceSpec
CONSTANTS Kinds = {"smm"} NModels = {2} LVals = {0} Layouts = {0}
CONSTANTS MaxUpdates = 3 BigN = 99 GpbBigN = 99 NoObsAt = {1} KeepHist = FALSE
CONSTANT Thresholds <- ThQuick
CONSTANT Pcts <- PctQuick
CONSTANT MixRatios <- MixQuick
INVARIANT PruneExplained
INVARIANT ConvergeExplained
INVARIANT GateExplained
INVARIANT StepExplained
INVARIANT LoggedFinite
INVARIANT LoggedParallel
INVARIANT LoggedMean
INVARIANT LoggedMoments
INVARIANT LoggedSymPSD
INVARIANT Continuity
INVARIANT ResetOnlyOnUnderflow
INVARIANT NonNegative
INVARIANT SumToOne
INVARIANT AtLeastOneModel
INVARIANT BayesRule
INVARIANT ModeMixValid
INVARIANT HandBackIsSurvivor
INVARIANT EmitMid
INVARIANT EmitPost
