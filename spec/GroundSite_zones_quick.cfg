SPECIFICATION Spec
CONSTANTS N = 86400 MaxSteps = 4 InvertStartBySecTruncation = FALSE CaptureAtJoinEpoch = FALSE CacheIgnoresEpoch = FALSE LocalTimeEpoch = FALSE MemoIgnoresSite = FALSE MaxJoinSteps = 0
CONSTANT Lons <- LonsAll
CONSTANT Theta0s <- ThetasAll
CONSTANT StartSecs <- Secs60
CONSTANT PriorAngles <- NoPrior
CONSTANT Zones <- ZonesAll
CONSTANT PriorLonShifts <- NoPrior
CONSTANT Plans <- NoPlan
CONSTANT Dts <- DtsZones
INVARIANT SiteEpochAgrees
INVARIANT StartInversionExact
INVARIANT ConvertIgnoresHistory
INVARIANT SiteFromCurrentConfig
INVARIANT SiteFixed
INVARIANT VelIsRotation
INVARIANT Emit
