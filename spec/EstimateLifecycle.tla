-------------------------- MODULE EstimateLifecycle --------------------------
(***************************************************************************)
(* Life-cycle of an ESTIMATE AGENT across simulation steps: the estimation *)
(* mode of every target (nominal / maneuver-detected / adaptive = MMAE     *)
(* running / IOD active) as an explicit state machine, together with the   *)
(* copy of the agent that the update job works on ("worker side") and the  *)
(* copy-back into the driver-side agent.                                   *)
(*                                                                         *)
(* Code mirrored (one action per meaningful transition):                   *)
(*   scenario/scenario.py  Scenario.stepForward            BeginStep       *)
(*   parallel/estimate_prediction.py                                       *)
(*     EstPredictRegistration.processResults               Predict(t)      *)
(*   scenario.py: ray.put(estimate) for every estimate     PutEstimates    *)
(*   parallel/estimate_update.py asyncUpdateEstimate (job body, worker):   *)
(*     nominal_filter.update([])          (UKF.update)     UpdateNoObs(t)  *)
(*     nominal_filter.update(obs)         (UKF.update +                    *)
(*       SequentialFilter.checkManeuverDetection)          UpdateObs(t,d)  *)
(*     nominal_filter.update(obs)   (SMM/GPB1.update,                      *)
(*       AdaptiveFilter._resumeSequentialFiltering)        AdaptiveStep    *)
(*     EstimateAgent._update ->                                            *)
(*       _handleManeuverDetection                          RecordManeuver  *)
(*       _handleIOD: start                                 BeginIOD        *)
(*       _handleIOD: _attemptInitialOrbitDetermination     IODStep(t,ok)   *)
(*       _handleMMAE -> _beginAdaptiveEstimation                           *)
(*          (adaptiveEstimationFactory, initialize)        BeginAdaptive   *)
(*       _handleMMAE: CLOSE flag, _resetFilter(converged)  CloseAdaptive   *)
(*     return EstUpdateResult                              WorkerReturn    *)
(*   EstUpdateRegistration.processResults                                  *)
(*     (_resetFilter, _finalizeUpdate, _saveFilterStep,                    *)
(*      iod_start_time, _detected_maneuvers)               CompleteUpdate  *)
(*   Scenario.saveDatabaseOutput (getDetectedManeuvers,                    *)
(*      getFilterSteps) / no output this step              SaveOutput /    *)
(*                                                         SkipOutput      *)
(*                                                                         *)
(* Environment inputs are nondeterministic and revealed by the update job: *)
(* were there observations (UpdateNoObs vs UpdateObs/AdaptiveStep), did    *)
(* the detector fire (det), did MMAE initialise (ok) / converge (conv),    *)
(* did IOD succeed (ok).  Time is the step index k (epoch = k * dt).       *)
(*                                                                         *)
(* What is modelled AS DOCUMENTED and where the module is permissive:      *)
(*  - An AdaptiveFilter reports maneuver_detected = TRUE for as long as it *)
(*    runs ("[NOTE]: Need to save maneuver detection information for       *)
(*    proper logging & saving to DB"), so every observed MMAE step is a    *)
(*    detection step and records one DetectedManeuver.                     *)
(*  - IOD is switched on when the agent holds STORED detections            *)
(*    (EstimateAgent.maneuver_detected: "whether detected maneuvers are    *)
(*    stored") and IOD is not active - not necessarily a fresh detection;  *)
(*    with output every step both coincide (IodStartsOnFreshDetection).    *)
(*  - The code has no IOD time-out: IOD stays active until it succeeds.    *)
(*  - UKF.predict documents "Reset filter flags", but the prediction job   *)
(*    resets the flags of its own copy only; whether the driver-side flags *)
(*    are cleared by Predict is left open (both admitted); flags are only  *)
(*    constrained after an update WITH observations.                       *)
(*  - The flags of the handed-back converged filter may or may not still   *)
(*    contain CLOSE (undocumented; they are reset by the next observed     *)
(*    update before anybody reads them); START must be gone.               *)
(*  - SMM/GPB1 cannot converge on a step without observations (weights and *)
(*    NIS are unchanged), so conv is only revealed by AdaptiveStep.        *)
(*                                                                         *)
(* Named deviations (spec mutants; FALSE = as documented):                 *)
(*   IodIgnoresFlag   AS CODED: the IOD machinery is keyed on the IOD      *)
(*                    config OBJECT, not on sequential_filter.             *)
(*                    initial_orbit_determination, although the config     *)
(*                    validator warns "IOD flag is OFF, specified          *)
(*                    configuration will be IGNORED!"                      *)
(*   ReenterAdaptive  AS CODED: _handleMMAE calls _beginAdaptiveEstimation *)
(*                    whenever detections are stored; a running adaptive   *)
(*                    filter carries ADAPTIVE_ESTIMATION_START itself, so  *)
(*                    an observed MMAE step that does not converge starts  *)
(*                    MMAE on top of the MMAE filter (TypeError crash)     *)
(*   DropIodCopy, DoubleRecord, CloseKeepsStart, LastObsAlways             *)
(*                    hypothetical slips (code mutants of g02.py)          *)
(*                                                                         *)
(* Properties (all named below):                                           *)
(*   FlagsConsistent, ModeConsistent, ManeuverOncePerDetection,            *)
(*   ManeuverReachesDbAtNextSave, AdaptiveOnlyAfterDetection,              *)
(*   MmaeOwnsFilter, CloseHandsBack, IodWindow, IodOnlyWhenConfigured,     *)
(*   IodMmaeExclusive, IodStartsOnFreshDetection, CopyBackExact,           *)
(*   EpochBookkeeping, LastObservedExact, FilterStepPerObservedStep,       *)
(*   NoCrash; action properties FrozenNominal, IodEndsOnlyBySuccess.       *)
(***************************************************************************)
EXTENDS Integers, Sequences, FiniteSets, TLC

CONSTANTS
  Targets,          \* estimate agents
  NSteps,           \* steps of the run
  Configs,          \* set of configuration records; Init picks one (cfg is state so that
                    \* traces of differently configured scenarios share one TLC run)
  IodIgnoresFlag, ReenterAdaptive,                                  \* as-coded deviations
  DropIodCopy, DoubleRecord, CloseKeepsStart, LastObsAlways       \* hypothetical

\* cfg = [md      |-> a maneuver detector is configured,
\*        mmae    |-> sequential_filter.adaptive_estimation (validator: then adaptive_filter is given),
\*        iodFlag |-> sequential_filter.initial_orbit_determination,
\*        iodCfg  |-> estimation.initial_orbit_determination object given (validator: iodFlag => iodCfg),
\*        save    |-> sequential_filter.save_filter_steps,
\*        outEvery|-> output interval / physics step]
ValidCfg(c) == /\ ~(c.mmae /\ c.iodFlag) /\ (c.iodFlag => c.iodCfg) /\ c.outEvery \in 1..NSteps

None == -1                       \* iod_start_time is None
Flags == {"MD", "START", "CLOSE", "IODSTART"}
Modes == {"nominal", "detected", "adaptive", "iod"}

VARIABLES
  cfg,      \* configuration of this run (constant after Init)
  k,        \* clock: index of the current step
  pc,       \* "idle" | "predict" | "update" | "crashed"
  toPredict,\* estimates whose prediction result is not merged yet
  filt,     \* [Targets -> driver-side nominal filter: [kind, flags, time, det, orig, src]]
            \*   kind "seq" | "mmae"; det = filter.maneuver_detected; orig = epoch of the frozen
            \*   nominal filter inside an adaptive filter (None for "seq");
            \*   src "orig" (built at start) | "mmae" | "conv" (converged filter handed back)
  at,       \* [Targets -> epoch index of the agent (EstimateAgent.time)]
  est,      \* [Targets -> "init" | "pred" | "upd"]: what state_estimate / error_covariance hold
  iod,      \* [Targets -> iod_start_time as a step index, or None]
  pend,     \* [Targets -> sequence of epochs]: _detected_maneuvers awaiting output
  fsq,      \* [Targets -> sequence of epochs]: _filter_info awaiting output
  lastObs,  \* [Targets -> epoch of last_observed_at]
  mode,     \* [Targets -> Modes]: estimation mode at the end of the last update
  wk,       \* [Targets -> the copy of the agent inside the update job (see Snapshot)]
  stage,    \* [Targets -> progress of the update job: -1 none, 0 snapshot, 1 filter updated,
            \*   2 recorded, 3 IOD begun, 4 IOD attempted, 5 MMAE begin attempted, 6 closed,
            \*   7 returned, 8 merged]
  db,       \* output database: [man, fs : [Targets -> sequence of epochs]]
  obsH,     \* history: [Targets -> set of steps with observations]
  detH,     \* history: [Targets -> set of DETECTION STEPS: observed steps after whose filter
            \*   update the nominal filter reports maneuver_detected]
  begH,     \* history: [Targets -> set of steps in which MMAE began]
  iodH      \* history: [Targets -> set of steps in which IOD succeeded]

vars == <<cfg, k, pc, toPredict, filt, at, est, iod, pend, fsq, lastObs, mode, wk, stage, db, obsH, detH, begH, iodH>>

Filter0 == [kind |-> "seq", flags |-> {}, time |-> 0, det |-> FALSE, orig |-> None, src |-> "orig"]
NoJob   == [filt |-> Filter0, iod |-> None, pend |-> <<>>, mode |-> "nominal", observed |-> FALSE,
            detNow |-> FALSE, closedNow |-> FALSE, freshStart |-> FALSE, upd |-> "none"]

InitRest ==
  /\ k = 0 /\ pc = "idle" /\ toPredict = {}
  /\ filt = [t \in Targets |-> Filter0]
  /\ at = [t \in Targets |-> 0] /\ est = [t \in Targets |-> "init"]
  /\ iod = [t \in Targets |-> None]
  /\ pend = [t \in Targets |-> <<>>] /\ fsq = [t \in Targets |-> <<>>]
  /\ lastObs = [t \in Targets |-> 0]
  /\ mode = [t \in Targets |-> "nominal"]
  /\ wk = [t \in Targets |-> NoJob] /\ stage = [t \in Targets |-> -1]
  /\ db = [man |-> [t \in Targets |-> <<>>], fs |-> [t \in Targets |-> <<>>]]
  /\ obsH = [t \in Targets |-> {}] /\ detH = [t \in Targets |-> {}]
  /\ begH = [t \in Targets |-> {}] /\ iodH = [t \in Targets |-> {}]
Init == cfg \in Configs /\ ValidCfg(cfg) /\ InitRest

\* ---------------------------------------------------------------------------------------------
\* Is the IOD machinery of the agent switched on?  Documented: by the flag of the sequential
\* filter configuration ("IOD flag is OFF, specified configuration will be IGNORED!").
IodOn == IF IodIgnoresFlag THEN cfg.iodCfg ELSE cfg.iodFlag
IodActive(s) == s # None /\ s < k            \* EstimateAgent.iod_active at time k

histVars == <<obsH, detH, begH, iodH>>
drvVars  == <<filt, at, est, iod, pend, fsq, lastObs, mode>>

\* ----------------------------------------- step / predict -----------------------------------
BeginStep ==
  /\ pc = "idle" /\ k < NSteps
  /\ k' = k + 1 /\ pc' = "predict" /\ toPredict' = Targets
  /\ stage' = [t \in Targets |-> -1]
  /\ UNCHANGED <<cfg, drvVars, wk, db, histVars>>

\* EstPredictRegistration.processResults: result fields (time, est, pred) are applied to the
\* driver-side filter, the agent's time / state estimate / covariance become the predicted ones.
\* (flags: see the header - both "kept" and "reset" are admitted for a sequential filter)
Predict(t) ==
  /\ pc = "predict" /\ t \in toPredict
  /\ toPredict' = toPredict \ {t}
  /\ \E fl \in (IF filt[t].kind = "seq" THEN {filt[t].flags, {}} ELSE {filt[t].flags}) :
        filt' = [filt EXCEPT ![t].time = k, ![t].flags = fl]
  /\ at' = [at EXCEPT ![t] = k]
  /\ est' = [est EXCEPT ![t] = "pred"]
  /\ UNCHANGED <<cfg, k, pc, iod, pend, fsq, lastObs, mode, wk, stage, db, histVars>>

\* ray.put(estimate): the job will work on a snapshot of the driver-side agent
Snapshot(t) == [filt |-> filt[t], iod |-> iod[t], pend |-> pend[t],
                mode |-> IF mode[t] = "detected" THEN "nominal" ELSE mode[t],   \* a detection lasts one step
                observed |-> FALSE, detNow |-> FALSE, closedNow |-> FALSE, freshStart |-> FALSE, upd |-> "none"]
PutEstimates ==
  /\ pc = "predict" /\ toPredict = {}
  /\ pc' = "update"
  /\ wk' = [t \in Targets |-> Snapshot(t)]
  /\ stage' = [t \in Targets |-> 0]
  /\ UNCHANGED <<cfg, k, toPredict, drvVars, db, histVars>>

\* ----------------------------------------- the update job -----------------------------------
W(t) == wk[t]
\* no observations: UKF.update / AdaptiveFilter.update propagate only, flags untouched,
\* EstimateAgent._update returns at its first line
UpdateNoObs(t) ==
  /\ pc = "update" /\ stage[t] = 0
  /\ stage' = [stage EXCEPT ![t] = 1]
  /\ UNCHANGED <<cfg, k, pc, toPredict, drvVars, wk, db, histVars>>

\* observations, sequential filter: forecast() resets the flags, checkManeuverDetection sets them
SeqFlags(det) == IF ~det THEN {}
                 ELSE {"MD"} \cup (IF cfg.mmae THEN {"START"} ELSE {}) \cup (IF cfg.iodFlag THEN {"IODSTART"} ELSE {})
UpdateObs(t, det) ==
  /\ pc = "update" /\ stage[t] = 0 /\ W(t).filt.kind = "seq"
  /\ (det => cfg.md)
  /\ stage' = [stage EXCEPT ![t] = 1]
  /\ wk' = [wk EXCEPT ![t].observed = TRUE, ![t].detNow = det, ![t].upd = "seq",
                      ![t].filt.flags = SeqFlags(det), ![t].filt.det = det,
                      ![t].mode = IF det /\ @ = "nominal" THEN "detected" ELSE @]
  /\ obsH' = [obsH EXCEPT ![t] = @ \cup {k}]
  /\ detH' = [detH EXCEPT ![t] = IF det THEN @ \cup {k} ELSE @]
  /\ UNCHANGED <<cfg, k, pc, toPredict, drvVars, db, begH, iodH>>

\* observations, adaptive filter: the models are updated; on convergence
\* _resumeSequentialFiltering clears START, raises CLOSE and builds the converged filter
AdaptiveStep(t, conv) ==
  /\ pc = "update" /\ stage[t] = 0 /\ W(t).filt.kind = "mmae"
  /\ stage' = [stage EXCEPT ![t] = 1]
  /\ wk' = [wk EXCEPT ![t].observed = TRUE, ![t].upd = "mmae",
                      ![t].filt.flags = IF conv THEN (@ \ {"START"}) \cup {"CLOSE"} ELSE @]
  /\ obsH' = [obsH EXCEPT ![t] = @ \cup {k}]
  /\ detH' = [detH EXCEPT ![t] = @ \cup {k}]      \* AdaptiveFilter.maneuver_detected is constantly TRUE
  /\ UNCHANGED <<cfg, k, pc, toPredict, drvVars, db, begH, iodH>>

\* What EstimateAgent._update does next, in program order.  "Due" = the code takes this branch.
RecDue(t)      == stage[t] = 1 /\ W(t).observed /\ W(t).filt.det
IodBeginDue(t) == stage[t] \in 1..2 /\ W(t).observed /\ IodOn /\ W(t).pend # <<>> /\ ~IodActive(W(t).iod)
IodStepDue(t)  == stage[t] \in 1..3 /\ W(t).observed /\ IodOn /\ IodActive(W(t).iod)
BeginAdDue(t)  == /\ stage[t] \in 1..4 /\ cfg.mmae /\ W(t).pend # <<>> /\ "START" \in W(t).filt.flags
                  /\ W(t).observed
                  /\ (W(t).filt.kind = "seq" \/ ReenterAdaptive)
CloseDue(t)    == stage[t] \in 1..5 /\ W(t).observed /\ cfg.mmae /\ W(t).filt.kind = "mmae" /\ "CLOSE" \in W(t).filt.flags

\* _handleManeuverDetection: one DetectedManeuver with the current epoch
RecordManeuver(t) ==
  /\ pc = "update" /\ RecDue(t)
  /\ stage' = [stage EXCEPT ![t] = 2]
  /\ wk' = [wk EXCEPT ![t].pend = IF DoubleRecord THEN @ \o <<k, k>> ELSE Append(@, k)]
  /\ UNCHANGED <<cfg, k, pc, toPredict, drvVars, db, histVars>>

\* _handleIOD, first half: "Turning on IOD"
BeginIOD(t) ==
  /\ pc = "update" /\ IodBeginDue(t) /\ ~RecDue(t)
  /\ stage' = [stage EXCEPT ![t] = 3]
  /\ wk' = [wk EXCEPT ![t].iod = k, ![t].freshStart = W(t).detNow \/ W(t).filt.kind = "mmae",
                      ![t].mode = IF @ = "adaptive" THEN @ ELSE "iod"]
  /\ UNCHANGED <<cfg, k, pc, toPredict, drvVars, db, histVars>>

\* _handleIOD, second half: an attempt while IOD is active; success ends IOD and replaces est_x
IODStep(t, ok) ==
  /\ pc = "update" /\ IodStepDue(t) /\ ~RecDue(t) /\ ~IodBeginDue(t)
  /\ stage' = [stage EXCEPT ![t] = 4]
  /\ wk' = [wk EXCEPT ![t].iod = IF ok THEN None ELSE @,
                      ![t].mode = IF ~ok \/ @ = "adaptive" THEN @ ELSE IF W(t).detNow THEN "detected" ELSE "nominal"]
  /\ iodH' = [iodH EXCEPT ![t] = IF ok THEN @ \cup {k} ELSE @]
  /\ UNCHANGED <<cfg, k, pc, toPredict, drvVars, db, obsH, detH, begH>>

\* _beginAdaptiveEstimation: START is consumed; the adaptive filter is built from the nominal
\* filter and initialised from the database; it replaces the nominal filter iff it started
\* (its own initial update may already converge: conv)
Mmae(conv) == [kind |-> "mmae", flags |-> IF conv THEN {"CLOSE"} ELSE {"START"}, time |-> k, det |-> TRUE,
               orig |-> k, src |-> "mmae"]
BeginAdaptive(t, ok, conv) ==
  /\ pc = "update" /\ BeginAdDue(t) /\ ~RecDue(t) /\ ~IodBeginDue(t) /\ ~IodStepDue(t)
  /\ (conv => ok)
  /\ IF W(t).filt.kind = "mmae"
     THEN \* only with ReenterAdaptive: adaptiveEstimationFactory(config, <an AdaptiveFilter>) - as coded
          \* the initialisation raises TypeError as soon as it gets to _createModels
          /\ pc' = "crashed" /\ UNCHANGED <<wk, stage, begH>>
     ELSE /\ pc' = pc
          /\ stage' = [stage EXCEPT ![t] = 5]
          /\ wk' = [wk EXCEPT ![t].filt = IF ok THEN Mmae(conv) ELSE [@ EXCEPT !.flags = @ \ {"START"}],
                              ![t].mode = IF ok THEN "adaptive" ELSE @]
          /\ begH' = [begH EXCEPT ![t] = IF ok THEN @ \cup {k} ELSE @]
  /\ UNCHANGED <<cfg, k, toPredict, drvVars, db, obsH, detH, iodH>>

\* _handleMMAE: CLOSE found -> the converged filter becomes the nominal filter
CloseAdaptive(t) ==
  /\ pc = "update" /\ CloseDue(t) /\ ~RecDue(t) /\ ~IodBeginDue(t) /\ ~IodStepDue(t) /\ ~BeginAdDue(t)
  /\ stage' = [stage EXCEPT ![t] = 6]
  /\ \E fl \in SUBSET {"CLOSE"} :
       wk' = [wk EXCEPT ![t].filt = [kind |-> "seq", flags |-> fl \cup (IF CloseKeepsStart THEN {"START"} ELSE {}),
                                     time |-> W(t).filt.time, det |-> FALSE, orig |-> None, src |-> "conv"],
                        ![t].closedNow = TRUE,
                        ![t].mode = IF W(t).iod # None THEN "iod" ELSE "nominal"]
  /\ UNCHANGED <<cfg, k, pc, toPredict, drvVars, db, histVars>>

AnyDue(t) == RecDue(t) \/ IodBeginDue(t) \/ IodStepDue(t) \/ BeginAdDue(t) \/ CloseDue(t)
\* asyncUpdateEstimate returns EstUpdateResult(observed, updated_filter, iod_start_time, detected_maneuvers)
WorkerReturn(t) ==
  /\ pc = "update" /\ stage[t] \in 1..6 /\ ~AnyDue(t)
  /\ stage' = [stage EXCEPT ![t] = 7]
  /\ UNCHANGED <<cfg, k, pc, toPredict, drvVars, wk, db, histVars>>

\* ----------------------------------------- copy-back ----------------------------------------
\* EstUpdateRegistration.processResults: _resetFilter(updated_filter); _finalizeUpdate(observed)
\* (state estimate / covariance from the filter; when observed: last_observed_at and one filter
\* step); iod_start_time; detected maneuvers (assigned when the job returned any).
CompleteUpdate(t) ==
  /\ pc = "update" /\ stage[t] = 7
  /\ stage' = [stage EXCEPT ![t] = 8]
  /\ filt' = [filt EXCEPT ![t] = W(t).filt]
  /\ est' = [est EXCEPT ![t] = "upd"]
  /\ iod' = [iod EXCEPT ![t] = IF DropIodCopy THEN @ ELSE W(t).iod]
  /\ pend' = [pend EXCEPT ![t] = IF W(t).pend # <<>> THEN W(t).pend ELSE @]
  /\ lastObs' = [lastObs EXCEPT ![t] = IF W(t).observed \/ LastObsAlways THEN k ELSE @]
  /\ fsq' = [fsq EXCEPT ![t] = IF W(t).observed THEN Append(@, k) ELSE @]
  /\ mode' = [mode EXCEPT ![t] = W(t).mode]
  /\ UNCHANGED <<cfg, k, pc, toPredict, at, wk, db, histVars>>

\* ----------------------------------------- output -------------------------------------------
AllMerged == \A t \in Targets : stage[t] = 8
\* Scenario.saveDatabaseOutput on output steps: getDetectedManeuvers() of every estimate with
\* stored detections, getFilterSteps() when save_filter_steps is configured
SaveOutput ==
  /\ pc = "update" /\ AllMerged /\ k % cfg.outEvery = 0
  /\ pc' = "idle"
  /\ db' = [man |-> [t \in Targets |-> db.man[t] \o pend[t]],
            fs  |-> [t \in Targets |-> IF cfg.save THEN db.fs[t] \o fsq[t] ELSE db.fs[t]]]
  /\ pend' = [t \in Targets |-> <<>>]
  /\ fsq' = IF cfg.save THEN [t \in Targets |-> <<>>] ELSE fsq
  /\ UNCHANGED <<cfg, k, toPredict, filt, at, est, iod, lastObs, mode, wk, stage, histVars>>

SkipOutput ==
  /\ pc = "update" /\ AllMerged /\ k % cfg.outEvery # 0
  /\ pc' = "idle"
  /\ UNCHANGED <<cfg, k, toPredict, drvVars, wk, stage, db, histVars>>

Next ==
  \/ BeginStep \/ PutEstimates \/ SaveOutput \/ SkipOutput
  \/ \E t \in Targets :
       \/ Predict(t) \/ UpdateNoObs(t) \/ RecordManeuver(t) \/ BeginIOD(t) \/ CloseAdaptive(t)
       \/ WorkerReturn(t) \/ CompleteUpdate(t)
       \/ \E b \in BOOLEAN : UpdateObs(t, b) \/ AdaptiveStep(t, b) \/ IODStep(t, b)
       \/ \E ok \in BOOLEAN, conv \in BOOLEAN : BeginAdaptive(t, ok, conv)

Spec == Init /\ [][Next]_vars

\* ======================================= properties ========================================
Count(s, x) == Cardinality({i \in DOMAIN s : s[i] = x})
Max(S) == IF S = {} THEN 0 ELSE CHOOSE x \in S : \A y \in S : y <= x
Quiet(t) == stage[t] \in {-1, 8}                       \* no update job of t in flight
Observed(t) == stage[t] = 8 /\ W(t).observed           \* t's update of this step is merged and had observations

TypeOK ==
  /\ k \in 0..NSteps /\ pc \in {"idle", "predict", "update", "crashed"}
  /\ \A t \in Targets :
       /\ filt[t].kind \in {"seq", "mmae"} /\ filt[t].flags \subseteq Flags
       /\ mode[t] \in Modes /\ iod[t] \in {None} \cup 1..NSteps /\ stage[t] \in -1..8

\* The filter flags agree with the mode (constrained after an update with observations, see header)
FlagsConsistent ==
  \A t \in Targets : Observed(t) =>
    /\ ("START" \in filt[t].flags) = (filt[t].kind = "mmae")      \* START is consumed by BeginAdaptive; a running MMAE carries it
    /\ ("START" \in filt[t].flags => cfg.mmae)
    /\ ("MD" \in filt[t].flags => filt[t].kind = "seq" /\ filt[t].det /\ cfg.md /\ k \in detH[t])
    /\ ("IODSTART" \in filt[t].flags => cfg.iodFlag /\ "MD" \in filt[t].flags)
    /\ ("CLOSE" \in filt[t].flags => filt[t].kind = "seq" /\ filt[t].src = "conv" /\ W(t).closedNow)

ModeConsistent ==
  \A t \in Targets : stage[t] = 8 =>
    /\ (mode[t] = "adaptive") = (filt[t].kind = "mmae")
    /\ (filt[t].kind = "seq" => ((mode[t] = "iod") = (iod[t] # None)))
    /\ (mode[t] = "detected" => W(t).observed /\ W(t).detNow /\ "MD" \in filt[t].flags /\ iod[t] = None)
    /\ (mode[t] = "nominal" /\ W(t).observed => "MD" \notin filt[t].flags)

\* A detected maneuver is recorded exactly once per detection step ...
ManeuverOncePerDetection ==
  \A t \in Targets : Quiet(t) =>
     \A j \in 1..NSteps : Count(db.man[t] \o pend[t], j) = IF j \in detH[t] THEN 1 ELSE 0
\* ... and reaches the output database at the next save
ManeuverReachesDbAtNextSave ==
  (pc = "idle" /\ k % cfg.outEvery = 0) =>
     \A t \in Targets : pend[t] = <<>> /\ \A j \in detH[t] : Count(db.man[t], j) = 1

\* Adaptive estimation starts only when configured, in an observed step with a FRESH detection of
\* the sequential filter
AdaptiveOnlyAfterDetection ==
  \A t \in Targets :
     /\ begH[t] \subseteq (obsH[t] \cap detH[t])
     /\ (begH[t] # {} => cfg.mmae /\ cfg.md)
     /\ (stage[t] \in 5..7 /\ W(t).filt.src = "mmae" /\ W(t).filt.orig = k => W(t).observed /\ W(t).detNow)

\* While MMAE runs the agent's nominal filter IS the adaptive filter; the former nominal filter is
\* frozen inside it at the epoch MMAE began (it is not updated independently)
MmaeOwnsFilter ==
  \A t \in Targets :
     /\ (filt[t].kind = "mmae" => filt[t].orig \in begH[t] /\ filt[t].orig <= filt[t].time /\ filt[t].det)
     /\ (W(t).filt.kind = "mmae" => W(t).filt.orig \in begH[t])
     /\ (filt[t].kind = "seq" => filt[t].orig = None)
FrozenNominal ==
  [][\A t \in Targets : (wk[t].filt.kind = "mmae" /\ wk'[t].filt.kind = "mmae" /\ stage'[t] # 0 /\ stage[t] # -1)
                          => wk'[t].filt.orig = wk[t].filt.orig]_vars
\* On close the nominal filter is the handed-back converged filter, at the current epoch, and
\* the adaptive-estimation START flag is gone
CloseHandsBack ==
  \A t \in Targets : (stage[t] \in 6..8 /\ W(t).closedNow) =>
     /\ W(t).filt.kind = "seq" /\ W(t).filt.src = "conv" /\ W(t).filt.time = k
     /\ "START" \notin W(t).filt.flags /\ W(t).mode # "adaptive"

\* IOD is active only between its start (an observed step with stored detections) and its success
IodWindow ==
  \A t \in Targets :
     /\ (iod[t] # None => iod[t] \in obsH[t] /\ iod[t] <= k /\ (Quiet(t) => \A j \in iodH[t] : j < iod[t]))
     /\ (W(t).iod # None => W(t).iod \in obsH[t] /\ W(t).iod <= k)
     /\ (stage[t] \in 3..7 /\ W(t).iod = k => W(t).pend # <<>>)
IodEndsOnlyBySuccess ==
  [][\A t \in Targets : (wk[t].iod # None /\ wk'[t].iod = None /\ stage'[t] # 0 /\ stage[t] # -1) => k \in iodH'[t]]_vars
\* "IOD flag is OFF, specified configuration will be IGNORED!"
IodOnlyWhenConfigured ==
  \A t \in Targets : ~cfg.iodFlag => iod[t] = None /\ W(t).iod = None /\ iodH[t] = {}
\* "IOD & MMAE should be mutually exclusive"
IodMmaeExclusive ==
  \A t \in Targets : ~(filt[t].kind = "mmae" /\ iod[t] # None) /\ ~(W(t).filt.kind = "mmae" /\ W(t).iod # None)
\* with output every step, IOD starts only in a detection step (stored = fresh detections)
IodStartsOnFreshDetection ==
  cfg.outEvery = 1 => \A t \in Targets : (stage[t] \in 3..7 /\ W(t).iod = k) => W(t).freshStart

\* What the job computed is exactly what the driver-side agent holds after processResults
CopyBackExact ==
  \A t \in Targets : (pc = "update" /\ stage[t] = 8) =>      \* merged, output not yet taken
     /\ filt[t] = W(t).filt /\ iod[t] = W(t).iod /\ pend[t] = W(t).pend /\ mode[t] = W(t).mode
     /\ (W(t).observed => lastObs[t] = k /\ fsq[t] # <<>> /\ fsq[t][Len(fsq[t])] = k)

\* predicted-vs-updated epoch bookkeeping
EpochBookkeeping ==
  \A t \in Targets :
     /\ (pc = "idle" => at[t] = k /\ filt[t].time = k /\ est[t] = IF k = 0 THEN "init" ELSE "upd")
     /\ (pc = "predict" /\ t \notin toPredict => at[t] = k /\ filt[t].time = k /\ est[t] = "pred")
     /\ (pc = "predict" /\ t \in toPredict => at[t] = k - 1 /\ filt[t].time = k - 1)
     /\ (pc = "update" => at[t] = k /\ filt[t].time = k /\ est[t] = IF stage[t] = 8 THEN "upd" ELSE "pred")
LastObservedExact ==
  \A t \in Targets : Quiet(t) => lastObs[t] = Max(obsH[t])
FilterStepPerObservedStep ==
  \A t \in Targets : Quiet(t) =>
     \A j \in 1..NSteps : Count(db.fs[t] \o fsq[t], j) = IF j \in obsH[t] THEN 1 ELSE 0

NoCrash == pc # "crashed"
=============================================================================
