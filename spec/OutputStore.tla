----------------------------- MODULE OutputStore -----------------------------
(***************************************************************************)
(* G05 (spec growth): the output database as a transactional relational    *)
(* store and the query API that the estimation code and users read it      *)
(* with.                                                                   *)
(*                                                                         *)
(* Models  src/resonaate/data/data_interface.py                            *)
(*           DataInterface.insertData   -> Insert   (one transaction)      *)
(*           DataInterface.bulkSave     -> Bulk     (one transaction)      *)
(*           DataInterface.deleteData   -> Delete   (one transaction)      *)
(*           DataInterface.resetData    -> Reset    (NOT a transaction:    *)
(*                                         one DROP per named table, then  *)
(*                                         create_all - a bad name raises  *)
(*                                         between the two)                *)
(*           DataInterface.getData      -> the queries below               *)
(*         src/resonaate/data/queries.py                                   *)
(*           fetch{Truth,Estimates,Observations}ByJDInterval -> QInterval  *)
(*           fetch{Truth,Estimates,Observations}ByJDEpoch    -> QEpoch     *)
(*           fetchAgentIDs / fetchEstimateIDs                -> QIds       *)
(*         and the table definitions of data/epoch.py, agent.py,           *)
(*         ephemeris.py, observation.py: epochs are unique per instant,    *)
(*         agents per id, the data tables have a surrogate key only (the   *)
(*         same (agent, instant) may be stored twice); SQLite does not     *)
(*         enforce the foreign keys, but the ORM loads epoch and agent(s)  *)
(*         of a data row with an INNER join, so a data row whose epoch or  *)
(*         agent row is missing is invisible to every ORM query.           *)
(*                                                                         *)
(* Time: instants are HALF ticks h in HalfTicks; a stored row sits on an   *)
(* even h (tick h \div 2 of the scenario clock), query bounds may also lie *)
(* between ticks (odd h) or outside the span.  NoBound = the API's None.   *)
(*                                                                         *)
(* The specification is bound to the code in both directions by            *)
(* harness/drivers/g05.py: every (state, call) edge that TLC enumerates is *)
(* replayed on a real ResonaateDatabase, and records of real databases     *)
(* written by real scenario runs are validated by TraceOutputStore.        *)
(***************************************************************************)
EXTENDS Integers, Sequences, FiniteSets, TLC, Json

CONSTANTS Agents,      \* agent ids (positive integers)
          MaxTick,     \* ticks 0..MaxTick
          MaxRows,     \* bound on the rows of a posed state
          MaxDup,      \* largest multiplicity of one (agent, tick) in a data table
          Ops,         \* subset of {"insert","bulk","delete","reset","interval","epoch","ids"}
          Dev,         \* "none" or a named deviation (spec mutant)
          EmitEdges,   \* print one EDGE line per transition (spec -> impl replay)
          Posed,       \* TRUE: Init poses every bounded state; FALSE: Init is the empty database
          QIdSets      \* the id lists a query / delete may be handed (subsets of Agents)

VARIABLES live,   \* tables that exist in the schema
          ep,     \* ticks that have an epochs row
          ag,     \* ids that have an agents row
          dat,    \* dat[tb][<<a, t>>] = number of rows of data table tb for agent a at tick t
                  \* (for "obs": a = target; the sensor is the row's `sn` - see ObsSensor)
          last    \* the call just made and what it returned
vars == <<live, ep, ag, dat, last>>

Tables     == {"epochs", "agents", "truth", "est", "obs"}
DataTables == {"truth", "est", "obs"}
Ticks      == 0..MaxTick
Cells      == Agents \X Ticks
HalfTicks  == (-1)..(2 * MaxTick + 1)
NoBound    == -99
Bounds     == HalfTicks \cup {NoBound}

\* every observation row of the model is made by this sensor (an agent id); an observation is
\* visible only if sensor AND target have an agents row
ObsSensor == CHOOSE a \in Agents : \A b \in Agents : a <= b

EmptyDat == [tb \in DataTables |-> [c \in Cells |-> 0]]
RowCount(d) == LET S(tb) == LET RECURSIVE Sum(_)
                                Sum(cs) == IF cs = {} THEN 0
                                           ELSE LET c == CHOOSE x \in cs : TRUE IN d[tb][c] + Sum(cs \ {c})
                            IN Sum(Cells)
               IN S("truth") + S("est") + S("obs")

(***************************************************************************)
(* What the ORM can see.                                                   *)
(***************************************************************************)
Needs(tb) == IF tb \in DataTables THEN {tb, "epochs", "agents"} ELSE {tb}
Usable(tb) == Needs(tb) \subseteq live

Visible(tb, c) ==
  /\ c[2] \in ep
  /\ c[1] \in ag
  /\ (tb = "obs" => ObsSensor \in ag)

Lo(lb) == IF lb = NoBound THEN -1000 ELSE lb
Hi(ub) == IF ub = NoBound THEN 1000 ELSE IF Dev = "half_open" THEN ub - 1 ELSE ub

InRange(c, ids, lb, ub) == c[1] \in ids /\ Lo(lb) <= 2 * c[2] /\ 2 * c[2] <= Hi(ub)

\* the bag an interval query returns: cell -> multiplicity
IntervalBag(tb, ids, lb, ub) ==
  [c \in Cells |-> IF InRange(c, ids, lb, ub) /\ (Visible(tb, c) \/ Dev = "outer_join") THEN dat[tb][c] ELSE 0]
EpochBag(tb, ids, h) ==
  [c \in Cells |-> IF c[1] \in ids /\ 2 * c[2] = h /\ Visible(tb, c) THEN dat[tb][c] ELSE 0]

(***************************************************************************)
(* Calls.  Every call sets last = [op, args.., res, ...].  res is "ok" or  *)
(* the class of outcome: "error" (an exception of the SQL layer, the       *)
(* transaction rolled back), "ValueError", "notable" (OperationalError:    *)
(* a needed table does not exist).                                         *)
(***************************************************************************)
Items == [tb : {"epochs"}, a : {0}, t : Ticks] \cup [tb : {"agents"}, a : Agents, t : {0}]
         \cup [tb : DataTables, a : Agents, t : Ticks]
Batches == {<<i>> : i \in Items} \cup {<<i, j>> : i \in Items, j \in Items}

\* uniqueness: epochs per tick, agents per id - against the database and inside the batch
BatchConflicts(b) ==
  \/ \E k \in 1..Len(b) : \/ b[k].tb = "epochs" /\ b[k].t \in ep
                          \/ b[k].tb = "agents" /\ b[k].a \in ag
  \/ \E k, m \in 1..Len(b) : k < m /\ b[k] = b[m] /\ b[k].tb \in {"epochs", "agents"}
BatchTables(b) == {b[k].tb : k \in 1..Len(b)}

ApplyBatch(b) ==
  /\ ep' = ep \cup {b[k].t : k \in {m \in 1..Len(b) : b[m].tb = "epochs"}}
  /\ ag' = ag \cup {b[k].a : k \in {m \in 1..Len(b) : b[m].tb = "agents"}}
  /\ dat' = [tb \in DataTables |-> [c \in Cells |->
               dat[tb][c] + Cardinality({k \in 1..Len(b) : b[k].tb = tb /\ <<b[k].a, b[k].t>> = c})]]

Write(op, b) ==
  /\ op \in Ops
  /\ IF ~(BatchTables(b) \subseteq live)
       THEN /\ UNCHANGED <<ep, ag, dat>>
            /\ last' = [op |-> op, batch |-> b, res |-> "notable"]
       ELSE IF BatchConflicts(b)
         THEN \* atomic: nothing of the batch is stored   (deviation: the rows before the conflict stay)
              /\ IF Dev = "partial_commit" /\ Len(b) = 2 /\ ~BatchConflicts(<<b[1]>>)
                   THEN ApplyBatch(<<b[1]>>) ELSE UNCHANGED <<ep, ag, dat>>
              /\ last' = [op |-> op, batch |-> b, res |-> "error"]
         ELSE /\ ApplyBatch(b)
              /\ last' = [op |-> op, batch |-> b, res |-> "ok"]
  /\ UNCHANGED live

Insert(b) == Write("insert", b)
Bulk(b)   == Write("bulk", b)

IdSets == SUBSET Agents

Delete(tb, ids, lb, ub) ==
  /\ "delete" \in Ops /\ tb \in DataTables
  /\ UNCHANGED <<live, ep, ag>>
  /\ IF ~Usable(tb)
       THEN /\ UNCHANGED dat
            /\ last' = [op |-> "delete", tb |-> tb, ids |-> ids, lb |-> lb, ub |-> ub, res |-> "notable", n |-> 0]
       ELSE IF lb # NoBound /\ ub # NoBound /\ lb > ub
         THEN /\ UNCHANGED dat
              /\ last' = [op |-> "delete", tb |-> tb, ids |-> ids, lb |-> lb, ub |-> ub, res |-> "ValueError", n |-> 0]
         ELSE LET bag == IntervalBag(tb, ids, lb, ub)
                  n == LET RECURSIVE Sum(_)
                           Sum(cs) == IF cs = {} THEN 0
                                      ELSE LET c == CHOOSE x \in cs : TRUE IN bag[c] + Sum(cs \ {c})
                       IN Sum(Cells)
              IN /\ dat' = [dat EXCEPT ![tb] = [c \in Cells |-> dat[tb][c] - bag[c]]]
                 /\ last' = [op |-> "delete", tb |-> tb, ids |-> ids, lb |-> lb, ub |-> ub, res |-> "ok", n |-> n]

\* resetData(names): names is a sequence; "bogus" is not a table of the data model
ResetArgs == {<<>>} \cup {<<x>> : x \in Tables \cup {"bogus"}}
             \cup {<<x, y>> : x \in Tables \cup {"bogus"}, y \in Tables \cup {"bogus"}}
Wipe(S) ==
  /\ ep' = IF "epochs" \in S THEN {} ELSE ep
  /\ ag' = IF "agents" \in S THEN {} ELSE ag
  /\ dat' = [tb \in DataTables |-> IF tb \in S THEN [c \in Cells |-> 0] ELSE dat[tb]]
Reset(names) ==
  /\ "reset" \in Ops
  /\ LET bad  == {k \in 1..Len(names) : names[k] \notin Tables}
         \* the first name that cannot be dropped: not a table, or a table that does not exist (any more -
         \* also one named twice)
         Stop(k) == \/ names[k] \notin Tables
                    \/ names[k] \notin live
                    \/ \E m \in 1..(k - 1) : names[m] = names[k]
         stops == {k \in 1..Len(names) : Stop(k)}
         first == IF stops = {} THEN Len(names) + 1 ELSE CHOOSE k \in stops : \A m \in stops : k <= m
         dropped == {names[k] : k \in 1..(first - 1)}
     IN IF stops = {}
          THEN \* every named table dropped, then every table of the data model (re)created
               /\ Wipe(dropped) /\ live' = Tables
               /\ last' = [op |-> "reset", names |-> names, res |-> "ok"]
          ELSE \* as coded: the tables named before the stop are gone and NOT recreated
               /\ Wipe(dropped)
               /\ live' = IF Dev = "reset_atomic" THEN live ELSE live \ dropped
               /\ last' = [op |-> "reset", names |-> names,
                           res |-> IF names[first] \notin Tables THEN "ValueError" ELSE "notable"]

QInterval(tb, ids, lb, ub) ==
  /\ "interval" \in Ops /\ tb \in DataTables
  /\ UNCHANGED <<live, ep, ag, dat>>
  /\ last' = [op |-> "interval", tb |-> tb, ids |-> ids, lb |-> lb, ub |-> ub,
              res |-> IF lb # NoBound /\ ub # NoBound /\ lb > ub THEN "ValueError"
                      ELSE IF ~Usable(tb) THEN "notable" ELSE "ok",
              bag |-> IF (lb # NoBound /\ ub # NoBound /\ lb > ub) \/ ~Usable(tb) THEN [c \in Cells |-> 0]
                      ELSE IntervalBag(tb, ids, lb, ub)]

QEpoch(tb, ids, h) ==
  /\ "epoch" \in Ops /\ tb \in DataTables
  /\ UNCHANGED <<live, ep, ag, dat>>
  /\ last' = [op |-> "epoch", tb |-> tb, ids |-> ids, h |-> h,
              res |-> IF ~Usable(tb) THEN "notable" ELSE "ok",
              bag |-> IF ~Usable(tb) THEN [c \in Cells |-> 0] ELSE EpochBag(tb, ids, h)]

\* fetchAgentIDs: the agents table; fetchEstimateIDs: DISTINCT agent_id of the estimates table - a plain column
\* query, no join: ids without an agents row are listed too
QIds(which) ==
  /\ "ids" \in Ops /\ which \in {"agents", "est"}
  /\ UNCHANGED <<live, ep, ag, dat>>
  /\ last' = [op |-> "ids", which |-> which,
              res |-> IF which \in live THEN "ok" ELSE "notable",
              set |-> IF which \notin live THEN {}
                      ELSE IF which = "agents" THEN ag
                      ELSE {a \in Agents : \E t \in Ticks : dat["est"][<<a, t>>] > 0}]

Call ==
  \/ \E b \in Batches : Insert(b) \/ Bulk(b)
  \/ \E tb \in DataTables, ids \in QIdSets, lb \in Bounds, ub \in Bounds :
        Delete(tb, ids, lb, ub) \/ QInterval(tb, ids, lb, ub)
  \/ \E tb \in DataTables, ids \in QIdSets, h \in HalfTicks : QEpoch(tb, ids, h)
  \/ \E names \in ResetArgs : Reset(names)
  \/ \E w \in {"agents", "est"} : QIds(w)

\* compact forms for printing: only the non-empty cells
RowsC(d)   == {r \in {<<tb, c[1], c[2], d[tb][c]>> : tb \in DataTables, c \in Cells} : r[4] > 0}
BagC(b)    == {r \in {<<c[1], c[2], b[c]>> : c \in Cells} : r[3] > 0}
CallC(l)   == IF l.op \in {"interval", "epoch"} THEN [l EXCEPT !.bag = BagC(l.bag)] ELSE l
Edge == [live |-> live, ep |-> ep, ag |-> ag, rows |-> RowsC(dat),
         live2 |-> live', ep2 |-> ep', ag2 |-> ag', rows2 |-> RowsC(dat'), call |-> CallC(last')]
Next == Call /\ (EmitEdges => PrintT(<<"EDGE", ToJson(Edge)>>))

NoCall == [op |-> "none"]
\* posed states: at most MaxRows distinct (table, agent, tick) entries, one of them possibly stored MaxDup times
Slots == DataTables \X Cells
SmallSets(S, n) == {P \in SUBSET S : Cardinality(P) <= n}
PosedDat(P, d) == [tb \in DataTables |-> [c \in Cells |->
                     IF <<tb, c>> \in P THEN (IF <<tb, c>> = d THEN MaxDup ELSE 1) ELSE 0]]
Init ==
  /\ last = NoCall
  /\ live = Tables
  /\ IF Posed
       THEN /\ ep \in SUBSET Ticks /\ ag \in SUBSET Agents
            /\ \E P \in SmallSets(Slots, MaxRows) : \E d \in P \cup {<<"none", <<0, 0>>>>} : dat = PosedDat(P, d)
       ELSE ep = {} /\ ag = {} /\ dat = EmptyDat

Spec == Init /\ [][Next]_vars
\* posed configurations: one call from every posed state
DepthOne == TLCGet("level") <= 1
DepthThree == TLCGet("level") <= 3

(***************************************************************************)
(* Properties.  They are stated on the call record, independently of the   *)
(* operators that compute the replies.                                     *)
(***************************************************************************)
TypeOK ==
  /\ live \subseteq Tables /\ ep \subseteq Ticks /\ ag \subseteq Agents
  /\ dat \in [DataTables -> [Cells -> Nat]]

IsQuery == last.op \in {"interval", "epoch"} /\ last.res = "ok"
InQ(c) == IF last.op = "interval"
            THEN c[1] \in last.ids /\ (last.lb = NoBound \/ last.lb <= 2 * c[2]) /\ (last.ub = NoBound \/ 2 * c[2] <= last.ub)
            ELSE c[1] \in last.ids /\ 2 * c[2] = last.h
\* sound: only rows that are stored, visible, of a listed agent and inside the CLOSED interval / at the instant
QuerySound == IsQuery => \A c \in Cells : last.bag[c] > 0 => InQ(c) /\ Visible(last.tb, c) /\ last.bag[c] = dat[last.tb][c]
\* complete: every such row, with its multiplicity
QueryComplete == IsQuery => \A c \in Cells : InQ(c) /\ Visible(last.tb, c) => last.bag[c] = dat[last.tb][c]
\* an interval whose bounds coincide on a tick is the epoch query of that tick
\* (stated on the state: both operators evaluated side by side)
PointIntervalIsEpoch ==
  \A tb \in DataTables, ids \in IdSets, t \in Ticks : IntervalBag(tb, ids, 2 * t, 2 * t) = EpochBag(tb, ids, 2 * t)
\* the estimate ids are exactly the ids that an unbounded estimate query over all agents can return PLUS the
\* ids hidden by a missing agent / epoch row: never fewer than the visible ones
IdsCoverVisible ==
  (last.op = "ids" /\ last.res = "ok" /\ last.which = "est") =>
     \A a \in Agents : (\E t \in Ticks : dat["est"][<<a, t>>] > 0 /\ Visible("est", <<a, t>>)) => a \in last.set

\* a failed write leaves the database as it was; a write never touches tables it was not handed rows of
WriteAtomic == [][(last'.op \in {"insert", "bulk"} /\ last'.res # "ok") => UNCHANGED <<live, ep, ag, dat>>]_vars
WriteExact  == [][(last'.op \in {"insert", "bulk"} /\ last'.res = "ok") =>
                    /\ \A tb \in DataTables : tb \notin BatchTables(last'.batch) => dat'[tb] = dat[tb]
                    /\ ("epochs" \notin BatchTables(last'.batch) => ep' = ep)
                    /\ ("agents" \notin BatchTables(last'.batch) => ag' = ag)
                    /\ RowCount(dat') + Cardinality(ep') + Cardinality(ag')
                         = RowCount(dat) + Cardinality(ep) + Cardinality(ag) + Len(last'.batch)]_vars
\* queries read
QueriesRead == [][last'.op \in {"interval", "epoch", "ids"} => UNCHANGED <<live, ep, ag, dat>>]_vars
\* a delete removes exactly what the same interval query shows, and reports that number
DeleteExact == [][(last'.op = "delete" /\ last'.res = "ok") =>
                    /\ RowCount(dat) - RowCount(dat') = last'.n
                    /\ \A tb \in DataTables, c \in Cells :
                          dat'[tb][c] = IF tb = last'.tb /\ InRange(c, last'.ids, last'.lb, last'.ub) /\ Visible(tb, c)
                                          THEN 0 ELSE dat[tb][c]
                    /\ UNCHANGED <<ep, ag>>]_vars
\* resetData only empties tables it names; when it returns normally the whole schema exists
ResetOnlyNamed == [][last'.op = "reset" =>
                       /\ \A tb \in DataTables : (\A k \in 1..Len(last'.names) : last'.names[k] # tb) => dat'[tb] = dat[tb]
                       /\ ((\A k \in 1..Len(last'.names) : last'.names[k] # "epochs") => ep' = ep)
                       /\ ((\A k \in 1..Len(last'.names) : last'.names[k] # "agents") => ag' = ag)
                       /\ (last'.res = "ok" => live' = Tables)]_vars
\* EXPECTATION the code does not meet (kept as an observation, TLC must refute it): a resetData that raises
\* leaves the schema complete
XResetKeepsSchema == [][last'.op = "reset" => live' = Tables]_vars
\* a dropped table never holds rows
DroppedIsEmpty ==
  /\ ("epochs" \notin live => ep = {}) /\ ("agents" \notin live => ag = {})
  /\ \A tb \in DataTables : tb \notin live => \A c \in Cells : dat[tb][c] = 0
=============================================================================
