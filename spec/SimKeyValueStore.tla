--------------------------- MODULE SimKeyValueStore ---------------------------
(* spec -> impl for G01: random behaviours of KeyValueStore.tla (`-simulate`)   *)
(* carried in a history variable and printed as ONE line when the behaviour     *)
(* stops (TLC evaluates invariants on every candidate successor in simulation   *)
(* mode, so per-state printing would mix candidates with the chosen path; the   *)
(* stop step has a single successor).  Every printed history is a behaviour of  *)
(* Spec: the steps are exactly Next.                                            *)
EXTENDS MCKeyValueStore

VARIABLES hist, stopped
svars == <<vars, hist, stopped>>
SimDepth == 40

SimInit == Init /\ hist = <<>> /\ stopped = FALSE
SimStep ==
  /\ ~stopped /\ TLCGet("level") < SimDepth
  /\ Next
  /\ hist' = Append(hist, [last |-> last', store |-> Compact(store'),
                           pcs |-> [c \in Clients |-> pc'[c]], locs |-> [c \in Clients |-> loc'[c]]])
  /\ stopped' = FALSE
SimStop ==
  /\ ~stopped /\ TLCGet("level") >= SimDepth
  /\ stopped' = TRUE
  /\ UNCHANGED <<vars, hist>>
SimNext == SimStep \/ SimStop
SimSpec == SimInit /\ [][SimNext]_svars
SimEmitBeh == stopped => PrintT("BEH " \o ToJson(hist))
=============================================================================
