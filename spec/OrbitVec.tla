------------------------------- MODULE OrbitVec -------------------------------
(***************************************************************************)
(* Helpers for OrbitLattice.tla: exact 3-vectors / 3x3 matrices over the   *)
(* rationals of Rationals.tla, exact square roots of perfect squares, and   *)
(* trigonometry at multiples of a quarter turn.  Nothing here is specific  *)
(* to orbits.  (Rationals.tla is shared and not edited; extensions live     *)
(* here.)                                                                   *)
(***************************************************************************)
EXTENDS Integers, Sequences, Rationals

Zero == <<0, 1>>
One  == <<1, 1>>
QSq(x) == QMul(x, x)
QAbs(x) == IF x[1] < 0 THEN QNeg(x) ELSE x
QIsInt(x) == x[2] = 1

\* ---- exact square roots (of perfect squares only) ----
RECURSIVE ISqrtR(_, _, _)
ISqrtR(n, lo, hi) == IF lo >= hi THEN lo
                     ELSE LET mid == (lo + hi + 1) \div 2
                          IN IF mid * mid <= n THEN ISqrtR(n, mid, hi) ELSE ISqrtR(n, lo, mid - 1)
ISqrt(n) == ISqrtR(n, 0, IF n < 46340 THEN n ELSE 46340)      \* 46340^2 < 2^31
IsSquare(n) == n >= 0 /\ ISqrt(n) * ISqrt(n) = n
QIsSquare(x) == IsSquare(x[1]) /\ IsSquare(x[2])              \* x gcd-normalised
QSqrt(x) == <<ISqrt(x[1]), ISqrt(x[2])>>                       \* only meaningful if QIsSquare(x)

\* ---- addition over the least common denominator (Rationals!QAdd cross-multiplies the
\* denominators, which overflows 2^31 much earlier) ----
QAddL(a, b) == LET g == Gcd(a[2], b[2])
               IN Norm(a[1] * (b[2] \div g) + b[1] * (a[2] \div g), (a[2] \div g) * b[2])
QSubL(a, b) == QAddL(a, QNeg(b))

\* ---- vectors and matrices ----
QV(v) == <<Q(v[1]), Q(v[2]), Q(v[3])>>                         \* integer vector -> rational vector
VAdd(u, v) == <<QAddL(u[1], v[1]), QAddL(u[2], v[2]), QAddL(u[3], v[3])>>
VSub(u, v) == <<QSubL(u[1], v[1]), QSubL(u[2], v[2]), QSubL(u[3], v[3])>>
VScale(c, v) == <<QMul(c, v[1]), QMul(c, v[2]), QMul(c, v[3])>>
Dot(u, v) == QAddL(QAddL(QMul(u[1], v[1]), QMul(u[2], v[2])), QMul(u[3], v[3]))
Cross(u, v) == << QSubL(QMul(u[2], v[3]), QMul(u[3], v[2])),
                  QSubL(QMul(u[3], v[1]), QMul(u[1], v[3])),
                  QSubL(QMul(u[1], v[2]), QMul(u[2], v[1])) >>
VEq(u, v) == QEq(u[1], v[1]) /\ QEq(u[2], v[2]) /\ QEq(u[3], v[3])
VIsZero(u) == u[1][1] = 0 /\ u[2][1] = 0 /\ u[3][1] = 0
MatVec(M, v) == <<Dot(M[1], v), Dot(M[2], v), Dot(M[3], v)>>
Col(M, j) == <<M[1][j], M[2][j], M[3][j]>>
MatMul(A, B) == [i \in 1..3 |-> [j \in 1..3 |-> Dot(A[i], Col(B, j))]]
Transpose(M) == [i \in 1..3 |-> [j \in 1..3 |-> M[j][i]]]
Ident == <<<<One, Zero, Zero>>, <<Zero, One, Zero>>, <<Zero, Zero, One>>>>
MatEq(A, B) == \A i \in 1..3 : VEq(A[i], B[i])
Det(M) == Dot(M[1], Cross(M[2], M[3]))
IsRotation(M) == MatEq(MatMul(M, Transpose(M)), Ident) /\ QEq(Det(M), One)
QMat(M) == [i \in 1..3 |-> QV(M[i])]                           \* integer matrix -> rational matrix
VSmall(v) == QSmall(v[1]) /\ QSmall(v[2]) /\ QSmall(v[3])

\* ---- the circle at quarter turns: angle k means k * 90 degrees ----
CosQ(k) == <<1, 0, -1, 0>>[(k % 4) + 1]
SinQ(k) == <<0, 1, 0, -1>>[(k % 4) + 1]
\* active rotations (vector rotated counter-clockwise about the axis by the angle whose
\* cosine / sine are given); the code's rot3(-x) / rot1(-x) (Vallado's passive matrices)
R3(c, s) == <<<<c, QNeg(s), Zero>>, <<s, c, Zero>>, <<Zero, Zero, One>>>>
R1(c, s) == <<<<One, Zero, Zero>>, <<Zero, c, QNeg(s)>>, <<Zero, s, c>>>>
R3q(k) == R3(Q(CosQ(k)), Q(SinQ(k)))

\* arccos restricted to {1, 0, -1} -> {0, 1, 2} quarter turns; -1 when not on the lattice
AcosQ(c) == IF QEq(c, One) THEN 0 ELSE IF QEq(c, Zero) THEN 1 ELSE IF QEq(c, QNeg(One)) THEN 2 ELSE -1
\* orbits.fixAngleQuadrant: "if check < 0: angle = 2 pi - angle"
FixQuadrant(a, check) == IF a < 0 THEN -1 ELSE IF QSign(check) < 0 THEN (4 - a) % 4 ELSE a
\* atan2 restricted to the four axis directions (s, c) -> quarter turns
Atan2Q(s, c) == IF QSign(c) > 0 /\ QSign(s) = 0 THEN 0
                ELSE IF QSign(c) = 0 /\ QSign(s) > 0 THEN 1
                ELSE IF QSign(c) < 0 /\ QSign(s) = 0 THEN 2
                ELSE IF QSign(c) = 0 /\ QSign(s) < 0 THEN 3 ELSE -1
=============================================================================
