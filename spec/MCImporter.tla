------------------------------ MODULE MCImporter ------------------------------
(* Exhaustive configurations for Importer.tla: every row set over two scenario *)
(* agents and one unrelated agent, two steps, both realtime/imported mixes.     *)
EXTENDS Importer
AllAgents == {"t1", "s1"}
Unrelated == {"x1", "x2"}
RowUniverse == (AllAgents \cup Unrelated) \X (1..2)
ObsUniverse == {<<1, "t1", "s1">>, <<2, "t1", "s1">>}
MCConfigs ==
  {[agents |-> AllAgents, imported |-> imp, targets |-> {"t1"}, rows |-> rows, obs |-> obs, nsteps |-> 2, born |-> born] :
     imp \in {{"t1"}, {"s1"}, {"t1", "s1"}}, rows \in SUBSET RowUniverse, obs \in SUBSET ObsUniverse,
     born \in {[a \in AllAgents |-> 0], [a \in AllAgents |-> IF a = "t1" THEN 2 ELSE 0]}}
=============================================================================
