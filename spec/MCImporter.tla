------------------------------ MODULE MCImporter ------------------------------
(* Exhaustive configurations for Importer.tla (posed by nested quantifiers in the initial predicate: the set of   *)
(* configurations is never materialised).                                                                          *)
(*  Ephemeris side, EphInit(N, Unrelated): two scenario agents (a target, a sensor; one engine), N steps, EVERY   *)
(*  set of Epoch rows of the importer database (all present / a hole across all agents / every other epoch only / *)
(*  the database ends early / empty), EVERY set of ephemeris rows over the scenario's and the unrelated agents    *)
(*  hanging on those epochs (supersets, exact sets, subsets: gaps for single agents), every imported / realtime   *)
(*  mix, a target that joins mid-run, no observation rows or one on every epoch.                                      *)
(*  Observation side, ObsInit: two targets, two sensors, one engine or two engines with EVERY assignment of the   *)
(*  sensors to the engines and EVERY family of target lists that covers the targets (disjoint networks, shared    *)
(*  targets, an engine whose sensor observed a target only the other engine tracks: cross-engine observations),   *)
(*  every set of observation rows over both epochs with any of two of them stored twice, with and without          *)
(*  an imported agent.  Schema of the importer file: full data model / only the tables the importer reads.        *)
EXTENDS Importer
AllAgents == {"t1", "s1"}
EphInit(N, Unrelated, Schemas) ==
  \E ep \in SUBSET (1..N) :
   \E imp \in {{"t1"}, {"s1"}, {"t1", "s1"}}, rows \in SUBSET ((AllAgents \cup Unrelated) \X ep),
      obs \in {{}, {<<j, "t1", "s1">> : j \in ep}},
      born \in {[a \in AllAgents |-> 0], [a \in AllAgents |-> IF a = "t1" THEN 2 ELSE 0]},
      schema \in Schemas :
     InitWith([agents |-> AllAgents, imported |-> imp, targets |-> {"t1"}, epochs |-> ep, rows |-> rows, obs |-> obs,
               dup |-> {}, schema |-> schema, near |-> {}, nsteps |-> N, born |-> born, gone |-> [a \in AllAgents |-> N + 1],
               engines |-> {1}, sensorOf |-> [s \in {"s1"} |-> 1], tracks |-> [e \in {1} |-> {"t1"}],
               site |-> [s \in {"s1"} |-> 1]])

\* Sub-step epochs: the importer database also holds records at instants that are not scenario epochs - inside the
\* wall-clock second of a scenario epoch (before / after it) or between two steps -, for every set of Epoch rows and
\* every set of ephemeris rows of the two scenario agents at the scenario's own epochs (so: a gap at a scenario epoch
\* whose second holds a foreign record, a whole scenario epoch absent while its second is populated, ...).
NearU == ({"t1", "s1"} \X {1} \X {"before"}) \cup {<<"t1", 2, "after">>, <<"s1", 2, "mid">>}
NearInit ==
  \E ep \in SUBSET (1..2) :
   \E imp \in {{"t1"}, {"s1"}, {"t1", "s1"}}, rows \in SUBSET (AllAgents \X ep), near \in SUBSET NearU,
      born \in {[a \in AllAgents |-> 0], [a \in AllAgents |-> IF a = "t1" THEN 2 ELSE 0]} :
     InitWith([agents |-> AllAgents, imported |-> imp, targets |-> {"t1"}, epochs |-> ep, rows |-> rows, obs |-> {},
               dup |-> {}, schema |-> "full", near |-> near, nsteps |-> 2, born |-> born, gone |-> [a \in AllAgents |-> 3],
               engines |-> {1}, sensorOf |-> [s \in {"s1"} |-> 1], tracks |-> [e \in {1} |-> {"t1"}],
               site |-> [s \in {"s1"} |-> 1]])

TB == {"t1", "t2"}
SB == {"s1", "s2"}
ObsB == ({1} \X TB \X SB) \cup {<<2, "t1", "s2">>, <<2, "t2", "s1">>}
DupB == {<<1, "t1", "s2">>, <<2, "t2", "s1">>}
Apart == [s \in SB |-> IF s = "s1" THEN 1 ELSE 2]
Together == [s \in SB |-> 1]          \* both sensors at IDENTICAL coordinates (in one engine or in different engines)
\* life = <<born, gone>> of sensor s2: <<0, 3>> there throughout, <<2, 3>> joins its engine before step 2 (after the
\* first import), <<0, 2>> leaves it before step 2
ObsInitD(Dups, site, ObsU, Lives) ==
  \E eng \in {{1}, {1, 2}} :
   \E imp \in {{}, {"t1"}}, obs \in SUBSET ObsU, so \in [SB -> eng],
      tr \in {f \in [eng -> SUBSET TB] : UNION {f[e] : e \in eng} = TB} :
    \E dup \in SUBSET (obs \cap Dups), life \in Lives :
     InitWith([agents |-> TB \cup SB, imported |-> imp, targets |-> TB, epochs |-> 1..2, rows |-> imp \X (1..2), obs |-> obs,
               dup |-> dup, schema |-> IF imp = {} THEN "minimal" ELSE "full", near |-> {},
               nsteps |-> 2, born |-> [a \in TB \cup SB |-> IF a = "s2" THEN life[1] ELSE 0],
               gone |-> [a \in TB \cup SB |-> IF a = "s2" THEN life[2] ELSE 3], engines |-> eng, sensorOf |-> so, tracks |-> tr, site |-> site])

Stays == {<<0, 3>>}
ObsInitDup == ObsInitD(DupB, Apart, ObsB, Stays)
ObsInitNoDup == ObsInitD({}, Apart, ObsB, Stays)
ObsInitTogether == ObsInitD({}, Together, {1} \X TB \X SB, Stays)
\* a sensor that joins / leaves after the first import, with stored observations by it before and after the change
ObsInitRoster == ObsInitD({}, Apart, {<<1, "t1", "s1">>, <<1, "t1", "s2">>, <<2, "t1", "s2">>, <<2, "t2", "s2">>},
                          {<<2, 3>>, <<0, 2>>})
ObsInit == ObsInitDup \/ ObsInitTogether \/ ObsInitRoster
Both == {"full", "minimal"}
MCInitQuick == EphInit(2, {"x1", "x2"}, Both) \/ EphInit(3, {"x1"}, {"full"}) \/ NearInit \/ ObsInit
MCInitThorough == EphInit(2, {"x1", "x2"}, Both) \/ EphInit(4, {"x1"}, Both) \/ EphInit(3, {"x1", "x2"}, Both) \/ NearInit \/ ObsInit
\* the part of the space in which each named deviation must be refuted
MCInitCounts == EphInit(2, {"x1", "x2"}, {"full"})
MCInitCounts2 == EphInit(2, {"x1", "x2"}, Both)
MCInitEpochs == EphInit(3, {"x1"}, {"full"})
=============================================================================
