------------------------------ MODULE Windows ------------------------------
(***************************************************************************)
(* Side model for C01 (design check of the repair of D2/D3): delivery      *)
(* window + queue pruning + zero-crossing application of ONE impulsive     *)
(* event, with the rounding noise of the three Julian-date paths of        *)
(* Scenario.stepForward made explicit.                                     *)
(*   lower/upper window bound:  prior_jd, prior_jd + dt*SEC2DAYS           *)
(*   event row:                 datetimeToJulianDate(event time)           *)
(*   scenario time of impulse:  JulianDate.convertToScenarioTime           *)
(* Time unit: 1/M of a second ("subtick"); a noise term is -1, 0 or +1     *)
(* subtick and stands for "an ulp below / equal / an ulp above" - only the *)
(* ORDER of the values matters.  TLC explores every noise assignment.      *)
(* Result (checked by the C01 driver): as coded -> events dropped, late,   *)
(* duplicated; one shared date path alone -> impulses still lost/doubled;  *)
(* shared path + prune-drops-equal + rounded scenario time -> no violation *)
(* for any noise assignment.                                               *)
(***************************************************************************)
EXTENDS Integers, TLC
CONSTANTS Dt, NSteps, M,
          SharedWindowPath,   \* D2 repaired: window bounds and event JD come from one function
          PruneKeepsEqual,    \* as coded: an impulse with time == agent time stays queued
          RoundSimTime        \* repaired: the impulse's scenario time carries no conversion noise
Noise == {-1, 0, 1}
B(j) == j * Dt * M                      \* exact step boundary j, in subticks
VARIABLES k, tau, ejd, sim, lbN, ubN, queued, delivered, applied, lastDelivStep
vars == <<k, tau, ejd, sim, lbN, ubN, queued, delivered, applied, lastDelivStep>>

Init == /\ k = 0
        /\ tau \in 1..(NSteps * Dt)                 \* event time, whole seconds, after the start
        /\ \E c \in Noise, s \in Noise :
              /\ ejd = tau * M + c                  \* Julian date stored in the events table
              /\ sim = tau * M + (IF RoundSimTime THEN 0 ELSE s)   \* scenario time given to the integrator
        /\ lbN = 0 /\ ubN = 0
        /\ queued = FALSE /\ delivered = 0 /\ applied = 0 /\ lastDelivStep = 0

\* noise of a window bound that denotes boundary j
BoundNoise(j, n) == IF SharedWindowPath
                      THEN (IF B(j) = tau * M THEN ejd - tau * M ELSE 0)   \* same function => same value
                      ELSE n
Step ==
  /\ k < NSteps
  /\ \E a \in Noise, b \in Noise :
       LET lb == B(k) + BoundNoise(k, a)
           ub == B(k + 1) + BoundNoise(k + 1, b)
           t0 == B(k)                    \* agent time before the step (exact: k * dt as a float is exact)
           t1 == B(k + 1)
           deliver == lb < ejd /\ ejd <= ub
           q1 == queued \/ deliver
           kept == q1 /\ (t0 < sim \/ (PruneKeepsEqual /\ t0 = sim))
           fires == kept /\ t0 <= sim /\ sim <= t1      \* solve_ivp: (g <= 0) & (g_new >= 0)
       IN /\ delivered' = delivered + (IF deliver THEN 1 ELSE 0)
          /\ lastDelivStep' = IF deliver THEN k + 1 ELSE lastDelivStep
          /\ applied' = applied + (IF fires THEN 1 ELSE 0)
          /\ queued' = kept                           \* the queue is only pruned by time
          /\ lbN' = lb /\ ubN' = ub
  /\ k' = k + 1
  /\ UNCHANGED <<tau, ejd, sim>>
Spec == Init /\ [][Step]_vars

StepOf(t) == (t + Dt - 1) \div Dt          \* the step whose interval (prev, new] contains t
Done == k = NSteps
DeliveredExactlyOnce == Done => delivered = 1 /\ lastDelivStep = StepOf(tau)
AppliedExactlyOnce == Done => applied = 1
NeverTwice == applied <= 1 /\ delivered <= 1
=============================================================================
