SPECIFICATION FairSpec
CONSTANTS
  Targets <- T2
  Sensors <- S2
  InitTargets <- T2
  InitSensors <- S2
  Engines <- E2
  EngTargets <- SplitT
  EngSensors <- SplitS
  Policy <- PolMixed
  NSteps = 3
  SpanSteps = 3
  Dt = 3
  OutDt = 3
  Events <- Durations
  WithEstimation = TRUE
  WithSerendipity = FALSE
  WithFaults = FALSE
  ResetChangesPerJob = FALSE
  MissListSquared = FALSE
  KeepMissedAcrossSteps = FALSE
  PriorityToAllEngines = TRUE
  PruneKeepsEqual = FALSE
  PartialCommit = FALSE
  UpdateTouchesTruth = FALSE
  TRank <- RankT
  LastMergeWins = FALSE
INVARIANT OneRecordPerTasking
INVARIANT NoRecordWithoutTasking
INVARIANT PointingReflectsTasking
INVARIANT LastStepMissesOnly
INVARIANT RowsExact
INVARIANT StepResultIsCanonical
INVARIANT OnlyVisibleTasked
INVARIANT TruthAtClock
INVARIANT EstimatesAtClock
INVARIANT DbComplete
INVARIANT DbNoDup
INVARIANT DbRefs
INVARIANT ExactlyOnceInstant
INVARIANT DurationActiveExactly
INVARIANT OnlyAddressee
INVARIANT DvOnce
INVARIANT NeverTwice
INVARIANT BiasActiveExactly
PROPERTY NonInterference
PROPERTY CommitAtomic
PROPERTY RunCompletes
