\* CONTROL (expected to PASS): on well separated rewards (multiples of 8) the absolute bonus only breaks
\* ties - which is why unscaled small-integer records cannot see it
SPECIFICATION Spec
CONSTANTS MaxT = 2 MaxS = 2 RewardVals = {0, 8, 16} Policies = {"munkres"} VisBonus = 1
INVARIANT MunkresOptimal
INVARIANT DecisionFeasible
