SPECIFICATION TraceSpec
CONSTANTS N = 86400 MaxSteps = 1000 InvertStartBySecTruncation = FALSE CaptureAtJoinEpoch = FALSE CacheIgnoresEpoch = FALSE LocalTimeEpoch = FALSE MemoIgnoresSite = FALSE MaxJoinSteps = 1000
CONSTANT Lons <- LonsAll
CONSTANT Theta0s <- ThetasAll
CONSTANT StartSecs <- Secs60
CONSTANT PriorAngles <- OnePrior
CONSTANT Zones <- ZonesUtc
CONSTANT PriorLonShifts <- NoPrior
CONSTANT Plans <- NoPlan
CONSTANT Dts <- DtsQuick
INVARIANT TrStartInversionExact
INVARIANT TrClockAgrees
INVARIANT TrEpochAgrees
INVARIANT TrSiteEpochAgrees
INVARIANT TrSiteFixed
INVARIANT TrOwnFieldsFixed
INVARIANT TrDbRowFixed
INVARIANT TrVelIsRotation
INVARIANT SiteEpochAgrees
INVARIANT ConvertIgnoresHistory
INVARIANT SiteFixed
INVARIANT VelIsRotation
INVARIANT Accepted
