SPECIFICATION SpecWalk
CONSTANTS FirstYear = 1901 LastYear = 2099
CONSTANT JumpDates <- NewYears
CONSTANT JumpSods <- Midnight
INVARIANT TypeOK
INVARIANT MonthLengths
INVARIANT LeapRule
INVARIANT DoyCorrect
INVARIANT ClosedFormDayNumber
INVARIANT ClosedForm1901
INVARIANT DayNumberRoundTrip
INVARIANT HmsRoundTrip
INVARIANT RoundTrip
INVARIANT TickLength
INVARIANT OffsetsRoundTrip
INVARIANT EmitDay
PROPERTY Monotone
