SPECIFICATION Spec
CONSTANTS
  Targets <- T1
  Sensors <- S1
  InitTargets <- T1
  InitSensors <- S1
  Engines <- E1
  EngTargets <- AllT
  EngSensors <- AllS
  Policy <- PolGreedy
  NSteps = 2
  SpanSteps = 2
  Dt = 1
  OutDt = 1
  Events <- NoEvents
  WithEstimation = TRUE
  WithSerendipity = FALSE
  WithFaults = TRUE
  ResetChangesPerJob = FALSE
  MissListSquared = FALSE
  KeepMissedAcrossSteps = FALSE
  PriorityToAllEngines = FALSE
  PruneKeepsEqual = FALSE
  PartialCommit = TRUE
  UpdateTouchesTruth = FALSE
  TRank <- RankT
  LastMergeWins = FALSE
INVARIANT OneRecordPerTasking
INVARIANT NoRecordWithoutTasking
INVARIANT PointingReflectsTasking
INVARIANT LastStepMissesOnly
INVARIANT RowsExact
INVARIANT StepResultIsCanonical
INVARIANT OnlyVisibleTasked
INVARIANT TruthAtClock
INVARIANT EstimatesAtClock
INVARIANT DbComplete
INVARIANT DbNoDup
INVARIANT DbRefs
INVARIANT ExactlyOnceInstant
INVARIANT DurationActiveExactly
INVARIANT OnlyAddressee
INVARIANT DvOnce
INVARIANT NeverTwice
INVARIANT BiasActiveExactly
PROPERTY NonInterference
PROPERTY CommitAtomic
