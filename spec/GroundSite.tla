------------------------------ MODULE GroundSite ------------------------------
(***************************************************************************)
(* A ground facility (property C11): "a ground-based agent remains at its  *)
(* configured latitude, longitude and altitude for the whole simulation".  *)
(* The model of a ground agent is: its Earth-fixed coordinates never       *)
(* change, and the epoch at which its inertial state is evaluated is the   *)
(* scenario clock.                                                         *)
(*                                                                         *)
(* Code mirrored:                                                          *)
(*   dynamics/__init__.py:dynamicsFactory     x_ecef captured at the start *)
(*   dynamics/terrestrial.py:Terrestrial.__init__                          *)
(*        datetime_start = julianDateToDatetime(jd_start)   (Build)        *)
(*   dynamics/terrestrial.py:Terrestrial.propagate                         *)
(*        eci = ecef2eci(x_ecef, datetime_start + final_time)  (Step)      *)
(*   agents/sensing_agent.py:eci_state setter                              *)
(*        ecef/lla reported = eci2ecef(eci, agent.datetime_epoch) (Report) *)
(*                                                                         *)
(* Abstraction: the Earth is a circle of N ticks turning one tick per      *)
(* second; an Earth-fixed longitude is a tick `lon`, the Earth's angle at  *)
(* scenario second t is (theta0 + t) mod N, the inertial angle of the site *)
(* evaluated at epoch e is (lon + theta0 + e) mod N and its inertial       *)
(* velocity points a quarter turn ahead of it.  Times are integer seconds  *)
(* from the scenario start.  invErr is the error of the start-date         *)
(* inversion: 0 as designed; the named deviation                           *)
(* InvertStartBySecTruncation = TRUE lets it be -1 when the start instant  *)
(* has non-zero seconds (as-coded model of stardate.julianDateToDatetime), *)
(* which TLC shows to break SiteFixed (spec mutant for non-vacuity).       *)
(*                                                                         *)
(* A site may also JOIN LATE (Scenario.addSensor after `join` steps): Wait  *)
(* advances the clock before Build; siteLon is the Earth-fixed longitude   *)
(* the dynamics captured at Build (= lon as designed; the named deviation  *)
(* CaptureAtJoinEpoch shifts it by the elapsed time, refuted by SiteFixed). *)
(*                                                                         *)
(* The site's configuration OBJECT is a participant: it may already have   *)
(* been converted at another epoch (an earlier scenario built from the same *)
(* validated objects); `first` remembers that.  Every conversion must be a  *)
(* function of (site, epoch) only (ConvertIgnoresHistory); the named        *)
(* deviation CacheIgnoresEpoch (a memo on the object) is refuted by         *)
(* SiteFixed, also at the join instant before the first propagation.        *)
(* The HOST's local time zone is part of the posed environment (zone): as   *)
(* designed it is irrelevant; the named deviation LocalTimeEpoch (epochs    *)
(* built through the host's local time) is refuted by SiteEpochAgrees and   *)
(* SiteFixed for a run that crosses a daylight-saving switch.               *)
(* Properties: SiteEpochAgrees, StartInversionExact, SiteFixed,            *)
(* VelIsRotation.                                                          *)
(***************************************************************************)
EXTENDS Integers, Sequences, FiniteSets, TLC, Json

CONSTANTS N,                          \* ticks per revolution
          Lons, Theta0s,              \* site longitudes, Earth angle at the start (ticks)
          StartSecs, Dts, MaxSteps,
          Plans,                      \* step plans: sequences of step sizes (s); <<>> = "MaxSteps
                                      \* steps of the configured physics step dt"
          MaxJoinSteps,               \* the site may join after 0..MaxJoinSteps scenario steps
          PriorAngles,                \* Earth angles at which the site's configuration OBJECT may
                                      \* already have been converted (by an earlier scenario)
          PriorLonShifts,             \* the same agent id may have referred to ANOTHER site earlier in the
                                      \* process (that site's longitude = lon + shift)
          MemoIgnoresSite,            \* FALSE = as designed
          Zones,                      \* classes of the HOST's local time zone: <<kind, afterSteps, jump>>
                                      \*   "utc" / "fixed" offset / "dst": a zone with daylight saving whose
                                      \*   offset changes by `jump` seconds after `afterSteps` steps of the run
          InvertStartBySecTruncation, \* FALSE = as designed
          CaptureAtJoinEpoch,         \* FALSE = as designed
          CacheIgnoresEpoch,          \* FALSE = as designed
          LocalTimeEpoch              \* FALSE = as designed

VARIABLES pc, lon, theta0, startSec, dt, plan, invErr, clockSec, k, siteEpoch, inertial, vel, join, siteLon,
          first,      \* the configuration object: Earth angle of its first conversion, -1 = never converted
          zone,       \* the host's time zone class (part of the environment the run is posed in)
          prevLon     \* the site the agent's id referred to earlier in this process, -1 = the id is new
vars == <<pc, lon, theta0, startSec, dt, plan, invErr, clockSec, k, siteEpoch, inertial, vel, join, siteLon, first, zone,
          prevLon>>

Theta(t)      == (theta0 + t) % N                \* Earth angle at scenario second t
\* ecef2eci(x_ecef, start + e), position angle; x_ecef is what the dynamics captured (siteLon)
Inertial(e)   == (siteLon + theta0 + e) % N
Quarter       == N \div 4
\* what the agent reports as its Earth-fixed longitude: eci2ecef(eci, clock epoch)
ReportedLon   == (inertial - Theta(clockSec)) % N
ReportedVelLon == (vel - Theta(clockSec)) % N
\* LLAStateConfig.toECI(epoch) on the configuration OBJECT whose first conversion was at Earth
\* angle f (-1: none): the inertial angle of the site.  As DESIGNED a function of the site and the
\* epoch only; the named deviation CacheIgnoresEpoch = TRUE hands back the first conversion's
\* result (a memo on the object that ignores the epoch).
Convert(f, angle) == IF CacheIgnoresEpoch /\ f # -1 THEN (lon + f) % N ELSE (lon + angle) % N
\* Epochs are UTC; as DESIGNED the host's zone has no influence.  The named deviation
\* LocalTimeEpoch = TRUE builds a step's epoch through the host's LOCAL time (naive
\* datetime.timestamp() / fromtimestamp()): once the run's wall-clock values have passed a switch
\* of a daylight-saving zone the epoch is off by the change of the zone's offset.
UtcZone == <<"utc", 0, 0>>
ZoneShift(steps) == IF LocalTimeEpoch /\ zone[1] = "dst" /\ steps > zone[2] THEN zone[3] ELSE 0
InvErrs == IF InvertStartBySecTruncation /\ startSec # 0 THEN {0, -1} ELSE {0}

Init == /\ pc = "start" /\ lon = 0 /\ theta0 = 0 /\ startSec = 0 /\ dt = 0 /\ plan = <<>> /\ invErr = 0
        /\ clockSec = 0 /\ k = 0 /\ siteEpoch = 0 /\ inertial = 0 /\ vel = Quarter
        /\ join = 0 /\ siteLon = 0 /\ first = -1 /\ zone = UtcZone /\ prevLon = -1

\* (the configuration object is fresh, or an earlier scenario with another start instant was
\*  built from it: its state was converted at that scenario's start angle)
PoseSite  == /\ pc = "start" /\ \E g \in Lons, t \in Theta0s : lon' = g /\ theta0' = t
             \* history of the process: nothing; the configuration OBJECT was converted before; or the
             \* agent's ID was used before for a facility at another site (a scenario with the same start
             \* instant built earlier in the process, or the sensor removed and added again elsewhere)
             /\ \/ first' = -1 /\ prevLon' = -1
                \/ \E f \in PriorAngles : first' = f /\ prevLon' = -1
                \/ \E sh \in PriorLonShifts : first' = -1 /\ prevLon' = (lon' + sh) % N
             /\ \E z \in Zones : zone' = z
             /\ pc' = "site"
             /\ UNCHANGED <<startSec, dt, plan, invErr, clockSec, k, siteEpoch, inertial, vel, join, siteLon>>
PoseStart == /\ pc = "site"
             /\ \E s \in StartSecs, st \in Dts, p \in Plans : startSec' = s /\ dt' = st /\ plan' = p
             /\ pc' = "posed"
             /\ UNCHANGED <<lon, theta0, invErr, clockSec, k, siteEpoch, inertial, vel, join, siteLon, first, zone, prevLon>>
\* the scenario steps before the site exists (a sensor added mid-run: Scenario.addSensor or a
\* sensor-addition event): only the clock advances
Wait == /\ pc = "posed" /\ join < MaxJoinSteps /\ dt > 0
        /\ clockSec' = clockSec + dt /\ join' = join + 1
        /\ UNCHANGED <<pc, lon, theta0, startSec, dt, plan, invErr, k, siteEpoch, inertial, vel, siteLon, first, zone, prevLon>>
\* ScenarioBuilder / Scenario.addSensor at scenario second clockSec (0 unless the site joins late):
\*  - dynamicsFactory: the dynamics recovers the start datetime from the start Julian date and
\*    captures the site's Earth-fixed position, as DESIGNED from the configuration at the start
\*    epoch converted with the start epoch (siteLon = lon).  The named deviation
\*    CaptureAtJoinEpoch = TRUE evaluates the configuration at the CURRENT epoch but converts with
\*    the START epoch, which pins the site clockSec ticks further east (spec mutant: TLC must
\*    refute SiteFixed for a site that joins late);
\*  - SensingAgent.fromConfig: the initial inertial state is the configuration evaluated at the
\*    clock's current epoch.
\* Both evaluate the SAME configuration object (Convert), the factory first, at the start epoch.
Build == /\ pc = "posed" /\ \E e \in InvErrs : invErr' = e
         /\ LET f1    == IF first = -1 THEN theta0 ELSE first          \* after the factory's conversion
                atCap == IF CaptureAtJoinEpoch THEN Convert(first, Theta(clockSec)) ELSE Convert(first, theta0)
            \* eci2ecef(..., start epoch) - as DESIGNED from the CURRENT configuration only; the named
            \* deviation MemoIgnoresSite = TRUE hands back the dynamics built earlier for the same id
            \* (a memo keyed without the location), which still carries the earlier site
            IN /\ siteLon' = IF MemoIgnoresSite /\ prevLon # -1 THEN prevLon ELSE (atCap - theta0) % N
               /\ inertial' = Convert(f1, Theta(clockSec))
               /\ vel' = (Convert(f1, Theta(clockSec)) + Quarter) % N
               /\ first' = f1
         /\ siteEpoch' = clockSec
         /\ pc' = "run"
         /\ UNCHANGED <<lon, theta0, startSec, dt, plan, clockSec, k, join, zone, prevLon>>
\* one propagation of d seconds: the clock advances; Terrestrial.propagate evaluates the
\* Earth-fixed position at its own idea of "start + final_time"
Advance(d) == /\ d > 0
              /\ clockSec' = clockSec + d /\ k' = k + 1
              /\ siteEpoch' = invErr + clockSec + d + ZoneShift(k + 1)
              /\ inertial' = Inertial(invErr + clockSec + d + ZoneShift(k + 1))
              /\ vel' = (Inertial(invErr + clockSec + d + ZoneShift(k + 1)) + Quarter) % N
              /\ UNCHANGED <<pc, lon, theta0, startSec, dt, plan, invErr, join, siteLon, first, zone, prevLon>>
\* a scenario: every step is the configured physics step
Step     == pc = "run" /\ plan = <<>> /\ k < MaxSteps /\ Advance(dt)
\* the agent stepped directly with a plan of step sizes: a long first step (an elapsed time of
\* hours to days), small steps late in a run, steps of whole days, mixtures
PlanStep == pc = "run" /\ plan # <<>> /\ k < Len(plan) /\ Advance(plan[k + 1])

Next == PoseSite \/ PoseStart \/ Wait \/ Build \/ Step \/ PlanStep
Spec == Init /\ [][Next]_vars

\* C11: the epoch of the site's inertial state is the clock
SiteEpochAgrees     == pc = "run" => siteEpoch = clockSec
StartInversionExact == pc = "run" => invErr = 0
\* C11: every conversion of the configuration is a function of the site and the epoch only,
\* whatever the object was converted for before
ConvertIgnoresHistory == \A a \in {theta0, Theta(clockSec)} : Convert(first, a) = (lon + a) % N
\* C11: the site the dynamics holds is a function of the agent's CURRENT configuration only - not
\* of what the same id (or the same object) stood for earlier in the process
SiteFromCurrentConfig == pc = "run" => siteLon = lon
\* C11: the reported Earth-fixed position is the configured one, at every step - including the
\* state reported at the instant the agent is created / joins (k = 0), before any propagation
SiteFixed           == pc = "run" => ReportedLon = lon
\* C11: the inertial velocity is the Earth-rotation velocity at that point
VelIsRotation       == pc = "run" => ReportedVelLon = (lon + Quarter) % N

\* configurations handed to the driver (which crosses them with real dates and sites)
Emit == (pc = "run" /\ ((plan = <<>> /\ k = MaxSteps) \/ (plan # <<>> /\ k = Len(plan)))) =>
   PrintT("SITE " \o ToJson([startSec |-> startSec, dt |-> dt, steps |-> k, lon |-> lon, theta0 |-> theta0,
                             plan |-> plan, elapsed |-> clockSec, join |-> join,
                             reused |-> IF first = theta0 THEN 0 ELSE 1, zone |-> zone,
                             resited |-> IF prevLon = -1 THEN 0 ELSE 1]))

Secs60      == 0..59
DtsQuick    == {2, 7, 30, 60, 120, 300, 600, 900}
DtsThorough == {2, 3, 7, 10, 30, 45, 60, 120, 300, 600, 900}
\* step plans (property C11: "all step sizes and elapsed times up to days"): a first step to an
\* elapsed time of 3 h / 2.5 d / 12 d followed by small steps; whole-day steps; mixtures
NoPlan      == {<<>>}
OneDt       == {1}
LatePlans(Elapsed, Small) == {<<e, s, s, t>> : e \in Elapsed, s \in Small, t \in Small}
DayPlans    == {<<86400, 86400, 86400>>, <<172800, 172800>>, <<86400, 172800, 86400, 2>>,
                <<43200, 43200, 86400, 5>>}
MixedPlans  == {<<3600, 3600, 86400, 86400, 2, 2>>, <<7, 86400, 7, 86393, 86400>>,
                <<900, 85500, 86400, 10, 10>>}
PlansQuick    == LatePlans({10800, 216000, 1036800}, {2, 10}) \cup DayPlans \cup MixedPlans
PlansThorough == LatePlans({10800, 86400, 216000, 432000, 1036800}, {2, 3, 5, 10}) \cup DayPlans \cup MixedPlans
LonsAll     == {0, 1, 21600, 43200, 64800, 86399}
ThetasAll   == {0, 12345, 86399}
OnePrior    == {22663}            \* 6 h 17 min 43 s of Earth rotation away from angle 0
NoPrior     == {}
OneShift    == {30000}            \* the id's earlier site lay 125 degrees further east
\* host zones: UTC; a fixed offset; daylight-saving zones whose switch (spring forward +3600 s /
\* fall back -3600 s) falls after the 1st / 2nd step of the run, or outside the run
ZonesUtc    == {UtcZone}
ZonesAll    == {UtcZone, <<"fixed", 0, 0>>, <<"dst", 1, 3600>>, <<"dst", 2, -3600>>, <<"dst", 99, 3600>>}
DtsZones    == {60, 900}
=============================================================================
