SPECIFICATION Spec
CONSTANTS Clients = {"c1","c2"}
  RawKeys <- KeysEv
  CacheKeys = {}
  Atoms = {"x"}
  SetLists <- ListsXY
  Indexes <- IdxFront
  MaxLen = 2
  Records = {}
  CacheSizes = {}
  Paths = {}
  Payloads = {"x","y"}
  MaxPush = 2
  Times <- NoTimes
  RedMax = 128
  Ops = {"pushEvent","logAndFlush","flush","set","append","pop","get","xset"}
  Dev = "none"
  EmitEdges = FALSE
VIEW NoLastView
INVARIANT TypeOK
INVARIANT ExclusiveSetAtMostOnce
INVARIANT WrittenConsistent
INVARIANT EvGhostAligned
INVARIANT PushedEventsFlushedExactlyOnce
INVARIANT FlusherFIFO
INVARIANT CacheBounded
INVARIANT ReductionCacheConsistent
INVARIANT ReductionPutsSurvive
PROPERTY ExclusiveSetNeverOverwrites
PROPERTY SetDBPathExactlyOnce
PROPERTY DbPathStable
PROPERTY GetConnReflectsPath
PROPERTY ClearDBPathUnsets
PROPERTY GetReturnsLastSet
PROPERTY FlushEmpties
PROPERTY PopRemovesWhatItReturns
PROPERTY AppendKeepsOrder
PROPERTY FlushLeavesStackEmpty
PROPERTY CacheMRU
PROPERTY CacheEvictsOnlyLRU
PROPERTY CacheNeverServesPurged
PROPERTY ReductionRaceBenign
