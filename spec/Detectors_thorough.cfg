\* spec -> impl, exhaustive: every history over 3 NIS values (halves) x 3 dimensions, trimmed
\* per detector (standard 2 calls, sliding w+2 capped at 5, fading 4), 3 significance levels.
\* The harness runs it once per kind (it rewrites the Kinds line) to bound the output size.
SPECIFICATION Spec
CONSTANTS Kinds = {"standard", "sliding", "fading"} Windows = {1, 2, 3, 4} NAlpha = 3 Bank = TRUE
          NisVals = {0, 5, 17} NisDen = 2 Dims = {1, 2, 3}
          MaxLen = 5 FadeLen = 4 Trim = TRUE KeepHist = TRUE
CONSTANT Deltas <- DeltasQuick
INVARIANT TypeOK
INVARIANT DetectIffReaches
INVARIANT WindowIsLastW
INVARIANT MemoryUntouched
INVARIANT DocStandard
INVARIANT DocSliding
INVARIANT DocFading
INVARIANT MonotoneInLatest
INVARIANT Emit
INVARIANT EmitQF2
