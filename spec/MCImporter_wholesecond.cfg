INIT NearInit
NEXT Next
CONSTANTS Configs = {}
  CountBasedCheck = FALSE
  SkipEpochWithoutRow = FALSE
  LoadEveryEngine = FALSE
  LoadOnlyOwnTargets = FALSE
  MatchWholeSecond = TRUE
  DedupIgnoresSensor = FALSE
  FreezeRoster = FALSE
  StampCachedEpoch = FALSE
  CrashOnDuplicate = FALSE
  KeepDuplicates = FALSE
  CreateMissingTables = FALSE
INVARIANT ImportFaithful
INVARIANT NoStaleState
INVARIANT ObsReachFilter
INVARIANT RunContinues
INVARIANT OutputFaithful
PROPERTY ImporterReadOnly
