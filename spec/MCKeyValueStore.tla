--------------------------- MODULE MCKeyValueStore ---------------------------
(* Constant sets and views for the exhaustive / simulation configurations of  *)
(* KeyValueStore.tla (G01).  Values that a cfg file cannot express (negative  *)
(* numbers, sequences, records) are defined here.                             *)
EXTENDS KeyValueStore

IdxAll   == {0, -1, 1}
IdxFront == {0}
NoLists  == {}
Lists0   == {<<>>}
Lists2   == {<<>>, <<"a", "b">>}
NoTimes  == {}
Times3   == {[d |-> "d1", m |-> "m1"], [d |-> "d1", m |-> "m2"], [d |-> "d2", m |-> "m3"]}
Times2   == {[d |-> "d1", m |-> "m1"], [d |-> "d2", m |-> "m3"]}
KeysEv   == {"k1", EvKey}
KeysEvOnly == {EvKey}
ListsXY  == {<<>>, <<"x", "y">>}

\* spec -> impl edge enumeration: only the dictionary distinguishes states (ghosts and `last` hidden;
\* no invariant mentions them in that configuration)
StoreView == <<store, pc, loc>>
\* exhaustive checking: `last` is hidden, every property about a reply is an ACTION property over last'
\* (TLC evaluates action properties on every generated transition, also into already-seen states)
NoLastView == <<store, pc, loc, got, evIds, pushed, deliveredAll, dup, lost, written, owners, built>>
=============================================================================
