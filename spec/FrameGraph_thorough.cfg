SPECIFICATION Spec
CONSTANTS MaxLen = 6
CONSTANT Starts <- AllFrames
INVARIANT TypeOK
INVARIANT WalkChains
INVARIANT PointUntouched
INVARIANT VelocityBookkeeping
PROPERTY PointNeverChanges
INVARIANT RepresentationIrrelevant
INVARIANT EmitWalk
INVARIANT EmitHand
INVARIANT EmitEdges
