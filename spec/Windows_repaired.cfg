SPECIFICATION Spec
CONSTANTS Dt = 3
 NSteps = 3
 M = 4
 SharedWindowPath = TRUE
 PruneKeepsEqual = FALSE
 RoundSimTime = TRUE
INVARIANT DeliveredExactlyOnce
INVARIANT AppliedExactlyOnce
INVARIANT NeverTwice
