SPECIFICATION Spec
CONSTANTS
  Entries <- EntriesAll
  TimeClasses <- TimesLive
  Modes <- ModesLive
  DbClasses <- DbAll
  ImpClasses <- ImpAll
  CfgClasses <- CfgTiny
  Debugs = {FALSE}
  EnvClasses <- EnvAll
  Injections <- InjTiny
  ShutdownNotInFinally = FALSE
  NoExistenceCheck = FALSE
  MinutesForHours = FALSE
  SkipSetDbPathWhenGiven = FALSE
  InterruptCatchesAll = FALSE
  SaveEveryStep = FALSE
  CeilSteps = FALSE
\* one expectation per run (TLC stops at the first counterexample); all 13 are listed in RunLifecycle.tla
INVARIANT XFinalStateSaved
