------------------------------- MODULE Rewards -------------------------------
(***************************************************************************)
(* Reward computation of the tasking engine (property C07, last clause):   *)
(*   CentralizedTaskingEngine.calculateRewards =                           *)
(*        Reward.normalizeMetrics  then  Reward.calculate                   *)
(* in exact rational arithmetic.  A metric cube M[t][s][m] of small        *)
(* integers is posed, normalised (each metric divided by its maximum over  *)
(* all pairs when that maximum is positive) and combined:                  *)
(*   "sum"      r = sum_m metric_m                                         *)
(*   "cost"     r = d*(sign(stab) + info) - (1-d)*sens                     *)
(*   "combined" r = d*(sign(stab) + info) - (1-d)*sens + behaviour         *)
(* Metric order in the cube: 1 stability, 2 information, 3 sensor,         *)
(* 4 behaviour (only for "combined").  d = DeltaNum/DeltaDen.              *)
(* The spec is the oracle: every "rewarded" state is one implementation    *)
(* test (spec -> impl replay).                                             *)
(***************************************************************************)
EXTENDS Integers, Sequences, FiniteSets, FiniteSetsExt, TLC, Json, Rationals

CONSTANTS NT, NS, MetricVals, Kinds, Deltas   \* Deltas: set of <<num, den>>

VARIABLES pc, kind, delta, cube, norm, reward
vars == <<pc, kind, delta, cube, norm, reward>>

NMetrics(k) == IF k = "combined" THEN 4 ELSE 3
T == 1..NT
S == 1..NS

Init == /\ pc = "start" /\ kind = "none" /\ delta = <<1, 1>>
        /\ cube = <<>> /\ norm = <<>> /\ reward = <<>>

PoseKind == /\ pc = "start"
            /\ \E k \in Kinds, d \in Deltas : kind' = k /\ delta' = d
            /\ pc' = "kind" /\ UNCHANGED <<cube, norm, reward>>
PoseCube == /\ pc = "kind"
            /\ \E c \in [T -> [S -> [1..NMetrics(kind) -> MetricVals]]] : cube' = c
            /\ pc' = "posed" /\ UNCHANGED <<kind, delta, norm, reward>>

MaxOf(m) == Max({cube[t][s][m] : t \in T, s \in S})
Normalize == /\ pc = "posed"
             /\ norm' = [t \in T |-> [s \in S |-> [m \in 1..NMetrics(kind) |->
                          IF MaxOf(m) > 0 THEN Norm(cube[t][s][m], MaxOf(m)) ELSE Q(cube[t][s][m])]]]
             /\ pc' = "normalized" /\ UNCHANGED <<kind, delta, cube, reward>>

One == <<1, 1>>
Cost(x) == QSub(QMul(delta, QAdd(Q(QSign(x[1])), x[2])), QMul(QSub(One, delta), x[3]))
RewardOf(x) ==
  CASE kind = "sum"      -> QAdd(QAdd(x[1], x[2]), x[3])
    [] kind = "cost"     -> Cost(x)
    [] kind = "combined" -> QAdd(Cost(x), x[4])
Calculate == /\ pc = "normalized"
             /\ reward' = [t \in T |-> [s \in S |-> RewardOf(norm[t][s])]]
             /\ pc' = "rewarded" /\ UNCHANGED <<kind, delta, cube, norm>>

Next == PoseKind \/ PoseCube \/ Normalize \/ Calculate
Spec == Init /\ [][Next]_vars

\* C07: each normalised metric is at most one
NormalisedAtMostOne ==
  pc \in {"normalized", "rewarded"} =>
     \A t \in T, s \in S, m \in 1..NMetrics(kind) : QLe(norm[t][s][m], One)
\* a metric whose maximum is positive attains exactly one somewhere
NormalisedAttainsOne ==
  pc \in {"normalized", "rewarded"} =>
     \A m \in 1..NMetrics(kind) : MaxOf(m) > 0 => \E t \in T, s \in S : norm[t][s][m] = One
\* normalisation keeps the order of the pairs within a metric
NormalisedOrderKept ==
  pc \in {"normalized", "rewarded"} =>
     \A m \in 1..NMetrics(kind), t1 \in T, t2 \in T, s1 \in S, s2 \in S :
        cube[t1][s1][m] <= cube[t2][s2][m] => QLe(norm[t1][s1][m], norm[t2][s2][m])

\* expected values handed to the replay driver
Emit == pc = "rewarded" =>
          PrintT("REWARD " \o ToJson([kind |-> kind, delta |-> delta, cube |-> cube,
                                      norm |-> norm, reward |-> reward]))

\* ---- constant values for the cfg files (cfg syntax has no negative numbers / tuples) ----
ValsQuick    == {-1, 0, 2, 3}
ValsThorough == {-2, -1, 0, 1, 2, 3}
DeltasAll    == {<<17, 20>>, <<1, 2>>, <<1, 1>>, <<1, 10>>}
DeltasQuick  == {<<17, 20>>, <<1, 2>>}
=============================================================================
