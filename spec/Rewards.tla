------------------------------- MODULE Rewards -------------------------------
(***************************************************************************)
(* Reward computation of the tasking engine (property C07, last clause):   *)
(*   CentralizedTaskingEngine.calculateRewards =                           *)
(*        Reward.calculateMetrics (one COLUMN per configured metric, in    *)
(*                                 the order of the reward's metric list)  *)
(*        Reward.normalizeMetrics (tasking/rewards/reward_base.py)         *)
(*        Reward.calculate        (tasking/rewards/rewards.py)             *)
(* in exact rational arithmetic.                                           *)
(*                                                                         *)
(* The documented formulas speak about metric KINDS (the metric's          *)
(* METRIC_TYPE label), never about positions:                              *)
(*   "sum"      r = sum of all metrics                                     *)
(*   "cost"     r = d*(sign(stab) + info) - (1-d)*sens                     *)
(*   "combined" r = d*(sign(stab) + info) - (1-d)*sens + beh (staleness)   *)
(* with each metric normalised (divided by its maximum over all pairs when *)
(* that maximum is positive).  d = delta[1]/delta[2].                      *)
(*                                                                         *)
(* So the posed configuration has two independent parts:                   *)
(*   kcube[t][s][kd]  the value of the metric of KIND kd for pair (t, s)   *)
(*                    (numerator; scale[kd] is the kind's denominator)     *)
(*   order            the sequence in which the reward configuration lists *)
(*                    the metric kinds (any permutation: the constructors  *)
(*                    only require one metric of each kind)                *)
(* and the matrix handed to the code is                                    *)
(*   cube[t][s][c] = kcube[t][s][order[c]].                                *)
(* Normalize / Calculate mirror the code (columns; a kind is looked up as  *)
(* the column at which the order lists it - Reward._metric_type_indices).  *)
(* The PROPERTY is stated on kinds only: RewardIsDocumentedCombination,    *)
(* NormalisedByKind (the reward does not depend on the listing order).     *)
(*                                                                         *)
(* Cube families: the whole lattice [T -> [S -> [kinds -> MetricVals]]]    *)
(* for the orders in FullOrders; for EVERY order the kind-distinct cubes:  *)
(* the metric of kind kd has the fixed value LeadVal(kd, r), r in          *)
(* Rotations (different for the four kinds) for the pair (1,1) and any     *)
(* lattice value elsewhere, so no two columns are equal (DistinctColumns)  *)
(* and a column read for the wrong kind changes the result.                *)
(*                                                                         *)
(* Deviation # "none" switches Calculate to a wrong column lookup; TLC     *)
(* must then refute RewardIsDocumentedCombination (non-vacuity, cfg        *)
(* Rewards_deviation*.cfg):                                                *)
(*   "ColumnsByPositionInSublist"  stab/info/sens looked up by their       *)
(*        position among the non-"beh" kinds (an inner cost-constrained    *)
(*        reward built from the 3-metric sub-list, fed the 4-column matrix)*)
(*   "ColumnsInDocumentedOrder"    columns assumed to be stab,info,sens,beh*)
(*   "CalculateScalesSensorInPlace"  calculate() rescales the sensor column *)
(*        of the matrix it was handed; refuted by the action properties    *)
(*        CalculateKeepsArgument / RecalculateIsStuttering                 *)
(*   "DivisorFlooredAtOne"  normalisation divides by max(maximum, 1) without *)
(*        the guard; refuted by NormalisedByKind only on metric columns    *)
(*        whose maximum lies strictly between 0 and 1 - hence the          *)
(*        fractional columns (scale, see PoseScale)                        *)
(* The spec is the oracle: every "rewarded" state is one implementation    *)
(* test (spec -> impl replay).                                             *)
(***************************************************************************)
EXTENDS Integers, Sequences, FiniteSets, FiniteSetsExt, TLC, Json, Rationals

CONSTANTS NT, NS, MetricVals, Kinds, Deltas,   \* Deltas: set of <<num, den>>
          FullOrders,                           \* orders that get the whole lattice of cubes
          Rotations,                            \* subset of 0..3: which lead values the kinds get in DistinctK
          ScaledOrders,                         \* orders that get the fractional (scaled) metric columns
          Deviation                             \* "none" | name of a wrong lookup / normalisation (see header)

VARIABLES pc, kind, delta, order, scale, kcube, cube, norm, reward
vars == <<pc, kind, delta, order, scale, kcube, cube, norm, reward>>

T == 1..NT
S == 1..NS
MKinds(k) == IF k = "combined" THEN {"stab", "info", "sens", "beh"} ELSE {"stab", "info", "sens"}
DocOrder(k) == IF k = "combined" THEN <<"stab", "info", "sens", "beh">> ELSE <<"stab", "info", "sens">>
NMetrics(k) == Cardinality(MKinds(k))
Orders(k) == {o \in [1..NMetrics(k) -> MKinds(k)] : \A i, j \in 1..NMetrics(k) : o[i] = o[j] => i = j}
KindIdx(kd) == CASE kd = "stab" -> 0 [] kd = "info" -> 1 [] kd = "sens" -> 2 [] kd = "beh" -> 3

ASSUME Cardinality(MetricVals) >= 4 /\ Rotations \subseteq 0..3 /\ NT >= 1 /\ NS >= 1

Init == /\ pc = "start" /\ kind = "none" /\ delta = <<1, 1>> /\ order = <<>> /\ scale = <<>>
        /\ kcube = <<>> /\ cube = <<>> /\ norm = <<>> /\ reward = <<>>

\* the summation reward has no delta: one value only
PoseKind == /\ pc = "start"
            /\ \E k \in Kinds : \E d \in (IF k = "sum" THEN {CHOOSE x \in Deltas : TRUE} ELSE Deltas) :
                  kind' = k /\ delta' = d
            /\ pc' = "kind" /\ UNCHANGED <<order, scale, kcube, cube, norm, reward>>
\* RewardConfig.metrics: the metric kinds in any order
PoseOrder == /\ pc = "kind"
             /\ \E o \in Orders(kind) : order' = o
             /\ pc' = "order" /\ UNCHANGED <<kind, delta, scale, kcube, cube, norm, reward>>

\* ---- fractional metric values ----
\* The metric of kind kd has the value kcube[t][s][kd] / scale[kd]: one positive integer denominator
\* per kind, so a column is a set of rationals with a common denominator and every comparison stays
\* on integers.  With lattice {-1, 0, 2, 3}: scale 1 -> column maxima 2, 3 (> 1), 0, -1;
\* scale 2 -> maxima 1, 3/2, 0, -1/2; scale 3 -> 2/3, 1, 0, -1/3; scale 4 -> 1/2, 3/4, 0, -1/4:
\* maxima strictly between 0 and 1, exactly 1, above 1, zero and negative, mixed over the kinds.
\* Scale vectors: every vector over {1, 4}, the uniform 2 and 3, the four rotations of 1, 2, 4, 3.
\* Only the orders in ScaledOrders get them (the others: all ones), with the kind-distinct cubes.
DenSeq == <<1, 2, 4, 3>>
Ones == [kd \in MKinds(kind) |-> 1]
ScaleVecs == [MKinds(kind) -> {1, 4}]
               \cup {[kd \in MKinds(kind) |-> d] : d \in {2, 3}}
               \cup {[kd \in MKinds(kind) |-> DenSeq[((KindIdx(kd) + j) % 4) + 1]] : j \in 0..3}
PoseScale == /\ pc = "order"
             /\ \E v \in (IF order \in ScaledOrders THEN ScaleVecs ELSE {Ones}) : scale' = v
             /\ pc' = "scale" /\ UNCHANGED <<kind, delta, order, kcube, cube, norm, reward>>

\* ---- cube families (posed in two stages so that TLC's workers share the enumeration) ----
\* stage 1: the values of the pair (1,1), one per metric kind.  Whole lattice for the orders in
\* FullOrders; for every order the kind-distinct leads LeadVal(kd, r), r \in Rotations
ValAt(i) == CHOOSE v \in MetricVals : Cardinality({w \in MetricVals : w < v}) = i
LeadVal(kd, r) == ValAt((KindIdx(kd) + r) % 4)
DistinctLead(l) == \E r \in Rotations : \A kd \in DOMAIN l : l[kd] = LeadVal(kd, r)
PoseLead == /\ pc = "scale"
            /\ \E l \in [MKinds(kind) -> MetricVals] :
                  /\ (order \in FullOrders /\ scale = Ones) \/ DistinctLead(l)
                  /\ kcube' = l
            /\ pc' = "lead" /\ UNCHANGED <<kind, delta, order, scale, cube, norm, reward>>
\* stage 2: all other pairs take any lattice value; the matrix is assembled as
\* Reward.calculateMetrics does: array([metric.calculate(..) for metric in self.metrics]) -
\* column c is the metric listed c-th
FreeCells == (T \X S) \ {<<1, 1>>}
PoseCube == /\ pc = "lead"
            /\ \E g \in [MKinds(kind) -> [FreeCells -> MetricVals]] :
                 LET kc == [t \in T |-> [s \in S |-> [kd \in MKinds(kind) |->
                              IF <<t, s>> = <<1, 1>> THEN kcube[kd] ELSE g[kd][<<t, s>>]]]]
                 IN /\ kcube' = kc
                    /\ cube' = [t \in T |-> [s \in S |-> [c \in 1..NMetrics(kind) |-> kc[t][s][order[c]]]]]
            /\ pc' = "posed" /\ UNCHANGED <<kind, delta, order, scale, norm, reward>>

\* Reward.normalizeMetrics: for met in range(len(self.metrics)): column-wise
\*     if metric_matrix[..., met].max() > 0.0: metric_matrix[..., met] /= metric_matrix[..., met].max()
\* Deviation "DivisorFlooredAtOne": metric /= max(metric.max(), 1) without the guard - identical for
\* maxima >= 1, = 0 and < 0, different exactly for maxima strictly between 0 and 1
One == <<1, 1>>
Den(m) == scale[order[m]]                                  \* denominator of column m
Val(t, s, m) == Norm(cube[t][s][m], Den(m))                \* value of the matrix entry
MaxOf(m) == Max({cube[t][s][m] : t \in T, s \in S})         \* numerator of the column maximum
MaxVal(m) == Norm(MaxOf(m), Den(m))
NormEntry(t, s, m) ==
  IF Deviation = "DivisorFlooredAtOne"
    THEN IF QLt(One, MaxVal(m)) THEN QDiv(Val(t, s, m), MaxVal(m)) ELSE Val(t, s, m)
    ELSE IF QLt(Q(0), MaxVal(m)) THEN QDiv(Val(t, s, m), MaxVal(m)) ELSE Val(t, s, m)
Normalize == /\ pc = "posed"
             /\ norm' = [t \in T |-> [s \in S |-> [m \in 1..NMetrics(kind) |-> NormEntry(t, s, m)]]]
             /\ pc' = "normalized" /\ UNCHANGED <<kind, delta, order, scale, kcube, cube, reward>>

\* Reward.__init__: _metric_type_indices[metric.metric_type] = position in the metric list
PosIn(seq, x) == CHOOSE i \in DOMAIN seq : seq[i] = x
NotBeh(k) == k # "beh"
ColOf(kd) ==
  CASE Deviation = "none" -> PosIn(order, kd)
    [] Deviation = "ColumnsByPositionInSublist" ->
          IF kd = "beh" THEN PosIn(order, kd) ELSE PosIn(SelectSeq(order, NotBeh), kd)
    [] Deviation = "ColumnsInDocumentedOrder" -> PosIn(DocOrder(kind), kd)
    [] OTHER -> PosIn(order, kd)

Cost(x) == QSub(QMul(delta, QAdd(Q(QSign(x[ColOf("stab")])), x[ColOf("info")])),
                QMul(QSub(One, delta), x[ColOf("sens")]))
RECURSIVE SumCols(_, _)
SumCols(x, n) == IF n = 0 THEN Q(0) ELSE QAdd(SumCols(x, n - 1), x[n])
RewardOf(x) ==
  CASE kind = "sum"      -> SumCols(x, NMetrics(kind))          \* np.sum over the metric axis
    [] kind = "cost"     -> Cost(x)
    [] kind = "combined" -> QAdd(Cost(x), x[ColOf("beh")])
\* Deviation "CalculateScalesSensorInPlace": the term (1-d)*sens is formed with an in-place operator on a
\* VIEW of the caller's matrix: the first result is right, the matrix handed in is not the same afterwards
ScaledSens(nm) == [t \in T |-> [s \in S |-> [m \in 1..NMetrics(kind) |->
                     IF order[m] = "sens" THEN QMul(QSub(One, delta), nm[t][s][m]) ELSE nm[t][s][m]]]]
Calculate == /\ pc = "normalized"
             /\ reward' = [t \in T |-> [s \in S |-> RewardOf(norm[t][s])]]
             /\ norm' = IF Deviation = "CalculateScalesSensorInPlace" /\ kind # "sum" THEN ScaledSens(norm) ELSE norm
             /\ pc' = "rewarded" /\ UNCHANGED <<kind, delta, order, scale, kcube, cube>>
\* the engine (or anybody) may evaluate the reward of the same matrix again: a stuttering step iff
\* calculate() is a function of the matrix alone and leaves it alone
Recalculate == /\ pc = "rewarded"
               /\ reward' = [t \in T |-> [s \in S |-> RewardOf(norm[t][s])]]
               /\ UNCHANGED <<pc, kind, delta, order, scale, kcube, cube, norm>>

Next == PoseKind \/ PoseOrder \/ PoseScale \/ PoseLead \/ PoseCube \/ Normalize \/ Calculate \/ Recalculate
Spec == Init /\ [][Next]_vars

\* ---- C07, reward clause, stated on metric KINDS (independent of the listing order) ----
\* the documented normalisation rule, exactly: a metric is divided by its maximum over all pairs
\* if and only if that maximum is positive (so a positive maximum becomes exactly one, whatever
\* its size); otherwise it is left as it is.  (x/d) / (max/d) = x/max: the scale cancels.
KMax(kd) == Max({kcube[t][s][kd] : t \in T, s \in S})
KNorm(t, s, kd) == IF KMax(kd) > 0 THEN Norm(kcube[t][s][kd], KMax(kd)) ELSE Norm(kcube[t][s][kd], scale[kd])
DocCost(t, s) == QSub(QMul(delta, QAdd(Q(QSign(KNorm(t, s, "stab"))), KNorm(t, s, "info"))),
                      QMul(QSub(One, delta), KNorm(t, s, "sens")))
Documented(t, s) ==
  CASE kind = "sum"      -> QAdd(QAdd(KNorm(t, s, "stab"), KNorm(t, s, "info")), KNorm(t, s, "sens"))
    [] kind = "cost"     -> DocCost(t, s)
    [] kind = "combined" -> QAdd(DocCost(t, s), KNorm(t, s, "beh"))
RewardIsDocumentedCombination ==
  pc = "rewarded" => \A t \in T, s \in S : reward[t][s] = Documented(t, s)
\* column c of the normalised matrix is the normalised metric of the kind listed c-th
NormalisedByKind ==
  pc = "normalized" =>
     \A t \in T, s \in S, c \in 1..NMetrics(kind) : norm[t][s][c] = KNorm(t, s, order[c])
\* Reward.calculate does not modify its argument, and evaluating it again gives the same reward
\* (action properties; the driver checks both on the real code: the matrix handed in is compared
\* with a copy afterwards, calculate() is called twice on the same array)
CalculateKeepsArgument == [][pc = "normalized" => norm' = norm]_vars
RecalculateIsStuttering == [][pc = "rewarded" => reward' = reward]_vars
\* every metric with a positive maximum has maximum exactly one after normalisation, the others are unchanged
PositiveMaxBecomesOne ==
  pc = "normalized" =>
     \A m \in 1..NMetrics(kind) :
        IF MaxOf(m) > 0
          THEN /\ \E t \in T, s \in S : norm[t][s][m] = One
               /\ \A t \in T, s \in S : QLe(norm[t][s][m], One)
          ELSE \A t \in T, s \in S : norm[t][s][m] = Val(t, s, m)
\* the kind-distinct family really has pairwise different columns (as values)
Column(c) == [t \in T |-> [s \in S |-> Val(t, s, c)]]
DistinctColumns ==
  pc = "posed" /\ (order \notin FullOrders \/ scale # Ones) =>
     \A c1, c2 \in 1..NMetrics(kind) : c1 # c2 => Column(c1) # Column(c2)

\* (norm does not change after Normalize: the invariants on it are evaluated once, in "normalized")
\* C07: each normalised metric is at most one
NormalisedAtMostOne ==
  pc = "normalized" =>
     \A t \in T, s \in S, m \in 1..NMetrics(kind) : QLe(norm[t][s][m], One)
\* a metric whose maximum is positive attains exactly one somewhere
NormalisedAttainsOne ==
  pc = "normalized" =>
     \A m \in 1..NMetrics(kind) : MaxOf(m) > 0 => \E t \in T, s \in S : norm[t][s][m] = One
\* normalisation keeps the order of the pairs within a metric
NormalisedOrderKept ==
  pc = "normalized" =>
     \A m \in 1..NMetrics(kind), t1 \in T, t2 \in T, s1 \in S, s2 \in S :
        cube[t1][s1][m] <= cube[t2][s2][m] => QLe(norm[t1][s1][m], norm[t2][s2][m])

\* expected values handed to the replay driver (cube/norm by COLUMN, order = kind of each column;
\* the matrix entry is cube[t][s][c] / den[c])
Emit == pc = "rewarded" =>
          PrintT("REWARD " \o ToJson([kind |-> kind, delta |-> delta, order |-> order, cube |-> cube,
                                      den |-> [c \in 1..NMetrics(kind) |-> Den(c)],
                                      norm |-> norm, reward |-> reward]))

\* ---- constant values for the cfg files (cfg syntax has no negative numbers / tuples) ----
ValsQuick    == {-1, 0, 2, 3}
ValsThorough == {-2, -1, 0, 1, 2, 3}
DeltasAll    == {<<17, 20>>, <<1, 2>>, <<1, 1>>, <<1, 10>>}
DeltasQuick  == {<<17, 20>>, <<1, 2>>}
DocOrdersOnly == {<<"stab", "info", "sens">>, <<"stab", "info", "sens", "beh">>}
NoOrders      == {}
RotQuick      == {0}
RotTwo        == {0, 2}
RotAll        == {0, 1, 2, 3}
=============================================================================
