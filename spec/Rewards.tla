------------------------------- MODULE Rewards -------------------------------
(***************************************************************************)
(* Reward computation of the tasking engine (property C07, last clause):   *)
(*   CentralizedTaskingEngine.calculateRewards =                           *)
(*        Reward.calculateMetrics (one COLUMN per configured metric, in    *)
(*                                 the order of the reward's metric list)  *)
(*        Reward.normalizeMetrics (tasking/rewards/reward_base.py)         *)
(*        Reward.calculate        (tasking/rewards/rewards.py)             *)
(* in exact rational arithmetic.                                           *)
(*                                                                         *)
(* The documented formulas speak about metric KINDS (the metric's          *)
(* METRIC_TYPE label), never about positions:                              *)
(*   "sum"      r = sum of all metrics                                     *)
(*   "cost"     r = d*(sign(stab) + info) - (1-d)*sens                     *)
(*   "combined" r = d*(sign(stab) + info) - (1-d)*sens + beh (staleness)   *)
(* with each metric normalised (divided by its maximum over all pairs when *)
(* that maximum is positive).  d = delta[1]/delta[2].                      *)
(*                                                                         *)
(* So the posed configuration has two independent parts:                   *)
(*   kcube[t][s][kd]  the value of the metric of KIND kd for pair (t, s)   *)
(*   order            the sequence in which the reward configuration lists *)
(*                    the metric kinds (any permutation: the constructors  *)
(*                    only require one metric of each kind)                *)
(* and the matrix handed to the code is                                    *)
(*   cube[t][s][c] = kcube[t][s][order[c]].                                *)
(* Normalize / Calculate mirror the code (columns; a kind is looked up as  *)
(* the column at which the order lists it - Reward._metric_type_indices).  *)
(* The PROPERTY is stated on kinds only: RewardIsDocumentedCombination,    *)
(* NormalisedByKind (the reward does not depend on the listing order).     *)
(*                                                                         *)
(* Cube families: the whole lattice [T -> [S -> [kinds -> MetricVals]]]    *)
(* for the orders in FullOrders; for EVERY order the kind-distinct cubes:  *)
(* the metric of kind kd has the fixed value LeadVal(kd, r), r in          *)
(* Rotations (different for the four kinds) for the pair (1,1) and any     *)
(* lattice value elsewhere, so no two columns are equal (DistinctColumns)  *)
(* and a column read for the wrong kind changes the result.                *)
(*                                                                         *)
(* Deviation # "none" switches Calculate to a wrong column lookup; TLC     *)
(* must then refute RewardIsDocumentedCombination (non-vacuity, cfg        *)
(* Rewards_deviation*.cfg):                                                *)
(*   "ColumnsByPositionInSublist"  stab/info/sens looked up by their       *)
(*        position among the non-"beh" kinds (an inner cost-constrained    *)
(*        reward built from the 3-metric sub-list, fed the 4-column matrix)*)
(*   "ColumnsInDocumentedOrder"    columns assumed to be stab,info,sens,beh*)
(* The spec is the oracle: every "rewarded" state is one implementation    *)
(* test (spec -> impl replay).                                             *)
(***************************************************************************)
EXTENDS Integers, Sequences, FiniteSets, FiniteSetsExt, TLC, Json, Rationals

CONSTANTS NT, NS, MetricVals, Kinds, Deltas,   \* Deltas: set of <<num, den>>
          FullOrders,                           \* orders that get the whole lattice of cubes
          Rotations,                            \* subset of 0..3: which lead values the kinds get in DistinctK
          Deviation                             \* "none" | name of a wrong column lookup (see header)

VARIABLES pc, kind, delta, order, kcube, cube, norm, reward
vars == <<pc, kind, delta, order, kcube, cube, norm, reward>>

T == 1..NT
S == 1..NS
MKinds(k) == IF k = "combined" THEN {"stab", "info", "sens", "beh"} ELSE {"stab", "info", "sens"}
DocOrder(k) == IF k = "combined" THEN <<"stab", "info", "sens", "beh">> ELSE <<"stab", "info", "sens">>
NMetrics(k) == Cardinality(MKinds(k))
Orders(k) == {o \in [1..NMetrics(k) -> MKinds(k)] : \A i, j \in 1..NMetrics(k) : o[i] = o[j] => i = j}
KindIdx(kd) == CASE kd = "stab" -> 0 [] kd = "info" -> 1 [] kd = "sens" -> 2 [] kd = "beh" -> 3

ASSUME Cardinality(MetricVals) >= 4 /\ Rotations \subseteq 0..3 /\ NT >= 1 /\ NS >= 1

Init == /\ pc = "start" /\ kind = "none" /\ delta = <<1, 1>> /\ order = <<>>
        /\ kcube = <<>> /\ cube = <<>> /\ norm = <<>> /\ reward = <<>>

\* the summation reward has no delta: one value only
PoseKind == /\ pc = "start"
            /\ \E k \in Kinds : \E d \in (IF k = "sum" THEN {CHOOSE x \in Deltas : TRUE} ELSE Deltas) :
                  kind' = k /\ delta' = d
            /\ pc' = "kind" /\ UNCHANGED <<order, kcube, cube, norm, reward>>
\* RewardConfig.metrics: the metric kinds in any order
PoseOrder == /\ pc = "kind"
             /\ \E o \in Orders(kind) : order' = o
             /\ pc' = "order" /\ UNCHANGED <<kind, delta, kcube, cube, norm, reward>>

\* ---- cube families (posed in two stages so that TLC's workers share the enumeration) ----
\* stage 1: the values of the pair (1,1), one per metric kind.  Whole lattice for the orders in
\* FullOrders; for every order the kind-distinct leads LeadVal(kd, r), r \in Rotations
ValAt(i) == CHOOSE v \in MetricVals : Cardinality({w \in MetricVals : w < v}) = i
LeadVal(kd, r) == ValAt((KindIdx(kd) + r) % 4)
DistinctLead(l) == \E r \in Rotations : \A kd \in DOMAIN l : l[kd] = LeadVal(kd, r)
PoseLead == /\ pc = "order"
            /\ \E l \in [MKinds(kind) -> MetricVals] :
                  /\ order \in FullOrders \/ DistinctLead(l)
                  /\ kcube' = l
            /\ pc' = "lead" /\ UNCHANGED <<kind, delta, order, cube, norm, reward>>
\* stage 2: all other pairs take any lattice value; the matrix is assembled as
\* Reward.calculateMetrics does: array([metric.calculate(..) for metric in self.metrics]) -
\* column c is the metric listed c-th
FreeCells == (T \X S) \ {<<1, 1>>}
PoseCube == /\ pc = "lead"
            /\ \E g \in [MKinds(kind) -> [FreeCells -> MetricVals]] :
                 LET kc == [t \in T |-> [s \in S |-> [kd \in MKinds(kind) |->
                              IF <<t, s>> = <<1, 1>> THEN kcube[kd] ELSE g[kd][<<t, s>>]]]]
                 IN /\ kcube' = kc
                    /\ cube' = [t \in T |-> [s \in S |-> [c \in 1..NMetrics(kind) |-> kc[t][s][order[c]]]]]
            /\ pc' = "posed" /\ UNCHANGED <<kind, delta, order, norm, reward>>

\* Reward.normalizeMetrics: for met in range(len(self.metrics)): column-wise
MaxOf(m) == Max({cube[t][s][m] : t \in T, s \in S})
Normalize == /\ pc = "posed"
             /\ norm' = [t \in T |-> [s \in S |-> [m \in 1..NMetrics(kind) |->
                          IF MaxOf(m) > 0 THEN Norm(cube[t][s][m], MaxOf(m)) ELSE Q(cube[t][s][m])]]]
             /\ pc' = "normalized" /\ UNCHANGED <<kind, delta, order, kcube, cube, reward>>

\* Reward.__init__: _metric_type_indices[metric.metric_type] = position in the metric list
PosIn(seq, x) == CHOOSE i \in DOMAIN seq : seq[i] = x
NotBeh(k) == k # "beh"
ColOf(kd) ==
  CASE Deviation = "none" -> PosIn(order, kd)
    [] Deviation = "ColumnsByPositionInSublist" ->
          IF kd = "beh" THEN PosIn(order, kd) ELSE PosIn(SelectSeq(order, NotBeh), kd)
    [] Deviation = "ColumnsInDocumentedOrder" -> PosIn(DocOrder(kind), kd)

One == <<1, 1>>
Cost(x) == QSub(QMul(delta, QAdd(Q(QSign(x[ColOf("stab")])), x[ColOf("info")])),
                QMul(QSub(One, delta), x[ColOf("sens")]))
RECURSIVE SumCols(_, _)
SumCols(x, n) == IF n = 0 THEN Q(0) ELSE QAdd(SumCols(x, n - 1), x[n])
RewardOf(x) ==
  CASE kind = "sum"      -> SumCols(x, NMetrics(kind))          \* np.sum over the metric axis
    [] kind = "cost"     -> Cost(x)
    [] kind = "combined" -> QAdd(Cost(x), x[ColOf("beh")])
Calculate == /\ pc = "normalized"
             /\ reward' = [t \in T |-> [s \in S |-> RewardOf(norm[t][s])]]
             /\ pc' = "rewarded" /\ UNCHANGED <<kind, delta, order, kcube, cube, norm>>

Next == PoseKind \/ PoseOrder \/ PoseLead \/ PoseCube \/ Normalize \/ Calculate
Spec == Init /\ [][Next]_vars

\* ---- C07, reward clause, stated on metric KINDS (independent of the listing order) ----
KMax(kd) == Max({kcube[t][s][kd] : t \in T, s \in S})
KNorm(t, s, kd) == IF KMax(kd) > 0 THEN Norm(kcube[t][s][kd], KMax(kd)) ELSE Q(kcube[t][s][kd])
DocCost(t, s) == QSub(QMul(delta, QAdd(Q(QSign(KNorm(t, s, "stab"))), KNorm(t, s, "info"))),
                      QMul(QSub(One, delta), KNorm(t, s, "sens")))
Documented(t, s) ==
  CASE kind = "sum"      -> QAdd(QAdd(KNorm(t, s, "stab"), KNorm(t, s, "info")), KNorm(t, s, "sens"))
    [] kind = "cost"     -> DocCost(t, s)
    [] kind = "combined" -> QAdd(DocCost(t, s), KNorm(t, s, "beh"))
RewardIsDocumentedCombination ==
  pc = "rewarded" => \A t \in T, s \in S : reward[t][s] = Documented(t, s)
\* column c of the normalised matrix is the normalised metric of the kind listed c-th
NormalisedByKind ==
  pc = "normalized" =>
     \A t \in T, s \in S, c \in 1..NMetrics(kind) : norm[t][s][c] = KNorm(t, s, order[c])
\* the kind-distinct family really has pairwise different columns
Column(c) == [t \in T |-> [s \in S |-> cube[t][s][c]]]
DistinctColumns ==
  pc = "posed" /\ order \notin FullOrders =>
     \A c1, c2 \in 1..NMetrics(kind) : c1 # c2 => Column(c1) # Column(c2)

\* (norm does not change after Normalize: the invariants on it are evaluated once, in "normalized")
\* C07: each normalised metric is at most one
NormalisedAtMostOne ==
  pc = "normalized" =>
     \A t \in T, s \in S, m \in 1..NMetrics(kind) : QLe(norm[t][s][m], One)
\* a metric whose maximum is positive attains exactly one somewhere
NormalisedAttainsOne ==
  pc = "normalized" =>
     \A m \in 1..NMetrics(kind) : MaxOf(m) > 0 => \E t \in T, s \in S : norm[t][s][m] = One
\* normalisation keeps the order of the pairs within a metric
NormalisedOrderKept ==
  pc = "normalized" =>
     \A m \in 1..NMetrics(kind), t1 \in T, t2 \in T, s1 \in S, s2 \in S :
        cube[t1][s1][m] <= cube[t2][s2][m] => QLe(norm[t1][s1][m], norm[t2][s2][m])

\* expected values handed to the replay driver (cube/norm by COLUMN, order = kind of each column)
Emit == pc = "rewarded" =>
          PrintT("REWARD " \o ToJson([kind |-> kind, delta |-> delta, order |-> order, cube |-> cube,
                                      norm |-> norm, reward |-> reward]))

\* ---- constant values for the cfg files (cfg syntax has no negative numbers / tuples) ----
ValsQuick    == {-1, 0, 2, 3}
ValsThorough == {-2, -1, 0, 1, 2, 3}
DeltasAll    == {<<17, 20>>, <<1, 2>>, <<1, 1>>, <<1, 10>>}
DeltasQuick  == {<<17, 20>>, <<1, 2>>}
DocOrdersOnly == {<<"stab", "info", "sens">>, <<"stab", "info", "sens", "beh">>}
NoOrders      == {}
RotQuick      == {0}
RotTwo        == {0, 2}
RotAll        == {0, 1, 2, 3}
=============================================================================
