SPECIFICATION Spec
CONSTANTS Tunings = {"a1e4"} MaxGroup = 1 PermSet = "some"
CONSTANT KindSets <- KindSetsSeq
CONSTANT Placements <- PlacementsSeq
CONSTANT SubPatterns <- SubsQuick
CONSTANT TurnVals <- TurnsOne
CONSTANT RangePatterns <- RangeMixed
CONSTANTS MaxHist = 1 ContinueFrom = "base"
INVARIANT PosteriorIsBasePosterior
INVARIANT InnovationInRange
INVARIANT InnovationIsAngleResidual
INVARIANT StackIsPermutation
INVARIANT Emit
PROPERTY GroupKeepsPosterior
PROPERTY PosteriorIgnoresHistory
