SPECIFICATION SpecRes
CONSTANTS Algs = {"scalar", "vec"} VecReduceAsCoded = FALSE VecRecentreAsCoded = FALSE
CONSTANT TurnsA <- Turns3
CONSTANT TurnsB <- Turns3
CONSTANT MOffs <- OffsQuick
CONSTANT MW0 <- W0Quick
CONSTANT MW1 <- W1All
CONSTANT MTurns <- MTurnsQuick
CONSTANT MRefCentres <- RefCentresQuick
CONSTANTS MMaxLen = 1 MMaxGroup = 0
INVARIANT ReducedInRange
INVARIANT ResidualInRange
INVARIANT ResidualCorrect
INVARIANT WrapIdempotent
INVARIANT WrapRoundTrip
INVARIANT ResidualAntisymmetric
INVARIANT ResidualRotates
INVARIANT Emit
PROPERTY GroupKeepsAngles
