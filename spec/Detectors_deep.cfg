\* spec-level theorems only (no history in the state, so equal memories are merged):
\* windows and bookkeeping over all histories of length <= 6 over NIS 0..3, dimension 1..3
\* for the standard and sliding detectors; the harness rewrites Kinds/MaxLen for the
\* fading-memory detector (whose accumulator does not merge).
SPECIFICATION Spec
CONSTANTS Kinds = {"standard", "sliding"} Windows = {1, 2, 3, 4} NAlpha = 3 Bank = TRUE
          NisVals = {0, 1, 2, 3} NisDen = 1 Dims = {1, 2, 3}
          MaxLen = 6 FadeLen = 6 Trim = FALSE KeepHist = FALSE
CONSTANT Deltas <- DeltasQuick
INVARIANT TypeOK
INVARIANT DetectIffReaches
INVARIANT WindowIsLastW
INVARIANT MemoryUntouched
INVARIANT MonotoneInLatestAdj
