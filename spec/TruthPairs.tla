------------------------------ MODULE TruthPairs ------------------------------
(***************************************************************************)
(* C10, implementation binding: truth trajectories depend only on dynamics *)
(* and initial states.                                                     *)
(*                                                                         *)
(* Abstractly the truth sub-system of Resonaate.tla (variables targets,    *)
(* sensors, truthAt, queue, applied; NonInterference says nothing else may *)
(* change them) makes the truth state of agent a at epoch j a FUNCTION of  *)
(* (family, a, j), where a family fixes dynamics settings, initial states  *)
(* and truth-affecting events.  This module is the refinement target: a    *)
(* table `truth` that is only ever EXTENDED; an observation of an already  *)
(* known (agent, epoch) must repeat the known value.                       *)
(*                                                                         *)
(* A trace is one family: the concatenation of the per-step truth digests  *)
(* (two 28-bit limbs of the SHA-256 of the float64 state bytes) of all its *)
(* variants (estimation on/off, policies, rewards, sensor noise/masks,     *)
(* output cadence, run splits, completion schedules, other agents added or *)
(* removed).  The trace is accepted iff every record is explained.         *)
(***************************************************************************)
EXTENDS Integers, Sequences, FiniteSets, TLC, Json, IOUtils

Traces == JsonDeserialize(IOEnv.TRACE_FILE)

VARIABLES tid, l, truth, variants
vars == <<tid, l, truth, variants>>

Tr == Traces[tid]
Rec == Tr[l]
Key(r) == <<r.a, r.k>>

Init == tid \in DOMAIN Traces /\ l = 1 /\ truth = <<>> /\ variants = {}

\* first observation of (agent, epoch): the family's truth function gets a value
Define == /\ l <= Len(Tr) /\ Key(Rec) \notin DOMAIN truth
          /\ truth' = truth @@ (Key(Rec) :> <<Rec.d1, Rec.d2>>)
          /\ variants' = variants \cup {Rec.v}
          /\ l' = l + 1 /\ UNCHANGED tid
\* later observation by any variant: must repeat it bit for bit
Repeat == /\ l <= Len(Tr) /\ Key(Rec) \in DOMAIN truth
          /\ truth[Key(Rec)] = <<Rec.d1, Rec.d2>>
          /\ variants' = variants \cup {Rec.v}
          /\ l' = l + 1 /\ UNCHANGED <<tid, truth>>
Next == Define \/ Repeat
Spec == Init /\ [][Next]_vars

\* the table is only ever extended (a truth value, once defined, never changes)
OnlyExtended == [][\A key \in DOMAIN truth : key \in DOMAIN truth' /\ truth'[key] = truth[key]]_vars
Accept == PrintT(<<"AT", tid, l, Len(Tr) + 1>>)
=============================================================================
