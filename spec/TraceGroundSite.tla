--------------------------- MODULE TraceGroundSite ---------------------------
(* impl -> spec for C11.  Each trace is one ground agent of one REAL scenario    *)
(* (harness/drivers/c11.py):                                                    *)
(*   [startSec, dt, plan |-> step sizes (s), one per logged step, db |-> 0/1,     *)
(*    reused |-> 1 iff its configuration object had been converted before at      *)
(*               another epoch, st0 |-> the record at the instant of creation,     *)
(*    join |-> scenario steps of dt taken before the agent was added (st holds   *)
(*             the steps after that; all times stay relative to the scenario start),*)
(*    invMs |-> Terrestrial.datetime_start minus the authoritative start, in ms,  *)
(*    st |-> << per step k = 1, 2, ...:                                          *)
(*       [clockMs     |-> clock.datetime_epoch - start (ms),                     *)
(*        epochMs     |-> agent.datetime_epoch - start (ms),                     *)
(*        jdOk        |-> 1 iff agent.julian_date_epoch is the Julian date of    *)
(*                        start + k*dt (1e-9 d),                                 *)
(*        siteEpochMs |-> epoch at which the dynamics evaluated the site (ms),   *)
(*        dispMm      |-> | eci2ecef(agent.eci_state, start + k*dt) - configured |*)
(*                        Earth-fixed position | in millimetres (start + k*dt by  *)
(*                        datetime arithmetic),                                  *)
(*        velErr      |-> Earth-fixed velocity of that state, 1e-9 km/s,         *)
(*        speedErr    |-> | |v_eci| - omega * distance from the axis |, 1e-9 km/s*)
(*        ownDispMm   |-> the agent's own ecef_state against the configuration,  *)
(*        llaErrMm    |-> the agent's own lla_state against the configuration    *)
(*                        (angles scaled by the Earth radius), mm,               *)
(*        dbDispMm    |-> same as dispMm for the truth row in the database       *)
(*                        (-1: no row for that epoch)] >>]                       *)
(* The abstract site sits at tick 0; a logged step is explained iff the          *)
(* specification's Step leads to a state whose observables agree with the log:   *)
(* epochs equal the clock (TrSiteEpochAgrees), the displacement is below one     *)
(* metre (TrSiteFixed), the Earth-fixed velocity below 1e-6 km/s                  *)
(* (TrVelIsRotation).                                                            *)
EXTENDS GroundSite, IOUtils

Tr == JsonDeserialize(IOEnv.TRACE_FILE)

VARIABLES i
tvars == <<vars, i>>

NB == 32
TraceInit == Init /\ i = 0
PickBlock == /\ i = 0 /\ \E b \in 1..NB : i' = -b
             /\ UNCHANGED vars
PickTrace == /\ i < 0
             /\ \E j \in {n \in DOMAIN Tr : n % NB = (-i) - 1} :
                  /\ i' = j /\ startSec' = Tr[j].startSec /\ dt' = Tr[j].dt /\ plan' = Tr[j].plan
                  \* reused = 1: the agent was built from a configuration object that had already
                  \* been converted at another epoch (another scenario's start)
                  /\ first' = IF Tr[j].reused = 1 THEN 22663 ELSE -1
                  \* resited = 1: the agent's id stood for a facility at another site earlier in the process
                  /\ prevLon' = IF Tr[j].resited = 1 THEN 30000 ELSE -1
             /\ pc' = "posed"
             \* (the host's time zone of the run is recorded in the trace for the reader; as designed it
             \*  has no influence, so the specification replays every trace in its UTC class)
             /\ UNCHANGED <<lon, theta0, invErr, clockSec, k, siteEpoch, inertial, vel, join, siteLon, zone>>
\* the scenario steps Tr[i].join times before the agent is added (Scenario.addSensor)
TraceWait  == /\ i > 0 /\ join < Tr[i].join /\ Wait /\ UNCHANGED i
TraceBuild == /\ i > 0 /\ join = Tr[i].join /\ Build /\ UNCHANGED i
\* every trace carries its plan of step sizes (a scenario: the physics step, once per step)
TraceStep  == /\ i > 0 /\ k < Len(Tr[i].st) /\ PlanStep /\ UNCHANGED i
TraceNext == PickBlock \/ PickTrace \/ TraceWait \/ TraceBuild \/ TraceStep
TraceSpec == TraceInit /\ [][TraceNext]_tvars

\* st0 is the agent observed at the instant it was created / joined, before any propagation
Rec == IF k = 0 THEN Tr[i].st0 ELSE Tr[i].st[k]
Logged == i > 0 /\ pc = "run"
\* Every clause is evaluated on every state of every trace: a clause that fails prints one
\* line  <<"REJECT", trace, step, clause>>  (so that one failing clause does not hide the
\* others); a trace is accepted iff it reaches its end (ACCEPTED) without any REJECT line.
Clause(name, holds) == holds \/ PrintT(<<"REJECT", i, k, name>>)

\* the dynamics recovered the start instant exactly
TrStartInversionExact == (i > 0 /\ pc = "run" /\ k = 0) => Clause("TrStartInversionExact", Tr[i].invMs = 0)
\* the simulator's clock, the agent's epoch and the epoch the site was evaluated at are the
\* specification's clock
TrClockAgrees     == Logged => Clause("TrClockAgrees", Rec.clockMs = 1000 * clockSec)
TrEpochAgrees     == Logged => Clause("TrEpochAgrees", Rec.epochMs = 1000 * clockSec /\ Rec.jdOk = 1)
TrSiteEpochAgrees == Logged => Clause("TrSiteEpochAgrees", Rec.siteEpochMs = 1000 * siteEpoch)
\* SiteFixed: within one metre of the configured Earth-fixed position
TrSiteFixed       == Logged => Clause("TrSiteFixed", Rec.dispMm < 1000)
TrOwnFieldsFixed  == Logged => Clause("TrOwnFieldsFixed", Rec.ownDispMm < 1000 /\ Rec.llaErrMm < 1000)
\* db = 1: the truth row of every step must exist and lie at the site; db = 2 (agent added
\* mid-run, whose rows the output database does not hand back - that is C09's subject): rows that
\* exist must lie at the site; db = 0: an agent stepped directly, there is no database
TrDbRowFixed      == (Logged /\ k > 0 /\ Tr[i].db > 0) =>
                        Clause("TrDbRowFixed", (Tr[i].db = 2 \/ Rec.dbDispMm >= 0) /\ Rec.dbDispMm < 1000)
\* VelIsRotation: Earth-fixed velocity below 1e-6 km/s; inertial speed = omega * axis distance
TrVelIsRotation   == Logged => Clause("TrVelIsRotation", Rec.velErr < 1000 /\ Rec.speedErr < 5000)
Accepted == (i > 0 /\ pc = "run" /\ k = Len(Tr[i].st)) => PrintT(<<"ACCEPTED", i>>)
=============================================================================
