\* spec -> impl, exhaustive: every history over 3 NIS values x 2 dimensions, trimmed per
\* detector (standard 2 calls, sliding w+2 capped at 4, fading 4), 3 significance levels
\* (windows of 4 and more, and longer histories, are covered by Detectors_sim_quick.cfg).
\* Every finished history is emitted (HIST) and replayed into the real classes.
SPECIFICATION Spec
CONSTANTS Kinds = {"standard", "sliding", "fading"} Windows = {1, 2, 3, 4} NAlpha = 3 Bank = TRUE
          NisVals = {0, 3, 8} NisDen = 1 Dims = {1, 3}
          MaxLen = 4 FadeLen = 4 Trim = TRUE KeepHist = TRUE
CONSTANT Deltas <- DeltasQuick
INVARIANT TypeOK
INVARIANT DetectIffReaches
INVARIANT WindowIsLastW
INVARIANT MemoryUntouched
INVARIANT DocStandard
INVARIANT DocSliding
INVARIANT DocFading
INVARIANT MonotoneInLatest
INVARIANT Emit
INVARIANT EmitQF2
