SPECIFICATION TraceSpec
CONSTANTS MaxT = 1 MaxS = 1 RewardVals = {0} Policies = {"munkres"}
INVARIANT Explained
INVARIANT RelabelExplained
INVARIANT DecisionFeasible
INVARIANT MunkresOptimal
INVARIANT GreedyOptimal
