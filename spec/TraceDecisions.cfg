SPECIFICATION TraceSpec
CONSTANTS MaxT = 1 MaxS = 1 RewardVals = {0} Policies = {"munkres"} VisBonus = 0
INVARIANT Explained
INVARIANT RelabelExplained
INVARIANT ScaleExplained
INVARIANT DecisionFeasible
INVARIANT MunkresOptimal
INVARIANT GreedyOptimal
