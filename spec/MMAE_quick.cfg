\* Exhaustive lattice of the quick tier (first plan of harness/drivers/c18.py; the driver writes
\* this text itself, together with the other plans: SMM with 3-5 models, -simulate to 30 models).
SPECIFICATION Spec
CONSTANTS Kinds = {"smm", "gpb1"}
CONSTANTS NModels = {2, 3} LVals = {0, 1, 3} Layouts = {1}
CONSTANTS MaxUpdates = 3 BigN = 99 GpbBigN = 3 NoObsAt = {1}
CONSTANT KeepHist = TRUE
CONSTANT Thresholds <- ThQuick
CONSTANT Pcts <- PctOne
CONSTANT MixRatios <- MixOne
INVARIANT NonNegative
INVARIANT SumToOne
INVARIANT AtLeastOneModel
INVARIANT BayesRule
INVARIANT ResetOnlyOnTrueUnderflow
INVARIANT ModeMixValid
INVARIANT MixtureMoments
INVARIANT SpreadForm
INVARIANT HandBackIsSurvivor
INVARIANT NotClosedEarly
INVARIANT TieFree
INVARIANT PruneNeverEmpties
INVARIANT Emit
