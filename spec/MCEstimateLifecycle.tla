------------------------- MODULE MCEstimateLifecycle -------------------------
(***************************************************************************)
(* Model-checking / simulation harness of EstimateLifecycle.tla.           *)
(*  - configuration sets for the exhaustive runs (cfg files cannot hold    *)
(*    records);                                                            *)
(*  - `plan`: an ENVIRONMENT PLAN used only to generate behaviours for the *)
(*    spec -> impl replay (TLC -simulate): the detector class realisable   *)
(*    through the public configuration alone                               *)
(*        "always"  threshold -> 1 : the chi-square test fails on every    *)
(*                  observed step                                          *)
(*        "never"   threshold -> 0 : it never fails                        *)
(*        "real"    small threshold and ONE large unplanned impulse in     *)
(*                  step plan.man: no detection before it, a certain       *)
(*                  detection at the first observed step from then on,     *)
(*                  free afterwards                                        *)
(*    PlanOK is a state CONSTRAINT (it prunes generated behaviours); it is *)
(*    NOT part of the specification the real traces are validated against. *)
(*  - SimEmit prints, at the end of every step, what the driver needs to   *)
(*    realise the behaviour and compare the mode sequence.                 *)
(***************************************************************************)
EXTENDS EstimateLifecycle, Json

C(md, mmae, iodFlag, iodCfg, save, oe) ==
  [md |-> md, mmae |-> mmae, iodFlag |-> iodFlag, iodCfg |-> iodCfg, save |-> save, outEvery |-> oe]

Plain(oe) == C(TRUE, FALSE, FALSE, FALSE, FALSE, oe)
MmaeC(oe) == C(TRUE, TRUE, FALSE, FALSE, TRUE, oe)
IodC(oe)  == C(TRUE, FALSE, TRUE, TRUE, FALSE, oe)
NoDet     == C(FALSE, FALSE, FALSE, FALSE, TRUE, 1)
IodOff(oe) == C(TRUE, FALSE, FALSE, TRUE, FALSE, oe)        \* IOD object given, flag off ("will be IGNORED")
MmaeIodOff == C(TRUE, TRUE, FALSE, TRUE, FALSE, 1)

CfgAll   == {Plain(1), Plain(2), MmaeC(1), MmaeC(2), IodC(1), IodC(3), NoDet, IodOff(1), MmaeIodOff}
CfgTwo   == {MmaeC(1), IodC(2)}
CfgMmae  == {MmaeC(1)}
CfgIod   == {IodC(1), IodC(2)}
CfgIodOff == {IodOff(1), MmaeIodOff}
CfgSim   == {Plain(1), Plain(2), MmaeC(1), IodC(1), IodC(2), NoDet}   \* (MMAE reads stored estimates of every step: output every step)

T1 == {"t1"}
T2 == {"t1", "t2"}
=============================================================================
