----------------------------- MODULE Kinematics -----------------------------
(***************************************************************************)
(* The propagation DRIVER of resonaate with the dynamics abstracted to an   *)
(* exactly integrable law (properties C03 and C15).                         *)
(*                                                                         *)
(* What is modelled (file:function)                                        *)
(*   dynamics/celestial.py:propagate, propagateBulk   the solve_ivp restart *)
(*        loop: integrate to the first terminal event root or the final     *)
(*        time, apply the event, restart one ulp later        (Integrate,   *)
(*        StartThrust, EndThrust, Finish)                                   *)
(*   dynamics/celestial.py:_prepEvents   finite_thrust := None, re-armed if *)
(*        start < t0 < end                                     (PrepEvents) *)
(*   dynamics/celestial.py:_applyEvents + integration_events/finite_thrust  *)
(*        .py:getStateChangeCallback    thrust on at the start root, off at *)
(*        the end root                                (StartThrust/EndThrust)*)
(*   agents/agent_base.py:appendPropagateEvent, prunePropagateEvents        *)
(*        the agent-side queue (duplicates appended at every step while     *)
(*        the burn is active, dropped/deduplicated by the prune)            *)
(*                                                     (Deliver, Prune)     *)
(*   scenario/scenario.py:stepForward + parallel/agent_propagation.py       *)
(*        deliver, prune, propagate(now, now + Dt), now := now + Dt         *)
(*                                                     (Mode = "steps")     *)
(*   propagate(t0,t1) / propagateBulk(times) called with arbitrary splits,  *)
(*        batches of K columns, output grids                (Mode = "calls")*)
(*   a caller that stops handing over scheduled_events (None / []) to the   *)
(*        same dynamics object from some call on            (DropEvents)    *)
(* What is NOT modelled here: the delivery windows of the scenario (C01,    *)
(* Windows/Impulse model, DESIGN appendix B) - Deliver uses the as-coded    *)
(* window on exact times; impulses.                                         *)
(*                                                                         *)
(* Dynamics: one coordinate along a fixed axis u, time in integer ticks.    *)
(* A column is <<p2, v>> with p2 = 2 * position (so everything stays an      *)
(* integer), acceleration g (law) + a (thrust, when on):                    *)
(*      v' = v + A d        p2' = p2 + 2 v d + A d^2          (Adv)          *)
(* RK45 and DOP853 integrate such a law to rounding, so the spec's numbers   *)
(* are an exact oracle for the real driver (harness/drivers/c03.py, c15.py).*)
(*                                                                         *)
(* Properties (named formulas below)                                        *)
(*   ThrustExactlyInterval  thrust is on during tick tau iff ts <= tau < te *)
(*   DeliveredDv            v - v_free = a * |on|, = a (te - ts) at the end  *)
(*   ExactAtBoundaries      the state at every call boundary equals the     *)
(*                          closed form, whatever the split / step size     *)
(*   Semigroup              Flow(t0,t2,x) = Flow(t1,t2,Flow(t0,t1,x))        *)
(*   BulkConsistent         every column / output time of a bulk call equals*)
(*                          the single call Flow(t0, times[j], x)           *)
(*   StepwiseEqualsRun      the step-by-step actions agree with the         *)
(*                          recursive operator used to state Semigroup      *)
(* Named deviations: EndNeedsLanding = TRUE is the code as it stands (D10):  *)
(* the event function has no root at the end of the burn, the end is only   *)
(* seen when the integrator lands on it, i.e. when it is the final time of  *)
(* the call; EndMasksStart = TRUE (D10b): the exact-equality zero at the    *)
(* end hides the start root of a burn inside the last integrator step.      *)
(* TLC refutes ThrustExactlyInterval / DeliveredDv / Semigroup for both.    *)
(* FirstRootOnly = TRUE: of several event roots at one stop (an impulse at    *)
(* the very time the burn starts or ends) only the first in list order is    *)
(* applied, the others are swallowed - TLC refutes ThrustExactlyInterval /   *)
(* ExactAtBoundaries / ImpulseNeverLost.                                      *)
(* StaleThrust = TRUE: _prepEvents resets finite_thrust only when events    *)
(* are passed, so a call WITHOUT events (DropEvents) on the same dynamics    *)
(* object inherits the thrust the previous call left on; TLC refutes         *)
(* ExactAtBoundaries / StepwiseEqualsRun (the result would depend on the     *)
(* history of the object, not only on epoch and state).                      *)
(***************************************************************************)
EXTENDS Integers, Sequences, FiniteSets, TLC, Json

CONSTANTS
  Mode,             \* "steps" (C15: scenario loop) | "calls" (C03: arbitrary calls)
  Horizon,          \* largest time (ticks)
  StepLens,         \* "steps": admissible step lengths Dt (ticks)
  MaxSteps,         \* "steps": largest number of steps
  Ks,               \* batch sizes
  MaxInterior,      \* "calls": interior output times of a bulk call
  MaxCalls,         \* "calls": calls per behaviour
  Laws,             \* set of <<v0, g, a>>
  Kinds,            \* labels of the thrust kind (frame / maneuver type), carried to the harness
  BurnChoice,       \* "closed" (1 <= ts < te <= H) | "open" (te beyond the horizon) | "both"
  WithNoBurn,       \* also pose "no burn"
  FirstStart,       \* earliest burn start: 1, or 0 = the scenario start itself
  OnlyFirstStart,   \* TRUE: pose only burns that start at FirstStart
  EndNeedsLanding,  \* deviation D10 (as coded): the end of the burn is no root, only a landing
  EndMasksStart,    \* deviation D10b (as coded): the exact-equality zero at the end hides the start
  ImpChoice,        \* "steps": companion impulse "none" | "coincident" (with the burn's start or end) | "any" tick
  ImpDvs,           \* delta-v values of the companion impulse (0 = an event that changes nothing)
  FirstRootOnly,    \* deviation: of several roots at one stop only the first in list order is applied
  CallerMayNeighbour,  \* "calls": the caller may repeat the last call's start time with a NEIGHBOURING state
  CallerMayDrop,    \* "calls": the caller may stop passing the event queue from some call on
  StaleThrust,      \* deviation (seeded/C03/change4): finite_thrust is only reset when events are passed
  Layouts,          \* memory layouts of the state argument the caller may use
  EmitTag           \* "" = do not print behaviours

\* named constant sets for the cfg files (cfg files cannot hold tuples / negatives)
LawsQuick    == {<<1, 0, 1>>, <<3, 1, 2>>}
LawsThorough == {<<1, 0, 1>>, <<3, 1, 2>>, <<40, 0, -1>>, <<5, 2, 3>>}
LawsOne      == {<<2, 1, 1>>}
KindsBurn    == {"eci", "ntw", "spiral"}
KindsOne     == {"eci"}
LayoutsC     == {"C"}
LayoutsAll   == {"C", "F", "strided", "readonly"}

VARIABLES
  pc,      \* control state
  law,     \* [v0, g, a]
  burn,    \* [ts, te, kind]; kind = "none" means "no burn"
  dt, nsteps, hor,   \* step length, number of steps, horizon of this behaviour
  X0,      \* initial batch (sequence of columns)
  now, X,  \* agent time and state (Agent._time, Agent.eci_state)
  queue,   \* number of copies of the burn in Agent.propagate_event_queue
  thrust,  \* Celestial.finite_thrust (0 = None, else the acceleration)
  call,    \* the running call [kind, times, X0, q]
  it, fresh,  \* integration time of the restart loop; TRUE until the first restart
  rem, outs,  \* remaining t_eval times / collected outputs of the running call
  hist,    \* completed calls (for the harness)
  on,      \* ticks tau such that the thrust was on during [tau, tau+1)
  layout,  \* memory layout of the state argument: "C" | "F" (transposed (K,6)) | "strided" (view) | "readonly"
  dropAt,  \* time from which the caller passes no events any more (NeverDrop = it always does)
  imp      \* companion impulse [at, dv, first, st, qfirst, pend]: at = 0 none; first = listed before the burn in the
           \* configuration; st = "config" | "queued" | "applied" | "lost"; qfirst = before the burn in the agent's queue;
           \* pend = events whose root is at the current stop and that are still to be applied

vars == <<pc, law, burn, dt, nsteps, hor, X0, now, X, queue, thrust, call, it, fresh, rem, outs, hist, on, dropAt, imp, layout>>

NoBurn  == [ts |-> 0, te |-> 0, kind |-> "none"]
NoCall  == [kind |-> "none", times |-> <<>>, X0 |-> <<>>, q |-> 0, nb |-> <<>>]
HasBurn == burn.kind # "none"
NeverDrop == Horizon + 2
NoImp   == [at |-> 0, dv |-> 0, first |-> FALSE, st |-> "none", qfirst |-> FALSE, pend |-> {}]
HasImp  == imp.at > 0
G == law[2]
A == law[3]
Min(a, b) == IF a < b THEN a ELSE b
Max(a, b) == IF a > b THEN a ELSE b

(***************************************************************************)
(* The exactly integrable law                                              *)
(***************************************************************************)
Adv(col, acc, d)  == <<col[1] + 2 * col[2] * d + acc * d * d, col[2] + acc * d>>
AdvX(cols, acc, d) == [k \in DOMAIN cols |-> Adv(cols[k], acc, d)]
Batch(K, v0) == [k \in 1..K |-> <<2 * (k - 1), v0 + (k - 1)>>]

\* closed form, independent of the driver: overlap of [0, t] with [ts, te)
\* (a burn whose event the caller stops passing at dropAt ends there: the thrust is a property of
\* the events of the CURRENT call, never of what an earlier call left behind)
EffEnd == IF burn.te < dropAt THEN burn.te ELSE dropAt
Ov(t) == IF HasBurn THEN Max(0, Min(t, EffEnd) - burn.ts) ELSE 0
Closed(col, t) ==
  LET o  == Ov(t)
      tl == IF HasBurn /\ o > 0 THEN t - Min(t, EffEnd) ELSE 0   \* coasting time after the burn
      jd == IF HasImp /\ t > imp.at THEN imp.dv ELSE 0       \* the impulse is applied exactly once, at imp.at
  IN <<col[1] + 2 * col[2] * t + G * t * t + A * (o * o + 2 * o * tl) + 2 * jd * (t - imp.at),
       col[2] + G * t + A * o + jd>>

(***************************************************************************)
(* Event roots seen by solve_ivp on (t, tf], as designed / as coded         *)
(***************************************************************************)
\* start: sign change of start - t; a root at t itself is seen once (fresh)
\* (as coded, EndMasksStart: the event function is also 0.0 exactly at the end of the burn; when
\* one integrator step runs from before the start to a final time that IS the end, the bracket
\* [g > 0, g = 0.0] makes the root finder return the final time and the start is never seen -
\* modelled for the exact law, which is integrated with one step per restart)
StartRoot(t, fr, tf, q) == /\ q > 0 /\ HasBurn
                           /\ \/ fr /\ burn.ts = t
                              \/ t < burn.ts /\ burn.ts <= tf
                           /\ ~(EndMasksStart /\ burn.te = tf /\ t < burn.ts)
\* end: a root of its own (as designed) or only an exact landing (as coded)
EndRoot(t, tf, q) == /\ q > 0 /\ HasBurn
                     /\ t < burn.te /\ burn.te <= tf
                     /\ (EndNeedsLanding => burn.te = tf)
Stop(t, fr, tf, q) == IF StartRoot(t, fr, tf, q) THEN burn.ts
                      ELSE IF EndRoot(t, tf, q) THEN burn.te ELSE tf
\* _prepEvents: thrust of a burn that is already running
Rearm(t0, q) == IF q > 0 /\ HasBurn /\ burn.ts < t0 /\ t0 < burn.te THEN A ELSE 0
\* prunePropagateEvents: ended burns dropped, duplicates removed
PruneQ(q, t) == IF ~HasBurn \/ burn.te <= t THEN 0 ELSE Min(q, 1)
\* stepForward / getRelevantEvents: start <= ub /\ end > lb  (exact times)
Delivered(lb, ub) == HasBurn /\ burn.ts <= ub /\ burn.te > lb

(***************************************************************************)
(* The whole call as a recursive operator (one column) - used to STATE the  *)
(* semigroup and bulk properties; the actions below do the same one step    *)
(* at a time (StepwiseEqualsRun ties the two).                              *)
(***************************************************************************)
RECURSIVE Drive(_, _, _, _, _, _)
Drive(t, fr, tf, col, th, q) ==
  LET s  == Stop(t, fr, tf, q)
      c1 == Adv(col, G + th, s - t)
  IN IF StartRoot(t, fr, tf, q) THEN (IF s < tf THEN Drive(s, FALSE, tf, c1, A, q) ELSE c1)
     ELSE IF EndRoot(t, tf, q)  THEN (IF s < tf THEN Drive(s, FALSE, tf, c1, 0, q) ELSE c1)
     ELSE c1
Run(t0, tf, col, q)  == Drive(t0, TRUE, tf, col, Rearm(t0, q), q)
\* what the agent does for one step: prune, then propagate
Flow(t0, tf, col, q) == Run(t0, tf, col, PruneQ(q, t0))

(***************************************************************************)
(* Posing the instance (in stages, so that TLC's workers share the work)    *)
(***************************************************************************)
Init == /\ pc = "poseLaw" /\ law = <<0, 0, 0>> /\ burn = NoBurn
        /\ dt = 0 /\ nsteps = 0 /\ hor = 0 /\ X0 = <<>> /\ now = 0 /\ X = <<>>
        /\ queue = 0 /\ thrust = 0 /\ call = NoCall /\ it = 0 /\ fresh = FALSE
        /\ rem = <<>> /\ outs = <<>> /\ hist = <<>> /\ on = {} /\ dropAt = NeverDrop /\ imp = NoImp /\ layout = "C"

PoseLaw ==
  /\ pc = "poseLaw"
  /\ \E l \in Laws, K \in Ks :
       /\ law' = l /\ X0' = Batch(K, l[1]) /\ X' = Batch(K, l[1])
  \* the memory layout in which the caller hands over the (6, K) batch is part of the posed call; it appears in no
  \* formula below: the same values in another layout must give the same results
  /\ \E ly \in Layouts : layout' = ly
  /\ pc' = "poseGrid"
  /\ UNCHANGED <<burn, dt, nsteps, hor, now, queue, thrust, call, it, fresh, rem, outs, hist, on>>
  /\ UNCHANGED dropAt
  /\ UNCHANGED imp

PoseGrid ==
  /\ pc = "poseGrid"
  /\ IF Mode = "steps"
       THEN \E d \in StepLens, n \in 1..MaxSteps :
              /\ d * n <= Horizon
              /\ dt' = d /\ nsteps' = n /\ hor' = d * n
       ELSE /\ dt' = 0 /\ nsteps' = 0
            /\ \E h \in 2..Horizon : hor' = h
  /\ pc' = "poseBurn"
  /\ UNCHANGED <<law, burn, X0, now, X, queue, thrust, call, it, fresh, rem, outs, hist, on>>
  /\ UNCHANGED dropAt
  /\ UNCHANGED layout
  /\ UNCHANGED imp

BurnIntervals ==
  {<<s, e>> \in (FirstStart..hor) \X (1..(hor + 1)) :
      /\ s < e /\ s < hor
      /\ (OnlyFirstStart => s = FirstStart)
      /\ \/ BurnChoice \in {"closed", "both"} /\ e <= hor
         \/ BurnChoice \in {"open", "both"} /\ e = hor + 1}

PoseBurn ==
  /\ pc = "poseBurn"
  /\ \/ \E iv \in BurnIntervals, k \in Kinds : burn' = [ts |-> iv[1], te |-> iv[2], kind |-> k]
     \/ WithNoBurn /\ burn' = NoBurn
  /\ pc' = IF Mode = "calls" THEN "append" ELSE "poseImp"
  /\ UNCHANGED <<law, dt, nsteps, hor, X0, now, X, queue, thrust, call, it, fresh, rem, outs, hist, on>>
  /\ UNCHANGED dropAt
  /\ UNCHANGED layout
  /\ UNCHANGED imp

\* "steps" mode: a companion impulse of the same agent, strictly inside a step (an impulse ON a step boundary is
\* the subject of C01), in particular at the very time at which the burn starts or ends
ImpTimes == {t \in 1..(hor - 1) :
               /\ t % dt # 0
               /\ \/ ImpChoice = "any"
                  \/ ImpChoice = "coincident" /\ HasBurn /\ t \in {burn.ts, burn.te}}
PoseImp ==
  /\ pc = "poseImp"
  /\ \/ imp' = NoImp
     \/ /\ ImpChoice # "none"
        /\ \E t \in ImpTimes, d \in ImpDvs, f \in BOOLEAN :
              imp' = [at |-> t, dv |-> d, first |-> f, st |-> "config", qfirst |-> FALSE, pend |-> {}]
  /\ pc' = "idle"
  /\ UNCHANGED <<law, burn, dt, nsteps, hor, X0, now, X, queue, thrust, call, it, fresh, rem, outs, hist, on, dropAt, layout>>

(***************************************************************************)
(* Agent side: queue                                                       *)
(***************************************************************************)
\* "calls" mode: the event is queued once, before the first call (Agent.appendPropagateEvent)
AppendEvent ==
  /\ pc = "append"
  /\ queue' = IF HasBurn THEN 1 ELSE 0
  /\ pc' = "idle"
  /\ UNCHANGED <<law, burn, dt, nsteps, hor, X0, now, X, thrust, call, it, fresh, rem, outs, hist, on>>
  /\ UNCHANGED dropAt
  /\ UNCHANGED layout
  /\ UNCHANGED imp

\* "steps" mode: Scenario.stepForward handles the relevant events of (now, now + dt]:
\* a burn is appended again at every step in which it is active
Deliver ==
  /\ pc = "idle" /\ Mode = "steps" /\ now < hor
  /\ queue' = IF Delivered(now, now + dt) THEN queue + 1 ELSE queue
  \* the impulse is handled (appended) in the step that contains it; it stands before the burn in the
  \* queue iff it is listed first AND no copy of the burn is queued from an earlier step (the prune keeps
  \* the first copy of a duplicate)
  /\ imp' = IF imp.st = "config" /\ now < imp.at /\ imp.at <= now + dt
              THEN [imp EXCEPT !.st = "queued", !.qfirst = imp.first /\ queue = 0]
              ELSE imp
  /\ pc' = "delivered"
  /\ UNCHANGED <<law, burn, dt, nsteps, hor, X0, now, X, thrust, call, it, fresh, rem, outs, hist, on>>
  /\ UNCHANGED dropAt
  /\ UNCHANGED layout

\* "calls" mode: from now on the caller passes scheduled_events = None / [] (a filter that propagates
\* without the agent's queue, a user calling the dynamics object directly).  The dynamics object is
\* the same one, with whatever finite_thrust the previous call left behind.
DropEvents ==
  /\ pc = "idle" /\ Mode = "calls" /\ CallerMayDrop
  /\ queue > 0 /\ Len(hist) >= 1 /\ Len(hist) < MaxCalls /\ now < hor
  /\ queue' = 0 /\ dropAt' = now
  /\ UNCHANGED <<pc, law, burn, dt, nsteps, hor, X0, now, X, thrust, call, it, fresh, rem, outs, hist, on, imp, layout>>

\* PropagateRegistration.generateSubmission -> Agent.prunePropagateEvents
Prune ==
  /\ \/ pc = "delivered"
     \/ pc = "idle" /\ Mode = "calls" /\ now < hor /\ Len(hist) < MaxCalls
  /\ queue' = PruneQ(queue, now)
  /\ pc' = "pruned"
  /\ UNCHANGED <<law, burn, dt, nsteps, hor, X0, now, X, thrust, call, it, fresh, rem, outs, hist, on>>
  /\ UNCHANGED dropAt
  /\ UNCHANGED layout
  /\ UNCHANGED imp

(***************************************************************************)
(* Celestial.propagate / propagateBulk                                      *)
(***************************************************************************)
\* increasing sequences  now < t_1 < .. < t_m <= hor  with  1 <= m <= MaxInterior + 1
RECURSIVE Grids(_, _)
Grids(lo, m) == IF m = 0 THEN {<<>>}
                ELSE UNION {{<<t>> \o g : g \in Grids(t, m - 1)} : t \in (lo + 1)..hor}
BulkGrids == UNION {Grids(now, m) : m \in 1..(MaxInterior + 1)}

Begin(kind, times) ==
  \* (nb: when this is a neighbour call, the start state of the call it is a neighbour of)
  /\ call' = [kind |-> kind, times |-> times, X0 |-> X, q |-> queue,
              nb |-> IF call.kind = "nb" THEN call.X0 ELSE <<>>]
  \* _prepEvents: finite_thrust := None, then re-armed from the events of THIS call
  \* (StaleThrust: the reset only happens when events are passed)
  /\ thrust' = IF StaleThrust /\ queue = 0 THEN thrust ELSE Rearm(now, queue)
  /\ it' = now /\ fresh' = TRUE
  /\ rem' = times /\ outs' = <<>>
  /\ pc' = "integ"
  /\ UNCHANGED <<law, burn, dt, nsteps, hor, X0, now, X, queue, hist, on>>
  /\ UNCHANGED dropAt
  /\ UNCHANGED layout
  /\ UNCHANGED imp

\* Propagate(t0, t1)
PrepEvents ==
  /\ pc = "pruned"
  /\ IF Mode = "steps" THEN Begin("single", <<now, now + dt>>)
     ELSE \E t1 \in (now + 1)..hor : Begin("single", <<now, t1>>)
\* A second kind of call on the SAME dynamics object: same start time as the call just made, final time at least as
\* late, start state a NEIGHBOUR of that call's start state (a finite-difference partner, another hypothesis, the next
\* member of a tight batch propagated one by one).  A call's result depends on (t0, t1, x0, events) only - never on what
\* the object propagated before - so from here on the behaviour simply IS the neighbouring trajectory: the agent's time
\* is set back to t0, its state to the neighbour, and the initial batch X0 of the closed form is shifted accordingly
\* (the law is linear in the state).
NbOffsets == {<<1, 0>>, <<0, 1>>}          \* one lattice unit of 2*position or of velocity
NeighbourCall ==
  /\ pc = "idle" /\ Mode = "calls" /\ CallerMayNeighbour /\ dropAt = NeverDrop /\ ~HasImp
  /\ Len(hist) >= 1 /\ Len(hist) < MaxCalls
  /\ (HasBurn => burn.te > hor)              \* the event queue at t0 is the queue of now (nothing was pruned meanwhile)
  /\ LET last == hist[Len(hist)]
         t0   == last.times[1]
     IN /\ \E o \in NbOffsets :
             /\ X'  = [k \in DOMAIN last.x0 |-> <<last.x0[k][1] + o[1], last.x0[k][2] + o[2]>>]
             /\ X0' = [k \in DOMAIN X0 |-> <<X0[k][1] + o[1] - 2 * o[2] * t0, X0[k][2] + o[2]>>]
        /\ now' = t0
        /\ queue' = PruneQ(queue, t0)
        /\ call' = [call EXCEPT !.kind = "nb", !.times = last.times, !.X0 = last.x0]
  /\ pc' = "nb"
  /\ UNCHANGED <<law, burn, dt, nsteps, hor, thrust, it, fresh, rem, outs, hist, on, dropAt, imp, layout>>
PrepEventsNb ==
  /\ pc = "nb"
  /\ \E t1 \in (now + 1)..hor : t1 >= call.times[Len(call.times)] /\ Begin("single", <<now, t1>>)

\* PropagateBulk(times): times[1] is the initial time, the rest goes to t_eval
PrepEventsBulk ==
  /\ pc = "pruned" /\ Mode = "calls"
  /\ \E g \in BulkGrids : Begin("bulk", <<now>> \o g)

Tf == call.times[Len(call.times)]

\* one solve_ivp call: integrate from `it` to the first root or to the final time; the
\* dense output serves every requested time up to the stop (the first one is t0 itself)
Integrate ==
  /\ pc = "integ"
  /\ LET sB      == Stop(it, fresh, Tf, call.q)                     \* first root of the burn, or the final time
         impRoot == imp.st = "queued" /\ it < imp.at /\ imp.at <= Tf
         s       == IF impRoot /\ imp.at < sB THEN imp.at ELSE sB
         acc     == G + thrust
         ready   == SelectSeq(rem, LAMBDA t : t <= s)
         \* every event whose root IS the stop time (solve_ivp itself reports only one of them)
         here    == (IF StartRoot(it, fresh, Tf, call.q) /\ burn.ts = s THEN {"start"} ELSE {})
                    \cup (IF ~StartRoot(it, fresh, Tf, call.q) /\ EndRoot(it, Tf, call.q) /\ burn.te = s THEN {"end"} ELSE {})
                    \cup (IF impRoot /\ imp.at = s THEN {"imp"} ELSE {})
     IN /\ X' = AdvX(X, acc, s - it)
        /\ outs' = outs \o [j \in 1..Len(ready) |-> AdvX(X, acc, ready[j] - it)]
        /\ rem' = SelectSeq(rem, LAMBDA t : t > s)
        /\ on' = IF thrust # 0 THEN on \cup (it..(s - 1)) ELSE on
        /\ it' = s
        /\ imp' = [imp EXCEPT !.pend = here]
        /\ pc' = IF here # {} THEN "apply" ELSE "finish"
  /\ UNCHANGED <<law, burn, dt, nsteps, hor, X0, now, queue, thrust, call, fresh, hist>>
  /\ UNCHANGED dropAt
  /\ UNCHANGED layout

\* _applyEvents.  Several events can have their root at the same stop (an impulse at the very time the burn starts
\* or ends).  As designed EVERY one of them is applied before the integration restarts; they are taken in the order
\* of the event list (the agent's queue, then the end events of the burns).  Deviation FirstRootOnly (solve_ivp
\* reports only the first terminal event among equal roots, and after the restart - an ulp later - the functions of
\* the others are already past zero): only the first is applied, the others are never seen in this call.
ListOrder == IF imp.qfirst THEN <<"imp", "start", "end">> ELSE <<"start", "imp", "end">>
NextEv == LET idx == {i \in 1..3 : ListOrder[i] \in imp.pend}
          IN ListOrder[CHOOSE i \in idx : \A j \in idx : i <= j]
Rest(ev) == IF FirstRootOnly THEN {} ELSE imp.pend \ {ev}
\* an impulse that was pending at this stop and is skipped is lost for good (the prune drops it: its time is past)
ImpAfter(ev) == [imp EXCEPT !.pend = Rest(ev),
                            !.st = IF ev = "imp" THEN "applied"
                                   ELSE IF "imp" \in imp.pend /\ FirstRootOnly THEN "lost" ELSE imp.st]
PcAfter(ev) == IF Rest(ev) # {} THEN "apply" ELSE IF it < Tf THEN "integ" ELSE "finish"

\* start root: finite_thrust := thrust function
StartThrust ==
  /\ pc = "apply" /\ NextEv = "start"
  /\ thrust' = A /\ fresh' = FALSE
  /\ imp' = ImpAfter("start") /\ pc' = PcAfter("start")
  /\ UNCHANGED <<law, burn, dt, nsteps, hor, X0, now, X, queue, call, it, rem, outs, hist, on>>
  /\ UNCHANGED dropAt
  /\ UNCHANGED layout

\* end root: getStateChangeCallback returns None
EndThrust ==
  /\ pc = "apply" /\ NextEv = "end"
  /\ thrust' = 0 /\ fresh' = FALSE
  /\ imp' = ImpAfter("end") /\ pc' = PcAfter("end")
  /\ UNCHANGED <<law, burn, dt, nsteps, hor, X0, now, X, queue, call, it, rem, outs, hist, on>>
  /\ UNCHANGED dropAt
  /\ UNCHANGED layout

\* discrete event: the state jumps by the impulse's delta-v, the thrust is not touched
ApplyImpulse ==
  /\ pc = "apply" /\ NextEv = "imp"
  /\ X' = [k \in DOMAIN X |-> <<X[k][1], X[k][2] + imp.dv>>]
  /\ fresh' = FALSE
  /\ imp' = ImpAfter("imp") /\ pc' = PcAfter("imp")
  /\ UNCHANGED <<law, burn, dt, nsteps, hor, X0, now, queue, thrust, call, it, rem, outs, hist, on>>
  /\ UNCHANGED dropAt
  /\ UNCHANGED layout

\* return value; PropagateRegistration.processResults: time and state of the agent.
\* propagateBulk drops the column of the initial time (final_states[..., 1:]).
Result == IF call.kind = "single" THEN <<X>> ELSE Tail(outs)
Finish ==
  /\ pc = "finish"
  /\ now' = Tf
  \* (x0: the start state; base: for a neighbour call, what the same call gives for the state it is a neighbour of)
  /\ hist' = Append(hist, [kind |-> call.kind, times |-> call.times, outs |-> Result, q |-> call.q, layout |-> layout,
                           x0 |-> call.X0,
                           base |-> [k \in DOMAIN call.nb |-> Run(call.times[1], Tf, call.nb[k], call.q)]])
  /\ pc' = IF Tf = hor THEN "done" ELSE "idle"
  /\ call' = [call EXCEPT !.kind = "none"]
  /\ UNCHANGED <<law, burn, dt, nsteps, hor, X0, X, queue, thrust, it, fresh, rem, outs, on>>
  /\ UNCHANGED dropAt
  /\ UNCHANGED layout
  /\ UNCHANGED imp

Next == PoseLaw \/ PoseGrid \/ PoseBurn \/ PoseImp \/ ApplyImpulse \/ AppendEvent \/ Deliver \/ DropEvents \/ Prune \/ PrepEvents
        \/ NeighbourCall \/ PrepEventsNb
        \/ PrepEventsBulk \/ Integrate \/ StartThrust \/ EndThrust \/ Finish
Spec == Init /\ [][Next]_vars

(***************************************************************************)
(* Properties                                                              *)
(***************************************************************************)
AtBoundary == pc \in {"idle", "done"}
Cols == DOMAIN X

\* C15: thrust on during tick tau  iff  ts <= tau < te   (for every completed tick)
ThrustExactlyInterval ==
  AtBoundary => \A tau \in 0..(now - 1) : (tau \in on) <=> (HasBurn /\ burn.ts <= tau /\ tau < EffEnd)
\* C15: delivered delta-v = a * thrust time; = a * (te - ts) once the burn is over (plus the impulse, once)
ImpDv(t) == IF HasImp /\ t > imp.at THEN imp.dv ELSE 0
DeliveredDv ==
  AtBoundary => \A k \in Cols :
     /\ X[k][2] - (X0[k][2] + G * now) = A * Cardinality({tau \in on : tau < now}) + ImpDv(now)
     /\ (HasBurn /\ now >= EffEnd) => X[k][2] - (X0[k][2] + G * now) = A * Max(0, EffEnd - burn.ts) + ImpDv(now)
\* C03/C15: the state at a call boundary does not depend on how [0, now] was cut into calls
ExactAtBoundaries ==
  AtBoundary => \A k \in Cols : X[k] = Closed(X0[k], now)
\* C03: Flow(t0,t2,x) = Flow(t1,t2,Flow(t0,t1,x)) for every split, from every reachable state
\* (Flow / Run describe calls with the burn only; behaviours with a companion impulse are covered by
\* ExactAtBoundaries, DeliveredDv and ThrustExactlyInterval)
Semigroup ==
  (pc = "idle" /\ call.kind = "none" /\ ~HasImp) =>
     \A t1 \in (now + 1)..(hor - 1), t2 \in (now + 2)..hor : t1 < t2 =>
        \A k \in Cols :
           Flow(now, t2, X[k], queue) = Flow(t1, t2, Flow(now, t1, X[k], queue), queue)
\* C03: columns of a batch and intermediate output times equal single calls
BulkConsistent ==
  (pc = "finish" /\ call.kind = "bulk") =>
     /\ Len(outs) = Len(call.times)
     /\ \A j \in 1..Len(call.times) : \A k \in Cols :
           outs[j][k] = IF j = 1 THEN call.X0[k]
                        ELSE Run(call.times[1], call.times[j], call.X0[k], call.q)
\* the actions and the recursive operator describe the same driver
StepwiseEqualsRun ==
  (pc = "finish" /\ ~HasImp) => \A k \in Cols : X[k] = Run(call.times[1], Tf, call.X0[k], call.q)
\* the queue never holds an ended burn when a call starts, and never more than one copy
QueueClean ==
  pc \in {"pruned", "integ", "apply", "finish"} =>
     queue <= 1 /\ (queue = 1 => HasBurn /\ now < burn.te)
\* every scheduled impulse takes effect exactly once (it is never skipped at a stop it shares with another event)
\* C03: what a completed call returned stays what it was: no later call (on the same dynamics object, with the same
\* shapes, ...) may change it - the harness keeps every returned array and re-reads all of them after the last call
OutputsImmutable == [][\A i \in DOMAIN hist : i \in DOMAIN hist' /\ hist'[i] = hist[i]]_vars
ImpulseNeverLost == imp.st # "lost" /\ (pc = "done" /\ HasImp => imp.st = "applied")

(***************************************************************************)
(* Behaviours for the harness (spec -> impl replay)                        *)
(***************************************************************************)
Emit ==
  (pc = "done" /\ EmitTag # "") =>
     PrintT(EmitTag \o " " \o ToJson(
       [mode |-> Mode, law |-> law, K |-> Len(X0), dt |-> dt, nsteps |-> nsteps, hor |-> hor,
        burn |-> burn, X0 |-> X0, hist |-> hist, on |-> on, dropAt |-> dropAt, layout |-> layout,
        imp |-> [at |-> imp.at, dv |-> imp.dv, first |-> imp.first, qfirst |-> imp.qfirst]]))
=============================================================================
