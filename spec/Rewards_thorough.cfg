SPECIFICATION Spec
CONSTANTS NT = 1 NS = 3 Kinds = {"sum", "cost"}
CONSTANT MetricVals <- ValsQuick
CONSTANT Deltas <- DeltasAll
INVARIANT NormalisedAtMostOne
INVARIANT NormalisedAttainsOne
INVARIANT NormalisedOrderKept
INVARIANT Emit
