SPECIFICATION Spec
CONSTANTS NT = 1 NS = 3 Kinds = {"sum", "cost"}
CONSTANT MetricVals <- ValsQuick
CONSTANT Deltas <- DeltasAll
CONSTANT FullOrders <- DocOrdersOnly
CONSTANT Rotations <- RotQuick
CONSTANT ScaledOrders <- DocOrdersOnly
CONSTANT Deviation = "none"
INVARIANT RewardIsDocumentedCombination
INVARIANT NormalisedByKind
INVARIANT PositiveMaxBecomesOne
INVARIANT DistinctColumns
INVARIANT NormalisedAtMostOne
INVARIANT NormalisedAttainsOne
INVARIANT NormalisedOrderKept
INVARIANT Emit
PROPERTY CalculateKeepsArgument
PROPERTY RecalculateIsStuttering
