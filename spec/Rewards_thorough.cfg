SPECIFICATION Spec
CONSTANTS NT = 2 NS = 2 Kinds = {"sum", "cost"}
CONSTANT MetricVals <- ValsQuick
CONSTANT Deltas <- DeltasAll
INVARIANT NormalisedAtMostOne
INVARIANT NormalisedAttainsOne
INVARIANT NormalisedOrderKept
INVARIANT Emit
