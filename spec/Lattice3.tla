------------------------------ MODULE Lattice3 ------------------------------
(***************************************************************************)
(* Exact integer lattice for the algebraic helpers behind the frame        *)
(* conversions of resonaate (property C04; re-usable by C14).              *)
(*                                                                         *)
(* What it models (code mirrored):                                         *)
(*   physics/maths.py: skewSymmetric(w)            -> Skew(w)              *)
(*                     rot1/rot2/rot3(angle)       -> Rot(i, q), q quarter *)
(*                                                    turns (angle = q*90) *)
(*                     dotRot1/2/3(angle, omega)   -> DotRot(i, q, w)      *)
(*                                                    = Rot(i,q).Skew(w)   *)
(*   numpy cross (used by transforms/methods.py)   -> Cross(u, v)          *)
(*   transforms/methods.py: ecef2sez / sez2ecef    -> SezMatrix(ql, qn)    *)
(*                          = Rot2(1 - ql).Rot3(qn)  at lat = ql*90,       *)
(*                                                    lon = qn*90          *)
(*                          sez2razel / razel2sez  -> SezDir(azq, elq)     *)
(*                          eci2rsw/rsw2eci/ntw2eci-> triads Rsw*/Ntw*     *)
(*                                                                         *)
(* Sign convention of Rot (same as maths.py, Vallado's ROTi): the matrices *)
(* rotate the FRAME (passive): rot3(a) = [[c, s, 0], [-s, c, 0], [0,0,1]]. *)
(* The convention is pinned independently of the code by the invariant     *)
(* QuarterTurnIsCross: a passive quarter turn about e_i maps v to          *)
(* (e_i.v) e_i - e_i x v.                                                  *)
(*                                                                         *)
(* Everything is an integer on the lattice (vectors in (-K..K)^3, angles   *)
(* multiples of 90 degrees), so TLC computes the EXPECTED values exactly;  *)
(* the driver (harness/drivers/c04.py) evaluates the real helpers at every *)
(* emitted lattice point and compares (tolerance 1e-12: cos(pi/2) is       *)
(* 6e-17 in floating point).                                               *)
(*                                                                         *)
(* Properties (one INVARIANT line each in the cfg):                        *)
(*   SkewIsCross, SkewAntisym, CrossAlgebra, TriadsRightHanded,            *)
(*   RotCompose, RotOrthogonal, RotDetOne, RotInverseIsTranspose,          *)
(*   RotAxisFixed, RotPeriodic, QuarterTurnIsCross, RotPreservesCross,     *)
(*   DotRotIsRotOfCross, SezAxesAreGeographic, SezDirIsUnit,               *)
(*   SezRotationIsRigid, WrapAlgebra                                       *)
(* and the ASSUMEs CubeGroupHas24 / CubeGroupProper.                       *)
(***************************************************************************)
EXTENDS Integers, Sequences, FiniteSets, TLC, Json

CONSTANTS K,        \* vectors range over (-K..K)^3
          Turns     \* set of quarter-turn counts posed for the rotations

\* ---------------------------------------------------------------- vectors
Dot(u, v)   == u[1] * v[1] + u[2] * v[2] + u[3] * v[3]
Cross(u, v) == << u[2] * v[3] - u[3] * v[2],
                  u[3] * v[1] - u[1] * v[3],
                  u[1] * v[2] - u[2] * v[1] >>
Add(u, v)   == << u[1] + v[1], u[2] + v[2], u[3] + v[3] >>
Scale(a, v) == << a * v[1], a * v[2], a * v[3] >>
Neg(v)      == Scale(-1, v)
Zero3       == <<0, 0, 0>>
E(i)        == << IF i = 1 THEN 1 ELSE 0, IF i = 2 THEN 1 ELSE 0, IF i = 3 THEN 1 ELSE 0 >>
Box         == (-K..K) \X (-K..K) \X (-K..K)
Axes6       == {Scale(s, E(i)) : s \in {-1, 1}, i \in 1..3}

\* --------------------------------------------------------------- matrices
\* a matrix is a triple of rows
Col(M, j)     == << M[1][j], M[2][j], M[3][j] >>
Transpose(M)  == << Col(M, 1), Col(M, 2), Col(M, 3) >>
MatVec(M, v)  == << Dot(M[1], v), Dot(M[2], v), Dot(M[3], v) >>
RowTimes(r, B) == << Dot(r, Col(B, 1)), Dot(r, Col(B, 2)), Dot(r, Col(B, 3)) >>
MatMul(A, B)  == << RowTimes(A[1], B), RowTimes(A[2], B), RowTimes(A[3], B) >>
MatScale(a, M) == << Scale(a, M[1]), Scale(a, M[2]), Scale(a, M[3]) >>
Det(M)        == Dot(M[1], Cross(M[2], M[3]))
I3            == << <<1, 0, 0>>, <<0, 1, 0>>, <<0, 0, 1>> >>

\* skew-symmetric (cross-product) matrix, as DOCUMENTED in maths.skewSymmetric
Skew(w) == << << 0,     -w[3],  w[2] >>,
              << w[3],   0,    -w[1] >>,
              << -w[2],  w[1],  0    >> >>

\* cosine / sine of q quarter turns
Cq(q) == CASE q % 4 = 0 -> 1 [] q % 4 = 1 -> 0 [] q % 4 = 2 -> -1 [] q % 4 = 3 -> 0
Sq(q) == CASE q % 4 = 0 -> 0 [] q % 4 = 1 -> 1 [] q % 4 = 2 -> 0  [] q % 4 = 3 -> -1

\* elementary rotations, transcribed from maths.rot1 / rot2 / rot3
Rot1(q) == << <<1, 0, 0>>, <<0, Cq(q), Sq(q)>>, <<0, -Sq(q), Cq(q)>> >>
Rot2(q) == << <<Cq(q), 0, -Sq(q)>>, <<0, 1, 0>>, <<Sq(q), 0, Cq(q)>> >>
Rot3(q) == << <<Cq(q), Sq(q), 0>>, <<-Sq(q), Cq(q), 0>>, <<0, 0, 1>> >>
Rot(i, q) == CASE i = 1 -> Rot1(q) [] i = 2 -> Rot2(q) [] i = 3 -> Rot3(q)

\* time derivative helper, as documented in maths.dotRot1/2/3:  Rdot = R [w]x
DotRot(i, q, w) == MatMul(Rot(i, q), Skew(w))

\* the 24 proper rotations of the cube, generated by the three quarter turns
Gens == {Rot(1, 1), Rot(2, 1), Rot(3, 1)}
RECURSIVE Close(_)
Close(G) == LET H == G \cup {MatMul(g, r) : g \in G, r \in Gens}
            IN IF H = G THEN G ELSE Close(H)
CubeGroup == Close({I3})

ASSUME CubeGroupHas24  == Cardinality(CubeGroup) = 24
ASSUME CubeGroupProper == \A g \in CubeGroup : Det(g) = 1 /\ MatMul(g, Transpose(g)) = I3

\* ---------------------------------------------------- orbit-fixed triads
\* Unnormalised integer axis directions for reference position r, velocity v
\* (Vallado 3-20, 3-21; transforms/methods.py eci2rsw / rsw2eci / ntw2eci):
\*   RSW: R along r, W along r x v, S = W x R (positive along the velocity)
\*   NTW: T along v, W along r x v, N = T x W (positive along the radius)
RswR(r, v) == r
RswW(r, v) == Cross(r, v)
RswS(r, v) == Cross(Cross(r, v), r)
NtwT(r, v) == v
NtwW(r, v) == Cross(r, v)
NtwN(r, v) == Cross(v, Cross(r, v))

\* --------------------------------------------------- topocentric horizon
\* geography on the quarter-turn lattice: latitude ql*90 deg (ql in -1..1),
\* longitude qn*90 deg; local vertical, east and north expressed in ECEF
UpEcef(ql, qn)    == << Cq(ql) * Cq(qn), Cq(ql) * Sq(qn), Sq(ql) >>
EastEcef(ql, qn)  == << -Sq(qn), Cq(qn), 0 >>
NorthEcef(ql, qn) == << -Sq(ql) * Cq(qn), -Sq(ql) * Sq(qn), Cq(ql) >>
\* SEZ axes: S = south, E = east, Z = up
SezSouth == <<1, 0, 0>>
SezEast  == <<0, 1, 0>>
SezUp    == <<0, 0, 1>>
\* ECEF -> SEZ rotation, transcribed from methods.ecef2sez:
\*   rot2(pi/2 - lat) . rot3(lon)
SezMatrix(ql, qn) == MatMul(Rot2(1 - ql), Rot3(qn))
\* direction in SEZ of azimuth azq*90 deg (from north, clockwise through
\* east) on the horizon (elq = 0), or of the zenith / nadir (elq = 1 / -1)
SezDir(azq, elq) == IF elq = 0
                      THEN Add(Scale(Cq(azq), Neg(SezSouth)), Scale(Sq(azq), SezEast))
                      ELSE Scale(elq, SezUp)

(***************************************************************************)
(* State machine: the environment poses a lattice point in stages (so that *)
(* TLC's workers share the enumeration); each completely posed point is    *)
(* one implementation test.                                                *)
(*   start -PoseW-> w -PoseV-> wv                (Skew, Cross, triads)     *)
(*   start -PoseAxis-> axis -PoseTurns-> turns   (Rot, composition)        *)
(*                 turns -PoseOmega-> dot        (DotRot; qb = 0 only)     *)
(*   start -PoseSite-> site                      (ECEF -> SEZ matrix)      *)
(*                 site -PoseSiteVec-> sitev     (integer states through   *)
(*                                                ecef2sez / sez2ecef)     *)
(*   start -PoseLook-> look                      (azimuth / elevation, a   *)
(*                                                hair either side)        *)
(*   start -PoseWrap-> wrap                      (maths.wrapAngle2Pi)      *)
(* Every emitted vector is an INTEGER vector: the driver hands it to the   *)
(* real functions as float64, int64, float32 arrays and as a list - the    *)
(* expected value does not depend on the container.                        *)
(***************************************************************************)
VARIABLES pc, w, v, axis, qa, qb
vars == <<pc, w, v, axis, qa, qb>>

Init == pc = "start" /\ w = Zero3 /\ v = Zero3 /\ axis = 0 /\ qa = 0 /\ qb = 0

PoseW == /\ pc = "start"
         /\ \E x \in Box : w' = x
         /\ pc' = "w" /\ UNCHANGED <<v, axis, qa, qb>>
PoseV == /\ pc = "w"
         /\ \E x \in Box : v' = x
         /\ pc' = "wv" /\ UNCHANGED <<w, axis, qa, qb>>
PoseAxis == /\ pc = "start"
            /\ \E i \in 1..3 : axis' = i
            /\ pc' = "axis" /\ UNCHANGED <<w, v, qa, qb>>
PoseTurns == /\ pc = "axis"
             /\ \E a \in Turns, b \in Turns : qa' = a /\ qb' = b
             /\ pc' = "turns" /\ UNCHANGED <<w, v, axis>>
PoseOmega == /\ pc = "turns" /\ qb = 0
             /\ \E x \in Box : w' = x
             /\ pc' = "dot" /\ UNCHANGED <<v, axis, qa, qb>>
PoseSite == /\ pc = "start"
            /\ \E l \in -1..1, n \in 0..3 : qa' = l /\ qb' = n
            /\ pc' = "site" /\ UNCHANGED <<w, v, axis>>
PoseSiteVec == /\ pc = "site"
               /\ \E x \in Box : v' = x
               /\ pc' = "sitev" /\ UNCHANGED <<w, axis, qa, qb>>
\* axis = hair: the direction lies a hair (far below every tolerance) clockwise (+1) or
\* counter-clockwise (-1) of the lattice azimuth, or exactly on it (0)
PoseLook == /\ pc = "start"
            /\ \E a \in 0..3, e \in -1..1, h \in -1..1 :
                  qa' = a /\ qb' = e /\ axis' = h /\ (e # 0 => a = 0 /\ h = 0)
            /\ pc' = "look" /\ UNCHANGED <<w, v>>
\* an angle of qa quarter turns (any number of whole turns), a hair qb below / on / above it
PoseWrap == /\ pc = "start"
            /\ \E q \in Turns, h \in -1..1 : qa' = q /\ qb' = h
            /\ pc' = "wrap" /\ UNCHANGED <<w, v, axis>>

Next == PoseW \/ PoseV \/ PoseAxis \/ PoseTurns \/ PoseOmega \/ PoseSite \/ PoseSiteVec \/ PoseLook \/ PoseWrap
Spec == Init /\ [][Next]_vars

\* ------------------------------------------------------------- properties
SkewIsCross == pc = "wv" => MatVec(Skew(w), v) = Cross(w, v)
SkewAntisym == pc \in {"w", "wv"} => /\ Transpose(Skew(w)) = MatScale(-1, Skew(w))
                                     /\ MatVec(Skew(w), w) = Zero3
CrossAlgebra ==
  pc = "wv" => /\ Cross(w, v) = Neg(Cross(v, w))
               /\ Dot(w, Cross(w, v)) = 0 /\ Dot(v, Cross(w, v)) = 0
               /\ Dot(Cross(w, v), Cross(w, v)) = Dot(w, w) * Dot(v, v) - Dot(w, v) * Dot(w, v)
\* both orbit triads are orthogonal, right-handed, and point the documented way
TriadsRightHanded ==
  (pc = "wv" /\ Cross(w, v) # Zero3) =>
     LET R == RswR(w, v)  S == RswS(w, v)  W == RswW(w, v)
         N == NtwN(w, v)  T == NtwT(w, v)
     IN /\ Dot(R, S) = 0 /\ Dot(R, W) = 0 /\ Dot(S, W) = 0
        /\ Dot(N, T) = 0 /\ Dot(N, W) = 0 /\ Dot(T, W) = 0
        /\ Dot(Cross(R, S), W) > 0 /\ Dot(Cross(N, T), W) > 0
        /\ Dot(S, v) > 0          \* S positive in the direction of the velocity
        /\ Dot(N, w) > 0          \* N positive along the radius

R_a  == Rot(axis, qa)
R_b  == Rot(axis, qb)
RotCompose    == pc = "turns" => MatMul(R_a, R_b) = Rot(axis, qa + qb)
RotOrthogonal == pc = "turns" => /\ MatMul(R_a, Transpose(R_a)) = I3
                                 /\ MatMul(Transpose(R_a), R_a) = I3
RotDetOne     == pc = "turns" => Det(R_a) = 1
RotInverseIsTranspose == pc = "turns" => Rot(axis, -qa) = Transpose(R_a)
RotAxisFixed  == pc = "turns" => MatVec(R_a, E(axis)) = E(axis)
RotPeriodic   == pc = "turns" => Rot(axis, qa + 4) = R_a /\ R_a \in CubeGroup
\* passive quarter turn about e_i:  v |-> (e_i . v) e_i - e_i x v
QuarterTurnIsCross ==
  pc = "dot" => MatVec(Rot(axis, 1), w) = Add(Scale(Dot(E(axis), w), E(axis)), Neg(Cross(E(axis), w)))
RotPreservesCross ==
  pc = "dot" => \A j \in 1..3 : MatVec(R_a, Cross(w, E(j))) = Cross(MatVec(R_a, w), MatVec(R_a, E(j)))
DotRotIsRotOfCross ==
  pc = "dot" => \A j \in 1..3 : MatVec(DotRot(axis, qa, w), E(j)) = MatVec(R_a, Cross(w, E(j)))
\* the transcribed ecef2sez matrix sends the geographic up/east/north of the
\* site to the Z / E / -S axes
SezAxesAreGeographic ==
  pc = "site" => LET M == SezMatrix(qa, qb)
                 IN /\ MatVec(M, UpEcef(qa, qb)) = SezUp
                    /\ MatVec(M, EastEcef(qa, qb)) = SezEast
                    /\ MatVec(M, NorthEcef(qa, qb)) = Neg(SezSouth)
                    /\ M \in CubeGroup
SezDirIsUnit == pc = "look" => Dot(SezDir(qa, qb), SezDir(qa, qb)) = 1
\* the horizon rotation keeps lengths and angles of every (integer) state and its transpose undoes it
SezRotationIsRigid ==
  pc = "sitev" => LET M == SezMatrix(qa, qb)
                  IN /\ Dot(MatVec(M, v), MatVec(M, v)) = Dot(v, v)
                     /\ MatVec(Transpose(M), MatVec(M, v)) = v
                     /\ MatVec(M, MatVec(Transpose(M), v)) = v
\* angles on the circle in quarter turns: the representative in [0, 1 turn) as documented for
\* maths.wrapAngle2Pi (range, idempotence, periodicity)
Wrap4(q) == q % 4
WrapAlgebra == pc = "wrap" => /\ Wrap4(qa) \in 0..3
                              /\ Wrap4(Wrap4(qa)) = Wrap4(qa)
                              /\ Wrap4(qa + 4) = Wrap4(qa) /\ Wrap4(qa - 4) = Wrap4(qa)

\* --------------------------------------------- expected values for replay
EmitVec == pc = "wv" =>
  PrintT("VEC " \o ToJson([w |-> w, v |-> v, skew |-> Skew(w), cross |-> Cross(w, v),
                           s |-> RswS(w, v), n |-> NtwN(w, v)]))
EmitRot == pc = "turns" =>
  PrintT("ROT " \o ToJson([axis |-> axis, qa |-> qa, qb |-> qb, ra |-> R_a, rb |-> R_b,
                           rab |-> Rot(axis, qa + qb)]))
EmitDot == pc = "dot" =>
  PrintT("DOT " \o ToJson([axis |-> axis, q |-> qa, w |-> w, m |-> DotRot(axis, qa, w)]))
EmitSite == pc = "site" =>
  PrintT("SITE " \o ToJson([ql |-> qa, qn |-> qb, m |-> SezMatrix(qa, qb),
                            up |-> UpEcef(qa, qb), east |-> EastEcef(qa, qb),
                            north |-> NorthEcef(qa, qb)]))
EmitSiteVec == pc = "sitev" =>
  PrintT("SITEVEC " \o ToJson([ql |-> qa, qn |-> qb, v |-> v, mv |-> MatVec(SezMatrix(qa, qb), v),
                               mtv |-> MatVec(Transpose(SezMatrix(qa, qb)), v)]))
\* perp: the horizontal direction 90 deg clockwise of dir (towards increasing azimuth)
EmitLook == pc = "look" =>
  PrintT("LOOK " \o ToJson([azq |-> qa, elq |-> qb, hair |-> axis, dir |-> SezDir(qa, qb),
                            perp |-> IF qb = 0 THEN SezDir(qa + 1, 0) ELSE Zero3]))
EmitWrap == pc = "wrap" =>
  PrintT("WRAP " \o ToJson([q |-> qa, hair |-> qb, r |-> Wrap4(qa)]))

\* ---- constant values for the cfg files (cfg syntax has no negative numbers) ----
TurnsQuick    == -4..5
TurnsThorough == -8..9
=============================================================================
