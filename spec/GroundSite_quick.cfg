SPECIFICATION Spec
CONSTANTS N = 86400 MaxSteps = 4 InvertStartBySecTruncation = FALSE CaptureAtJoinEpoch = FALSE CacheIgnoresEpoch = FALSE LocalTimeEpoch = FALSE MemoIgnoresSite = FALSE MaxJoinSteps = 2
CONSTANT Lons <- LonsAll
CONSTANT Theta0s <- ThetasAll
CONSTANT StartSecs <- Secs60
CONSTANT PriorAngles <- OnePrior
CONSTANT Zones <- ZonesUtc
CONSTANT PriorLonShifts <- OneShift
CONSTANT Plans <- NoPlan
CONSTANT Dts <- DtsQuick
INVARIANT SiteEpochAgrees
INVARIANT StartInversionExact
INVARIANT ConvertIgnoresHistory
INVARIANT SiteFromCurrentConfig
INVARIANT SiteFixed
INVARIANT VelIsRotation
INVARIANT Emit
