----------------------------- MODULE Decisions -----------------------------
(***************************************************************************)
(* Tasking decision policies of resonaate (tasking/decisions/decisions.py) *)
(* as sets of ADMISSIBLE decisions (property C07).                         *)
(*                                                                         *)
(* A problem instance is a record                                          *)
(*    [p  |-> "munkres" | "greedy" | "random" | "allvisible",              *)
(*     nt |-> number of targets (rows), ns |-> number of sensors (cols),   *)
(*     R  |-> <<row_1, .., row_nt>>  integer rewards,                      *)
(*     V  |-> 0/1 visibility, same shape]                                  *)
(* and a decision D is a 0/1 matrix of the same shape.  Where the          *)
(* statement of C07 is indifferent (ties) the admissible set has several   *)
(* members; it is never empty (theorem NonEmpty, checked by TLC).          *)
(*                                                                         *)
(* Documented sense (Decision.calculate): policy-specific selection on R,  *)
(* then AND with V.                                                        *)
(***************************************************************************)
EXTENDS Integers, Sequences, FiniteSets, FiniteSetsExt, TLC

Rows(r)  == 1..r.nt
Cols(r)  == 1..r.ns
Pairs(r) == Rows(r) \X Cols(r)
Rw(r, p) == r.R[p[1]][p[2]]
Vset(r)  == {p \in Pairs(r) : r.V[p[1]][p[2]] = 1}
SetOf(r, M) == {p \in Pairs(r) : M[p[1]][p[2]] = 1}

Injective(f) == \A a, b \in DOMAIN f : f[a] = f[b] => a = b

\* complete one-to-one assignments: the smaller side is matched completely
Assignments(r) ==
  IF r.nt <= r.ns
    THEN {{<<t, f[t]>> : t \in Rows(r)} : f \in {g \in [Rows(r) -> Cols(r)] : Injective(g)}}
    ELSE {{<<f[s], s>> : s \in Cols(r)} : f \in {g \in [Cols(r) -> Rows(r)] : Injective(g)}}

Total(r, A) == MapThenSumSet(LAMBDA p : Rw(r, p), A)
MaxTotal(r) == {A \in Assignments(r) : \A B \in Assignments(r) : Total(r, B) <= Total(r, A)}
Mask(r, A)  == A \cap Vset(r)

ColMax(r, s) == {t \in Rows(r) : \A u \in Rows(r) : r.R[u][s] <= r.R[t][s]}
GreedyChoices(r) == {{<<f[s], s>> : s \in Cols(r)} :
                        f \in {g \in [Cols(r) -> Rows(r)] : \A s \in Cols(r) : g[s] \in ColMax(r, s)}}
VisRows(r, s) == {t \in Rows(r) : r.V[t][s] = 1}
RandomChoices(r) ==
  LET seeing == {s \in Cols(r) : VisRows(r, s) # {}}
  IN {{<<f[s], s>> : s \in seeing} :
         f \in {g \in [seeing -> Rows(r)] : \A s \in seeing : g[s] \in VisRows(r, s)}}

\* The statement's "assignment of the reward matrix masked by visibility" can be read as
\* (a) select on R, then mask  (the documented sense of Decision.calculate), or
\* (b) select on R with invisible pairs zeroed, then mask.
\* Inside the engine both coincide (an invisible pair has zero reward); the spec admits
\* either so that it never demands more than the statement (DESIGN.md 7-1).
Zeroed(r) == [r EXCEPT !.R = [t \in Rows(r) |-> [s \in Cols(r) |-> r.R[t][s] * r.V[t][s]]]]
Admissible(r) ==
  CASE r.p = "munkres"    -> {Mask(r, A) : A \in MaxTotal(r)} \cup {Mask(r, A) : A \in MaxTotal(Zeroed(r))}
    [] r.p = "greedy"     -> {Mask(r, A) : A \in GreedyChoices(r)} \cup {Mask(r, A) : A \in GreedyChoices(Zeroed(r))}
    [] r.p = "random"     -> RandomChoices(r)
    [] r.p = "allvisible" -> {Vset(r)}

\* ---- feasibility clauses of C07, as predicates on a decision set ----
OnePerSensor(r, D) == \A s \in Cols(r) : Cardinality({p \in D : p[2] = s}) <= 1
OnePerTarget(r, D) == \A t \in Rows(r) : Cardinality({p \in D : p[1] = t}) <= 1
Feasible(r, D) ==
  /\ D \subseteq Vset(r)
  /\ (r.p # "allvisible" => OnePerSensor(r, D))
  /\ (r.p = "munkres" => OnePerTarget(r, D))
  /\ (r.p = "allvisible" => D = Vset(r))

\* ---- relabelling: permute rows by pi, columns by sigma ----
PermRec(r, pi, sg) ==
  [r EXCEPT !.R = [t \in Rows(r) |-> [s \in Cols(r) |-> r.R[pi[t]][sg[s]]]],
            !.V = [t \in Rows(r) |-> [s \in Cols(r) |-> r.V[pi[t]][sg[s]]]]]
\* D over the relabelled problem corresponds to {<<pi[t], sg[s]>>} over the original
PermBack(D, pi, sg) == {<<pi[p[1]], sg[p[2]]>> : p \in D}
Perms(S) == {f \in [S -> S] : Injective(f)}

\* ---- dual certificate for large instances (square padded matrix) ----
\* c = [n, R (n x n), A (sequence: column of row i), u, v]; proves that A is a maximum
\* total assignment: feasibility of the duals plus equality of the objective values.
CertOk(c) ==
  LET N == 1..c.n
      SumSeq(q) == MapThenSumSet(LAMBDA i : q[i], N)
  IN /\ Injective(c.A) /\ \A i \in N : c.A[i] \in N
     /\ \A i, j \in N : c.u[i] + c.v[j] >= c.R[i][j]
     /\ MapThenSumSet(LAMBDA i : c.R[i][c.A[i]], N) = SumSeq(c.u) + SumSeq(c.v)

(***************************************************************************)
(* State machine: the environment picks an instance, the policy decides.   *)
(***************************************************************************)
CONSTANTS MaxT, MaxS, RewardVals, Policies,
          VisBonus   \* 0; > 0 only in the non-vacuity cfg Decisions_deviation_bonus.cfg (see Decided)

VARIABLES inst, dec, pc
vars == <<inst, dec, pc>>

Matrices(nt, ns, Vals) == [1..nt -> [1..ns -> Vals]]

NoInst == [p |-> "none", nt |-> 0, ns |-> 0, R |-> <<>>, V |-> <<>>]

\* the instance is posed in stages so that TLC's workers share the enumeration
Init == pc = "start" /\ dec = {} /\ inst = NoInst

PoseShape == /\ pc = "start"
             /\ \E nt \in 1..MaxT, ns \in 1..MaxS, p \in Policies :
                  inst' = [NoInst EXCEPT !.p = p, !.nt = nt, !.ns = ns]
             /\ pc' = "shape" /\ UNCHANGED dec
PoseRewards == /\ pc = "shape"
               /\ \E R \in Matrices(inst.nt, inst.ns, RewardVals) : inst' = [inst EXCEPT !.R = R]
               /\ pc' = "rewards" /\ UNCHANGED dec
PoseVisibility == /\ pc = "rewards"
                  /\ \E V \in Matrices(inst.nt, inst.ns, {0, 1}) : inst' = [inst EXCEPT !.V = V]
                  /\ pc' = "posed" /\ UNCHANGED dec

\* DEVIATION (VisBonus > 0): the assignment is solved on R + VisBonus * V ("prefer visible pairs among
\* equally good assignments" with an ABSOLUTE bonus).  Harmless while every difference of two totals is
\* larger than the bonus differences (rewards that are multiples of a unit > min(nt, ns) * VisBonus);
\* on rewards of the bonus' own magnitude the number of visible pairs is maximised instead of the
\* total: MunkresOptimal refutes it on the lattice {0, 1, 2}, not on {0, 8, 16} (control cfg).
Biased(r) == [r EXCEPT !.R = [t \in Rows(r) |-> [s \in Cols(r) |-> r.R[t][s] + VisBonus * r.V[t][s]]]]
Decided(r) == IF VisBonus > 0 /\ r.p = "munkres" THEN {Mask(r, A) : A \in MaxTotal(Biased(r))} ELSE Admissible(r)

Decide == /\ pc = "posed"
          /\ dec' \in Decided(inst)
          /\ pc' = "decided"
          /\ UNCHANGED inst

Next == PoseShape \/ PoseRewards \/ PoseVisibility \/ Decide
Spec == Init /\ [][Next]_vars

NonEmpty        == pc = "posed" => Admissible(inst) # {}
DecisionFeasible == pc = "decided" => Feasible(inst, dec)
\* relabelling the problem relabels the admissible set (checked in the "posed" states)
RelabelEquivariant ==
  pc = "posed" =>
    \A pi \in Perms(Rows(inst)), sg \in Perms(Cols(inst)) :
       {PermBack(D, pi, sg) : D \in Admissible(PermRec(inst, pi, sg))} = Admissible(inst)
\* the unit of the rewards is irrelevant: multiplying every reward by c > 0 leaves the admissible set
\* unchanged (checked for c = 2, 3 on the lattice; invariance under 1/c follows)
ScaleRec(r, c) == [r EXCEPT !.R = [t \in Rows(r) |-> [s \in Cols(r) |-> c * r.R[t][s]]]]
ScaleInvariant ==
  pc = "posed" => \A c \in {2, 3} : Admissible(ScaleRec(inst, c)) = Admissible(inst)
\* munkres: every admissible decision comes from an assignment whose total is maximal
MunkresOptimal ==
  (pc = "decided" /\ inst.p = "munkres") =>
     \E r \in {inst, Zeroed(inst)} :
       \E A \in Assignments(r) : /\ dec = Mask(r, A)
                               /\ \A B \in Assignments(r) : Total(r, B) <= Total(r, A)
GreedyOptimal ==
  (pc = "decided" /\ inst.p = "greedy") =>
     \E r \in {inst, Zeroed(inst)} : \A p \in dec : \A u \in Rows(r) : r.R[u][p[2]] <= Rw(r, p)
=============================================================================
