SPECIFICATION Spec
CONSTANTS N = 86400 MaxSteps = 6 InvertStartBySecTruncation = FALSE CaptureAtJoinEpoch = FALSE CacheIgnoresEpoch = FALSE MaxJoinSteps = 4
CONSTANT Lons <- LonsAll
CONSTANT Theta0s <- ThetasAll
CONSTANT StartSecs <- Secs60
CONSTANT PriorAngles <- OnePrior
CONSTANT Plans <- NoPlan
CONSTANT Dts <- DtsThorough
INVARIANT SiteEpochAgrees
INVARIANT StartInversionExact
INVARIANT ConvertIgnoresHistory
INVARIANT SiteFixed
INVARIANT VelIsRotation
INVARIANT Emit
