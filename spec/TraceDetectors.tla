--------------------------- MODULE TraceDetectors ---------------------------
(* impl -> spec for C17.  A trace is one run of a REAL detector object        *)
(* (StandardNis / SlidingNis / FadingMemoryNis) driven through the real       *)
(* SequentialFilter.checkManeuverDetection on a history chosen by the         *)
(* harness:                                                                   *)
(*   [kind, w, p, q, a,                                                       *)
(*    steps |-> << <<n, d, det, mq, flag>>, ... >>,  twin |-> <<n2, det2>>]   *)
(*   n/NisDen  exact NIS of the residual/covariance pair fed at this step     *)
(*   d         its dimension (varies from step to step)                       *)
(*   det       boolean the detector returned (0/1)                            *)
(*   mq        round(detector.metric * MQ) (projection of the float; -1 when  *)
(*             it is not a finite number in range)                            *)
(*   flag      MANEUVER_DETECTION raised by checkManeuverDetection (0/1)      *)
(*   twin      the last call repeated on a copy of the detector with the      *)
(*             latest innovation scaled up (NIS n2/NisDen >= n/NisDen), det2  *)
(* TLC replays the inputs through the Step actions of Detectors.tla; the      *)
(* trace is accepted iff every recorded output is the one the spec computes   *)
(* (Undecided margins accept both answers).  The exact metric and dof of      *)
(* every step are also printed so that the harness can compare the float      *)
(* metric to 1e-9 (TLC itself decides it to 1/MQ).                            *)
EXTENDS Detectors

Traces == JsonDeserialize(IOEnv.TRACE_FILE)
MQ == 10000

VARIABLE i
tvars == <<vars, i>>

CfgOf(t) == [kind |-> t.kind, w |-> t.w, delta |-> <<t.p, t.q>>, alphas |-> {t.a}]
Alpha    == Traces[i].a

\* traces are picked in two stages (block, then trace) so that TLC's workers share them
NB == 64
TraceInit == i = 0 /\ Init
PickBlock == /\ i = 0 /\ pc = "new"
             /\ \E b \in 1..NB : i' = -b
             /\ UNCHANGED vars
PickTrace == /\ i < 0
             /\ \E j \in {x \in DOMAIN Traces : x % NB = (-i) - 1} :
                   /\ i' = j
                   /\ ConstructAs(CfgOf(Traces[j]))
TraceStep == /\ i > 0 /\ k < Len(Traces[i].steps)
             /\ Step(Traces[i].steps[k + 1][1], Traces[i].steps[k + 1][2])
             /\ UNCHANGED i
TraceNext == PickBlock \/ PickTrace \/ TraceStep
TraceSpec == TraceInit /\ [][TraceNext]_tvars

Logged == i > 0 /\ k > 0
Rec    == Traces[i].steps[k]

\* the boolean the real detector returned is the one the spec computes
DetectExplained ==
  Logged => (Undecided(Alpha, metric, dof) \/ ((Rec[3] = 1) <=> detect[Alpha]))

\* |m.num/m.den - mq/MQ| <= 1/MQ
Near(m, mq) ==
  /\ mq >= 0
  /\ LET s == BMulSmall(m.num, MQ)
     IN /\ BLe(BMul(BFromNat(IF mq > 0 THEN mq - 1 ELSE 0), m.den), s)
        /\ BLe(s, BMul(BFromNat(mq + 1), m.den))
MetricExplained == Logged => Near(metric, Rec[4])

\* checkManeuverDetection raises the flag exactly when the detector reported a detection
FlagExplained == Logged => Rec[5] = Rec[3]

\* the scaled-up twin of the last call, evaluated in the state before the last call
AtTwin == i > 0 /\ pc = "ready" /\ k = Len(Traces[i].steps) - 1
TwinExplained ==
  AtTwin => LET tw   == Traces[i].twin
                last == Traces[i].steps[k + 1]
                r    == Call(cfg, Mem, tw[1], last[2])
                v    == Verdict(Alpha, r.metric, r.dof)
            IN v.und \/ ((tw[2] = 1) <=> v.det)
\* C17 last clause on the records themselves
TwinMonotone ==
  AtTwin => LET tw   == Traces[i].twin
                last == Traces[i].steps[k + 1]
            IN tw[1] >= last[1] /\ (last[3] = 1 => tw[2] = 1)

EmitT == Logged => PrintT("TSTEP " \o ToJson(<<i, k, metric.num, metric.den, dof[1], dof[2],
                                               B01(Undecided(Alpha, metric, dof))>>))
=============================================================================
