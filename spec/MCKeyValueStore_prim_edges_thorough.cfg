SPECIFICATION Spec
CONSTANTS Clients = {"c1"}
  RawKeys = {"k1","k2"}
  CacheKeys = {"k2"}
  Atoms = {"a","b"}
  SetLists <- Lists2
  Indexes <- IdxAll
  MaxLen = 3
  Records = {"r1","r2","r3"}
  CacheSizes = {0,1,2}
  Paths = {}
  Payloads = {}
  MaxPush = 0
  Times <- NoTimes
  RedMax = 128
  Ops = {"set","get","append","pop","flush","dump","xset","init","put","grab"}
  Dev = "none"
  EmitEdges = TRUE
VIEW StoreView
PROPERTY ExclusiveSetNeverOverwrites
PROPERTY FlushEmpties
PROPERTY PopRemovesWhatItReturns
PROPERTY AppendKeepsOrder
PROPERTY CacheMRU
PROPERTY CacheEvictsOnlyLRU
PROPERTY CacheNeverServesPurged
INVARIANT CacheBounded
