---------------------------- MODULE DurationsFrac ----------------------------
(***************************************************************************)
(* Timed runs whose requested duration has a FRACTIONAL second part        *)
(* (property C05: "advances exactly floor(D / step) steps" of the          *)
(* REQUESTED D, and no recorded epoch beyond start + D).                   *)
(*                                                                         *)
(* Durations.tla is unit free; here one tick is 1/Tick second (Tick = 100):*)
(* steps are whole seconds (multiples of Tick), requests lie on the        *)
(* hundredths lattice just below / on / above multiples of the step.       *)
(*                                                                         *)
(* Code mirrored: resonaate.runResonaate (hours as a float -> timedelta),  *)
(* conversions.getTargetJulianDate (the target is built from the whole-    *)
(* second calendar fields: the fraction of the request is dropped),        *)
(* Scenario.propagateTo (difference to the clock in whole seconds, then    *)
(* int(delta / step) steps).                                               *)
(*   As DESIGNED the simulator sees floor(D) whole seconds, so that        *)
(*   floor(floor(D) / step) = floor(D / step) steps are taken.             *)
(*   Named deviation TargetKeepsFraction = TRUE: the target keeps the      *)
(*   fraction and the difference is rounded to the NEAREST second; TLC     *)
(*   refutes it with StepsHonoured / NoOvershoot for requests less than    *)
(*   half a second short of a multiple of the step.                        *)
(* The properties are those of Durations.tla, read in ticks.               *)
(***************************************************************************)
EXTENDS Durations

CONSTANTS Tick,                 \* ticks per second
          TargetKeepsFraction   \* FALSE = as designed

ASSUME \A s \in Dts : s % Tick = 0           \* steps are whole seconds

\* Scenario.propagateTo, entry, with the request D in ticks
FracBegin(D) ==
  /\ pc = "idle" /\ calls < MaxCalls
  /\ LET whole == IF TargetKeepsFraction THEN ((2 * D + Tick) \div (2 * Tick)) * Tick   \* nearest second
                                         ELSE (D \div Tick) * Tick                      \* floor
     IN stepsLeft' = IF whole >= dt THEN whole \div dt ELSE 0       \* else: ValueError, no step
  /\ target' = clockSec + D
  /\ k0' = k /\ reqs' = Append(reqs, D) /\ pc' = "running"
  /\ UNCHANGED <<startSec, dt, clockSec, k, calls, counts, epochs>>

FracNext == \/ PoseStart \/ PoseDt
            \/ \E D \in Requests(dt) : FracBegin(D)
            \/ StepForward \/ PropagateToEnd
FracSpec == Init /\ [][FracNext]_vars

\* as designed, FracBegin is PropagateToBegin of Durations.tla (checked by TLC on every idle state)
SameAsDurations ==
  (pc = "idle" /\ ~TargetKeepsFraction) => \A D \in Requests(dt) : ((D \div Tick) * Tick) \div dt = D \div dt

FracEmit == (pc = "idle" /\ calls > 0 /\ Selected) =>
   PrintT("DUR " \o ToJson([startSec |-> startSec, dt |-> dt, reqs |-> reqs, counts |-> counts,
                            epochs |-> epochs, tick |-> Tick]))
=============================================================================
