---------------------------- MODULE DurationsFrac ----------------------------
(***************************************************************************)
(* Timed runs whose requested duration has a FRACTIONAL second part        *)
(* (property C05: "advances exactly floor(D / step) steps" of the          *)
(* REQUESTED D, and no recorded epoch beyond start + D).                   *)
(*                                                                         *)
(* Durations.tla is unit free; here one tick is 1/Tick second (Tick = 100):*)
(* steps are whole seconds (multiples of Tick), requests lie on the        *)
(* hundredths lattice just below / on / above multiples of the step.       *)
(*                                                                         *)
(* Code mirrored: resonaate.runResonaate (hours as a float -> timedelta),  *)
(* conversions.getTargetJulianDate (the target is built from the whole-    *)
(* second calendar fields: the fraction of the request is dropped),        *)
(* Scenario.propagateTo (difference to the clock in whole seconds, then    *)
(* int(delta / step) steps).                                               *)
(*   As DESIGNED the simulator sees floor(D) whole seconds, so that        *)
(*   floor(floor(D) / step) = floor(D / step) steps are taken.             *)
(*   Named deviation TargetKeepsFraction = TRUE: the target keeps the      *)
(*   fraction and the difference is rounded to the NEAREST second; TLC     *)
(*   refutes it with StepsHonoured / NoOvershoot for requests less than    *)
(*   half a second short of a multiple of the step.                        *)
(* The properties are those of Durations.tla, read in ticks, plus          *)
(* TableIsStartPlusKDt for the table of epochs the clock pre-populates     *)
(* for a configured span that is not a whole multiple of the step (named   *)
(* deviation SpreadEpochsOverSpan).                                        *)
(***************************************************************************)
EXTENDS Durations

CONSTANTS Tick,                 \* ticks per second
          TargetKeepsFraction,  \* FALSE = as designed
          SpanRems,             \* the configured span is 4*dt + r ticks, r \in SpanRems (r < dt)
          SpreadEpochsOverSpan  \* FALSE = as designed

\* The clock of the scenario (ScenarioClock.__init__) pre-populates the table of epochs for the
\* configured time span (stop - start), which need NOT be a whole multiple of the step: as DESIGNED
\* the rows are start + j*dt for j = 0..floor(span/dt).  Every later step adds its epoch if missing
\* (Scenario.saveDatabaseOutput).  Named deviation SpreadEpochsOverSpan = TRUE spreads the same
\* number of rows evenly over the span (end point pinned to the span), refuted by TableIsStartPlusKDt.
VARIABLES span, table
fvars == <<vars, span, table>>
RemTicks(r, step) == CASE r = "zero" -> 0 [] r = "s1" -> Tick [] r = "m1" -> step - Tick
                       [] r = "frac" -> step \div 6 + Tick \div 2
Prepopulated(sp, step) ==
  LET n == sp \div step
  IN IF SpreadEpochsOverSpan THEN {(j * sp) \div n : j \in 0..n} ELSE {j * step : j \in 0..n}

ASSUME \A s \in Dts : s % Tick = 0           \* steps are whole seconds

\* Scenario.propagateTo, entry, with the request D in ticks
FracBegin(D) ==
  /\ pc = "idle" /\ calls < MaxCalls
  /\ LET whole == IF TargetKeepsFraction THEN ((2 * D + Tick) \div (2 * Tick)) * Tick   \* nearest second
                                         ELSE (D \div Tick) * Tick                      \* floor
     IN stepsLeft' = IF whole >= dt THEN whole \div dt ELSE 0       \* else: ValueError, no step
  /\ target' = clockSec + D
  /\ k0' = k /\ reqs' = Append(reqs, D) /\ pc' = "running"
  /\ UNCHANGED <<startSec, dt, clockSec, k, calls, counts, epochs>>

\* ScenarioBuilder: the step and the time span are configured, the clock fills the table
FracPoseDt == /\ PoseDt
              /\ \E r \in SpanRems : /\ span' = 4 * dt' + RemTicks(r, dt')
                                     /\ table' = Prepopulated(4 * dt' + RemTicks(r, dt'), dt')
FracStep   == StepForward /\ table' = table \cup {clockSec'} /\ UNCHANGED span
FracNext == \/ (PoseStart /\ UNCHANGED <<span, table>>) \/ FracPoseDt
            \/ (\E D \in Requests(dt) : FracBegin(D)) /\ UNCHANGED <<span, table>>
            \/ FracStep \/ (PropagateToEnd /\ UNCHANGED <<span, table>>)
FracSpec == Init /\ span = 0 /\ table = {} /\ [][FracNext]_fvars

\* C05: every recorded epoch is start + j*dt: the pre-populated ones for j = 0..floor(span/dt) and
\* exactly those of the steps taken afterwards
Max2(a, b) == IF a > b THEN a ELSE b
TableIsStartPlusKDt == pc \in {"idle", "running"} => table = {j * dt : j \in 0..Max2(span \div dt, k)}

\* as designed, FracBegin is PropagateToBegin of Durations.tla (checked by TLC on every idle state)
SameAsDurations ==
  (pc = "idle" /\ ~TargetKeepsFraction) => \A D \in Requests(dt) : ((D \div Tick) * Tick) \div dt = D \div dt

FracEmit == (pc = "idle" /\ calls > 0 /\ Selected) =>
   PrintT("DUR " \o ToJson([startSec |-> startSec, dt |-> dt, reqs |-> reqs, counts |-> counts,
                            epochs |-> epochs, tick |-> Tick, span |-> span]))
=============================================================================
