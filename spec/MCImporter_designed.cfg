SPECIFICATION Spec
CONSTANTS Configs <- MCConfigs
  CountBasedCheck = FALSE
INVARIANT ImportFaithful
INVARIANT NoStaleState
INVARIANT ObsReachFilter
PROPERTY ImporterReadOnly
