SPECIFICATION Spec
CONSTANTS Tunings = {"default", "a1"} MaxGroup = 1 PermSet = "all"
CONSTANT KindSets <- KindSetsQuick
CONSTANT Placements <- PlacementsQuick
CONSTANT SubPatterns <- SubsQuick
CONSTANT TurnVals <- TurnsQuick
INVARIANT PosteriorIsBasePosterior
INVARIANT InnovationInRange
INVARIANT InnovationIsAngleResidual
INVARIANT StackIsPermutation
INVARIANT Emit
PROPERTY GroupKeepsPosterior
