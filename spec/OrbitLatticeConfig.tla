------------------------- MODULE OrbitLatticeConfig -------------------------
(***************************************************************************)
(* Life-cycle of ONE state-configuration object (property C12, last        *)
(* clause: "describing the same initial orbit ... yields the same initial   *)
(* state").  Mirrors scenario/config/state_config.py:                       *)
(*   Build    ECIStateConfig / COEStateConfig / EQEStateConfig(fields...)   *)
(*   Convert  <config>.toECI(epoch)                                         *)
(*   Derive   another orbit obtained FROM the object: model_copy(update=),  *)
(*            copy.copy / copy.deepcopy followed by an attribute            *)
(*            assignment, or a plain attribute assignment on the object     *)
(*                                                                         *)
(* A form is one of the field combinations the configuration accepts:       *)
(*   "eci"     position, velocity                                           *)
(*   "coe_IE"  sma, ecc, inc, right_ascension, argument_periapsis,          *)
(*             true_anomaly                                                 *)
(*   "coe_EE"  sma, ecc, inc, true_longitude_periapsis, true_anomaly        *)
(*   "coe_IC"  sma, ecc, inc, right_ascension, argument_latitude            *)
(*   "coe_EC"  sma, ecc, inc, true_longitude            (node-less forms)   *)
(*   "eqe"     sma, h, k, p, q, mean_longitude, retrograde                  *)
(* Field values are abstract (each field has a base value 0 and an          *)
(* alternative 1; the driver maps them to a lattice orbit and a second      *)
(* orbit of the same form).  The abstract meaning of a conversion is the    *)
(* valuation itself: two valuations are the same orbit iff they are equal.  *)
(*                                                                         *)
(* THE PROPERTY: ConvertIgnoresHistory - toECI() is a function of the       *)
(* CURRENT field values only, i.e. it equals what a freshly built object    *)
(* with the same fields returns, whatever was converted or derived before.  *)
(* Deviation Memoise = TRUE models an object that keeps the first converted *)
(* state in a private attribute which every way of deriving carries over:   *)
(* TLC refutes ConvertIgnoresHistory (specification-level image of a cache  *)
(* keyed too coarsely).                                                     *)
(*                                                                         *)
(* Every completed behaviour is emitted (ops + the valuation expected at    *)
(* each Convert) and replayed on a REAL object by harness/drivers/c12.py,   *)
(* compared with a freshly built real object of the same fields.            *)
(***************************************************************************)
EXTENDS Integers, Sequences, FiniteSets, TLC, Json

CONSTANTS Forms,        \* subset of DOMAIN NFields
          MaxDerive,    \* Derive steps per behaviour
          Memoise       \* BOOLEAN deviation

VARIABLES pc, form, vals, cache, ops, seen, nder
vars == <<pc, form, vals, cache, ops, seen, nder>>

NFields == [eci |-> 2, coe_IE |-> 6, coe_EE |-> 5, coe_IC |-> 5, coe_EC |-> 4, eqe |-> 7]
FormsAll == DOMAIN NFields
Hows == {"model_copy", "assign", "copy", "deepcopy"}
ASSUME Forms \subseteq DOMAIN NFields /\ MaxDerive \in 1..3 /\ Memoise \in BOOLEAN

None == <<>>
Init == pc = "start" /\ form = "none" /\ vals = None /\ cache = None /\ ops = <<>> /\ seen = <<>> /\ nder = 0

Build == /\ pc = "start"
         /\ \E f \in Forms : form' = f /\ vals' = [i \in 1..NFields[f] |-> 0]
         /\ pc' = "live" /\ UNCHANGED <<cache, ops, seen, nder>>

\* what the object answers: the current fields - or, under the deviation, the remembered first answer
Answer == IF Memoise /\ cache # None THEN cache ELSE vals
Convert(last) ==
  /\ pc = "live"
  /\ (ops # <<>> => ops[Len(ops)] # <<"convert">>)                 \* two conversions in a row add nothing
  /\ (last => nder >= 1)
  /\ seen' = Append(seen, [got |-> Answer, fresh |-> vals])
  /\ cache' = IF cache = None THEN vals ELSE cache
  /\ ops' = Append(ops, <<"convert">>)
  /\ pc' = IF last THEN "done" ELSE "live"
  /\ UNCHANGED <<form, vals, nder>>
\* every way of deriving keeps the private state of the object it starts from
Derive == /\ pc = "live" /\ nder < MaxDerive
          /\ \E how \in Hows, i \in 1..NFields[form] :
                /\ vals' = [vals EXCEPT ![i] = 1 - vals[i]]
                /\ ops' = Append(ops, <<"derive", how, i>>)
          /\ nder' = nder + 1
          /\ UNCHANGED <<pc, form, cache, seen>>

Next == Build \/ Convert(TRUE) \/ Convert(FALSE) \/ Derive
Spec == Init /\ [][Next]_vars

\* ------------------------------------------------------------------ the property
ConvertIgnoresHistory == \A n \in 1..Len(seen) : seen[n].got = seen[n].fresh
\* a derived object that differs from its template in a field is a different orbit
DerivedDiffers == (pc = "done" /\ nder = 1) => seen[Len(seen)].fresh # [i \in 1..NFields[form] |-> 0]

EmitBehaviour == pc = "done" =>
  PrintT("CONFIG " \o ToJson([form |-> form, ops |-> ops, expected |-> [n \in 1..Len(seen) |-> seen[n].fresh]]))
=============================================================================
