SPECIFICATION Spec
CONSTANTS Tunings = {"default", "a1", "a1k3", "a1e4"} MaxGroup = 1 PermSet = "all"
CONSTANT KindSets <- KindSetsMid
CONSTANT Placements <- PlacementsMid
CONSTANT SubPatterns <- SubsMid
CONSTANT TurnVals <- TurnsThorough
CONSTANT RangePatterns <- RangeNear
CONSTANTS MaxHist = 0 ContinueFrom = "any"
INVARIANT PosteriorIsBasePosterior
INVARIANT InnovationInRange
INVARIANT InnovationIsAngleResidual
INVARIANT StackIsPermutation
INVARIANT Emit
PROPERTY GroupKeepsPosterior
PROPERTY PosteriorIgnoresHistory
