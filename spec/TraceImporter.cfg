SPECIFICATION TraceSpec
CONSTANTS Configs = {}
  CountBasedCheck = FALSE
INVARIANT Accept
INVARIANT ImportFaithful
INVARIANT NoStaleState
INVARIANT ObsReachFilter
PROPERTY ImporterReadOnly
