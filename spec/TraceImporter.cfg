SPECIFICATION TraceSpec
CONSTANTS Configs = {}
  CountBasedCheck = FALSE
  SkipEpochWithoutRow = FALSE
  LoadEveryEngine = FALSE
  LoadOnlyOwnTargets = FALSE
INVARIANT Accept
INVARIANT ImportFaithful
INVARIANT NoStaleState
INVARIANT ObsReachFilter
PROPERTY ImporterReadOnly
