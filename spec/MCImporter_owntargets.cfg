INIT ObsInit
NEXT Next
CONSTANTS Configs = {}
  CountBasedCheck = FALSE
  SkipEpochWithoutRow = FALSE
  LoadEveryEngine = FALSE
  LoadOnlyOwnTargets = TRUE
INVARIANT ImportFaithful
INVARIANT NoStaleState
INVARIANT ObsReachFilter
PROPERTY ImporterReadOnly
