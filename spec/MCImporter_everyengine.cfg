INIT ObsInitNoDup
NEXT Next
CONSTANTS Configs = {}
  CountBasedCheck = FALSE
  SkipEpochWithoutRow = FALSE
  LoadEveryEngine = TRUE
  LoadOnlyOwnTargets = FALSE
  MatchWholeSecond = FALSE
  DedupIgnoresSensor = FALSE
  FreezeRoster = FALSE
  StampCachedEpoch = FALSE
  CrashOnDuplicate = FALSE
  KeepDuplicates = FALSE
  CreateMissingTables = FALSE
INVARIANT ImportFaithful
INVARIANT NoStaleState
INVARIANT ObsReachFilter
INVARIANT RunContinues
INVARIANT OutputFaithful
PROPERTY ImporterReadOnly
