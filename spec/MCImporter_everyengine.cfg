INIT ObsInit
NEXT Next
CONSTANTS Configs = {}
  CountBasedCheck = FALSE
  SkipEpochWithoutRow = FALSE
  LoadEveryEngine = TRUE
  LoadOnlyOwnTargets = FALSE
INVARIANT ImportFaithful
INVARIANT NoStaleState
INVARIANT ObsReachFilter
PROPERTY ImporterReadOnly
