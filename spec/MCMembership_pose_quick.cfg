\* The "pose" run of ./check G03 --tier quick by hand (theorems of the as-coded machine, every configuration posed in stages:
\* ids 1..3, 2 engines x 1 target entry x 1 sensor entry):
\*   java -cp tla2tools.jar:CommunityModules-deps.jar tlc2.TLC -deadlock -config MCMembership_pose_quick.cfg MCMembership.tla
SPECIFICATION Spec
CONSTANTS
  Ids <- Ids3
  EngIds <- Eng2
  EngArgs <- Eng3
  Classes <- ClsAB
  MaxOps = 0
  MaxLen = 3
  PoseMode = TRUE
  Roots <- NoRoots
  MaxEng = 2
  MaxT = 1
  MaxS = 1
  DevAddSkipsEstimate = FALSE
  DevRemoveSensorKeepsEngine = FALSE
  DevDupSensorAccepted = FALSE
  DevAddExistingAccepted = FALSE
  DevNoSort = FALSE
  DevRemoveAll = FALSE
CONSTRAINT LenOK
INVARIANT TypeOK
INVARIANT EstimatesMatchTargets
INVARIANT ListsSorted
INVARIANT NamedRejectionIsNoop
INVARIANT OkEffect
INVARIANT ExistenceChecked
INVARIANT BuildFaithful
INVARIANT BuildOkIsConsistent
INVARIANT StepCrashIffUnsafe
INVARIANT ConsistentStepsSafely
INVARIANT StepOnlyRefreshesDims
INVARIANT SaveCrashIffStale
