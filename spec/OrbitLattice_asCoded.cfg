\* spec mutant: the code as written (D14); TLC must refute ElementRoundTrip
SPECIFICATION Spec
CONSTANT Families <- FamMutant
CONSTANT OrientKinds <- KindsCube
CONSTANT WithArcs = FALSE
CONSTANT RetroConvention = "ccw"
INVARIANT VisViva
INVARIANT EnergyConst
INVARIANT HConstant
INVARIANT EccVector
INVARIANT KeplerGeometry
INVARIANT OnLattice
INVARIANT ElementRoundTrip
INVARIANT EquatorialSplit
INVARIANT EquinoctialRoundTrip
INVARIANT EqeMatchesCoe
INVARIANT ArcSameOrbit
INVARIANT ArcLagrange
INVARIANT ArcMinimumEnergy
INVARIANT NoOverflow
