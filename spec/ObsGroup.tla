------------------------------ MODULE ObsGroup ------------------------------
(***************************************************************************)
(* Symmetry group of a stacked measurement update (property C16, filter    *)
(* level).  Mirrors estimation/kalman/unscented_kalman_filter.py:          *)
(*   update(observations) -> forecast -> calculateMeasurementMatrix        *)
(*   (per-component angular flags, calcMeasurementMean, residuals) ->      *)
(*   innovation = residuals(true_y, mean_pred_y, is_angular).              *)
(*                                                                         *)
(* A stack is a sequence of four simultaneous observations of one target   *)
(* by four sensors.  An observation has a kind (its sequence of            *)
(* components: "az", "el" angular, "rng", "rr" linear), the tick of the    *)
(* circle where the sensor sees the target (pv, with a sub-tick placement  *)
(* ps: just below / on / just above that tick, so the sigma points         *)
(* straddle the seam when pv is 0 or N/2), the elevation tick pe, and the  *)
(* sub-tick class u of the measured azimuth relative to the predicted one. *)
(* What the group acts on is the REPRESENTATION:                           *)
(*   reps[c] = [k, s]  the measured value of angular component c is handed *)
(*                     to the filter on branch s with k extra turns        *)
(*   mseam             wrap point of the filter's own azimuth function for *)
(*                     this observation: "pos" = [0,N) (ANGLE_0_2PI),      *)
(*                     "sym" = (-N/2,N/2] (ANGLE_NEG_PI_PI)                *)
(*   the position of the observation in the stack.                         *)
(* Actions: PoseTuning, PoseKinds, PosePlacement, PoseSubs (environment);  *)
(*   AddTurns(i,c,k), MoveSeam(r), Reexpress(i,c), Remodel(i), Permute(p)  *)
(*   (the group); Update (the filter).                                     *)
(* The abstract posterior is a function of the MULTISET of observations    *)
(* with angles reduced mod N (Posterior).  Property formulas:              *)
(*   GroupKeepsPosterior (action property), PosteriorIsBasePosterior,      *)
(*   InnovationInRange, InnovationIsAngleResidual.                         *)
(* Every "updated" state is one implementation test (Emit).                *)
(***************************************************************************)
EXTENDS AngleOps, TLC, Json

CONSTANTS Tunings,        \* labels of sigma-point weightings (interpreted by the driver)
          KindSets,       \* set of 4-tuples of kind names
          Placements,     \* set of 4-tuples of <<tick, sub>>
          SubPatterns,    \* set of 4-tuples over {-1, 0, 1}
          TurnVals,       \* turn offsets for AddTurns
          MaxGroup,       \* number of group actions per behaviour
          PermSet         \* permutations offered to Permute ("all" or "some")

VARIABLES pc, tuning, stack, g, post, innov
vars == <<pc, tuning, stack, g, post, innov>>

NObs == 4
Idx  == 1..NObs
KindComps(kn) ==
  CASE kn = "azel"  -> <<"az", "el">>
    [] kn = "radar" -> <<"az", "el", "rng", "rr">>
    [] kn = "rngaz" -> <<"rng", "az">>
    [] kn = "elrr"  -> <<"el", "rr">>
    [] kn = "elaz"  -> <<"el", "az">>
    [] kn = "rng"   -> <<"rng">>
    [] kn = "az"    -> <<"az">>
IsAng(c) == c \in {"az", "el"}
ElTick == <<2, 3, -2, 1>>       \* the third sensor looks down on the target

CanonRep == [k |-> 0, s |-> "pos"]
MkObs(id, kn, pl, u) ==
  [id |-> id, kind |-> kn, pv |-> pl[1], ps |-> pl[2], pe |-> ElTick[id], u |-> u, mseam |-> "pos",
   reps |-> [c \in DOMAIN KindComps(kn) |-> CanonRep]]
Comps(o) == KindComps(o.kind)
AngTick(o, c) == IF Comps(o)[c] = "az" THEN o.pv ELSE o.pe
\* value handed to the filter / value computed by the filter's own measurement function (ticks)
InputVal(o, c) == Raw(AngTick(o, c), o.reps[c].k, o.reps[c].s)
ModelVal(o, c) == IF Comps(o)[c] = "az" THEN Raw(o.pv, 0, o.mseam) ELSE Raw(o.pe, 0, "sym")

\* ---- the abstract posterior: a function of the multiset, angles mod N ----
Canon(o) == [id |-> o.id, kind |-> o.kind, ps |-> o.ps, u |-> o.u,
             vals |-> [c \in DOMAIN Comps(o) |-> IF IsAng(Comps(o)[c]) THEN Wrap2Pi(InputVal(o, c)) ELSE 0]]
Posterior(st) == LET S == {Canon(st[i]) : i \in DOMAIN st}
                 IN [x \in S |-> Cardinality({i \in DOMAIN st : Canon(st[i]) = x})]
\* innovation of every component as the code forms it: residual(true_y, mean_pred_y, angular)
InnovOf(o) == [c \in DOMAIN Comps(o) |->
                 IF IsAng(Comps(o)[c]) THEN WrapNegPiPi(Wrap2Pi(InputVal(o, c)) - Wrap2Pi(ModelVal(o, c))) ELSE 0]
\* the canonical stack a behaviour started from
BaseOf(st) == [j \in Idx |-> LET o == CHOOSE x \in {st[i] : i \in DOMAIN st} : x.id = j
                             IN [o EXCEPT !.mseam = "pos", !.reps = [c \in DOMAIN Comps(o) |-> CanonRep]]]

Injective(f) == \A x, y \in DOMAIN f : f[x] = f[y] => x = y
AllPerms  == {p \in [Idx -> Idx] : Injective(p)} \ {[i \in Idx |-> i]}
SomePerms == {<<2, 1, 3, 4>>, <<4, 3, 2, 1>>, <<2, 3, 4, 1>>}
Perms == IF PermSet = "all" THEN AllPerms ELSE SomePerms

Init == /\ pc = "start" /\ tuning = "none" /\ stack = <<>> /\ g = 0 /\ post = <<>> /\ innov = <<>>

PoseTuning == /\ pc = "start" /\ \E t \in Tunings : tuning' = t
              /\ pc' = "tuned" /\ UNCHANGED <<stack, g, post, innov>>
PoseKinds == /\ pc = "tuned"
             /\ \E ks \in KindSets : stack' = [i \in Idx |-> MkObs(i, ks[i], <<0, 0>>, 0)]
             /\ pc' = "kinds" /\ UNCHANGED <<tuning, g, post, innov>>
PosePlacement == /\ pc = "kinds"
                 /\ \E pl \in Placements : stack' = [i \in Idx |-> [stack[i] EXCEPT !.pv = pl[i][1], !.ps = pl[i][2]]]
                 /\ pc' = "placed" /\ UNCHANGED <<tuning, g, post, innov>>
PoseSubs == /\ pc = "placed"
            /\ \E us \in SubPatterns : stack' = [i \in Idx |-> [stack[i] EXCEPT !.u = us[i]]]
            /\ pc' = "posed" /\ UNCHANGED <<tuning, g, post, innov>>

CanAct == pc = "posed" /\ g < MaxGroup
AddTurns(i, c, k) == /\ CanAct /\ i \in Idx /\ c \in DOMAIN Comps(stack[i]) /\ IsAng(Comps(stack[i])[c])
                     /\ stack[i].reps[c].k = 0 /\ k # 0
                     /\ stack' = [stack EXCEPT ![i].reps[c].k = k]
                     /\ g' = g + 1 /\ UNCHANGED <<pc, tuning, post, innov>>
\* every azimuth/elevation of the stack, and the filter's own azimuth functions, on branch r
MoveSeam(r) == /\ CanAct
               /\ stack' = [i \in Idx |-> [stack[i] EXCEPT !.mseam = r,
                               !.reps = [c \in DOMAIN Comps(stack[i]) |->
                                           IF IsAng(Comps(stack[i])[c]) THEN [@[c] EXCEPT !.s = r] ELSE @[c]]]]
               /\ stack' # stack
               /\ g' = g + 1 /\ UNCHANGED <<pc, tuning, post, innov>>
\* one measured value on the other branch (the filter keeps its convention)
Reexpress(i, c) == /\ CanAct /\ i \in Idx /\ c \in DOMAIN Comps(stack[i]) /\ IsAng(Comps(stack[i])[c])
                   /\ stack' = [stack EXCEPT ![i].reps[c].s = Other(@)]
                   /\ g' = g + 1 /\ UNCHANGED <<pc, tuning, post, innov>>
\* the filter's azimuth function of one observation on the other branch (the value keeps its own)
Remodel(i) == /\ CanAct /\ i \in Idx /\ \E c \in DOMAIN Comps(stack[i]) : Comps(stack[i])[c] = "az"
              /\ stack' = [stack EXCEPT ![i].mseam = Other(@)]
              /\ g' = g + 1 /\ UNCHANGED <<pc, tuning, post, innov>>
Permute(p) == /\ CanAct /\ stack' = [j \in Idx |-> stack[p[j]]]
              /\ g' = g + 1 /\ UNCHANGED <<pc, tuning, post, innov>>
Update == /\ pc = "posed"
          /\ post' = Posterior(stack) /\ innov' = [i \in Idx |-> InnovOf(stack[i])]
          /\ pc' = "updated" /\ UNCHANGED <<tuning, stack, g>>

Group == \/ \E i \in Idx, c \in 1..4 : Reexpress(i, c) \/ \E k \in TurnVals : AddTurns(i, c, k)
         \/ \E r \in Branches : MoveSeam(r)
         \/ \E i \in Idx : Remodel(i)
         \/ \E p \in Perms : Permute(p)
Next == PoseTuning \/ PoseKinds \/ PosePlacement \/ PoseSubs \/ Group \/ Update
Spec == Init /\ [][Next]_vars

\* ---- C16, filter level ----------------------------------------------------
\* no group action changes the abstract posterior (action property)
GroupKeepsPosterior == [][Group => Posterior(stack') = Posterior(stack)]_vars
\* so whatever was done to the representation, the update sees the posterior of the canonical stack
PosteriorIsBasePosterior == pc = "updated" => post = Posterior(BaseOf(stack))
\* angular innovations lie in (-N/2, N/2] ...
InnovationInRange == pc = "updated" =>
   \A i \in Idx : \A c \in DOMAIN innov[i] : InNegPiPi(innov[i][c])
\* ... and are the residual of the ANGLES (here: the same tick, so 0 ticks; the sign inside the
\* tick is the sub-tick class u of the observation)
InnovationIsAngleResidual == pc = "updated" =>
   \A i \in Idx : \A c \in DOMAIN innov[i] :
      IsAng(Comps(stack[i])[c]) => innov[i][c] = ResidualDef(AngTick(stack[i], c), AngTick(stack[i], c))
StackIsPermutation == pc \in {"posed", "updated"} => {stack[i].id : i \in Idx} = Idx

Emit == pc = "updated" =>
   PrintT("OBS " \o ToJson([tuning |-> tuning, g |-> g, stack |-> stack]))

\* ---- named constant values for cfg files ---------------------------------
KindSetsQuick    == {<<"azel", "radar", "rngaz", "elrr">>, <<"radar", "az", "rng", "elaz">>}
KindSetsThorough == KindSetsQuick \cup {<<"azel", "azel", "radar", "radar">>, <<"rngaz", "elaz", "azel", "rng">>,
                                        <<"az", "az", "elrr", "radar">>}
\* <<tick, sub>>: 0 = the 0/360 seam of [0,N); 12 = the +-180 seam of (-N/2,N/2]; 5, 17 off both
PlacementsQuick    == {<< <<0, 0>>, <<12, 0>>, <<0, -1>>, <<12, 1>> >>,
                       << <<0, 1>>, <<5, 0>>, <<12, -1>>, <<0, 0>> >>}
PlacementsThorough == PlacementsQuick \cup
                      {<< <<12, 0>>, <<12, 0>>, <<0, 0>>, <<0, 0>> >>,
                       << <<17, 0>>, <<0, -1>>, <<0, 1>>, <<12, 0>> >>,
                       << <<0, 0>>, <<0, 0>>, <<0, 0>>, <<0, 0>> >>,
                       << <<12, 1>>, <<12, -1>>, <<5, 1>>, <<23, 0>> >>,
                       << <<1, 0>>, <<0, -1>>, <<11, 0>>, <<12, 1>> >>}
\* medium sets: every state of the thorough replay configuration is run through the real filter
KindSetsMid   == KindSetsQuick \cup {<<"azel", "azel", "radar", "radar">>}
PlacementsMid == PlacementsQuick \cup
                 {<< <<12, 0>>, <<12, 0>>, <<0, 0>>, <<0, 0>> >>,
                  << <<17, 0>>, <<0, -1>>, <<0, 1>>, <<12, 0>> >>}
SubsQuick    == {<<1, -1, 0, 1>>}
SubsMid      == SubsQuick \cup {<<-1, 1, -1, 0>>}
SubsThorough == SubsQuick \cup {<<-1, 1, -1, 0>>, <<0, 0, 1, -1>>, <<-1, -1, 1, 1>>}
TurnsQuick    == {-3, 1}
TurnsThorough == {-3, -1, 1, 2}
=============================================================================
