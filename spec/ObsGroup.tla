------------------------------ MODULE ObsGroup ------------------------------
(***************************************************************************)
(* Symmetry group of a stacked measurement update (property C16, filter    *)
(* level).  Mirrors estimation/kalman/unscented_kalman_filter.py:          *)
(*   update(observations) -> forecast -> calculateMeasurementMatrix        *)
(*   (per-component angular flags, calcMeasurementMean, residuals) ->      *)
(*   innovation = residuals(true_y, mean_pred_y, is_angular).              *)
(*                                                                         *)
(* A stack is a sequence of four simultaneous observations of one target   *)
(* by four sensors.  An observation has a kind (its sequence of            *)
(* components: "az", "el" angular, "rng", "rr" linear), the tick of the    *)
(* circle where the sensor sees the target (pv, with a sub-tick placement  *)
(* ps: just below / on / just above that tick, so the sigma points         *)
(* straddle the seam when pv is 0 or N/2), the elevation tick pe, and the  *)
(* sub-tick class u of the measured azimuth relative to the predicted one. *)
(* What the group acts on is the REPRESENTATION:                           *)
(*   reps[c] = [k, s]  the measured value of angular component c is handed *)
(*                     to the filter on branch s with k extra turns        *)
(*   mseam             wrap point of the filter's own azimuth function for *)
(*                     this observation: "pos" = [0,N) (ANGLE_0_2PI),      *)
(*                     "sym" = (-N/2,N/2] (ANGLE_NEG_PI_PI)                *)
(*   the position of the observation in the stack.                         *)
(* rg = 1 marks a range / range-rate measurement several km (km/s) off the *)
(* prediction (an innovation larger than pi in magnitude).                 *)
(* Actions: PoseTuning, PoseKinds, PosePlacement, PoseSubs (environment);  *)
(*   AddTurns(i,c,k), MoveSeam(r), Reexpress(i,c), Remodel(i), Permute(p)  *)
(*   (the group); Update (the filter); Continue (the SAME filter instance  *)
(*   goes on to a further update from the same prior: hist records the     *)
(*   stacks it has already processed); Relayout(ks) (the environment       *)
(*   hands the instance a stack of equal total dimension but a different   *)
(*   component layout).                                                    *)
(* The abstract posterior is a function of the current prior and the       *)
(* MULTISET of observations with angles reduced mod N (Posterior) - not of *)
(* representation, order, or of what the instance processed before (hist   *)
(* is a ghost: Update never reads it).  Property formulas:                 *)
(*   GroupKeepsPosterior (action property), PosteriorIsBasePosterior,      *)
(*   PosteriorIgnoresHistory (action property), InnovationInRange,         *)
(*   InnovationIsAngleResidual.                                            *)
(* Update stands for the measurement update of EITHER filter family        *)
(* (kalman/unscented_kalman_filter.py: update; particle/                   *)
(* genetic_particle_filter.py: calculateResidualsFromObservations,         *)
(* forecast, update): a stacked residual is the sequence of the            *)
(* observations' own residual blocks in stack order (InnovOf per member).  *)
(* Every "updated" state is one implementation test (Emit): the driver     *)
(* feeds hist and then the stack to ONE real filter instance and compares  *)
(* with a fresh instance fed the stack alone and with the canonical stack. *)
(***************************************************************************)
EXTENDS AngleOps, TLC, Json

CONSTANTS Tunings,        \* labels of sigma-point weightings (interpreted by the driver)
          KindSets,       \* set of 4-tuples of kind names
          Placements,     \* set of 4-tuples of <<tick, sub>>
          SubPatterns,    \* set of 4-tuples over {-1, 0, 1}
          TurnVals,       \* turn offsets for AddTurns
          MaxGroup,       \* number of group actions between two updates
          PermSet,        \* permutations offered to Permute ("all" or "some")
          RangePatterns,  \* set of 4-tuples over {0, 1}: 1 = range innovation of several km
          MaxHist,        \* further updates of the same filter instance (0 = single update)
          ContinueFrom    \* "base": only after updating with an untouched stack; "any"

VARIABLES pc, tuning, stack, g, post, innov, hist
vars == <<pc, tuning, stack, g, post, innov, hist>>

NObs == 4
Idx  == 1..NObs
KindComps(kn) ==
  CASE kn = "azel"  -> <<"az", "el">>
    [] kn = "radar" -> <<"az", "el", "rng", "rr">>
    [] kn = "rngaz" -> <<"rng", "az">>
    [] kn = "elrr"  -> <<"el", "rr">>
    [] kn = "elaz"  -> <<"el", "az">>
    [] kn = "rng"   -> <<"rng">>
    [] kn = "az"    -> <<"az">>
IsAng(c) == c \in {"az", "el"}
ElTick == <<2, 3, -2, 1>>       \* the third sensor looks down on the target

CanonRep == [k |-> 0, s |-> "pos"]
MkObs(id, kn, pl, u) ==
  [id |-> id, kind |-> kn, pv |-> pl[1], ps |-> pl[2], pe |-> ElTick[id], u |-> u, rg |-> 0, mseam |-> "pos",
   reps |-> [c \in DOMAIN KindComps(kn) |-> CanonRep]]
Comps(o) == KindComps(o.kind)
AngTick(o, c) == IF Comps(o)[c] = "az" THEN o.pv ELSE o.pe
\* value handed to the filter / value computed by the filter's own measurement function (ticks)
InputVal(o, c) == Raw(AngTick(o, c), o.reps[c].k, o.reps[c].s)
ModelVal(o, c) == IF Comps(o)[c] = "az" THEN Raw(o.pv, 0, o.mseam) ELSE Raw(o.pe, 0, "sym")

\* ---- the abstract posterior: a function of the multiset, angles mod N ----
Canon(o) == [id |-> o.id, kind |-> o.kind, ps |-> o.ps, u |-> o.u, rg |-> o.rg,
             vals |-> [c \in DOMAIN Comps(o) |-> IF IsAng(Comps(o)[c]) THEN Wrap2Pi(InputVal(o, c)) ELSE 0]]
Posterior(st) == LET S == {Canon(st[i]) : i \in DOMAIN st}
                 IN [x \in S |-> Cardinality({i \in DOMAIN st : Canon(st[i]) = x})]
\* innovation of every component as the code forms it: residual(true_y, mean_pred_y, angular)
InnovOf(o) == [c \in DOMAIN Comps(o) |->
                 IF IsAng(Comps(o)[c]) THEN WrapNegPiPi(Wrap2Pi(InputVal(o, c)) - Wrap2Pi(ModelVal(o, c))) ELSE 0]
\* the canonical stack a behaviour started from
BaseOf(st) == [j \in Idx |-> LET o == CHOOSE x \in {st[i] : i \in DOMAIN st} : x.id = j
                             IN [o EXCEPT !.mseam = "pos", !.reps = [c \in DOMAIN Comps(o) |-> CanonRep]]]

Injective(f) == \A x, y \in DOMAIN f : f[x] = f[y] => x = y
AllPerms  == {p \in [Idx -> Idx] : Injective(p)} \ {[i \in Idx |-> i]}
SomePerms == {<<2, 1, 3, 4>>, <<4, 3, 2, 1>>, <<2, 3, 4, 1>>}
Perms == IF PermSet = "all" THEN AllPerms ELSE SomePerms

Init == /\ pc = "start" /\ tuning = "none" /\ stack = <<>> /\ g = 0 /\ post = <<>> /\ innov = <<>> /\ hist = <<>>

PoseTuning == /\ pc = "start" /\ \E t \in Tunings : tuning' = t
              /\ pc' = "tuned" /\ UNCHANGED <<stack, g, post, innov, hist>>
PoseKinds == /\ pc = "tuned"
             /\ \E ks \in KindSets : stack' = [i \in Idx |-> MkObs(i, ks[i], <<0, 0>>, 0)]
             /\ pc' = "kinds" /\ UNCHANGED <<tuning, g, post, innov, hist>>
PosePlacement == /\ pc = "kinds"
                 /\ \E pl \in Placements : stack' = [i \in Idx |-> [stack[i] EXCEPT !.pv = pl[i][1], !.ps = pl[i][2]]]
                 /\ pc' = "placed" /\ UNCHANGED <<tuning, g, post, innov, hist>>
PoseSubs == /\ pc = "placed"
            /\ \E us \in SubPatterns, rs \in RangePatterns :
                  stack' = [i \in Idx |-> [stack[i] EXCEPT !.u = us[i], !.rg = rs[i]]]
            /\ pc' = "posed" /\ UNCHANGED <<tuning, g, post, innov, hist>>

CanAct == pc = "posed" /\ g < MaxGroup
AddTurns(i, c, k) == /\ CanAct /\ i \in Idx /\ c \in DOMAIN Comps(stack[i]) /\ IsAng(Comps(stack[i])[c])
                     /\ stack[i].reps[c].k = 0 /\ k # 0
                     /\ stack' = [stack EXCEPT ![i].reps[c].k = k]
                     /\ g' = g + 1 /\ UNCHANGED <<pc, tuning, post, innov, hist>>
\* every azimuth/elevation of the stack, and the filter's own azimuth functions, on branch r
MoveSeam(r) == /\ CanAct
               /\ stack' = [i \in Idx |-> [stack[i] EXCEPT !.mseam = r,
                               !.reps = [c \in DOMAIN Comps(stack[i]) |->
                                           IF IsAng(Comps(stack[i])[c]) THEN [@[c] EXCEPT !.s = r] ELSE @[c]]]]
               /\ stack' # stack
               /\ g' = g + 1 /\ UNCHANGED <<pc, tuning, post, innov, hist>>
\* one measured value on the other branch (the filter keeps its convention)
Reexpress(i, c) == /\ CanAct /\ i \in Idx /\ c \in DOMAIN Comps(stack[i]) /\ IsAng(Comps(stack[i])[c])
                   /\ stack' = [stack EXCEPT ![i].reps[c].s = Other(@)]
                   /\ g' = g + 1 /\ UNCHANGED <<pc, tuning, post, innov, hist>>
\* the filter's azimuth function of one observation on the other branch (the value keeps its own)
Remodel(i) == /\ CanAct /\ i \in Idx /\ \E c \in DOMAIN Comps(stack[i]) : Comps(stack[i])[c] = "az"
              /\ stack' = [stack EXCEPT ![i].mseam = Other(@)]
              /\ g' = g + 1 /\ UNCHANGED <<pc, tuning, post, innov, hist>>
Permute(p) == /\ CanAct /\ stack' = [j \in Idx |-> stack[p[j]]]
              /\ g' = g + 1 /\ UNCHANGED <<pc, tuning, post, innov, hist>>
Update == /\ pc = "posed"
          /\ post' = Posterior(stack) /\ innov' = [i \in Idx |-> InnovOf(stack[i])]
          /\ pc' = "updated" /\ UNCHANGED <<tuning, stack, g, hist>>
\* the same filter instance is used again (same prior): what it has processed is remembered
Continue == /\ pc = "updated" /\ Len(hist) < MaxHist
            /\ (ContinueFrom = "base" => stack = BaseOf(stack))
            /\ hist' = Append(hist, stack) /\ g' = 0 /\ pc' = "posed"
            /\ UNCHANGED <<tuning, stack, post, innov>>
\* between two updates the environment may hand over other kinds of observations by the same
\* sensors: equal total dimension, different component layout
Dim(ks) == Len(KindComps(ks[1])) + Len(KindComps(ks[2])) + Len(KindComps(ks[3])) + Len(KindComps(ks[4]))
KindsOf(st) == [j \in Idx |-> (CHOOSE x \in {st[i] : i \in DOMAIN st} : x.id = j).kind]
Relayout(ks) == /\ CanAct /\ hist # <<>>
                /\ ks # KindsOf(stack) /\ Dim(ks) = Dim(KindsOf(stack))
                /\ stack' = [i \in Idx |-> [stack[i] EXCEPT !.kind = ks[stack[i].id], !.mseam = "pos",
                                                !.reps = [c \in DOMAIN KindComps(ks[stack[i].id]) |-> CanonRep]]]
                /\ g' = g + 1 /\ UNCHANGED <<pc, tuning, post, innov, hist>>

Group == \/ \E i \in Idx, c \in 1..4 : Reexpress(i, c) \/ \E k \in TurnVals : AddTurns(i, c, k)
         \/ \E r \in Branches : MoveSeam(r)
         \/ \E i \in Idx : Remodel(i)
         \/ \E p \in Perms : Permute(p)
Next == PoseTuning \/ PoseKinds \/ PosePlacement \/ PoseSubs \/ Group \/ Update \/ Continue
        \/ \E ks \in KindSets : Relayout(ks)
Spec == Init /\ [][Next]_vars

\* ---- C16, filter level ----------------------------------------------------
\* no group action changes the abstract posterior (action property)
GroupKeepsPosterior == [][Group => Posterior(stack') = Posterior(stack)]_vars
\* so whatever was done to the representation, the update sees the posterior of the canonical stack
PosteriorIsBasePosterior == pc = "updated" => post = Posterior(BaseOf(stack))
\* what the instance processed before never enters: an update changes post/innov as a function of
\* the stack alone, and going on to a further update leaves them untouched
PosteriorIgnoresHistory == [][/\ (Update => post' = Posterior(stack) /\ hist' = hist)
                              /\ (Continue => post' = post /\ stack' = stack)]_vars
\* angular innovations lie in (-N/2, N/2] ...
InnovationInRange == pc = "updated" =>
   \A i \in Idx : \A c \in DOMAIN innov[i] : InNegPiPi(innov[i][c])
\* ... and are the residual of the ANGLES (here: the same tick, so 0 ticks; the sign inside the
\* tick is the sub-tick class u of the observation)
InnovationIsAngleResidual == pc = "updated" =>
   \A i \in Idx : \A c \in DOMAIN innov[i] :
      IsAng(Comps(stack[i])[c]) => innov[i][c] = ResidualDef(AngTick(stack[i], c), AngTick(stack[i], c))
StackIsPermutation == pc \in {"posed", "updated"} => {stack[i].id : i \in Idx} = Idx

Emit == pc = "updated" =>
   PrintT("OBS " \o ToJson([tuning |-> tuning, g |-> g, stack |-> stack, hist |-> hist]))

\* ---- named constant values for cfg files ---------------------------------
\* the driver gives "azel", "elaz", "az" the sensor type Optical and the others Radar, and every sensor
\* its own noise covariance: the second set is four sensors of ONE type with different R, the
\* fourth also with different dimensions
KindSetsQuick    == {<<"azel", "radar", "rngaz", "elrr">>, <<"azel", "elaz", "azel", "elaz">>}
KindSetsThorough == KindSetsQuick \cup {<<"radar", "az", "rng", "elaz">>, <<"azel", "az", "elaz", "azel">>,
                                        <<"azel", "azel", "radar", "radar">>, <<"rngaz", "elaz", "azel", "rng">>,
                                        <<"az", "az", "elrr", "radar">>, <<"radar", "elrr", "rngaz", "radar">>}
\* <<tick, sub>>: 0 = the 0/360 seam of [0,N); 12 = the +-180 seam of (-N/2,N/2]; 5, 17 off both
PlacementsQuick    == {<< <<0, 0>>, <<12, 0>>, <<0, -1>>, <<12, 1>> >>,
                       << <<0, 1>>, <<5, 0>>, <<12, -1>>, <<0, 0>> >>}
PlacementsThorough == PlacementsQuick \cup
                      {<< <<12, 0>>, <<12, 0>>, <<0, 0>>, <<0, 0>> >>,
                       << <<17, 0>>, <<0, -1>>, <<0, 1>>, <<12, 0>> >>,
                       << <<0, 0>>, <<0, 0>>, <<0, 0>>, <<0, 0>> >>,
                       << <<12, 1>>, <<12, -1>>, <<5, 1>>, <<23, 0>> >>,
                       << <<1, 0>>, <<0, -1>>, <<11, 0>>, <<12, 1>> >>}
\* medium sets: every state of the thorough replay configuration is run through the real filter
KindSetsMid   == KindSetsQuick \cup {<<"radar", "az", "rng", "elaz">>, <<"azel", "az", "elaz", "azel">>}
PlacementsMid == PlacementsQuick \cup
                 {<< <<12, 0>>, <<12, 0>>, <<0, 0>>, <<0, 0>> >>,
                  << <<17, 0>>, <<0, -1>>, <<0, 1>>, <<12, 0>> >>}
SubsQuick    == {<<1, -1, 0, 1>>}
SubsMid      == SubsQuick \cup {<<-1, 1, -1, 0>>}
SubsThorough == SubsQuick \cup {<<-1, 1, -1, 0>>, <<0, 0, 1, -1>>, <<-1, -1, 1, 1>>}
\* equal total dimension (10), different layouts
KindSetsSeq == {<<"azel", "radar", "rngaz", "elrr">>, <<"radar", "azel", "elrr", "rngaz">>,
                <<"rngaz", "elrr", "radar", "azel">>}
KindSetsSim == KindSetsThorough \cup KindSetsSeq
PlacementsSeq == {<< <<0, 0>>, <<12, 0>>, <<0, -1>>, <<0, 1>> >>}
RangeNear  == {<<0, 0, 0, 0>>}
RangeMixed == {<<1, 0, 1, 1>>}
RangeAll   == RangeNear \cup RangeMixed \cup {<<0, 1, 0, 1>>}
TurnsOne      == {-3}
TurnsQuick    == {-3, 1}
TurnsThorough == {-3, -1, 1, 2}
=============================================================================
