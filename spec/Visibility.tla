----------------------------- MODULE Visibility -----------------------------
(***************************************************************************)
(* Visibility predicates of resonaate in exact integer arithmetic          *)
(* (property C14).  TLC is the oracle: every "done" state is one expected  *)
(* answer (boolean + exact margin) that the driver harness/drivers/c14.py  *)
(* replays into the REAL code.  A margin of zero means "exactly on an      *)
(* edge": the case is undecided and either answer of the code is accepted. *)
(*                                                                         *)
(* kind     code mirrored                                   shape/from/to  *)
(* -------  ----------------------------------------------  -------------- *)
(* rect     sensors/field_of_view.py:RectangularFoV          <<wAz,wEl>>   *)
(*          .inFieldOfView (getAzimuth/getElevation of the   <<az_b,el_b>> *)
(*          SEZ pointing and background vectors)             <<az_t,el_t>> *)
(* conic    field_of_view.py:ConicFoV.inFieldOfView          <<cs,p,q>>    *)
(*          (maths.subtendedAngle <= cone_angle/2)           b, t in Z^3   *)
(* azmask,  sensors/sensor_base.py:Sensor.isVisible, the     <<azlo,azhi,  *)
(* elmask   elevation-mask test followed by the two-branch     ello,elhi>> *)
(*          azimuth-mask test (lines 331-347); the masks are <<az>>, <<el>>*)
(*          given to the Sensor directly (action Construct)                *)
(* azmaskcfg, elmaskcfg   the same ranges stated by the user in the public *)
(*          configuration (scenario/config/sensor_config.py:               *)
(*          SensorConfigBase azimuth_range / elevation_range ->            *)
(*          sensors/__init__.py:sensorFactory; action Configure): the      *)
(*          azimuth range is ORDERED (first > second wraps through north), *)
(*          the elevation range is documented as order independent         *)
(* los      physics/sensor_utils.py:lineOfSight              <<R>>, a, b   *)
(* limb     sensor_utils.py:checkSpaceSensorEarthLimb-       <<R>>, s, p   *)
(*          Obscuration (tangent cone of the limb sphere)                  *)
(* sun      sensor_utils.py:calculateSunVizFraction          <<R>>, u, t   *)
(*          (u Sun direction, t target; range/limit clauses)               *)
(* pen      calculateSunVizFraction across the penumbra:     <<K,u,w>>     *)
(*          target at r10/10 Earth radii in the plane (u,w), <<r10>>, <<k>>*)
(*          step k of K across the band between the umbra and the lit side *)
(*                                                                         *)
(* Angles are integers on the circle Z_N (N = 360: degrees); elevations    *)
(* are integers in -N/4 .. N/4; positions and directions are integer       *)
(* 3-vectors (SEZ for directions: x south, y east, z zenith; rotation      *)
(* about the local vertical is +r on Z_N, or the quarter turn RotZ on the  *)
(* lattice); the Earth / limb sphere has the integer radius R.  The driver  *)
(* scales lattice units to km: los, sun: Earth.radius / R; limb:           *)
(* (Earth.radius + Earth.atmosphere) / R.  Configurations:                 *)
(* Visibility_quick.cfg (cube of side 7 Earth radii, R = 1, with the       *)
(* brute-force LosIsSegmentTest) and Visibility_thorough.cfg (half-radius  *)
(* lattice, R = 2, finer angle grids).                                     *)
(*                                                                         *)
(* Formulas that STATE the property:                                       *)
(*   RectMargin / RectEval, RectReflexive, RectRotationInvariant,          *)
(*   RectSymmetric; ConicMargin, ConicReflexive, ConicRotationInvariant,   *)
(*   ConicSymmetric, ConicScaleInvariant; AzMaskAdmits / AzMaskMargin,     *)
(*   MaskTwoBranch, MaskRotationEquivariant, MaskComplement; LosMargin,    *)
(*   LosSymmetric, LosIsSegmentTest, LosRigidInvariant; LimbMargin,        *)
(*   LimbIsBlockedRay; SunClass, SunFullHasClearRay, SunUmbraHasBlockedRay;*)
(*   ConfiguredArcAdmitted, ConfigKeepsAzimuthOrder,                       *)
(*   ConfigElevationUnordered, DirectMaskAsGiven; PenBand.                 *)
(* The state machine poses a geometry in stages (so that TLC's workers     *)
(* share the enumeration), evaluates it with the same steps as the code    *)
(* and emits the expected answer.                                          *)
(***************************************************************************)
EXTENDS Integers, Sequences, FiniteSets, TLC, Json

CONSTANTS
  Kinds,        \* subset of KindsAll
  N,            \* ticks per turn
  RectShapes, AzGrid, ElGrid, Rots,
  Cones, DirMax,
  MaskGrid, MaskAz, MaskEl, MaskAzCfg,
  ElMaskShapes, ElMaskAz, ElMaskEl,
  LosR, LosMax, LosToStep,
  LimbR, LimbMax, LimbSensors,
  SunR, SunMax, SunDirs,
  PenK, PenOut, PenFrames, PenDist

ASSUME N % 4 = 0

VARIABLES pc, kind, shape, from, to, out,
          eff     \* mask kinds: the [az0, az1, el0, el1] mask that reaches the Sensor object
vars == <<pc, kind, shape, from, to, out, eff>>

(*************************** integer helpers ******************************)
Abs(x)     == IF x < 0 THEN -x ELSE x
Min2(a, b) == IF a <= b THEN a ELSE b
Max2(a, b) == IF a >= b THEN a ELSE b
SSq(x)     == x * Abs(x)                       \* signed square: strictly monotone
Dot(u, v)  == u[1] * v[1] + u[2] * v[2] + u[3] * v[3]
N2(u)      == Dot(u, u)
Sub(u, v)  == <<u[1] - v[1], u[2] - v[2], u[3] - v[3]>>
Add(u, v)  == <<u[1] + v[1], u[2] + v[2], u[3] + v[3]>>
Scale(k, u) == <<k * u[1], k * u[2], k * u[3]>>
Cube(M)    == (-M..M) \X (-M..M) \X (-M..M)
Idx(v, M)  == ((v[1] + M) * (2 * M + 1) + (v[2] + M)) * (2 * M + 1) + v[3] + M
RotZ(v)    == <<-v[2], v[1], v[3]>>            \* quarter turn about the local vertical
Res(e, m, w) == [exp |-> e, margin |-> m, why |-> w]

(************************ (a) the azimuth circle **************************)
Quarter == N \div 4
\* representative of d (mod N) in (-N/2, N/2]
WrapNegPiPi(d) == LET m == d % N IN IF 2 * m > N THEN m - N ELSE m
RotAz(dir, r)  == <<(dir[1] + r) % N, dir[2]>>

\* A mask [lo, hi] is the arc walked clockwise from lo to hi; lo > hi wraps through north.
\* lo, hi in 0..N (N and 0 are the same direction; [0, N] is the full circle).
Span(lo, hi)       == IF lo <= hi THEN hi - lo ELSE hi - lo + N
AzOffset(lo, az)   == (az - lo) % N
AzMaskAdmits(lo, hi, az) == AzOffset(lo, az) <= Span(lo, hi)
\* signed distance (ticks) to the nearest end of the arc: > 0 inside, < 0 outside, 0 on an end
AzMaskMargin(lo, hi, az) ==
  LET m == AzOffset(lo, az)
      s == Span(lo, hi)
  IN IF m <= s THEN Min2(m, s - m) ELSE -Min2(m - s, N - m)
\* the documented two-branch form (sensor_base.py:335-344) for az in 0..N-1
TwoBranch(lo, hi, az) == IF lo <= hi THEN lo <= az /\ az <= hi ELSE az >= lo \/ az <= hi
ElMaskMargin(lo, hi, el) == Min2(el - lo, hi - el)

(******************** (b) fields of view **********************************)
\* rectangular: |wrapped azimuth offset| <= wAz/2 and |elevation offset| <= wEl/2,
\* margins in half ticks
RectAzMargin(w, b, t) == w[1] - 2 * Abs(WrapNegPiPi(t[1] - b[1]))
RectElMargin(w, b, t) == w[2] - 2 * Abs(t[2] - b[2])
RectMargin(w, b, t)   == Min2(RectAzMargin(w, b, t), RectElMargin(w, b, t))
RectFov(w, b, t)      == RectMargin(w, b, t) >= 0
\* zenith / nadir: every azimuth names the same direction, the azimuth offset is undefined
\* (the code reads it from rounding residue or from the velocity); only the identical input
\* (reflexivity) and the elevation clause are decided there
Polar(d)              == Abs(d[2]) = Quarter
RectEval(w, b, t) ==
  LET ma == RectAzMargin(w, b, t)
      me == RectElMargin(w, b, t)
  IN IF b = t THEN Res(TRUE, Min2(w[1], w[2]), "reflexive")
     ELSE IF Polar(b) \/ Polar(t)
       THEN IF me < 0 THEN Res(FALSE, me, "elevation")
                      ELSE Res(TRUE, 0, "azimuth-undefined")    \* statement indifferent
     ELSE Res(Min2(ma, me) >= 0, Min2(ma, me), IF ma < me THEN "azimuth" ELSE "elevation")

\* conic: angle(b, t) <= half, cos(half) = cs * sqrt(p / q), c = <<cs, p, q>>;
\* cos(angle) >= cos(half)  <=>  SSq(b.t) / (|b|^2 |t|^2) >= cs * p / q
ConicMargin(c, b, t) == SSq(Dot(b, t)) * c[3] - c[1] * c[2] * N2(b) * N2(t)
ConicFov(c, b, t)    == ConicMargin(c, b, t) >= 0

(******************** (c) line of sight ***********************************)
\* P(tau) = a + tau (b - a), tau in [0, 1]; the point closest to the centre is at
\* tau* = -a.d / d.d, clamped to the segment.  Domain: |a|, |b| >= R, a # b.
LosAD(a, b) == Dot(a, Sub(b, a))
LosDD(a, b) == N2(Sub(b, a))
LosBranch(a, b) == IF LosAD(a, b) > 0 THEN "before"                 \* tau* < 0: closest is a
                   ELSE IF -LosAD(a, b) > LosDD(a, b) THEN "after"   \* tau* > 1: closest is b
                   ELSE "within"
\* (min |P|^2 - R^2) * d.d  for the closest point of the whole line
LosSegMargin(R, a, b) == N2(a) * LosDD(a, b) - LosAD(a, b) * LosAD(a, b) - R * R * LosDD(a, b)
LosMargin(R, a, b) ==
  CASE LosBranch(a, b) = "before" -> LosAD(a, b)
    [] LosBranch(a, b) = "after"  -> -LosAD(a, b) - LosDD(a, b)
    [] OTHER                      -> LosSegMargin(R, a, b)
LineOfSight(R, a, b) == LosMargin(R, a, b) >= 0
\* the definition: no point of the closed segment lies strictly inside the sphere.  The
\* minimiser over [0,1] is the clamped tau*, a multiple of 1/(d.d), so searching the
\* multiples of 1/(d.d) is exact.
SegmentClear(R, a, b) ==
  LET d  == Sub(b, a)
      dd == N2(d)
  IN \A k \in 0..dd : N2(Add(Scale(dd, a), Scale(k, d))) >= R * R * dd * dd

(******************** (d) Earth-limb obscuration **************************)
\* the target direction rho = p - s lies strictly inside the cone from s tangent to the
\* sphere of radius R:  angle(rho, -s) < asin(R / |s|)
\*   <=>  -s.rho > 0  and  (s.rho)^2 > (|s|^2 - R^2) |rho|^2
LimbMargin(R, s, p) ==
  LET rho == Sub(p, s)
  IN SSq(-Dot(s, rho)) - (N2(s) - R * R) * N2(rho)
LimbObscured(R, s, p) == LimbMargin(R, s, p) > 0
FarK == 24      \* s + FarK * rho is beyond the sphere for every lattice s, rho used here

(******************** (e) visible fraction of the Sun *********************)
\* u: lattice direction of the (very distant) Sun, t: target, |t| > R.
\*  "full":  the Sun's centre is at least asin(sqrt(1/1000)) = 1.8 deg above the target's local
\*           horizontal plane, the Earth only hides directions below it, the Sun's angular
\*           radius is 0.27 deg and its parallax over the cube < 0.02 deg: fraction = 1.
\*  "umbra": the target is behind the Earth within 0.9 R of the shadow axis: the Earth's
\*           disc exceeds the Sun's offset by > 1 deg everywhere in the cube: fraction = 0.
\*  "range": anything else (penumbra, grazing, thin bands): only 0 <= fraction <= 1.
SunClass(R, u, t) ==
  LET tu   == Dot(t, u)
      perp == N2(t) * N2(u) - tu * tu          \* |t|^2 |u|^2 sin^2
  IN IF tu > 0 /\ 1000 * tu * tu >= N2(t) * N2(u) THEN "full"
     ELSE IF tu < 0 /\ 100 * perp <= 81 * R * R * N2(u) THEN "umbra"
     ELSE "range"

(***************************************************************************)
(* State machine                                                           *)
(***************************************************************************)
Dirs == Cube(DirMax) \ {<<0, 0, 0>>}
OnLattice(v, k) == v[1] % k = 0 /\ v[2] % k = 0 /\ v[3] % k = 0

Shapes(k) ==
  CASE k = "rect"   -> RectShapes
    [] k = "conic"  -> Cones
    \* elevation range (-90, 90] as the configuration admits it
    [] k \in {"azmask", "azmaskcfg"} -> {<<lo, hi, 1 - Quarter, Quarter>> : lo \in MaskGrid, hi \in MaskGrid}
    [] k \in {"elmask", "elmaskcfg"} -> ElMaskShapes
    [] k = "los"    -> {<<LosR>>}
    [] k = "limb"   -> {<<LimbR>>}
    [] k = "sun"    -> {<<SunR>>}
    [] k = "pen"    -> {<<PenK, f[1][1], f[1][2], f[1][3], f[2][1], f[2][2], f[2][3]>> : f \in PenFrames}
Froms(k) ==
  CASE k = "rect"   -> AzGrid \X ElGrid
    [] k = "conic"  -> Dirs
    [] k = "azmask" -> {<<az>> : az \in MaskAz}
    [] k = "azmaskcfg" -> {<<az>> : az \in MaskAzCfg}
    [] k \in {"elmask", "elmaskcfg"} -> {<<az>> : az \in ElMaskAz}
    [] k = "los"    -> {a \in Cube(LosMax) : N2(a) >= LosR * LosR}
    [] k = "limb"   -> LimbSensors
    [] k = "sun"    -> SunDirs
    [] k = "pen"    -> {<<r>> : r \in PenDist}
Tos(k, f) ==
  CASE k = "rect"   -> AzGrid \X ElGrid
    [] k = "conic"  -> Dirs
    [] k \in {"azmask", "azmaskcfg"} -> {<<el>> : el \in MaskEl}
    [] k \in {"elmask", "elmaskcfg"} -> {<<el>> : el \in ElMaskEl}
    [] k = "los"    -> {b \in Cube(LosMax) : /\ N2(b) >= LosR * LosR /\ b # f
                                             /\ OnLattice(b, LosToStep)
                                             \* unordered pairs: the driver replays both orders
                                             /\ (OnLattice(f, LosToStep) => Idx(b, LosMax) > Idx(f, LosMax))}
    [] k = "limb"   -> Cube(LimbMax) \ {f}
    \* "only valid for orbiting satellites": strictly above the surface
    [] k = "sun"    -> {t \in Cube(SunMax) : N2(t) > SunR * SunR}
    [] k = "pen"    -> {<<j>> : j \in (-PenOut)..(PenK + PenOut)}

IsMask(k)    == k \in {"azmask", "elmask", "azmaskcfg", "elmaskcfg"}
ViaConfig(k) == k \in {"azmaskcfg", "elmaskcfg"}

NoRes == Res(FALSE, 0, "none")
Init == /\ pc = "start" /\ kind = "none" /\ shape = <<>> /\ from = <<>> /\ to = <<>> /\ out = NoRes
        /\ eff = <<>>

PoseKind  == /\ pc = "start" /\ \E k \in Kinds : kind' = k
             /\ pc' = "kind" /\ UNCHANGED <<shape, from, to, out, eff>>
PoseShape == /\ pc = "kind" /\ \E s \in Shapes(kind) : shape' = s
             /\ pc' = "shape" /\ UNCHANGED <<kind, from, to, out, eff>>

\* The sensor is built ONCE per stated mask, then asked about many targets.
\* Sensor.__init__ / the az_mask, el_mask setters: the masks are taken as given
Construct == /\ pc = "shape" /\ IsMask(kind) /\ ~ViaConfig(kind)
             /\ eff' = shape
             /\ pc' = "built" /\ UNCHANGED <<kind, shape, from, to, out>>
\* SensorConfigBase validators -> sensorFactory -> Sensor.fromConfig: the azimuth range keeps
\* its order (first > second means "through north"), the elevation range is an unordered pair
Configure == /\ pc = "shape" /\ ViaConfig(kind)
             /\ eff' = <<shape[1], shape[2], Min2(shape[3], shape[4]), Max2(shape[3], shape[4])>>
             /\ pc' = "built" /\ UNCHANGED <<kind, shape, from, to, out>>

PoseFrom  == /\ pc = (IF IsMask(kind) THEN "built" ELSE "shape") /\ \E f \in Froms(kind) : from' = f
             /\ pc' = "from" /\ UNCHANGED <<kind, shape, to, out, eff>>
PoseTo    == /\ pc = "from" /\ \E t \in Tos(kind, from) : to' = t
             /\ pc' = "posed" /\ UNCHANGED <<kind, shape, from, out, eff>>

Done(r) == out' = r /\ pc' = "done" /\ UNCHANGED <<kind, shape, from, to, eff>>

\* RectangularFoV.inFieldOfView
EvalRect  == pc = "posed" /\ kind = "rect" /\ Done(RectEval(shape, from, to))
\* ConicFoV.inFieldOfView
EvalConic == /\ pc = "posed" /\ kind = "conic"
             /\ LET m == ConicMargin(shape, from, to) IN Done(Res(m >= 0, m, "cone"))

\* Sensor.isVisible: elevation mask first ...
MaskElevation ==
  /\ pc = "posed" /\ IsMask(kind)
  /\ LET em == ElMaskMargin(eff[3], eff[4], to[1])
     IN IF em < 0 THEN Done(Res(FALSE, em, "elevation_mask"))
        ELSE /\ out' = Res(TRUE, em, "elevation_ok") /\ pc' = "elchecked"
             /\ UNCHANGED <<kind, shape, from, to, eff>>
\* ... then the azimuth mask
MaskAzimuth ==
  /\ pc = "elchecked"
  /\ LET am == AzMaskMargin(eff[1], eff[2], from[1])
         em == out.margin
     IN IF am < 0 THEN Done(Res(FALSE, am, IF em = 0 THEN "any" ELSE "azimuth_mask"))
        ELSE Done(Res(TRUE, Min2(am, em), "visible"))

\* lineOfSight: parameter of the closest point, early exit outside the segment ...
LosClosest ==
  /\ pc = "posed" /\ kind = "los"
  /\ out' = Res(TRUE, 0, LosBranch(from, to)) /\ pc' = "closest"
  /\ UNCHANGED <<kind, shape, from, to, eff>>
\* ... else compare the closest distance with the radius
LosDecide ==
  /\ pc = "closest"
  /\ LET m == IF out.why = "before" THEN LosAD(from, to)
              ELSE IF out.why = "after" THEN -LosAD(from, to) - LosDD(from, to)
              ELSE LosSegMargin(shape[1], from, to)
     IN Done(Res(m >= 0, m, out.why))

\* checkSpaceSensorEarthLimbObscuration (strict comparison)
EvalLimb == /\ pc = "posed" /\ kind = "limb"
            /\ LET m == LimbMargin(shape[1], from, to) IN Done(Res(m > 0, m, "limb"))

\* calculateSunVizFraction: margin 1 = a limit clause applies, 0 = range clause only
EvalSun == /\ pc = "posed" /\ kind = "sun"
           /\ LET c == SunClass(shape[1], from, to)
              IN Done(Res(c = "full", IF c = "range" THEN 0 ELSE 1, c))

\* calculateSunVizFraction across the penumbra.  The target sits at distance r in the plane of
\* the Sun direction u and a perpendicular w, at the angle  (b - a) + (k / K) * 2a  from the
\* shadow axis (a, b: apparent radii of Sun and Earth): k < 0 umbra (fraction 0), k > K fully
\* lit (1), in between the fraction is the visible part of the Sun's disc: it GROWS with k, and
\* its value (the disc-overlap integral, transcendental) is evaluated by the driver.  The margin
\* is the number of steps to the nearer end of the band.
PenWhy(K, j) == IF j < 0 THEN "umbra" ELSE IF j > K THEN "lit" ELSE "penumbra"
EvalPen == /\ pc = "posed" /\ kind = "pen"
           /\ Done(Res(to[1] > shape[1], Min2(Abs(to[1]), Abs(to[1] - shape[1])), PenWhy(shape[1], to[1])))

Next == \/ PoseKind \/ PoseShape \/ Construct \/ Configure \/ PoseFrom \/ PoseTo
        \/ EvalRect \/ EvalConic \/ MaskElevation \/ MaskAzimuth
        \/ LosClosest \/ LosDecide \/ EvalLimb \/ EvalSun \/ EvalPen
Spec == Init /\ [][Next]_vars

(***************************************************************************)
(* The property, as invariants                                             *)
(***************************************************************************)
Is(k, p) == kind = k /\ pc = p

\* ---- rectangular field of view
RectReflexive == Is("rect", "from") => /\ RectEval(shape, from, from).exp
                                       /\ RectFov(shape, from, from)
RectRotationInvariant ==
  Is("rect", "done") =>
    \A r \in Rots : /\ RectEval(shape, RotAz(from, r), RotAz(to, r)) = out
                    /\ RectAzMargin(shape, RotAz(from, r), RotAz(to, r)) = RectAzMargin(shape, from, to)
RectSymmetric == Is("rect", "done") => RectEval(shape, to, from) = out
\* the seam is nowhere special: the wrapped offset is the shorter way round
RectShortestArc ==
  Is("rect", "done") =>
    LET d == Abs(WrapNegPiPi(to[1] - from[1]))
    IN /\ 2 * d <= N
       /\ d = Min2((to[1] - from[1]) % N, (from[1] - to[1]) % N)

\* ---- conic field of view
ConicReflexive == Is("conic", "from") => ConicFov(shape, from, from)
ConicRotationInvariant ==
  Is("conic", "done") =>
    /\ ConicMargin(shape, RotZ(from), RotZ(to)) = out.margin
    /\ ConicMargin(shape, RotZ(RotZ(from)), RotZ(RotZ(to))) = out.margin
    /\ ConicMargin(shape, RotZ(RotZ(RotZ(from))), RotZ(RotZ(RotZ(to)))) = out.margin
ConicSymmetric == Is("conic", "done") => ConicMargin(shape, to, from) = out.margin
\* only directions matter, not ranges
ConicScaleInvariant ==
  Is("conic", "done") => /\ ConicMargin(shape, Scale(2, from), Scale(3, to)) = 36 * out.margin
                         /\ ConicFov(shape, Scale(2, from), Scale(3, to)) = out.exp

\* ---- masks
MaskDone == pc = "done" /\ kind \in {"azmask", "elmask"}
MaskSound ==
  MaskDone =>
    LET am == AzMaskMargin(shape[1], shape[2], from[1])
        em == ElMaskMargin(shape[3], shape[4], to[1])
    IN /\ (am >= 0) = AzMaskAdmits(shape[1], shape[2], from[1])
       /\ (out.margin # 0 => out.exp = (em >= 0 /\ AzMaskAdmits(shape[1], shape[2], from[1])))
\* off the edges the arc definition and the documented two-branch test agree
MaskTwoBranch ==
  MaskDone => (AzMaskMargin(shape[1], shape[2], from[1]) # 0
                 => AzMaskAdmits(shape[1], shape[2], from[1]) = TwoBranch(shape[1], shape[2], from[1]))
\* rotating mask and azimuth together changes nothing (arcs shorter than the full circle)
MaskRotationEquivariant ==
  MaskDone =>
    (Span(shape[1], shape[2]) < N =>
       \A r \in Rots : AzMaskMargin((shape[1] + r) % N, (shape[2] + r) % N, (from[1] + r) % N)
                         = AzMaskMargin(shape[1], shape[2], from[1]))
\* [lo, hi] and [hi, lo] cover the circle and share only their ends (lo # hi)
MaskComplement ==
  MaskDone =>
    ((0 < Span(shape[1], shape[2]) /\ Span(shape[1], shape[2]) < N) =>
       AzMaskMargin(shape[2], shape[1], from[1]) = -AzMaskMargin(shape[1], shape[2], from[1]))

\* an explicit decreasing elevation mask handed to the Sensor object admits nothing (DESIGN D37)
DirectInvertedElevationEmpty == (MaskDone /\ shape[3] > shape[4]) => ~out.exp
DirectMaskAsGiven ==
  (IsMask(kind) /\ ~ViaConfig(kind) /\ pc \notin {"start", "kind", "shape"}) => eff = shape

\* ---- masks stated in the public configuration: the sensor admits exactly the configured arc
CfgBuilt == ViaConfig(kind) /\ pc \notin {"start", "kind", "shape"}
CfgDone  == ViaConfig(kind) /\ pc = "done"
ElUserMargin(lo, hi, el) == ElMaskMargin(Min2(lo, hi), Max2(lo, hi), el)
ConfiguredArcAdmitted ==
  CfgDone => (out.margin # 0 =>
                out.exp = (/\ ElUserMargin(shape[3], shape[4], to[1]) >= 0
                           /\ AzMaskAdmits(shape[1], shape[2], from[1])))
\* the azimuth range is ordered: sorting it would turn a mask through north into its complement
ConfigKeepsAzimuthOrder  == CfgBuilt => (eff[1] = shape[1] /\ eff[2] = shape[2])
ConfigElevationUnordered == CfgBuilt => (eff[3] <= eff[4] /\ {eff[3], eff[4]} = {shape[3], shape[4]})

\* ---- line of sight
LosSymmetric == Is("los", "done") => /\ LosMargin(shape[1], to, from) = out.margin
                                     /\ LineOfSight(shape[1], to, from) = out.exp
LosIsSegmentTest == Is("los", "done") => out.exp = SegmentClear(shape[1], from, to)
Neg(v)  == <<-v[1], -v[2], -v[3]>>
Cyc(v)  == <<v[2], v[3], v[1]>>
Mir(v)  == <<-v[1], v[2], v[3]>>
LosRigidInvariant ==
  Is("los", "done") =>
    /\ LosMargin(shape[1], RotZ(from), RotZ(to)) = out.margin
    /\ LosMargin(shape[1], Cyc(from), Cyc(to)) = out.margin
    /\ LosMargin(shape[1], Neg(from), Neg(to)) = out.margin
    /\ LosMargin(shape[1], Mir(from), Mir(to)) = out.margin

\* ---- limb: obscured iff the ray from the sensor through the target meets the open ball,
\* i.e. iff a far point on that ray has no line of sight (ties (d) to (c))
LimbIsBlockedRay ==
  Is("limb", "done") =>
    LET far == Add(from, Scale(FarK, Sub(to, from)))
    IN /\ N2(far) >= shape[1] * shape[1]
       /\ out.exp = ~LineOfSight(shape[1], from, far)
       /\ (out.margin = 0) = (LosMargin(shape[1], from, far) = 0)

\* ---- Sun: a fully lit target sees the Sun's centre; in the umbra the ray to the Sun's
\* centre is blocked (ties (e) to (d))
SunFullHasClearRay ==
  (Is("sun", "done") /\ out.why = "full") => LimbMargin(shape[1], to, Add(to, from)) < 0
SunUmbraHasBlockedRay ==
  (Is("sun", "done") /\ out.why = "umbra") => LimbMargin(shape[1], to, Add(to, from)) > 0

\* ---- penumbra sweep: a proper frame, and the band is exactly the steps 0..K
PenBand ==
  Is("pen", "done") =>
    LET u == <<shape[2], shape[3], shape[4]>>
        w == <<shape[5], shape[6], shape[7]>>
    IN /\ Dot(u, w) = 0 /\ N2(u) > 0 /\ N2(w) > 0
       /\ (out.why = "penumbra") = (to[1] \in 0..shape[1])
       /\ (out.margin = 0) = (to[1] \in {0, shape[1]})
       /\ out.exp = (out.why = "lit")

\* every intermediate stays far below 2^31
NoOverflow ==
  pc = "done" =>
    CASE kind = "los"  -> N2(from) * LosDD(from, to) < 100000000
      [] kind = "limb" -> N2(from) * N2(from) * N2(Sub(to, from)) < 1000000000
      [] OTHER -> TRUE

\* expected answers handed to the replay driver
Emit == pc = "done" =>
          PrintT("V " \o ToJson(<<kind, shape, from, to, out.exp, out.margin, out.why>>))

(***************************************************************************)
(* Named constant values for the cfg files                                 *)
(***************************************************************************)
KindsAll == {"rect", "conic", "azmask", "elmask", "azmaskcfg", "elmaskcfg", "los", "limb", "sun", "pen"}
Seam(k)  == {(N - j) % N : j \in 0..k} \cup (0..k)
Half(k)  == (N \div 2 - k)..(N \div 2 + k)
Every(step, off) == {j * step + off : j \in 0..((N - 1 - off) \div step)}

RectShapesQuick    == {<<2, 2>>, <<7, 4>>, <<90, 30>>}
RectShapesThorough == RectShapesQuick \cup {<<1, 3>>, <<179, 5>>}
AzGridQuick        == Seam(3) \cup {45, 90, 135, 225, 270, 315} \cup Half(1)
AzGridThorough     == Seam(3) \cup Half(3) \cup Every(15, 0)
ElGridQuick        == {-90, -30, 0, 1, 2, 45, 89, 90}
ElGridThorough     == {-90, -45, -1, 0, 1, 2, 45, 87, 88, 89, 90}
RotsQuick          == {1, 3, 90, 180, 358}
RotsThorough       == RotsQuick \cup {2, 7, 45, 179, 181, 270, 357, 359}

\* <<cs, p, q>>: cos(half cone angle) = cs * sqrt(p / q)   (3/4: 30 deg, 99/100: 5.7 deg)
ConesQuick    == {<<1, 3, 4>>, <<1, 1, 2>>, <<1, 99, 100>>}
ConesThorough == ConesQuick \cup {<<1, 1, 4>>, <<1, 9, 10>>, <<1, 24, 25>>}

MaskGridQuick    == Every(10, 0)
MaskGridThorough == Every(5, 0)
MaskAzQuick      == Seam(3) \cup Every(30, 9) \cup Every(45, 0)
MaskAzThorough   == Seam(8) \cup Every(5, 1) \cup Every(10, 4) \cup Every(45, 0)
\* configuration path: a few azimuths per mask, none on a grid edge (swapped limits flip all of them)
MaskAzCfgQuick    == {1, 9, 45, 99, 181, 189, 271, 351}
MaskAzCfgThorough == MaskAzCfgQuick \cup {4, 176, 264, 356}
MaskElQuick      == {10}
MaskElThorough   == {60}
ElMasksAll       == {<<0, 90>>, <<-30, 30>>, <<10, 80>>, <<-89, 90>>, <<45, 45>>, <<30, 10>>}
ElMaskShapesAll  == {<<a[1], a[2], e[1], e[2]>> : a \in {<<0, 355>>, <<350, 10>>, <<90, 270>>}, e \in ElMasksAll}
ElMaskAzAll      == {0, 5, 180, 300}
ElMaskElAll      == {-89, -31, -30, -29, -1, 0, 1, 9, 10, 11, 29, 30, 31, 44, 45, 46, 79, 80, 81, 89}

\* limb sensors in units of half a limb radius (LimbR = 2): low orbits first
LimbSensorsQuick    == {<<2, 1, 0>>, <<-1, 0, 2>>, <<2, 1, 1>>, <<2, 2, 1>>, <<0, 0, -5>>, <<4, -4, 2>>}
LimbSensorsThorough == LimbSensorsQuick \cup
                       {<<3, 0, 0>>, <<-3, 1, 2>>, <<0, -6, 0>>, <<6, 6, 6>>} \cup
                       {s \in Cube(4) : N2(s) > 4 /\ s[1] >= s[2] /\ s[2] >= s[3] /\ s[3] >= 0}
\* penumbra sweep: frames <<u, w>> (u.w = 0), distances in tenths of an Earth radius
PenFramesAll    == {<<<<1, 0, 0>>, <<0, 0, 1>>>>, <<<<1, 2, 2>>, <<2, 1, -2>>>>, <<<<-2, 3, 6>>, <<3, -6, 4>>>>}
PenDistQuick    == {11, 15, 20, 42, 66, 100}
PenDistThorough == {11, 12, 15, 20, 30, 42, 50, 66, 80, 100}
SunDirsQuick        == {<<1, 0, 0>>, <<1, 1, 0>>, <<-1, 2, 2>>, <<2, -3, 1>>}
SunDirsThorough     == SunDirsQuick \cup (Cube(1) \ {<<0, 0, 0>>}) \cup {<<3, 1, -2>>, <<-2, -2, 1>>}
=============================================================================
