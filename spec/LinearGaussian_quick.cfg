SPECIFICATION Spec
CONSTANTS Dims = {1, 2} Modes = {TRUE, FALSE} StepCounts = {1}
CONSTANT Tunings <- TuningsQuick
CONSTANT StackSets <- StacksOne
CONSTANT FSets <- FSetsQuick
CONSTANT QSets <- QSetsQuick
CONSTANT XSets <- XSetsQuick
CONSTANT PSets <- PSetsQuick
CONSTANT HSets <- HSetsQuick
CONSTANT RSets <- RSetsQuick
CONSTANT YSets <- YSetsQuick
INVARIANT WeightsSumToOne
INVARIANT UnitSecondMoment
INVARIANT TuningAdmissible
INVARIANT Symmetric
INVARIANT PSD
INVARIANT PosteriorIsPriorMinusKSKt
INVARIANT PosteriorLePrior
INVARIANT NoObsReturnsPropagatedMean
INVARIANT GainSolvesNormalEquations
INVARIANT RedrawIsTextbookKalman
INVARIANT NoRedrawIsVariant
INVARIANT NoOverflow
INVARIANT Emit
INVARIANT EmitOverflow
