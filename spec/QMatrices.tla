------------------------------ MODULE QMatrices ------------------------------
(***************************************************************************)
(* Small exact matrices over the rationals of Rationals.tla (sizes 1..3),  *)
(* used by LinearGaussian.tla (property C06).                              *)
(*                                                                         *)
(* Rationals are gcd-normalised pairs <<num, den>>, den > 0.  TLC integers *)
(* are 32 bit, so every operation here is CHECKED: an operation whose      *)
(* exact result (or one of its intermediate products) would leave          *)
(* |.| < 10^9 returns the marker NaN == <<0, 0>> instead of overflowing,   *)
(* and NaN is absorbing.  A specification using these operators can        *)
(* therefore never compute a wrong number silently: either a value is      *)
(* exact, or it is NaN and the behaviour is dropped (LinearGaussian!Ok).   *)
(*                                                                         *)
(* A matrix is a tuple of rows, each row a tuple of rationals.             *)
(* Inverses use the adjugate: inv(A) = adj(A) / det(A).                    *)
(***************************************************************************)
EXTENDS Integers, Sequences, TLC, Rationals

Lim  == 999999999                      \* QSmall bound of Rationals.tla
AbsI(x) == IF x < 0 THEN -x ELSE x
MulFits(a, b) == a = 0 \/ b = 0 \/ AbsI(a) <= Lim \div AbsI(b)
AddFits(a, b) == AbsI(a) <= Lim - AbsI(b)        \* for |a|, |b| <= Lim

NaN      == <<0, 0>>
IsNum(q) == q[2] # 0
Zero     == <<0, 1>>
One      == <<1, 1>>

\* TLC passes operator arguments by name; Eager* bind them to evaluated values first
Eager1(F(_), A)       == CHOOSE r \in {F(a) : a \in {A}} : TRUE
Eager2(F(_, _), A, B) == CHOOSE r \in {F(p[1], p[2]) : p \in {<<A, B>>}} : TRUE

\* a + b with the least common denominator
CAddV(a, b) ==
  IF ~IsNum(a) \/ ~IsNum(b) THEN NaN
  ELSE LET g == Gcd(a[2], b[2])
           s == a[2] \div g
           t == b[2] \div g
       IN IF MulFits(a[1], t) /\ MulFits(b[1], s) /\ MulFits(a[2], t)
            THEN LET u == a[1] * t
                     v == b[1] * s
                 IN IF AddFits(u, v) THEN Norm(u + v, a[2] * t) ELSE NaN
            ELSE NaN
CAdd(a0, b0) == Eager2(CAddV, a0, b0)
CNegV(a)   == IF IsNum(a) THEN QNeg(a) ELSE NaN
CNeg(a0)   == Eager1(CNegV, a0)
CSub(a, b) == CAdd(a, CNeg(b))
\* a * b with cross cancellation before multiplying
CMulV(a, b) ==
  IF ~IsNum(a) \/ ~IsNum(b) THEN NaN
  ELSE IF a[1] = 0 \/ b[1] = 0 THEN Zero
  ELSE LET g1 == Gcd(a[1], b[2])
           g2 == Gcd(b[1], a[2])
           n1 == a[1] \div g1
           n2 == b[1] \div g2
           d1 == a[2] \div g2
           d2 == b[2] \div g1
       IN IF MulFits(n1, n2) /\ MulFits(d1, d2) THEN Norm(n1 * n2, d1 * d2) ELSE NaN
CMul(a0, b0) == Eager2(CMulV, a0, b0)
CInvV(a)   == IF ~IsNum(a) \/ a[1] = 0 THEN NaN
              ELSE IF a[1] < 0 THEN <<-a[2], -a[1]>> ELSE <<a[2], a[1]>>
CInv(a0)   == Eager1(CInvV, a0)
CDiv(a, b) == CMul(a, CInv(b))
\* comparisons (only meaningful on numbers; products are guarded)
CCmpOk(a, b) == IsNum(a) /\ IsNum(b) /\ MulFits(a[1], b[2]) /\ MulFits(b[1], a[2])
CEq(a, b)  == IsNum(a) /\ IsNum(b) /\ a = b          \* normalised representation is unique
CGe0(a)    == IsNum(a) /\ a[1] >= 0
CGt0(a)    == IsNum(a) /\ a[1] > 0

---------------------------------------------------------------------------
\* vectors and matrices
NRows(A) == Len(A)
NCols(A) == Len(A[1])

RECURSIVE DotK(_, _, _)
DotK(f, g, m) == IF m = 0 THEN Zero ELSE CAdd(DotK(f, g, m - 1), CMul(f[m], g[m]))

Mat(r, c, Op(_, _)) == TLCEval([i \in 1..r |-> [j \in 1..c |-> Op(i, j)]])
Vec(r, Op(_))       == TLCEval([i \in 1..r |-> Op(i)])

QM(A) == Mat(Len(A), Len(A[1]), LAMBDA i, j : Q(A[i][j]))      \* integer matrix -> rational
QV(v) == Vec(Len(v), LAMBDA i : Q(v[i]))

MTV(A)      == Mat(NCols(A), NRows(A), LAMBDA i, j : A[j][i])
MT(A0) == Eager1(MTV, A0)
MAddV(A, B) == Mat(NRows(A), NCols(A), LAMBDA i, j : CAdd(A[i][j], B[i][j]))
MAdd(A0, B0) == Eager2(MAddV, A0, B0)
MSubV(A, B) == Mat(NRows(A), NCols(A), LAMBDA i, j : CSub(A[i][j], B[i][j]))
MSub(A0, B0) == Eager2(MSubV, A0, B0)
MScaleV(q, A) == Mat(NRows(A), NCols(A), LAMBDA i, j : CMul(q, A[i][j]))
MScale(q0, A0) == Eager2(MScaleV, q0, A0)
MMulV(A, B) == Mat(NRows(A), NCols(B),
                  LAMBDA i, j : DotK(A[i], [k \in 1..NRows(B) |-> B[k][j]], NRows(B)))
MMul(A0, B0) == Eager2(MMulV, A0, B0)
MVecV(A, v) == Vec(NRows(A), LAMBDA i : DotK(A[i], v, Len(v)))
MVec(A0, v0) == Eager2(MVecV, A0, v0)
VAdd(u, v) == Vec(Len(u), LAMBDA i : CAdd(u[i], v[i]))
VSub(u, v) == Vec(Len(u), LAMBDA i : CSub(u[i], v[i]))
Ident(n)   == Mat(n, n, LAMBDA i, j : IF i = j THEN One ELSE Zero)

MIsNum(A) == \A i \in 1..NRows(A) : \A j \in 1..NCols(A) : IsNum(A[i][j])
VIsNum(v) == \A i \in 1..Len(v) : IsNum(v[i])
MSmall(A) == \A i \in 1..NRows(A) : \A j \in 1..NCols(A) : IsNum(A[i][j]) => QSmall(A[i][j])
VSmall(v) == \A i \in 1..Len(v) : IsNum(v[i]) => QSmall(v[i])
MEq(A, B) == /\ NRows(A) = NRows(B) /\ NCols(A) = NCols(B)
             /\ \A i \in 1..NRows(A) : \A j \in 1..NCols(A) : CEq(A[i][j], B[i][j])
VEq(u, v) == Len(u) = Len(v) /\ \A i \in 1..Len(u) : CEq(u[i], v[i])
IsSym(A)  == NRows(A) = NCols(A) /\ \A i \in 1..NRows(A) : \A j \in 1..NRows(A) : CEq(A[i][j], A[j][i])

\* determinant of the principal submatrix with (ascending) index tuple ix, |ix| in 1..3
Det2of(a, b, c, d) == CSub(CMul(a, d), CMul(b, c))
SubDet(A, ix) ==
  CASE Len(ix) = 1 -> A[ix[1]][ix[1]]
    [] Len(ix) = 2 -> Det2of(A[ix[1]][ix[1]], A[ix[1]][ix[2]], A[ix[2]][ix[1]], A[ix[2]][ix[2]])
    [] Len(ix) = 3 ->
         LET a == A[ix[1]][ix[1]]  b == A[ix[1]][ix[2]]  c == A[ix[1]][ix[3]]
             d == A[ix[2]][ix[1]]  e == A[ix[2]][ix[2]]  f == A[ix[2]][ix[3]]
             g == A[ix[3]][ix[1]]  h == A[ix[3]][ix[2]]  k == A[ix[3]][ix[3]]
         IN CAdd(CSub(CMul(a, Det2of(e, f, h, k)), CMul(b, Det2of(d, f, g, k))),
                 CMul(c, Det2of(d, e, g, h)))
DetV(A) == SubDet(A, [i \in 1..NRows(A) |-> i])
Det(A0) == Eager1(DetV, A0)

\* all principal index tuples of an n x n matrix, n <= 3
PrincipalSets(n) ==
  CASE n = 1 -> {<<1>>}
    [] n = 2 -> {<<1>>, <<2>>, <<1, 2>>}
    [] n = 3 -> {<<1>>, <<2>>, <<3>>, <<1, 2>>, <<1, 3>>, <<2, 3>>, <<1, 2, 3>>}
\* positive semi-definite: symmetric with every principal minor >= 0
IsPSD(A) == IsSym(A) /\ \A ix \in PrincipalSets(NRows(A)) : CGe0(SubDet(A, ix))
\* positive definite: symmetric with every leading principal minor > 0 (Sylvester)
IsPD(A)  == IsSym(A) /\ \A m \in 1..NRows(A) : CGt0(SubDet(A, [i \in 1..m |-> i]))
\* Loewner order  A <= B
LoewnerLe(A, B) == IsPSD(MSub(B, A))

\* adjugate (transpose of the cofactor matrix), n <= 3
Others(n, i) == IF n = 2 THEN (IF i = 1 THEN <<2>> ELSE <<1>>)
                ELSE (IF i = 1 THEN <<2, 3>> ELSE IF i = 2 THEN <<1, 3>> ELSE <<1, 2>>)
Sgn(i, j) == IF (i + j) % 2 = 0 THEN One ELSE <<-1, 1>>
Minor(A, i, j) ==      \* determinant of A without row i and column j
  LET n == NRows(A)  r == Others(n, i)  c == Others(n, j)
  IN IF n = 2 THEN A[r[1]][c[1]]
     ELSE Det2of(A[r[1]][c[1]], A[r[1]][c[2]], A[r[2]][c[1]], A[r[2]][c[2]])
AdjV(A) == IF NRows(A) = 1 THEN <<<<One>>>>
          ELSE Mat(NRows(A), NRows(A), LAMBDA i, j : CMul(Sgn(i, j), Minor(A, j, i)))
Adj(A0) == Eager1(AdjV, A0)
MInvV(A) == MScale(CInv(Det(A)), Adj(A))
MInv(A0) == Eager1(MInvV, A0)

\* block diagonal / stacking of a sequence of matrices
RECURSIVE SumDims(_, _)
SumDims(dims, k) == IF k = 0 THEN 0 ELSE SumDims(dims, k - 1) + dims[k]
\* which block (and offset inside it) does global row r belong to
RECURSIVE BlockOf(_, _, _)
BlockOf(dims, r, b) == IF r <= SumDims(dims, b) THEN b ELSE BlockOf(dims, r, b + 1)
BlockDiag(Ms) ==
  LET dims == [b \in 1..Len(Ms) |-> NRows(Ms[b])]
      tot  == SumDims(dims, Len(Ms))
  IN Mat(tot, tot, LAMBDA i, j :
           LET bi == BlockOf(dims, i, 1)  bj == BlockOf(dims, j, 1)
           IN IF bi # bj THEN Zero
              ELSE Ms[bi][i - SumDims(dims, bi - 1)][j - SumDims(dims, bi - 1)])
VStack(Ms) ==      \* matrices with the same number of columns
  LET dims == [b \in 1..Len(Ms) |-> NRows(Ms[b])]
      tot  == SumDims(dims, Len(Ms))
  IN Mat(tot, NCols(Ms[1]), LAMBDA i, j :
           LET bi == BlockOf(dims, i, 1) IN Ms[bi][i - SumDims(dims, bi - 1)][j])
VConcat(vs) ==
  LET dims == [b \in 1..Len(vs) |-> Len(vs[b])]
      tot  == SumDims(dims, Len(vs))
  IN Vec(tot, LAMBDA i : LET bi == BlockOf(dims, i, 1) IN vs[bi][i - SumDims(dims, bi - 1)])
=============================================================================
