------------------------------ MODULE QMatrices ------------------------------
(***************************************************************************)
(* Small exact rational matrices (sizes 1..3) for LinearGaussian.tla       *)
(* (property C06), built on the gcd-normalised rationals of Rationals.tla. *)
(*                                                                         *)
(* A rational matrix is a record [n |-> N, d |-> d]: N a tuple of rows of  *)
(* INTEGERS, d a positive integer, value N / d, normalised so that         *)
(* gcd(d, all entries of N) = 1 (the representation of a value is unique,  *)
(* equality is structural).  Vectors are one-column matrices.              *)
(*                                                                         *)
(* TLC integers are 32 bit, so every operation is CHECKED before it is     *)
(* carried out: from the largest magnitudes of the operands a bound on     *)
(* every intermediate is computed, and if that bound is not below 10^9     *)
(* the result is the marker Bad == [n |-> <<>>, d |-> 0], which is         *)
(* absorbing.  (The test is conservative: it may refuse a representable    *)
(* result, it never lets an overflow through; TLC itself aborts on a       *)
(* native overflow.)  A specification using these operators therefore      *)
(* never computes a wrong number silently.                                 *)
(*                                                                         *)
(* Inverses use the adjugate: inv(N/d) = d adj(N) / det(N).                *)
(*                                                                         *)
(* TLC passes operator arguments by name and re-evaluates them on every    *)
(* use; Eager1/2/3 bind them to evaluated values first (this is purely an  *)
(* evaluation-cost matter, it does not change any meaning).                *)
(***************************************************************************)
EXTENDS Integers, Sequences, FiniteSets, FiniteSetsExt, TLC, Rationals

Lim  == 999999999                      \* the QSmall bound of Rationals.tla
AbsI(x) == IF x < 0 THEN -x ELSE x
MulFits(a, b) == a = 0 \/ b = 0 \/ AbsI(a) <= Lim \div AbsI(b)

Eager1(F(_), A)             == CHOOSE r \in {F(a) : a \in {A}} : TRUE
Eager2(F(_, _), A, B)       == CHOOSE r \in {F(p[1], p[2]) : p \in {<<A, B>>}} : TRUE
Eager3(F(_, _, _), A, B, C) == CHOOSE r \in {F(p[1], p[2], p[3]) : p \in {<<A, B, C>>}} : TRUE

---------------------------------------------------------------------------
\* checked scalar rationals <<num, den>> (used for the unscented-transform weights)
NaN      == <<0, 0>>
IsNum(q) == q[2] # 0
Zero     == <<0, 1>>
One      == <<1, 1>>
CAddV(a, b) ==
  IF ~IsNum(a) \/ ~IsNum(b) THEN NaN
  ELSE LET g == Gcd(a[2], b[2])
           s == a[2] \div g
           t == b[2] \div g
       IN IF MulFits(a[1], t) /\ MulFits(b[1], s) /\ MulFits(a[2], t)
            THEN LET u == a[1] * t
                     v == b[1] * s
                 IN IF AbsI(u) <= Lim - AbsI(v) THEN Norm(u + v, a[2] * t) ELSE NaN
            ELSE NaN
CAdd(a0, b0) == Eager2(CAddV, a0, b0)
CNegV(a)   == IF IsNum(a) THEN QNeg(a) ELSE NaN
CNeg(a0)   == Eager1(CNegV, a0)
CSub(a, b) == CAdd(a, CNeg(b))
CMulV(a, b) ==
  IF ~IsNum(a) \/ ~IsNum(b) THEN NaN
  ELSE IF a[1] = 0 \/ b[1] = 0 THEN Zero
  ELSE LET g1 == Gcd(a[1], b[2])
           g2 == Gcd(b[1], a[2])
           n1 == a[1] \div g1
           n2 == b[1] \div g2
           d1 == a[2] \div g2
           d2 == b[2] \div g1
       IN IF MulFits(n1, n2) /\ MulFits(d1, d2) THEN Norm(n1 * n2, d1 * d2) ELSE NaN
CMul(a0, b0) == Eager2(CMulV, a0, b0)
CInvV(a)   == IF ~IsNum(a) \/ a[1] = 0 THEN NaN
              ELSE IF a[1] < 0 THEN <<-a[2], -a[1]>> ELSE <<a[2], a[1]>>
CInv(a0)   == Eager1(CInvV, a0)
CDiv(a, b) == CMul(a, CInv(b))
CEq(a, b)  == IsNum(a) /\ IsNum(b) /\ a = b          \* normalised representation is unique
CGt0(a)    == IsNum(a) /\ a[1] > 0

---------------------------------------------------------------------------
\* integer matrices (tuples of rows)
NRows(N) == Len(N)
NCols(N) == Len(N[1])
IMat(r, c, Op(_, _)) == TLCEval([i \in 1..r |-> [j \in 1..c |-> Op(i, j)]])
MaxAbs(N) == Max({AbsI(N[i][j]) : i \in 1..NRows(N), j \in 1..NCols(N)})

RECURSIVE DotI(_, _, _, _, _)     \* sum_{k=1..m} A[i][k] * B[k][j]   (native integers)
DotI(A, B, i, j, m) == IF m = 0 THEN 0 ELSE DotI(A, B, i, j, m - 1) + A[i][m] * B[m][j]
ITr(N)      == IMat(NCols(N), NRows(N), LAMBDA i, j : N[j][i])
IMulRaw(A, B) == IMat(NRows(A), NCols(B), LAMBDA i, j : DotI(A, B, i, j, NCols(A)))
\* bound on every intermediate of A * B:  k * max|A| * max|B|
IMulFits(A, B) == LET a == MaxAbs(A)  b == MaxAbs(B)
                  IN MulFits(a, b) /\ MulFits(a * b, NCols(A))
IIdent(n)   == IMat(n, n, LAMBDA i, j : IF i = j THEN 1 ELSE 0)
IIsSym(N)   == NRows(N) = NCols(N) /\ \A i \in 1..NRows(N) : \A j \in 1..NRows(N) : N[i][j] = N[j][i]

\* determinant of the principal submatrix with (ascending) index tuple ix, |ix| in 1..3
IDet2(a, b, c, d) == a * d - b * c
ISubDet(N, ix) ==
  CASE Len(ix) = 1 -> N[ix[1]][ix[1]]
    [] Len(ix) = 2 -> IDet2(N[ix[1]][ix[1]], N[ix[1]][ix[2]], N[ix[2]][ix[1]], N[ix[2]][ix[2]])
    [] Len(ix) = 3 ->
         N[ix[1]][ix[1]] * IDet2(N[ix[2]][ix[2]], N[ix[2]][ix[3]], N[ix[3]][ix[2]], N[ix[3]][ix[3]])
       - N[ix[1]][ix[2]] * IDet2(N[ix[2]][ix[1]], N[ix[2]][ix[3]], N[ix[3]][ix[1]], N[ix[3]][ix[3]])
       + N[ix[1]][ix[3]] * IDet2(N[ix[2]][ix[1]], N[ix[2]][ix[2]], N[ix[3]][ix[1]], N[ix[3]][ix[2]])
\* bound on every intermediate of an m x m determinant / adjugate:  m! * max^m
IDetFits(N) == LET a == MaxAbs(N)  m == NRows(N)
               IN CASE m = 1 -> TRUE
                    [] m = 2 -> MulFits(a, a) /\ MulFits(a * a, 2)
                    [] m = 3 -> MulFits(a, a) /\ MulFits(a * a, a) /\ MulFits(a * a * a, 6)
IDet(N) == ISubDet(N, [i \in 1..NRows(N) |-> i])
Others(n, i) == IF n = 2 THEN (IF i = 1 THEN <<2>> ELSE <<1>>)
                ELSE (IF i = 1 THEN <<2, 3>> ELSE IF i = 2 THEN <<1, 3>> ELSE <<1, 2>>)
IMinor(N, i, j) ==      \* determinant of N without row i and column j
  LET n == NRows(N)  r == Others(n, i)  c == Others(n, j)
  IN IF n = 2 THEN N[r[1]][c[1]]
     ELSE IDet2(N[r[1]][c[1]], N[r[1]][c[2]], N[r[2]][c[1]], N[r[2]][c[2]])
IAdj(N) == IF NRows(N) = 1 THEN <<<<1>>>>       \* adjugate = transposed cofactor matrix
           ELSE IMat(NRows(N), NRows(N),
                     LAMBDA i, j : (IF (i + j) % 2 = 0 THEN 1 ELSE -1) * IMinor(N, j, i))
PrincipalSets(n) ==
  CASE n = 1 -> {<<1>>}
    [] n = 2 -> {<<1>>, <<2>>, <<1, 2>>}
    [] n = 3 -> {<<1>>, <<2>>, <<3>>, <<1, 2>>, <<1, 3>>, <<2, 3>>, <<1, 2, 3>>}

---------------------------------------------------------------------------
\* rational matrices  [n |-> integer matrix, d |-> positive integer]
Bad     == [n |-> <<>>, d |-> 0]
MOk(A)  == A.d # 0
RECURSIVE GcdSet(_, _)
GcdSet(S, g) == IF g = 1 \/ S = {} THEN g
                ELSE LET v == CHOOSE v \in S : TRUE IN GcdSet(S \ {v}, Gcd(g, v))
MkV(N, d) ==       \* normalise N / d  (d # 0)
  LET s == IF d < 0 THEN -1 ELSE 1
      g == GcdSet({AbsI(N[i][j]) : i \in 1..NRows(N), j \in 1..NCols(N)} \ {0}, AbsI(d))
  IN [n |-> IMat(NRows(N), NCols(N), LAMBDA i, j : (s * N[i][j]) \div g), d |-> (s * d) \div g]
Mk(N0, d0) == Eager2(MkV, N0, d0)
QM(N)   == [n |-> N, d |-> 1]                           \* integer matrix
QV(v)   == [n |-> TLCEval([i \in 1..Len(v) |-> <<v[i]>>]), d |-> 1]     \* integer vector as a column
Rows(A) == NRows(A.n)
Cols(A) == NCols(A.n)
Entry(A, i, j) == Norm(A.n[i][j], A.d)                  \* as a rational of Rationals.tla
MSmall(A) == MOk(A) => A.d <= Lim /\ MaxAbs(A.n) <= Lim

MTV(A)  == IF MOk(A) THEN [n |-> ITr(A.n), d |-> A.d] ELSE Bad
MT(A0)  == Eager1(MTV, A0)
MMulV(A, B) ==
  IF ~MOk(A) \/ ~MOk(B) THEN Bad
  ELSE IF IMulFits(A.n, B.n) /\ MulFits(A.d, B.d) THEN Mk(IMulRaw(A.n, B.n), A.d * B.d) ELSE Bad
MMul(A0, B0) == Eager2(MMulV, A0, B0)
\* A + s B  (s = 1 or -1) over the least common denominator
MAxpyV(A, B, s) ==
  IF ~MOk(A) \/ ~MOk(B) THEN Bad
  ELSE LET g  == Gcd(A.d, B.d)
           fa == B.d \div g
           fb == A.d \div g
           a  == MaxAbs(A.n)
           b  == MaxAbs(B.n)
       IN IF MulFits(a, fa) /\ MulFits(b, fb) /\ MulFits(A.d, fa) /\ a * fa <= Lim - b * fb
            THEN Mk(IMat(Rows(A), Cols(A), LAMBDA i, j : A.n[i][j] * fa + s * B.n[i][j] * fb),
                    A.d * fa)
            ELSE Bad
MAdd(A0, B0) == Eager3(MAxpyV, A0, B0, 1)
MSub(A0, B0) == Eager3(MAxpyV, A0, B0, -1)
MInvV(A) ==        \* inv(N / d) = d adj(N) / det(N)
  IF ~MOk(A) \/ ~IDetFits(A.n) THEN Bad
  ELSE LET det == IDet(A.n)
           adj == IAdj(A.n)
       IN IF det = 0 \/ ~MulFits(MaxAbs(adj), A.d) THEN Bad
          ELSE Mk(IMat(Rows(A), Rows(A), LAMBDA i, j : A.d * adj[i][j]), det)
MInv(A0) == Eager1(MInvV, A0)
Ident(n) == QM(IIdent(n))

MEq(A, B)  == MOk(A) /\ MOk(B) /\ A = B
IsSym(A)   == MOk(A) /\ IIsSym(A.n)
\* sign of a principal minor of N / d is the sign of the minor of N (d > 0);
\* "undecided" (accepted) when the minor itself is not representable
MinorGe0(A, ix) == ~IDetFits(A.n) \/ ISubDet(A.n, ix) >= 0
\* positive semi-definite: symmetric with every principal minor >= 0
IsPSD(A) == IsSym(A) /\ \A ix \in PrincipalSets(Rows(A)) : MinorGe0(A, ix)
\* positive definite (Sylvester): symmetric with every leading principal minor > 0
IsPD(A)  == IsSym(A) /\ (~IDetFits(A.n) \/ \A m \in 1..Rows(A) : ISubDet(A.n, [i \in 1..m |-> i]) > 0)
\* Loewner order  A <= B
LoewnerLe(A, B) == LET D == MSub(B, A) IN ~MOk(D) \/ IsPSD(D)

---------------------------------------------------------------------------
\* stacking a sequence of INTEGER matrices (the observations of one step)
RECURSIVE SumDims(_, _)
SumDims(dims, k) == IF k = 0 THEN 0 ELSE SumDims(dims, k - 1) + dims[k]
RECURSIVE BlockOf(_, _, _)        \* which block does global row r belong to
BlockOf(dims, r, b) == IF r <= SumDims(dims, b) THEN b ELSE BlockOf(dims, r, b + 1)
BlockDiagV(Ms) ==
  LET dims == [b \in 1..Len(Ms) |-> NRows(Ms[b])]
      tot  == SumDims(dims, Len(Ms))
  IN IMat(tot, tot, LAMBDA i, j :
            LET bi == BlockOf(dims, i, 1)  bj == BlockOf(dims, j, 1)
            IN IF bi # bj THEN 0
               ELSE Ms[bi][i - SumDims(dims, bi - 1)][j - SumDims(dims, bi - 1)])
BlockDiag(Ms0) == Eager1(BlockDiagV, Ms0)
VStackV(Ms) ==      \* matrices with the same number of columns
  LET dims == [b \in 1..Len(Ms) |-> NRows(Ms[b])]
      tot  == SumDims(dims, Len(Ms))
  IN IMat(tot, NCols(Ms[1]), LAMBDA i, j :
            LET bi == BlockOf(dims, i, 1) IN Ms[bi][i - SumDims(dims, bi - 1)][j])
VStack(Ms0) == Eager1(VStackV, Ms0)
=============================================================================
