SPECIFICATION FracSpec
CONSTANTS MaxCalls = 1 InvertStartBySecTruncation = FALSE TargetKeepsFraction = FALSE Tick = 100 SampleMod = 1 SampleSeed = 0
CONSTANT StartSecs <- Secs60
CONSTANT Dts <- DtsFrac
CONSTANT Quots <- QuotsFrac
CONSTANT Rems <- RemsFrac
INVARIANT StepsHonoured
INVARIANT EpochsAreStartPlusKDt
INVARIANT NoOvershoot
INVARIANT StopsOnlyWhenNoStepFits
INVARIANT SameAsDurations
INVARIANT FracEmit
