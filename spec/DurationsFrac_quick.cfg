SPECIFICATION FracSpec
CONSTANTS MaxCalls = 1 InvertStartBySecTruncation = FALSE TargetKeepsFraction = FALSE Tick = 100 SpreadEpochsOverSpan = FALSE SampleMod = 1 SampleSeed = 0
CONSTANT StartSecs <- Secs60
CONSTANT Dts <- DtsFrac
CONSTANT Quots <- QuotsFrac
CONSTANT SpanRems <- SpanRemsAll
CONSTANT Rems <- RemsFrac
INVARIANT StepsHonoured
INVARIANT EpochsAreStartPlusKDt
INVARIANT NoOvershoot
INVARIANT StopsOnlyWhenNoStepFits
INVARIANT TableIsStartPlusKDt
INVARIANT SameAsDurations
INVARIANT FracEmit
