SPECIFICATION SimSpec
CONSTANTS Clients = {"c1","c2","c3"}
  RawKeys <- KeysEv
  CacheKeys = {"k2"}
  Atoms = {"x","y"}
  SetLists <- ListsXY
  Indexes <- IdxAll
  MaxLen = 4
  Records = {"r1","r2","r3"}
  CacheSizes = {0,1,2}
  Paths = {"p1","p2"}
  Payloads = {"x","y"}
  MaxPush = 40
  Times <- Times3
  RedMax = 128
  Ops = {"set","get","append","pop","flush","dump","xset","init","put","grab","setDBPath","clearDBPath","getDBConnection","pushEvent","logAndFlush","reduction"}
  Dev = "none"
  EmitEdges = FALSE
INVARIANT SimEmitBeh

