---------------------------- MODULE TraceMembership ----------------------------
(***************************************************************************)
(* impl -> spec: decides whether membership traces recorded from the REAL  *)
(* resonaate code are behaviours of Membership.tla.  The recorder          *)
(* (harness/drivers/_membership.py) wraps, from outside, the public        *)
(* methods Scenario.addTarget / removeTarget / addSensor / removeSensor /  *)
(* stepForward / saveDatabaseOutput and CentralizedTaskingEngine.assess;   *)
(* a call made while stepForward is running comes from an event handler    *)
(* (TargetAdditionEvent / SensorAdditionEvent / AgentRemovalEvent          *)
(* .handleEvent) and is logged as "Deliver", any other as "Call".  Every   *)
(* logged line carries the outcome (ok / exception class) and the          *)
(* projection of the real Scenario AFTER the call: keys of target_agents / *)
(* estimate_agents / sensor_agents, every engine's target_list /           *)
(* sensor_list / matrix shape / index maps in dictionary order, ids of the *)
(* Agent rows.  Each trace action re-uses the specification's action and   *)
(* binds outcome and projected state; the builder's internal steps and     *)
(* EventsDone are not observable and run silently.  All theorems of        *)
(* Membership.tla are evaluated in every state of every trace.             *)
(*                                                                         *)
(* A file holds many traces: [cfg |-> configuration, ev |-> lines]; `tid`  *)
(* selects one; the harness derives the verdict from the AT lines          *)
(* (accepted iff position Len + 1 is reached).                             *)
(***************************************************************************)
EXTENDS Membership, Json, IOUtils

Traces == JsonDeserialize(IOEnv.TRACE_FILE)

VARIABLES tid, l
tvars == <<vars, tid, l>>

Tr  == Traces[tid].ev
Rec == Tr[l]
IsEvent(e) == l <= Len(Tr) /\ Rec.ev = e /\ l' = l + 1 /\ UNCHANGED tid
Silent == UNCHANGED <<tid, l>>
\* JSON arrays -> sequences / sets (an empty array may arrive as an empty tuple or record)
SeqOf(a) == [i \in 1..Len(a) |-> a[i]]
ToSet(a) == {a[i] : i \in 1..Len(a)}

CfgOf(j) ==
  [name |-> j.name, truthOnly |-> j.truthOnly,
   engines |-> [i \in 1..Len(j.engines) |->
                  [id |-> j.engines[i].id,
                   tg |-> [n \in 1..Len(j.engines[i].tg) |-> [id |-> j.engines[i].tg[n].id, cls |-> j.engines[i].tg[n].cls]],
                   sn |-> SeqOf(j.engines[i].sn)]],
   events |-> [i \in 1..Len(j.events) |->
                  [at |-> j.events[i].at, kind |-> j.events[i].kind, id |-> j.events[i].id, eng |-> j.events[i].eng]]]

\* the projection r of the real Scenario equals the snapshot s of the specification
PairSet(a) == {<<a[i][1], a[i][2]>> : i \in 1..Len(a)}
SnapEq(s, r) ==
  /\ s.T = ToSet(r.T) /\ s.E = ToSet(r.E) /\ s.S = ToSet(r.S) /\ s.D = ToSet(r.D)
  /\ Len(s.eng) = Len(r.eng)
  /\ \A i \in 1..Len(s.eng) :
       /\ s.eng[i].id = r.eng[i].id
       /\ s.eng[i].T = SeqOf(r.eng[i].T) /\ s.eng[i].S = SeqOf(r.eng[i].S)
       /\ s.eng[i].dims = <<r.eng[i].dims[1], r.eng[i].dims[2]>>
       /\ s.eng[i].tix = PairSet(r.eng[i].tix) /\ s.eng[i].six = PairSet(r.eng[i].six)

TraceInit == /\ tid \in DOMAIN Traces /\ l = 1
             /\ cfg = CfgOf(Traces[tid].cfg) /\ pc = "validate" /\ RestInit

\* the builder runs unobserved ...
TBuildStep ==
  /\ pc \in {"validate", "build"}
  /\ \/ ValidateConfig \/ BuildEngineCheck \/ BuildValidateTarget \/ BuildValidateSensor \/ BuildMakeEngine
     \/ BuildInitAgents \/ BuildLoadAgents \/ BuildLoadEvent \/ BuildDone
  /\ Silent
\* ... its result is the first line of every trace
TBuilt == /\ IsEvent("Build") /\ pc \in {"run", "failed"} /\ last.op = "build"
          /\ last.out = Rec.out /\ SnapEq(Snap, Rec.snap)
          /\ UNCHANGED vars
TCall == /\ IsEvent("Call") /\ Call(Rec.op, Rec.id, Rec.eng)
         /\ last'.out = Rec.out /\ SnapEq(Snap', Rec.snap)
TStepBegin == IsEvent("StepBegin") /\ StepBegin
TDeliver == /\ IsEvent("Deliver")
            /\ \E i \in DOMAIN Ev : /\ Ev[i].kind = Rec.op /\ Ev[i].id = Rec.id /\ Ev[i].eng = Rec.eng
                                    /\ Deliver(i)
            /\ last'.out = Rec.out /\ SnapEq(Snap', Rec.snap)
TEventsDone == EventsDone /\ Silent
TAssess == /\ IsEvent("Assess") /\ Assess
           /\ order[cur] = Rec.eng
           /\ dims'[Rec.eng] = <<Rec.dims[1], Rec.dims[2]>>
           /\ IF Rec.out = "ok" THEN pc' = "assess" ELSE pc' = "crashed" /\ last'.out = Rec.out
\* stepForward returned, or raised what the failing handler / assess raised
TStepEnd == /\ IsEvent("StepEnd")
            /\ \/ Rec.out = "ok" /\ StepEnd /\ SnapEq(Snap', Rec.snap)
               \/ Rec.out # "ok" /\ pc = "crashed" /\ last.out = Rec.out /\ SnapEq(Snap, Rec.snap) /\ UNCHANGED vars
TSave == /\ IsEvent("Save") /\ Save /\ last'.out = Rec.out /\ SnapEq(Snap', Rec.snap)

TraceNext == TBuildStep \/ TBuilt \/ TCall \/ TStepBegin \/ TDeliver \/ TEventsDone \/ TAssess \/ TStepEnd \/ TSave
TraceSpec == TraceInit /\ [][TraceNext]_tvars

\* progress report, one line per reached (trace, position)
Accept == PrintT(<<"AT", tid, l, Len(Tr) + 1>>)
=============================================================================
