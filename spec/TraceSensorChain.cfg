SPECIFICATION TraceSpec
CONSTANTS MaxBg = 0 VaryPrim = {} VaryBg = {} Vals = {0, 1} OnlyRelevant = TRUE
INVARIANT ObservationAllowed_impl
INVARIANT BackgroundNeedsSlew_impl
INVARIANT MissReasonTrue_impl
INVARIANT ExactlyOneMissForPrimary_impl
INVARIANT BackgroundOnlyObservations_impl
INVARIANT BoresightUpdatedIffSlew_impl
INVARIANT Measurement_impl
INVARIANT EmitMatched
