SPECIFICATION SpecSeconds
CONSTANTS FirstYear = 1901 LastYear = 2099
CONSTANT JumpDates <- DatesQuick
CONSTANT JumpSods <- SodsQuick
CONSTRAINT Within8
INVARIANT TypeOK
INVARIANT MonthLengths
INVARIANT LeapRule
INVARIANT DoyCorrect
INVARIANT ClosedFormDayNumber
INVARIANT ClosedForm1901
INVARIANT DayNumberRoundTrip
INVARIANT HmsRoundTrip
INVARIANT RoundTrip
INVARIANT TickLength
INVARIANT OffsetsRoundTrip
INVARIANT StartInversionExact
INVARIANT EmitTick
PROPERTY Monotone
