----------------------------- MODULE TraceMMAE -----------------------------
(***************************************************************************)
(* impl -> spec for property C18: every update() of a REAL                 *)
(* StaticMultipleModel / GeneralizedPseudoBayesian1 object (6-D unscented  *)
(* filters, random observation sequences) is one record; the record is     *)
(* accepted iff it is a behaviour of MMAE: the state before the update is  *)
(* loaded from the record (model ids, prior masses, likelihoods recomputed *)
(* by the harness from each model's logged innovation and innovation       *)
(* covariance, both projected to small integers), then the ACTIONS OF MMAE *)
(* run (Update, ResetOnZeroMass, Renormalise, Compile, Prune, Converge /   *)
(* Gate, NoObs) and every logged observation of the real object must agree *)
(* with the state they produce:                                            *)
(*   mid    model ids after _prunedToSingleModel       (PruneExplained)    *)
(*   gate   chi-square gate 1 held / 0 failed / 2 not evaluated            *)
(*                                     (ConvergeExplained, GateExplained)  *)
(*   post   model ids after the update, closed flag, hb = id of the model  *)
(*          the handed-back filter equals (0 = the mixture)                *)
(*                                                      (StepExplained)    *)
(*   finOk, parOk, meanOk, momOk, symOk, psdOk  logged invariants of the   *)
(*          real 6-D combined estimate                  (Logged...)        *)
(*   under  1 iff exp(log-likelihood) is 0.0 in IEEE double for EVERY      *)
(*          model (true underflow); only then may the fallback replace     *)
(*          Bayes' rule                            (ResetOnlyOnUnderflow)  *)
(*   ids/W of the next record of the same trace continue post/P of this    *)
(*          one                                         (Continuity)       *)
(* together with the invariants of MMAE itself.  The exact posterior       *)
(* masses are printed (MID / POST) and compared by the driver with the     *)
(* real weights inside the projection error bound.                         *)
(* Records with skip = 1 (some probability too close to a threshold for    *)
(* the projection, or a largest likelihood in the denormal range) are only *)
(* checked for continuity and the logged invariants.                       *)
(***************************************************************************)
EXTENDS MMAE, IOUtils

Recs == JsonDeserialize(IOEnv.RECORDS_FILE)

VARIABLE i
tvars == <<vars, i>>

NB == 16
TraceInit == i = 0 /\ Init
PickBlock == /\ i = 0 /\ pc = "start" /\ \E b \in 1..NB : i' = -b
             /\ UNCHANGED vars
PickRec ==
  /\ i < 0
  /\ \E j \in {n \in DOMAIN Recs : n % NB = (-i) - 1} :
       LET r == Recs[j]  n == Len(r.ids) IN
       /\ i' = j
       /\ cfg' = [kind |-> r.kind, n |-> n, th |-> r.th, pct |-> r.pct, mix |-> r.mix, lay |-> 0]
       /\ models' = r.ids
       /\ mass' = (IF r.kind = "smm" \/ r.obs = 0 THEN r.W ELSE Ones(n))
       /\ modeMass' = (IF r.kind = "gpb1" THEN r.M ELSE Ones(n))
       /\ lik' = r.L
       /\ pc' = (IF r.skip = 1 THEN "skipped" ELSE IF r.obs = 1 THEN "posing" ELSE "ready")
       /\ nupd' = (IF r.obs = 1 THEN 0 ELSE 1)
  /\ UNCHANGED <<prior, didReset, alts, comb, closed, handBack, hist>>

Rec == Recs[i]
TPrune    == Prune /\ models' = Rec.mid /\ UNCHANGED i
TConverge == Converge /\ closed' = (Rec.closed = 1) /\ UNCHANGED i
TGate     == Gate /\ closed' = (Rec.gate = 1) /\ UNCHANGED i
TNoObs    == i > 0 /\ Rec.obs = 0 /\ NoObs /\ UNCHANGED i
Det(A)    == i > 0 /\ A /\ UNCHANGED i
TraceNext == PickBlock \/ PickRec \/ Det(Update) \/ Det(ResetOnZeroMass) \/ Det(Renormalise)
             \/ Det(Compile) \/ TPrune \/ TConverge \/ TGate \/ TNoObs
TraceSpec == TraceInit /\ [][TraceNext]_tvars

StepDone == i > 0 /\ pc \in {"ready", "closed"} /\ nupd = (IF Rec.obs = 1 THEN 1 ELSE 2)

\* the survivors of the real _prunedToSingleModel are an admissible result of Prune
PruneExplained ==
  (i > 0 /\ pc = "compiled" /\ cfg.kind = "smm") =>
     Rec.mid \in {r[1] : r \in PruneResults(PruneSet, models, mass)}
\* exactly-one-above-percentage <=> the real code evaluated the gate; closed <=> gate held
ConvergeExplained ==
  (i > 0 /\ pc = "pruned") =>
     IF Cardinality(Solution) = 1
       THEN /\ Rec.gate \in {0, 1} /\ (Rec.closed = 1 <=> Rec.gate = 1)
            /\ (didReset => Rec.gate = 0)
       ELSE Rec.gate = 2 /\ Rec.closed = 0
GateExplained ==
  (i > 0 /\ pc = "compiled" /\ cfg.kind = "gpb1") =>
     /\ Rec.gate \in {0, 1} /\ (Rec.closed = 1 <=> Rec.gate = 1)
     /\ (didReset => Rec.gate = 0)
StepExplained ==
  StepDone =>
     /\ models = Rec.post
     /\ closed = (Rec.closed = 1)
     /\ (closed => Rec.hb = (IF cfg.kind = "smm" THEN models[1] ELSE 0))
     /\ (~closed => Rec.hb = -1)
\* the record's likelihoods are all zero only when the harness found TRUE underflow (exp of every
\* log-likelihood is 0.0 in IEEE double) and the object applied the documented fallback
ResetOnlyOnUnderflow == (i > 0 /\ pc \in {"reset", "normalised"} /\ didReset) => Rec.under = 1
LoggedFinite   == i > 0 => Rec.finOk = 1      \* weights finite, non-negative, sum to one (1e-9)
LoggedParallel == i > 0 => Rec.parOk = 1      \* models / weights / likelihoods / mode arrays same length >= 1
LoggedMean     == i > 0 => Rec.meanOk = 1     \* est_x = sum w * model.est_x
LoggedMoments  == i > 0 => Rec.momOk = 1      \* est_p = sum w * (P + d d^T)
LoggedSymPSD   == i > 0 => Rec.symOk = 1 /\ Rec.psdOk = 1
Continuity ==
  (i > 1 /\ Recs[i].tid = Recs[i - 1].tid) =>
     /\ Recs[i - 1].closed = 0
     /\ Recs[i].ids = Recs[i - 1].post
     /\ Recs[i].W = Recs[i - 1].PW /\ Recs[i].M = Recs[i - 1].PM

EmitMid  == (i > 0 /\ pc = "normalised") =>
               PrintT("MID " \o ToJson([i |-> i, mass |-> mass, mode |-> modeMass]))
EmitPost == StepDone => PrintT("POST " \o ToJson([i |-> i, mass |-> mass, mode |-> modeMass]))
=============================================================================
