\* NON-VACUITY (expected to FAIL): a combined reward that looks its cost-constrained columns up by
\* their position in the 3-metric sub-list must be refuted by RewardIsDocumentedCombination
SPECIFICATION Spec
CONSTANTS NT = 1 NS = 2 Kinds = {"combined"}
CONSTANT MetricVals <- ValsQuick
CONSTANT Deltas <- DeltasQuick
CONSTANT FullOrders <- NoOrders
CONSTANT Rotations <- RotQuick
CONSTANT ScaledOrders <- NoOrders
CONSTANT Deviation = "ColumnsByPositionInSublist"
INVARIANT RewardIsDocumentedCombination
