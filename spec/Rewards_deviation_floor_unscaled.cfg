\* CONTROL (expected to PASS): on integer-valued metrics alone (no scaled orders) the floored divisor
\* is indistinguishable from the documented rule - which is why the fractional columns are posed
SPECIFICATION Spec
CONSTANTS NT = 1 NS = 2 Kinds = {"cost"}
CONSTANT MetricVals <- ValsQuick
CONSTANT Deltas <- DeltasQuick
CONSTANT FullOrders <- DocOrdersOnly
CONSTANT Rotations <- RotQuick
CONSTANT ScaledOrders <- NoOrders
CONSTANT Deviation = "DivisorFlooredAtOne"
INVARIANT NormalisedByKind
INVARIANT RewardIsDocumentedCombination
