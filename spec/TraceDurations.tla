--------------------------- MODULE TraceDurations ---------------------------
(* impl -> spec for the duration clause of C05.  Each trace is the record of   *)
(* one REAL scenario driven through Scenario.propagateTo (harness/drivers/     *)
(* c05.py):                                                                    *)
(*   [startSec, dt (s), tick |-> ticks per second of D,                        *)
(*    ev |-> << [e |-> "begin", D |-> requested duration in ticks],            *)
(*                           [e |-> "step", clockMs |-> clock.datetime_epoch   *)
(*                                  minus the authoritative start, in ms,      *)
(*                            jdOk |-> 1 iff clock.julian_date_epoch is the    *)
(*                                  Julian date Calendar.tla gives that instant*)
(*                                  (1e-9 d)], ...                             *)
(*                           [e |-> "end", raised |-> 0/1], ... >>,            *)
(*    rows |-> offsets (ms) of the epochs of the truth rows in the database,   *)
(*    epochRowsOk |-> 1 iff every such epoch row carries the Julian date of    *)
(*                    its own timestamp]                                       *)
(* A trace is accepted iff it is a behaviour of Durations: every logged event  *)
(* is the next event the specification allows (StepAllowed / EndAllowed), the  *)
(* logged clock is the specification's clock (ClockAgrees) and the recorded    *)
(* epochs are start + j*dt for j = 0..k (RowsAgree).                           *)
EXTENDS Durations, IOUtils

Tr == JsonDeserialize(IOEnv.TRACE_FILE)

VARIABLES i, l
tvars == <<vars, i, l>>

NB == 32
\* A trace states its unit: tick = ticks per second (1 for whole-second requests, 100 when the
\* requested durations have a fractional part); dt is given in seconds, D and the specification's
\* clock are in ticks (Durations.tla is unit free).  Logged clock values stay in milliseconds.
Tk == IF i > 0 THEN Tr[i].tick ELSE 1
Ev == IF i > 0 /\ l < Len(Tr[i].ev) THEN Tr[i].ev[l + 1] ELSE [e |-> "none"]

TraceInit == Init /\ i = 0 /\ l = 0
PickBlock == /\ i = 0 /\ \E b \in 1..NB : i' = -b
             /\ UNCHANGED <<vars, l>>
PickTrace == /\ i < 0
             /\ \E j \in {n \in DOMAIN Tr : n % NB = (-i) - 1} :
                  /\ i' = j /\ startSec' = Tr[j].startSec /\ dt' = Tr[j].dt * Tr[j].tick
             /\ pc' = "idle"
             /\ UNCHANGED <<clockSec, k, calls, reqs, counts, epochs, target, k0, stepsLeft, l>>
TraceBegin == /\ Ev.e = "begin" /\ PropagateToBegin(Ev.D)
              /\ l' = l + 1 /\ UNCHANGED i
TraceStep  == /\ Ev.e = "step" /\ StepForward
              /\ l' = l + 1 /\ UNCHANGED i
TraceEnd   == /\ Ev.e = "end" /\ PropagateToEnd
              /\ l' = l + 1 /\ UNCHANGED i
TraceNext == PickBlock \/ PickTrace \/ TraceBegin \/ TraceStep \/ TraceEnd
TraceSpec == TraceInit /\ [][TraceNext]_tvars

\* the implementation took a step: the specification must still have one to take
StepAllowed == Ev.e = "step" => (pc = "running" /\ stepsLeft > 0)
\* the implementation returned: the specification must have no whole step left
EndAllowed  == Ev.e = "end" => (pc = "running" /\ stepsLeft = 0)
BeginAllowed == Ev.e = "begin" => (pc = "idle" /\ Ev.D >= 1)
\* after the step the simulator's clock reads start + (k+1)*dt, as a datetime and as a Julian date
ClockAgrees == Ev.e = "step" => (Ev.clockMs * Tk = 1000 * (clockSec + dt) /\ Ev.jdOk = 1)
\* at the end of the trace the truth rows in the database carry the epochs start + j*dt
Done == i > 0 /\ l = Len(Tr[i].ev)
RowsAgree == Done => /\ [j \in DOMAIN Tr[i].rows |-> Tr[i].rows[j] * Tk] = [j \in 1..(k + 1) |-> 1000 * (j - 1) * dt]
                     /\ Tr[i].epochRowsOk = 1
\* the table of epochs of the database (read with plain SQL; Julian date and timestamp of every row
\* judged by the driver against Calendar.tla): start + j*dt for j = 0..max(floor(span/dt), k), where
\* span is the configured time span (ticks), not necessarily a whole multiple of the step
TMax(a, b) == IF a > b THEN a ELSE b
TableAgrees == Done => /\ [j \in DOMAIN Tr[i].table |-> Tr[i].table[j] * Tk]
                            = [j \in 1..(TMax(Tr[i].span \div dt, k) + 1) |-> 1000 * (j - 1) * dt]
                       /\ Tr[i].tableJdOk = 1
Accepted == Done => PrintT(<<"ACCEPTED", i>>)
=============================================================================
