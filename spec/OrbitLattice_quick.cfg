\* C12 quick: 3 families x 88 orientations x 4 anomalies, no arcs (harness/drivers/_orbits.py:lattice_cfg builds the same text)
SPECIFICATION Spec
CONSTANT Families <- FamC12Quick
CONSTANT OrientKinds <- KindsAll
CONSTANT WithArcs = FALSE
CONSTANT RetroConvention = "motion"
INVARIANT VisViva
INVARIANT EnergyConst
INVARIANT HConstant
INVARIANT EccVector
INVARIANT KeplerGeometry
INVARIANT OnLattice
INVARIANT ElementRoundTrip
INVARIANT EquatorialSplit
INVARIANT EquinoctialRoundTrip
INVARIANT EqeMatchesCoe
INVARIANT ArcSameOrbit
INVARIANT ArcLagrange
INVARIANT ArcMinimumEnergy
INVARIANT NoOverflow
INVARIANT Emit
INVARIANT EmitCases
