SPECIFICATION Spec
CONSTANTS Tunings = {"default"} MaxGroup = 2 PermSet = "all"
CONSTANT KindSets <- KindSetsThorough
CONSTANT Placements <- PlacementsMid
CONSTANT SubPatterns <- SubsQuick
CONSTANT TurnVals <- TurnsThorough
CONSTANT RangePatterns <- RangeNear
CONSTANTS MaxHist = 0 ContinueFrom = "any"
INVARIANT PosteriorIsBasePosterior
INVARIANT InnovationInRange
INVARIANT InnovationIsAngleResidual
INVARIANT StackIsPermutation
PROPERTY GroupKeepsPosterior
PROPERTY PosteriorIgnoresHistory
