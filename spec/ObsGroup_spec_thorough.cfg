SPECIFICATION Spec
CONSTANTS Tunings = {"default"} MaxGroup = 2 PermSet = "all"
CONSTANT KindSets <- KindSetsThorough
CONSTANT Placements <- PlacementsMid
CONSTANT SubPatterns <- SubsQuick
CONSTANT TurnVals <- TurnsThorough
INVARIANT PosteriorIsBasePosterior
INVARIANT InnovationInRange
INVARIANT InnovationIsAngleResidual
INVARIANT StackIsPermutation
PROPERTY GroupKeepsPosterior
