--------------------------- MODULE LinearGaussian ---------------------------
(***************************************************************************)
(* Property C06: on a linear-Gaussian system the unscented filter IS the   *)
(* Kalman filter, and its covariances stay valid.                          *)
(*                                                                         *)
(* The module is the reference filter, in EXACT rational arithmetic, on a  *)
(* finite lattice of systems                                               *)
(*      x' = F x + w,  w ~ N(0, Q)        y_i = H_i x + v_i, v_i ~ N(0,R_i) *)
(* of state dimension 1..2 with small-integer F, H_i, P0, Q, R_i, x0, y_i, *)
(* stacks of 0..2 simultaneous observations of dimension 1..2 each (total  *)
(* measurement dimension <= 3), 1..2 filter steps, both resampling modes   *)
(* and a set of rational tunings (alpha, beta, kappa).                     *)
(*                                                                         *)
(* It is a state machine with one action per step of the implementation    *)
(* (src/resonaate/estimation/kalman/unscented_kalman_filter.py):            *)
(*   PoseShape/PoseDynamics/PosePrior   UnscentedKalmanFilter.__init__      *)
(*   Predict          predict(): predictStateEstimate + predictCovariance   *)
(*   PoseStack/PoseObs   the list[Observation] handed to update()           *)
(*   Forecast         forecast(): STEP 0 (resample) .. STEP 4 (est_p)       *)
(*   Update           update(): innovation, est_x                           *)
(*   UpdateNoObs      update([]): est_x = zeroth sigma point, est_p = pred_p*)
(*   Advance          the posterior becomes the next step's prior           *)
(*                                                                         *)
(* What the unscented transform gives on a LINEAR map (no approximation):  *)
(* sigma points  X_0 = x, X_(+-i) = x +- gamma L_i  with L L' = P,         *)
(* gamma^2 = n + lambda, weights Wm_0 = lambda/(n+lambda), W_i = 1/(2(n+   *)
(* lambda)); then  sum Wm_i F X_i = F x  (needs WeightsSumToOne) and       *)
(* sum Wc_i (F X_i - F x)(F X_i - F x)' = 2 W_i gamma^2 F P F' = F P F'    *)
(* (needs UnitSecondMoment; the zeroth residual vanishes so beta drops     *)
(* out).  Hence, for every admissible tuning:                              *)
(*   predict :  x- = F x,  Pprop = F P F',  P- = Pprop + Q                 *)
(*   update, REDRAW mode (sigma points redrawn from (x-, P-) first) - the  *)
(*     textbook Kalman update:                                             *)
(*       S = H P- H' + R,  C = P- H',  K = C S^-1,                          *)
(*       x+ = x- + K (y - H x-),  P+ = P- - K S K'                          *)
(*   update, NO-REDRAW mode (the documented variant: the propagated sigma  *)
(*     points are reused, they carry Pprop, not P-):                       *)
(*       S = H Pprop H' + R,  C = Pprop H',  K = C S^-1,                    *)
(*       x+ = x- + K (y - H x-),  P+ = P- - K S K'                          *)
(*   no observation:  x+ = F x (the propagated mean itself),  P+ = P-.     *)
(*                                                                         *)
(* Property formulas (INVARIANTs): WeightsSumToOne, UnitSecondMoment,      *)
(* TuningAdmissible, Symmetric, PSD, PosteriorIsPriorMinusKSKt,            *)
(* PosteriorLePrior (Loewner order through principal minors),              *)
(* NoObsReturnsPropagatedMean, and the independent algebraic cross-checks  *)
(* GainSolvesNormalEquations, RedrawIsTextbookKalman (Joseph form and      *)
(* (I-KH)P-), NoRedrawIsVariant, NoOverflow.                               *)
(*                                                                         *)
(* Every "done" state prints the behaviour (inputs and the expected        *)
(* pred_x, pred_p, innov_cvr, kalman_gain, est_x, est_p of every step as   *)
(* rationals); harness/drivers/c06.py replays it into the real filter.     *)
(* Arithmetic is checked (QMatrices.tla): a behaviour whose exact numbers  *)
(* leave |num|,den < 10^9 goes to pc = "overflow" and is not emitted.      *)
(***************************************************************************)
EXTENDS Integers, Sequences, FiniteSets, TLC, Json, QMatrices

CONSTANTS Dims,        \* set of state dimensions, subset of {1, 2}
          Modes,       \* set of BOOLEAN: TRUE = resample (redraw) before the update
          Tunings,     \* set of [alpha, beta, kappa : rationals, dflt : BOOLEAN]
          StepCounts,  \* set of sequence lengths, subset of {1, 2}
          StackSets,   \* StackSets[step] = set of stack shapes (tuples of observation dims)
          FSets, QSets, XSets, PSets,   \* ...Sets[n]   = set of integer matrices / vectors
          HSets,                        \* HSets[n][m]  = set of m x n integer matrices
          RSets, YSets                  \* ...Sets[m]   = set of m x m matrices / m-vectors

VARIABLES pc, sys, x, P, pred, obs, fc, est, step, hist
vars == <<pc, sys, x, P, pred, obs, fc, est, step, hist>>

None == <<>>
NoSys == [n |-> 0, resample |-> FALSE, tun |-> None, nsteps |-> 0, F |-> None, Q |-> None,
          x0 |-> None, P0 |-> None]

---------------------------------------------------------------------------
\* unscented-transform tuning (UnscentedKalmanFilter.__init__)
Kappa(s)   == IF s.tun.dflt THEN Q(3 - s.n) ELSE s.tun.kappa
Alpha2(s)  == CMul(s.tun.alpha, s.tun.alpha)
Gamma2(s)  == CMul(Alpha2(s), CAdd(Q(s.n), Kappa(s)))          \* n + lambda
Lambda(s)  == CSub(Gamma2(s), Q(s.n))
W0m(s)     == CDiv(Lambda(s), Gamma2(s))
Wi(s)      == CInv(CMul(Q(2), Gamma2(s)))
W0c(s)     == CAdd(W0m(s), CAdd(CSub(One, Alpha2(s)), s.tun.beta))
AdmissibleTuning(s) == CGt0(Gamma2(s)) /\ IsNum(W0m(s)) /\ IsNum(Wi(s)) /\ IsNum(W0c(s))

---------------------------------------------------------------------------
Init == /\ pc = "start" /\ sys = NoSys /\ x = None /\ P = None /\ pred = None
        /\ obs = None /\ fc = None /\ est = None /\ step = 0 /\ hist = <<>>

\* the system is posed in stages so that TLC's workers share the enumeration
PoseShape ==
  /\ pc = "start"
  /\ \E n \in Dims, r \in Modes, t \in Tunings, k \in StepCounts :
        /\ AdmissibleTuning([NoSys EXCEPT !.n = n, !.tun = t])
        /\ sys' = [NoSys EXCEPT !.n = n, !.resample = r, !.tun = t, !.nsteps = k]
  /\ pc' = "shape" /\ UNCHANGED <<x, P, pred, obs, fc, est, step, hist>>

PoseDynamics ==
  /\ pc = "shape"
  /\ \E F \in FSets[sys.n], Qm \in QSets[sys.n] : sys' = [sys EXCEPT !.F = F, !.Q = Qm]
  /\ pc' = "dynamics" /\ UNCHANGED <<x, P, pred, obs, fc, est, step, hist>>

PosePrior ==
  /\ pc = "dynamics"
  /\ \E x0 \in XSets[sys.n], P0 \in PSets[sys.n] :
        /\ x' = QV(x0) /\ P' = QM(P0) /\ sys' = [sys EXCEPT !.x0 = x0, !.P0 = P0]
  /\ step' = 1 /\ pc' = "predict" /\ UNCHANGED <<pred, obs, fc, est, hist>>

\* predict(): pred_x = sum Wm_i F X_i = F x;  pred_p = sum Wc_i res res' + Q = F P F' + Q
Predict ==
  /\ pc = "predict"
  /\ LET F    == QM(sys.F)
         px   == MVec(F, x)
         prop == MMul(MMul(F, P), MT(F))
         pp   == MAdd(prop, QM(sys.Q))
     IN /\ pred' = [x |-> px, prop |-> prop, P |-> pp]
        /\ pc' = IF VIsNum(px) /\ MIsNum(pp) THEN "stack" ELSE "overflow"
  /\ UNCHANGED <<sys, x, P, obs, fc, est, step, hist>>

\* the observations of this step: first the shape of the stack, then one observation at a time
PoseStack ==
  /\ pc = "stack"
  /\ \E shape \in StackSets[step] :
        /\ obs' = [k \in 1..Len(shape) |-> [m |-> shape[k], H |-> None, R |-> None, y |-> None]]
        /\ pc' = IF Len(shape) = 0 THEN "forecast" ELSE "obs"
  /\ UNCHANGED <<sys, x, P, pred, fc, est, step, hist>>

NextOpen == CHOOSE k \in 1..Len(obs) : obs[k].H = None /\ \A j \in 1..(k - 1) : obs[j].H # None
PoseObs ==
  /\ pc = "obs"
  /\ LET k == NextOpen  m == obs[k].m
     IN \E H \in HSets[sys.n][m], R \in RSets[m], y \in YSets[m] :
           /\ obs' = [obs EXCEPT ![k] = [m |-> m, H |-> H, R |-> R, y |-> y]]
           /\ pc' = IF k = Len(obs) THEN "forecast" ELSE "obs"
  /\ UNCHANGED <<sys, x, P, pred, fc, est, step, hist>>

\* forecast(): the covariance half of the measurement update
StackH == VStack([k \in 1..Len(obs) |-> QM(obs[k].H)])
StackR == BlockDiag([k \in 1..Len(obs) |-> QM(obs[k].R)])
StackY == VConcat([k \in 1..Len(obs) |-> QV(obs[k].y)])
Forecast ==
  /\ pc = "forecast" /\ Len(obs) > 0
  /\ LET H  == StackH
         R  == StackR
         \* STEP 0: covariance carried by the sigma points that are pushed through H
         Pg == IF sys.resample THEN pred.P ELSE pred.prop
         S  == MAdd(MMul(MMul(H, Pg), MT(H)), R)          \* STEP 3 innovation covariance
         C  == MMul(Pg, MT(H))                            \*        cross covariance
         K  == MMul(C, MInv(S))                           \*        gain
         Pp == MSub(pred.P, MMul(MMul(K, S), MT(K)))      \* STEP 4
     IN /\ fc' = [H |-> H, R |-> R, S |-> S, C |-> C, K |-> K, P |-> Pp]
        /\ pc' = IF MIsNum(S) /\ MIsNum(K) /\ MIsNum(Pp) THEN "update" ELSE "overflow"
  /\ UNCHANGED <<sys, x, P, pred, obs, est, step, hist>>

\* update(): the mean half
Update ==
  /\ pc = "update"
  /\ LET nu == VSub(StackY, MVec(fc.H, pred.x))
         ex == VAdd(pred.x, MVec(fc.K, nu))
     IN /\ est' = [x |-> ex, P |-> fc.P]
        /\ pc' = IF VIsNum(ex) THEN "advance" ELSE "overflow"
  /\ UNCHANGED <<sys, x, P, pred, obs, fc, step, hist>>

\* update([]): no observation - the propagated mean and the predicted covariance are kept
UpdateNoObs ==
  /\ pc = "forecast" /\ Len(obs) = 0
  /\ est' = [x |-> pred.x, P |-> pred.P]
  /\ fc' = None
  /\ pc' = "advance"
  /\ UNCHANGED <<sys, x, P, pred, obs, step, hist>>

StepRecord == [obs |-> obs, predx |-> pred.x, predP |-> pred.P,
               S |-> IF Len(obs) = 0 THEN None ELSE fc.S,
               K |-> IF Len(obs) = 0 THEN None ELSE fc.K,
               estx |-> est.x, estP |-> est.P]
Advance ==
  /\ pc = "advance"
  /\ hist' = Append(hist, StepRecord)
  /\ x' = est.x /\ P' = est.P
  /\ step' = step + 1
  /\ pc' = IF step = sys.nsteps THEN "done" ELSE "predict"
  /\ UNCHANGED <<sys, pred, obs, fc, est>>

Next == PoseShape \/ PoseDynamics \/ PosePrior \/ Predict \/ PoseStack \/ PoseObs
        \/ Forecast \/ Update \/ UpdateNoObs \/ Advance
Spec == Init /\ [][Next]_vars

---------------------------------------------------------------------------
\* where the pieces of the state are meaningful
Posed   == pc \notin {"start"}
HasPri  == pc \in {"predict", "stack", "obs", "forecast", "update", "advance"}
HasPred == pc \in {"stack", "obs", "forecast", "update", "advance"}
HasFc   == pc = "update"
HasEst  == pc = "advance"

\* a relation whose own verification arithmetic is not representable is left undecided
MEqU(A, B) == ~MIsNum(A) \/ ~MIsNum(B) \/ MEq(A, B)
VEqU(u, v) == ~VIsNum(u) \/ ~VIsNum(v) \/ VEq(u, v)
PSDU(A)    == IsSym(A) /\ \A ix \in PrincipalSets(NRows(A)) :
                             LET d == SubDet(A, ix) IN ~IsNum(d) \/ d[1] >= 0

\* ---- the property ----
WeightsSumToOne  == Posed => CEq(CAdd(W0m(sys), CMul(Q(2 * sys.n), Wi(sys))), One)
UnitSecondMoment == Posed => CEq(CMul(Q(2), CMul(Wi(sys), Gamma2(sys))), One)
TuningAdmissible == Posed => CGt0(Gamma2(sys))

Symmetric == /\ HasPri  => IsSym(P)
             /\ HasPred => IsSym(pred.P) /\ IsSym(pred.prop)
             /\ HasFc   => IsSym(fc.S) /\ IsSym(fc.P)
             /\ HasEst  => IsSym(est.P)
PSD       == /\ HasPri  => PSDU(P)
             /\ HasPred => PSDU(pred.P) /\ PSDU(pred.prop)
             /\ HasFc   => PSDU(fc.S) /\ CGt0(Det(fc.S)) /\ PSDU(fc.P)
             /\ HasEst  => PSDU(est.P)
KSKt == MMul(MMul(fc.K, fc.S), MT(fc.K))
PosteriorIsPriorMinusKSKt == HasFc => MEqU(fc.P, MSub(pred.P, KSKt))
PosteriorLePrior == /\ HasFc  => PSDU(MSub(pred.P, fc.P))
                    /\ HasEst => PSDU(MSub(pred.P, est.P))
NoObsReturnsPropagatedMean ==
  (pc = "advance" /\ Len(obs) = 0) => /\ VEqU(est.x, MVec(QM(sys.F), x))
                                      /\ MEq(est.P, pred.P)

\* ---- independent algebraic cross-checks of the reference itself ----
GainSolvesNormalEquations == HasFc => MEqU(MMul(fc.K, fc.S), fc.C)
ImKH == MSub(Ident(sys.n), MMul(fc.K, fc.H))
RedrawIsTextbookKalman ==
  (HasFc /\ sys.resample) =>
     /\ MEqU(fc.P, MMul(ImKH, pred.P))
     /\ MEqU(fc.P, MAdd(MMul(MMul(ImKH, pred.P), MT(ImKH)),
                        MMul(MMul(fc.K, fc.R), MT(fc.K))))              \* Joseph form
NoRedrawIsVariant ==
  (HasFc /\ ~sys.resample) => MEqU(fc.P, MAdd(QM(sys.Q), MMul(ImKH, pred.prop)))

\* every number kept in a live state is exact and below 10^9
NoOverflow ==
  pc # "overflow" =>
     /\ HasPri  => VIsNum(x) /\ VSmall(x) /\ MIsNum(P) /\ MSmall(P)
     /\ HasPred => VIsNum(pred.x) /\ VSmall(pred.x) /\ MIsNum(pred.P) /\ MSmall(pred.P)
     /\ HasFc   => /\ MIsNum(fc.S) /\ MSmall(fc.S) /\ MIsNum(fc.K) /\ MSmall(fc.K)
                   /\ MIsNum(fc.P) /\ MSmall(fc.P)
     /\ HasEst  => VIsNum(est.x) /\ VSmall(est.x) /\ MIsNum(est.P) /\ MSmall(est.P)

\* ---- hand-over to the replay driver ----
Emit == pc = "done" =>
          PrintT("LG " \o ToJson([n |-> sys.n, resample |-> sys.resample, tun |-> sys.tun,
                                  w |-> [w0m |-> W0m(sys), wi |-> Wi(sys), w0c |-> W0c(sys),
                                         gamma2 |-> Gamma2(sys)],
                                  F |-> sys.F, Q |-> sys.Q, x0 |-> sys.x0, P0 |-> sys.P0,
                                  steps |-> hist]))
EmitOverflow == pc = "overflow" => PrintT(<<"LGOVF", step>>)

---------------------------------------------------------------------------
(* Lattice values for the cfg files (cfg syntax has no tuples / negative    *)
(* numbers).  M1(a) is the 1x1 matrix, D2 a diagonal, M2 a dense 2x2.       *)
M1(a) == <<<<a>>>>
D2(a, d) == <<<<a, 0>>, <<0, d>>>>
M2(a, b, c, d) == <<<<a, b>>, <<c, d>>>>
R2(a, b) == <<<<a, b>>>>                   \* 1 x 2 (one scalar observation of a 2-state)
C2(a, b) == <<<<a>>, <<b>>>>               \* 2 x 1 (one 2-dim observation of a 1-state)
T(a, b, k, d) == [alpha |-> a, beta |-> b, kappa |-> k, dflt |-> d]

\* tunings: alpha = 1 (positive centre weight), alpha < 1 (negative centre weight), the
\* repository default 1/1000, kappa = 0 (zero centre weight), negative / fractional kappa
TunDefault   == T(<<1, 1000>>, <<2, 1>>, Zero, TRUE)
TunOne       == T(<<1, 1>>, <<2, 1>>, Zero, TRUE)
TunHalf      == T(<<1, 2>>, <<2, 1>>, Zero, TRUE)
TunZeroW0    == T(<<1, 1>>, <<0, 1>>, Zero, FALSE)
TunTenth     == T(<<1, 10>>, <<3, 2>>, <<1, 1>>, FALSE)
TunNegKappa  == T(<<1, 1>>, <<2, 1>>, <<-1, 2>>, FALSE)
TunThreeQ    == T(<<3, 4>>, <<1, 1>>, <<2, 1>>, FALSE)
TuningsQuick == {TunOne, TunHalf, TunDefault}
TuningsAll   == {TunDefault, TunOne, TunHalf, TunZeroW0, TunTenth, TunNegKappa, TunThreeQ}

F1q == {M1(1), M1(2), M1(-1)}
F1t == F1q \cup {M1(-2), M1(0), M1(3)}
F2q == {M2(1, 1, 0, 1), M2(0, -1, 1, 0), M2(2, 0, 1, -1), M2(1, 1, 1, 1)}
F2t == F2q \cup {M2(1, 0, 0, 1), M2(1, 2, -1, 0), M2(-2, 1, 1, 2), M2(0, 0, 0, 0)}
Q1q == {M1(1), M1(4)}
Q1t == Q1q \cup {M1(9), M1(2)}
Q2q == {D2(1, 4), M2(2, -1, -1, 1)}
Q2t == Q2q \cup {D2(1, 1), D2(9, 4), M2(2, 1, 1, 2)}
X1q == {<<0>>, <<3>>}
X1t == X1q \cup {<<-2>>}
X2q == {<<1, -2>>, <<3, 1>>}
X2t == X2q \cup {<<0, 0>>}
P1q == {M1(1), M1(4), M1(9)}
P1t == P1q \cup {M1(2)}
P2q == {D2(4, 9), D2(1, 1), M2(4, -2, -2, 9)}
P2t == P2q \cup {D2(9, 1), D2(1, 4), M2(2, 1, 1, 2), M2(5, 3, 3, 2)}
H11q == {M1(1), M1(2), M1(-1)}
H11t == H11q \cup {M1(0), M1(-2)}
H12q == {C2(1, 1), C2(1, -2)}
H12t == H12q \cup {C2(2, 0), C2(-1, 1)}
H21q == {R2(1, 0), R2(1, 1), R2(-1, 2)}
H21t == H21q \cup {R2(0, 1), R2(1, -1), R2(2, 1), R2(0, 0)}
H22q == {M2(1, 0, 0, 1), M2(1, -1, 2, 1), M2(1, 1, 1, 1)}
H22t == H22q \cup {M2(0, 1, 1, 0), M2(1, 0, 1, 1), M2(2, 0, 0, -2)}
Rs1q == {M1(1), M1(4)}
Rs1t == Rs1q \cup {M1(9), M1(2)}
Rs2q == {D2(9, 1), M2(2, 1, 1, 1)}
Rs2t == Rs2q \cup {D2(1, 4), D2(4, 4), M2(4, -2, -2, 9)}
Y1q == {<<3>>}
Y1t == {<<3>>, <<-1>>}
Y2q == {<<-2, 5>>}
Y2t == {<<-2, 5>>, <<1, 0>>}

FSetsQuick == <<F1q, F2q>>      FSetsThorough == <<F1t, F2t>>
QSetsQuick == <<Q1q, Q2q>>      QSetsThorough == <<Q1t, Q2t>>
XSetsQuick == <<X1q, X2q>>      XSetsThorough == <<X1t, X2t>>
PSetsQuick == <<P1q, P2q>>      PSetsThorough == <<P1t, P2t>>
HSetsQuick == <<<<H11q, H12q>>, <<H21q, H22q>>>>
HSetsThorough == <<<<H11t, H12t>>, <<H21t, H22t>>>>
RSetsQuick == <<Rs1q, Rs2q>>    RSetsThorough == <<Rs1t, Rs2t>>
YSetsQuick == <<Y1q, Y2q>>      YSetsThorough == <<Y1t, Y2t>>

\* stack shapes: tuples of observation dimensions (total <= 3)
ShapesAll  == {<<>>, <<1>>, <<2>>, <<1, 1>>, <<1, 2>>, <<2, 1>>}
StacksOne  == <<ShapesAll, {<<>>}>>
StacksSeq  == <<{<<>>, <<1>>, <<1, 2>>}, {<<>>, <<2>>, <<2, 1>>}>>
StacksSeqT == <<{<<>>, <<1>>, <<2>>, <<1, 2>>}, {<<>>, <<1>>, <<2>>, <<2, 1>>}>>

\* the big lattice sampled by TLC's simulator (seeded): all F, H with entries in -2..2,
\* all diagonal and a family of dense positive-definite P, Q, R
E5 == {-2, -1, 0, 1, 2}
V3 == {1, 4, 9}
Dense2 == {M2(2, 1, 1, 2), M2(2, -1, -1, 1), M2(4, -2, -2, 9), M2(5, 3, 3, 2), M2(9, 3, 3, 2),
           M2(1, 1, 1, 3), M2(3, -2, -2, 3)}
Cov1 == {M1(v) : v \in {1, 2, 4, 9}}
Cov2 == {D2(a, d) : a \in V3, d \in V3} \cup Dense2
FSetsBig == <<{M1(a) : a \in E5 \cup {3}}, {M2(a, b, c, d) : a \in E5, b \in E5, c \in E5, d \in E5}>>
QSetsBig == <<Cov1, Cov2>>
PSetsBig == <<Cov1, Cov2>>
XSetsBig == <<{<<a>> : a \in {-3, 0, 1, 5}}, {<<a, b>> : a \in {-3, 0, 2}, b \in {-1, 0, 4}}>>
HSetsBig == <<<<{M1(a) : a \in E5}, {C2(a, b) : a \in E5, b \in E5}>>,
              <<{R2(a, b) : a \in E5, b \in E5}, {M2(a, b, c, d) : a \in E5, b \in E5, c \in E5, d \in E5}>>>>
RSetsBig == <<Cov1, Cov2>>
YSetsBig == <<{<<a>> : a \in {-4, 0, 3}}, {<<a, b>> : a \in {-4, 0, 3}, b \in {-1, 2}}>>
StacksBig == <<ShapesAll, ShapesAll>>
=============================================================================
