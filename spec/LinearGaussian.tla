--------------------------- MODULE LinearGaussian ---------------------------
(***************************************************************************)
(* Property C06: on a linear-Gaussian system the unscented filter IS the   *)
(* Kalman filter, and its covariances stay valid.                          *)
(*                                                                         *)
(* The module is the reference filter, in EXACT rational arithmetic, on a  *)
(* finite lattice of systems                                               *)
(*      x' = F x + w,  w ~ N(0, Q)        y_i = H_i x + v_i, v_i ~ N(0,R_i) *)
(* of state dimension 1..2 with small-integer F, H_i, P0, Q, R_i, x0, y_i, *)
(* stacks of 0..2 simultaneous observations of dimension 1..2 each (total  *)
(* measurement dimension <= 3), 1..2 filter steps, both resampling modes   *)
(* and a set of rational tunings (alpha, beta, kappa).                     *)
(*                                                                         *)
(* It is a state machine with one action per step of the implementation    *)
(* (src/resonaate/estimation/kalman/unscented_kalman_filter.py):            *)
(*   PoseShape/PoseDynamics/PosePrior   UnscentedKalmanFilter.__init__      *)
(*   Predict          predict(): predictStateEstimate + predictCovariance   *)
(*   PoseCandidates/PoseCandidate   the stand-alone forecast(candidate)     *)
(*                    calls the tasking engine makes for every candidate    *)
(*                    sensor: a real step is predict, forecast x k, update  *)
(*   PoseStack/PoseObs   the list[Observation] handed to update()           *)
(*   Forecast         forecast(): STEP 0 (resample) .. STEP 4 (est_p); on   *)
(*                    its own (then Discard) or as the first half of update *)
(*   Update           update(): innovation, est_x                           *)
(*   UpdateNoObs      update([]): est_x = zeroth sigma point, est_p = pred_p*)
(*   Advance          the posterior becomes the next step's prior           *)
(*                                                                         *)
(* What the unscented transform gives on a LINEAR map (no approximation):  *)
(* sigma points  X_0 = x, X_(+-i) = x +- gamma L_i  with L L' = P,         *)
(* gamma^2 = n + lambda, weights Wm_0 = lambda/(n+lambda), W_i = 1/(2(n+   *)
(* lambda)); then  sum Wm_i F X_i = F x  (needs WeightsSumToOne) and       *)
(* sum Wc_i (F X_i - F x)(F X_i - F x)' = 2 W_i gamma^2 F P F' = F P F'    *)
(* (needs UnitSecondMoment; the zeroth residual vanishes so beta drops     *)
(* out).  Hence, for every admissible tuning:                              *)
(*   predict :  x- = F x,  Pprop = F P F',  P- = Pprop + Q                 *)
(*   update, REDRAW mode (sigma points redrawn from (x-, P-) first) - the  *)
(*     textbook Kalman update:                                             *)
(*       S = H P- H' + R,  C = P- H',  K = C S^-1,                          *)
(*       x+ = x- + K (y - H x-),  P+ = P- - K S K'                          *)
(*   update, NO-REDRAW mode (the documented variant: the propagated sigma  *)
(*     points are reused, they carry Pprop, not P-):                       *)
(*       S = H Pprop H' + R,  C = Pprop H',  K = C S^-1,                    *)
(*       x+ = x- + K (y - H x-),  P+ = P- - K S K'                          *)
(*   no observation:  x+ = F x (the propagated mean itself),  P+ = P-.     *)
(*                                                                         *)
(* Property formulas (INVARIANTs): WeightsSumToOne, UnitSecondMoment,      *)
(* TuningAdmissible, Symmetric, PSD, PosteriorIsPriorMinusKSKt,            *)
(* PosteriorLePrior (Loewner order through principal minors),              *)
(* NoObsReturnsPropagatedMean, ForecastUsesFreshSigmaPoints and            *)
(* ForecastKeepsEstimate (a forecast changes nothing a later predict /     *)
(* update depends on; sg tracks what the stored sigma points carry; the    *)
(* named deviation StaleResampleFlag = TRUE - redraw once per measurement  *)
(* update, flag cleared only by update() with observations - is refuted    *)
(* by TLC on LatsDeviation), and the independent algebraic cross-checks    *)
(* GainSolvesNormalEquations, RedrawIsTextbookKalman (Joseph form and      *)
(* (I-KH)P-), NoRedrawIsVariant, NoOverflow.                               *)
(*                                                                         *)
(* Every "done" state prints the behaviour (inputs and the expected        *)
(* pred_x, pred_p, innov_cvr, kalman_gain, est_x, est_p of every step as   *)
(* rational matrices [n |-> integers, d |-> common denominator]);          *)
(* harness/drivers/c06.py replays it into the real filter.  Arithmetic is  *)
(* checked (QMatrices.tla): a behaviour some number of which cannot be     *)
(* kept below 10^9 in 32-bit integers goes to pc = "overflow", is counted  *)
(* (EmitOverflow) and is not emitted - never computed wrongly.             *)
(***************************************************************************)
EXTENDS Integers, Sequences, FiniteSets, TLC, Json, IOUtils, QMatrices

\* The lattice.  Lattices is a SEQUENCE of records (one product lattice each); every field
\* is a sequence of candidate values (sequences, not sets, so that a lattice can also be
\* read from a JSON file written by the driver):
\*   dims   state dimensions (subset of 1..2)     modes  BOOLEANs, TRUE = resample/redraw
\*   tun    tunings [alpha, beta, kappa : <<num, den>>, dflt : BOOLEAN (kappa = 3 - n)]
\*   nsteps sequence lengths (subset of 1..2)     stacks stacks[step] = stack shapes, a shape
\*                                                       is a tuple of observation dimensions
\*   F, Q, X, P   [n]    integer n x n matrices (n-vectors for X)
\*   H            [n][m] integer m x n matrices
\*   R, Y         [m]    integer m x m matrices / m-vectors
\*   fseqs  fseqs[step] = admissible sequences of stand-alone forecast() calls made between
\*          predict() and update() (the tasking engine scores every candidate sensor that
\*          way); each is a sequence of stack shapes, <<>> = no forecast in that step
\*   CH, CR       [n][m] / [m]  H and R of the candidate observations of those forecasts
\*   nc           number of entries of every CH[n][m] and CR[m]
CONSTANTS Lattices,
          StaleResampleFlag    \* named DEVIATION (FALSE = as designed): forecast() redraws the
                               \* sigma points only while a `resampled` flag is clear and the flag
                               \* is cleared only by update() WITH observations

VARIABLES pc, sys, x, P, pred, obs, fc, est, step, hist,
          sg       \* sigma-point bookkeeping of the step:
                   \*   sp    what the stored sigma points carry: "prop" (propagated: mean F x,
                   \*         covariance F P F') or "pred" (redrawn from (x-, P-))
                   \*   flag  the deviation's `resampled` flag
                   \*   cands stand-alone forecasts still to come,  alone  obs is such a candidate
                   \*   fcs   outputs of the stand-alone forecasts of this step
vars == <<pc, sys, x, P, pred, obs, fc, est, step, hist, sg>>

None == <<>>
NoSys == [lat |-> 0, n |-> 0, resample |-> FALSE, tun |-> None, nsteps |-> 0, F |-> None,
          Qm |-> None, x0 |-> None, P0 |-> None]
SeqRange(q) == {q[i] : i \in 1..Len(q)}
Lat == Lattices[sys.lat]

---------------------------------------------------------------------------
\* unscented-transform tuning (UnscentedKalmanFilter.__init__)
Kappa(s)   == IF s.tun.dflt THEN Q(3 - s.n) ELSE s.tun.kappa
Alpha2(s)  == CMul(s.tun.alpha, s.tun.alpha)
Gamma2(s)  == CMul(Alpha2(s), CAdd(Q(s.n), Kappa(s)))          \* n + lambda
Lambda(s)  == CSub(Gamma2(s), Q(s.n))
W0m(s)     == CDiv(Lambda(s), Gamma2(s))
Wi(s)      == CInv(CMul(Q(2), Gamma2(s)))
W0c(s)     == CAdd(W0m(s), CAdd(CSub(One, Alpha2(s)), s.tun.beta))
AdmissibleTuning(s) == CGt0(Gamma2(s)) /\ IsNum(W0m(s)) /\ IsNum(Wi(s)) /\ IsNum(W0c(s))

---------------------------------------------------------------------------
Init == /\ pc = "start" /\ sys = NoSys /\ x = None /\ P = None /\ pred = None
        /\ obs = None /\ fc = None /\ est = None /\ step = 0 /\ hist = <<>>
        /\ sg = [sp |-> "none", flag |-> FALSE, cands |-> <<>>, alone |-> FALSE, fcs |-> <<>>]

\* the system is posed in stages so that TLC's workers share the enumeration
PoseShape ==
  /\ pc = "start"
  /\ \E g \in 1..Len(Lattices) :
       \E n \in SeqRange(Lattices[g].dims), r \in SeqRange(Lattices[g].modes),
          t \in SeqRange(Lattices[g].tun), k \in SeqRange(Lattices[g].nsteps) :
        /\ AdmissibleTuning([NoSys EXCEPT !.n = n, !.tun = t])
        /\ sys' = [NoSys EXCEPT !.lat = g, !.n = n, !.resample = r, !.tun = t, !.nsteps = k]
  /\ pc' = "shape" /\ UNCHANGED <<x, P, pred, obs, fc, est, step, hist, sg>>

PoseDynamics ==
  /\ pc = "shape"
  /\ \E F \in SeqRange(Lat.F[sys.n]), Qm \in SeqRange(Lat.Q[sys.n]) : sys' = [sys EXCEPT !.F = F, !.Qm = Qm]
  /\ pc' = "dynamics" /\ UNCHANGED <<x, P, pred, obs, fc, est, step, hist, sg>>

PosePrior ==
  /\ pc = "dynamics"
  /\ \E x0 \in SeqRange(Lat.X[sys.n]), P0 \in SeqRange(Lat.P[sys.n]) :
        /\ x' = QV(x0) /\ P' = QM(P0) /\ sys' = [sys EXCEPT !.x0 = x0, !.P0 = P0]
  /\ step' = 1 /\ pc' = "predict" /\ UNCHANGED <<pred, obs, fc, est, hist, sg>>

\* predict(): pred_x = sum Wm_i F X_i = F x;  pred_p = sum Wc_i res res' + Q = F P F' + Q
Predict ==
  /\ pc = "predict"
  /\ LET F    == QM(sys.F)
         px   == MMul(F, x)
         prop == MMul(MMul(F, P), MT(F))
         pp   == MAdd(prop, QM(sys.Qm))
     IN /\ pred' = [x |-> px, prop |-> prop, P |-> pp]
        /\ pc' = IF MOk(px) /\ MOk(pp) THEN "cands" ELSE "overflow"
  /\ sg' = [sg EXCEPT !.sp = "prop"]          \* the stored sigma points are the propagated ones
  /\ UNCHANGED <<sys, x, P, obs, fc, est, step, hist>>

\* the stand-alone forecast() calls of this step (reward computation, one per candidate sensor)
PoseCandidates ==
  /\ pc = "cands"
  /\ \E fs \in SeqRange(Lat.fseqs[step]) : sg' = [sg EXCEPT !.cands = fs]
  /\ pc' = "stack" /\ UNCHANGED <<sys, x, P, pred, obs, fc, est, step, hist>>
PoseCandidate ==
  /\ pc = "stack" /\ Len(sg.cands) > 0
  /\ LET shape == Head(sg.cands)
     IN \E j \in 1..Lat.nc :          \* CH[n][m], CR[m] all have nc entries
          obs' = [k \in 1..Len(shape) |->
                    [m |-> shape[k], H |-> Lat.CH[sys.n][shape[k]][j],
                     R |-> Lat.CR[shape[k]][j], y |-> [i \in 1..shape[k] |-> 0]]]
  /\ sg' = [sg EXCEPT !.cands = Tail(sg.cands), !.alone = TRUE]
  /\ pc' = "forecast" /\ UNCHANGED <<sys, x, P, pred, fc, est, step, hist>>

\* the observations of this step: first the shape of the stack, then one observation at a time
PoseStack ==
  /\ pc = "stack" /\ Len(sg.cands) = 0
  /\ \E shape \in SeqRange(Lat.stacks[step]) :
        /\ obs' = [k \in 1..Len(shape) |-> [m |-> shape[k], H |-> None, R |-> None, y |-> None]]
        /\ pc' = IF Len(shape) = 0 THEN "forecast" ELSE "obs"
  /\ UNCHANGED <<sys, x, P, pred, fc, est, step, hist, sg>>

NextOpen == CHOOSE k \in 1..Len(obs) : obs[k].H = None /\ \A j \in 1..(k - 1) : obs[j].H # None
PoseObs ==
  /\ pc = "obs"
  /\ LET k == NextOpen  m == obs[k].m
     IN \E H \in SeqRange(Lat.H[sys.n][m]), R \in SeqRange(Lat.R[m]), y \in SeqRange(Lat.Y[m]) :
           /\ obs' = [obs EXCEPT ![k] = [m |-> m, H |-> H, R |-> R, y |-> y]]
           /\ pc' = IF k = Len(obs) THEN "forecast" ELSE "obs"
  /\ UNCHANGED <<sys, x, P, pred, fc, est, step, hist, sg>>

\* the stacked measurement model of the step: H rows, block-diagonal R, stacked y (column)
StackH == QM(VStack([k \in 1..Len(obs) |-> obs[k].H]))
StackR == QM(BlockDiag([k \in 1..Len(obs) |-> obs[k].R]))
StackY == QM(VStack([k \in 1..Len(obs) |-> [i \in 1..obs[k].m |-> <<obs[k].y[i]>>]]))

\* forecast(): the covariance half of the measurement update; called by update() and, any
\* number of times before it, on its own for candidate observations (sg.alone)
Redraws == sys.resample /\ (~StaleResampleFlag \/ ~sg.flag)     \* STEP 0 redraws the sigma points
SpNow   == IF Redraws THEN "pred" ELSE sg.sp
Forecast ==
  /\ pc = "forecast" /\ Len(obs) > 0
  /\ LET H  == StackH
         R  == StackR
         \* STEP 0: covariance carried by the sigma points that are pushed through H
         Pg == IF SpNow = "pred" THEN pred.P ELSE pred.prop
         C  == MMul(Pg, MT(H))                            \* STEP 3 cross covariance
         S  == MAdd(MMul(H, C), R)                        \*        innovation covariance
         K  == MMul(C, MInv(S))                           \*        gain
         Pp == MSub(pred.P, MMul(MMul(K, S), MT(K)))      \* STEP 4
     IN /\ fc' = [H |-> H, R |-> R, S |-> S, C |-> C, K |-> K, P |-> Pp]
        /\ pc' = IF MOk(S) /\ MOk(K) /\ MOk(Pp) THEN (IF sg.alone THEN "forecasted" ELSE "update")
                 ELSE "overflow"
  /\ sg' = [sg EXCEPT !.sp = SpNow, !.flag = IF sys.resample /\ StaleResampleFlag THEN TRUE ELSE @]
  /\ UNCHANGED <<sys, x, P, pred, obs, est, step, hist>>

\* a stand-alone forecast is only looked at (reward); nothing of it is kept for the update
Discard ==
  /\ pc = "forecasted"
  /\ sg' = [sg EXCEPT !.alone = FALSE, !.fcs = Append(@, [obs |-> obs, S |-> fc.S, K |-> fc.K, P |-> fc.P])]
  /\ obs' = None /\ pc' = "stack"
  /\ UNCHANGED <<sys, x, P, pred, fc, est, step, hist>>

\* update(): the mean half
Update ==
  /\ pc = "update"
  /\ LET nu == MSub(StackY, MMul(fc.H, pred.x))
         ex == MAdd(pred.x, MMul(fc.K, nu))
     IN /\ est' = [x |-> ex, P |-> fc.P]
        /\ pc' = IF MOk(ex) THEN "advance" ELSE "overflow"
  /\ sg' = [sg EXCEPT !.flag = FALSE]
  /\ UNCHANGED <<sys, x, P, pred, obs, fc, step, hist>>

\* update([]): no observation - the propagated mean and the predicted covariance are kept
UpdateNoObs ==
  /\ pc = "forecast" /\ Len(obs) = 0
  /\ est' = [x |-> pred.x, P |-> pred.P]
  /\ fc' = None
  /\ pc' = "advance"
  /\ UNCHANGED <<sys, x, P, pred, obs, step, hist, sg>>

StepRecord == [obs |-> obs, fcs |-> sg.fcs, predx |-> pred.x, predP |-> pred.P,
               S |-> IF Len(obs) = 0 THEN None ELSE fc.S,
               K |-> IF Len(obs) = 0 THEN None ELSE fc.K,
               estx |-> est.x, estP |-> est.P]
Advance ==
  /\ pc = "advance"
  /\ hist' = Append(hist, StepRecord)
  /\ x' = est.x /\ P' = est.P
  /\ step' = step + 1
  /\ pc' = IF step = sys.nsteps THEN "done" ELSE "predict"
  /\ sg' = [sg EXCEPT !.fcs = <<>>]
  /\ UNCHANGED <<sys, pred, obs, fc, est>>

Next == PoseShape \/ PoseDynamics \/ PosePrior \/ Predict \/ PoseCandidates \/ PoseCandidate
        \/ PoseStack \/ PoseObs \/ Forecast \/ Discard \/ Update \/ UpdateNoObs \/ Advance
Spec == Init /\ [][Next]_vars

---------------------------------------------------------------------------
\* where the pieces of the state are meaningful
Posed   == pc \notin {"start"}
HasPri  == pc \in {"predict", "cands", "stack", "obs", "forecast", "forecasted", "update", "advance"}
HasPred == pc \in {"cands", "stack", "obs", "forecast", "forecasted", "update", "advance"}
HasFc   == pc \in {"update", "forecasted"}      \* the state right after Forecast (in update() / alone)
HasEst  == pc = "advance"

\* a relation whose own verification arithmetic is not representable is left undecided
MEqU(A, B) == ~MOk(A) \/ ~MOk(B) \/ A = B

\* ---- the property ----
WeightsSumToOne  == Posed => CEq(CAdd(W0m(sys), CMul(Q(2 * sys.n), Wi(sys))), One)
UnitSecondMoment == Posed => CEq(CMul(Q(2), CMul(Wi(sys), Gamma2(sys))), One)
TuningAdmissible == Posed => CGt0(Gamma2(sys))

Symmetric == /\ HasPri  => IsSym(P)
             /\ (pc = "cands") => IsSym(pred.P) /\ IsSym(pred.prop)
             /\ HasFc   => IsSym(fc.S) /\ IsSym(fc.P)
             /\ HasEst  => IsSym(est.P)
PSD       == /\ (pc = "predict") => IsPSD(P)
             /\ (pc = "cands") => IsPSD(pred.P) /\ IsPSD(pred.prop)
             /\ HasFc   => IsPD(fc.S) /\ IsPSD(fc.P)
             /\ HasEst  => IsPSD(est.P)
KSKt == MMul(MMul(fc.K, fc.S), MT(fc.K))
PosteriorIsPriorMinusKSKt == HasFc => MEqU(fc.P, MSub(pred.P, KSKt))
PosteriorLePrior == /\ HasFc  => LoewnerLe(fc.P, pred.P)
                    /\ HasEst => LoewnerLe(est.P, pred.P)
NoObsReturnsPropagatedMean ==
  (pc = "advance" /\ Len(obs) = 0) => /\ MEqU(est.x, MMul(QM(sys.F), x))
                                      /\ MEq(est.P, pred.P)

\* a forecast changes nothing a later predict/update depends on: whatever forecasts happened
\* before (in this or an earlier step), a forecast in resample mode works on sigma points
\* redrawn from (x-, P-), so its S, K, P+ are the Kalman values of THIS step (together with
\* RedrawIsTextbookKalman below, which is evaluated after every Forecast, stand-alone or not)
ForecastUsesFreshSigmaPoints == (HasFc /\ sys.resample) => sg.sp = "pred"
ForecastKeepsEstimate == [][pc = "forecast" /\ sg.alone => UNCHANGED <<x, P, pred, est>>]_vars

\* ---- independent algebraic cross-checks of the reference itself ----
GainSolvesNormalEquations == HasFc => MEqU(MMul(fc.K, fc.S), fc.C)
ImKH == MSub(Ident(sys.n), MMul(fc.K, fc.H))
RedrawIsTextbookKalman ==
  (HasFc /\ sys.resample) =>
     /\ fc.C = MMul(pred.P, MT(fc.H))
     /\ MEqU(fc.S, MAdd(MMul(MMul(fc.H, pred.P), MT(fc.H)), fc.R))
     /\ MEqU(fc.P, MMul(ImKH, pred.P))
     /\ MEqU(fc.P, MAdd(MMul(MMul(ImKH, pred.P), MT(ImKH)),
                        MMul(MMul(fc.K, fc.R), MT(fc.K))))              \* Joseph form
NoRedrawIsVariant ==
  (HasFc /\ ~sys.resample) =>
     /\ MEqU(fc.S, MAdd(MMul(MMul(fc.H, pred.prop), MT(fc.H)), fc.R))
     /\ MEqU(fc.P, MAdd(QM(sys.Qm), MMul(ImKH, pred.prop)))

\* a change of units (state and measurements scaled by c: covariances by c^2) changes nothing but the units: the
\* innovation covariance and the posterior scale by c^2, the gain does not change.  The harness replays every
\* behaviour in units scaled by 2^-17, 2^-10, 2^10 on the strength of this (an implementation that looks at the
\* ABSOLUTE size of a covariance entry breaks it).
MScal(A, k) == IF ~MOk(A) \/ ~MulFits(MaxAbs(A.n), k) THEN Bad
               ELSE Mk(IMat(Rows(A), Cols(A), LAMBDA i, j : k * A.n[i][j]), A.d)
UnitChangeEquivariant ==
  HasFc => \A c2 \in {4, 9} :
     LET Cc == MScal(fc.C, c2)
         Sc == MAdd(MMul(fc.H, Cc), MScal(fc.R, c2))
         Kc == MMul(Cc, MInv(Sc))
     IN /\ MEqU(Sc, MScal(fc.S, c2))
        /\ MEqU(Kc, fc.K)
        /\ MEqU(MSub(MScal(pred.P, c2), MMul(MMul(Kc, Sc), MT(Kc))), MScal(fc.P, c2))

\* every number kept in a live state is exact and below 10^9
NoOverflow ==
  pc # "overflow" =>
     /\ HasPri  => MOk(x) /\ MSmall(x) /\ MOk(P) /\ MSmall(P)
     /\ HasPred => MOk(pred.x) /\ MSmall(pred.x) /\ MOk(pred.P) /\ MSmall(pred.P)
     /\ HasFc   => /\ MOk(fc.S) /\ MSmall(fc.S) /\ MOk(fc.K) /\ MSmall(fc.K)
                   /\ MOk(fc.P) /\ MSmall(fc.P)
     /\ HasEst  => MOk(est.x) /\ MSmall(est.x) /\ MOk(est.P) /\ MSmall(est.P)

\* ---- hand-over to the replay driver (matrices as [n |-> integers, d |-> denominator]) ----
Emit == pc = "done" =>
          PrintT("LG " \o ToJson([n |-> sys.n, resample |-> sys.resample, tun |-> sys.tun,
                                  w |-> [w0m |-> W0m(sys), wi |-> Wi(sys), w0c |-> W0c(sys),
                                         gamma2 |-> Gamma2(sys)],
                                  F |-> sys.F, Q |-> sys.Qm, x0 |-> sys.x0, P0 |-> sys.P0,
                                  steps |-> hist]))
EmitOverflow == pc = "overflow" => PrintT(<<"LGOVF", step>>)

---------------------------------------------------------------------------
(* Lattice values for the cfg files (cfg syntax has no tuples / negative    *)
(* numbers).  M1(a) is the 1x1 matrix, D2 a diagonal, M2 a dense 2x2.       *)
M1(a) == <<<<a>>>>
D2(a, d) == <<<<a, 0>>, <<0, d>>>>
M2(a, b, c, d) == <<<<a, b>>, <<c, d>>>>
R2(a, b) == <<<<a, b>>>>                   \* 1 x 2 (one scalar observation of a 2-state)
C2(a, b) == <<<<a>>, <<b>>>>               \* 2 x 1 (one 2-dim observation of a 1-state)
T(a, b, k, d) == [alpha |-> a, beta |-> b, kappa |-> k, dflt |-> d]

\* tunings: alpha = 1 (positive centre weight), alpha < 1 (negative centre weight), the
\* repository default 1/1000, kappa = 0 (zero centre weight), negative / fractional kappa
TunDefault   == T(<<1, 1000>>, <<2, 1>>, Zero, TRUE)
TunOne       == T(<<1, 1>>, <<2, 1>>, Zero, TRUE)
TunHalf      == T(<<1, 2>>, <<2, 1>>, Zero, TRUE)
TunZeroW0    == T(<<1, 1>>, <<0, 1>>, Zero, FALSE)
TunTenth     == T(<<1, 10>>, <<3, 2>>, <<1, 1>>, FALSE)
TunNegKappa  == T(<<1, 1>>, <<2, 1>>, <<-1, 2>>, FALSE)
TunThreeQ    == T(<<3, 4>>, <<1, 1>>, <<2, 1>>, FALSE)
TuningsAll   == <<TunDefault, TunOne, TunHalf, TunZeroW0, TunTenth, TunNegKappa, TunThreeQ>>

ShapesAll == <<<<>>, <<1>>, <<2>>, <<1, 1>>, <<1, 2>>, <<2, 1>>>>     \* total dimension <= 3
\* lattices without stand-alone forecasts
NoFc == [fseqs |-> << << <<>> >>, << <<>> >> >>, nc |-> 0, CH |-> <<>>, CR |-> <<>>]

\* ---- quick tier ----
\* single step: every stack shape, both modes, negative-centre-weight and default tunings
LatQuick ==
  [dims |-> <<1, 2>>, modes |-> <<TRUE, FALSE>>, tun |-> <<TunHalf, TunDefault>>,
   nsteps |-> <<1>>, stacks |-> <<ShapesAll, <<>>>>,
   F |-> << <<M1(2), M1(-1)>>,      <<M2(1, 1, 0, 1), M2(0, -1, 2, 0), M2(1, 1, 1, 1)>> >>,
   Q |-> << <<M1(1)>>,              <<D2(1, 4), M2(2, -1, -1, 1)>> >>,
   X |-> << <<<<3>>>>,              <<<<1, -2>>>> >>,
   P |-> << <<M1(4), M1(9)>>,       <<D2(4, 9), M2(4, -2, -2, 9)>> >>,
   H |-> << << <<M1(1), M1(-2)>>,         <<C2(1, 1), C2(1, -2)>> >>,
            << <<R2(1, 0), R2(-1, 2)>>,   <<M2(1, 0, 0, 1), M2(1, -1, 2, 1)>> >> >>,
   R |-> << <<M1(1), M1(4)>>,       <<D2(9, 1), M2(2, 1, 1, 1)>> >>,
   Y |-> << <<<<3>>>>,              <<<<-2, 5>>>> >>] @@ NoFc
\* two steps: the posterior of step 1 (rational) is the prior of step 2
LatSeqQuick ==
  [dims |-> <<1, 2>>, modes |-> <<TRUE, FALSE>>, tun |-> <<TunOne, TunTenth>>,
   nsteps |-> <<2>>,
   stacks |-> << <<<<>>, <<1>>, <<1, 2>>>>, <<<<>>, <<1>>, <<2>>, <<2, 1>>>> >>,
   F |-> << <<M1(2)>>,              <<M2(1, 1, 0, 1), M2(0, -1, 2, 0)>> >>,
   Q |-> << <<M1(1)>>,              <<D2(1, 4)>> >>,
   X |-> << <<<<3>>>>,              <<<<1, -2>>>> >>,
   P |-> << <<M1(4)>>,              <<D2(4, 9), M2(2, 1, 1, 2)>> >>,
   H |-> << << <<M1(1), M1(-2)>>,         <<C2(1, -2)>> >>,
            << <<R2(1, 0), R2(-1, 2)>>,   <<M2(1, -1, 2, 1)>> >> >>,
   R |-> << <<M1(4)>>,              <<D2(9, 1), M2(2, 1, 1, 1)>> >>,
   Y |-> << <<<<3>>>>,              <<<<-2, 5>>>> >>] @@ NoFc

\* two steps with stand-alone forecasts between predict and update (the tasking pattern
\* predict, forecast x k, update(obs or [])), non-zero dense Q, both modes
LatFcQuick ==
  [dims |-> <<1, 2>>, modes |-> <<TRUE, FALSE>>, tun |-> <<TunOne, TunDefault>>,
   nsteps |-> <<2>>,
   stacks |-> << <<<<>>, <<1>>>>, <<<<>>, <<1>>, <<2>>>> >>,
   fseqs  |-> << << <<>>, <<<<1>>>>, <<<<2>>, <<1>>>> >>, << <<>>, <<<<1, 2>>>> >> >>,
   nc |-> 1,
   CH |-> << << <<M1(2)>>, <<C2(1, -1)>> >>, << <<R2(1, 1)>>, <<M2(1, 0, 1, 2)>> >> >>,
   CR |-> << <<M1(2)>>, <<M2(3, 1, 1, 2)>> >>,
   F |-> << <<M1(2)>>,              <<M2(1, 1, 0, 1), M2(0, -1, 2, 0)>> >>,
   Q |-> << <<M1(4)>>,              <<D2(1, 4), M2(2, -1, -1, 1)>> >>,
   X |-> << <<<<3>>>>,              <<<<1, -2>>>> >>,
   P |-> << <<M1(4), M1(1)>>,       <<M2(2, 1, 1, 2)>> >>,
   H |-> << << <<M1(1)>>,           <<C2(1, -2)>> >>,
            << <<R2(-1, 2)>>,       <<M2(1, -1, 2, 1)>> >> >>,
   R |-> << <<M1(4)>>,              <<D2(9, 1)>> >>,
   Y |-> << <<<<3>>>>,              <<<<-2, 5>>>> >>]
\* the smallest lattice on which the named deviation StaleResampleFlag shows
LatDeviation ==
  [LatFcQuick EXCEPT !.dims = <<1>>, !.modes = <<TRUE>>, !.tun = <<TunOne>>,
                     !.fseqs = << <<<<<<1>>>>>>, << <<>> >> >>,
                     !.stacks = << <<<<>>>>, <<<<1>>>> >>]

\* ---- thorough tier ----
LatFcThorough ==
  [LatFcQuick EXCEPT !.tun = <<TunHalf, TunDefault, TunZeroW0, TunThreeQ>>,
                     !.stacks = << <<<<>>, <<1>>, <<2>>>>, <<<<>>, <<1>>, <<2>>, <<1, 1>>>> >>,
                     !.fseqs = << << <<>>, <<<<1>>>>, <<<<2>>, <<1>>>>, <<<<1>>, <<1>>, <<2>>>> >>,
                                  << <<>>, <<<<1, 2>>>>, <<<<2>>>> >> >>,
                     !.CH = << << <<M1(-1)>>, <<C2(0, 1)>> >>, << <<R2(0, 1)>>, <<M2(1, 0, 1, 2)>> >> >>,
                     !.CR = << <<M1(9)>>, <<M2(3, 1, 1, 2)>> >>,
                     !.H = << << <<M1(1), M1(-2)>>, <<C2(1, -2)>> >>,
                              << <<R2(-1, 2), R2(1, 0)>>, <<M2(1, -1, 2, 1)>> >> >>]
LatThorough ==
  [dims |-> <<1, 2>>, modes |-> <<TRUE, FALSE>>, tun |-> TuningsAll,
   nsteps |-> <<1>>, stacks |-> <<ShapesAll, <<>>>>,
   F |-> << <<M1(1), M1(-2), M1(3)>>,
            <<M2(1, 1, 0, 1), M2(1, 2, -1, 0), M2(-2, 1, 1, 2), M2(0, 0, 0, 0)>> >>,
   Q |-> << <<M1(2)>>,                     <<D2(9, 1), M2(2, 1, 1, 2)>> >>,
   X |-> << <<<<0>>, <<-2>>>>,             <<<<3, 1>>>> >>,
   P |-> << <<M1(1), M1(2)>>,              <<M2(5, 3, 3, 2), D2(9, 4)>> >>,
   H |-> << << <<M1(1), M1(-1), M1(0)>>,   <<C2(2, 0), C2(-1, 1)>> >>,
            << <<R2(0, 1), R2(1, 1), R2(0, 0)>>,
               <<M2(1, 1, 1, 1), M2(0, 1, 1, 0), M2(2, 0, 1, -2)>> >> >>,
   R |-> << <<M1(9), M1(2)>>,              <<D2(1, 4), M2(4, -2, -2, 9)>> >>,
   Y |-> << <<<<-1>>>>,                    <<<<1, 0>>>> >>] @@ NoFc
LatSeqThorough ==
  [dims |-> <<1, 2>>, modes |-> <<TRUE, FALSE>>,
   tun |-> <<TunHalf, TunDefault, TunZeroW0, TunNegKappa>>,
   nsteps |-> <<2>>,
   stacks |-> << <<<<>>, <<1>>, <<2>>, <<1, 2>>>>, <<<<>>, <<1>>, <<2>>, <<2, 1>>>> >>,
   F |-> << <<M1(-1), M1(1)>>,      <<M2(1, 1, 0, 1), M2(1, 0, 0, 1), M2(1, 1, 1, 1)>> >>,
   Q |-> << <<M1(1), M1(4)>>,       <<D2(1, 1), M2(2, -1, -1, 1)>> >>,
   X |-> << <<<<-2>>>>,             <<<<0, 3>>>> >>,
   P |-> << <<M1(1), M1(9)>>,       <<D2(1, 4), M2(2, 1, 1, 2)>> >>,
   H |-> << << <<M1(1), M1(2)>>,          <<C2(1, 1), C2(0, 1)>> >>,
            << <<R2(0, 1), R2(1, 1)>>,    <<M2(1, 0, 0, 1), M2(1, 1, 0, 1)>> >> >>,
   R |-> << <<M1(1)>>,              <<D2(1, 4)>> >>,
   Y |-> << <<<<-1>>>>,             <<<<1, 0>>>> >>] @@ NoFc

\* lattices written by the driver (seeded random sub-lattices of: F, H entries in -3..3,
\* P, Q, R random positive-definite integer matrices, x0, y in -6..6); "[]" when unused
LatsFile     == JsonDeserialize(IOEnv.LG_LATTICES)
LatsQuick    == <<LatQuick, LatSeqQuick, LatFcQuick>>
LatsThorough == <<LatThorough>>
LatsSeqThorough == <<LatSeqThorough, LatFcThorough>>
LatsDeviation == <<LatDeviation>>
=============================================================================
