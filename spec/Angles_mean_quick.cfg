SPECIFICATION SpecMean
CONSTANTS Algs = {"scalar"} VecReduceAsCoded = FALSE VecRecentreAsCoded = FALSE
CONSTANT TurnsA <- Turns0
CONSTANT TurnsB <- Turns0
CONSTANT MOffs <- OffsQuick
CONSTANT MW0 <- W0Quick
CONSTANT MW1 <- W1All
CONSTANT MTurns <- MTurnsQuick
CONSTANT MRefCentres <- RefCentresQuick
CONSTANTS MMaxLen = 3 MMaxGroup = 1
INVARIANT MeanIsFunctionOfAngles
INVARIANT MeanEquivariant
INVARIANT MeanMatchesDefinition
INVARIANT MeanSymmetric
INVARIANT MeanInHull
INVARIANT EmitMean
PROPERTY GroupKeepsMean
