\* NON-VACUITY (expected to FAIL): a cost-constrained reward that assumes the documented column
\* order stab, info, sens whatever the configuration lists must be refuted
SPECIFICATION Spec
CONSTANTS NT = 1 NS = 2 Kinds = {"cost"}
CONSTANT MetricVals <- ValsQuick
CONSTANT Deltas <- DeltasQuick
CONSTANT FullOrders <- NoOrders
CONSTANT Rotations <- RotQuick
CONSTANT ScaledOrders <- NoOrders
CONSTANT Deviation = "ColumnsInDocumentedOrder"
INVARIANT RewardIsDocumentedCombination
