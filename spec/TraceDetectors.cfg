\* impl -> spec: recorded runs of the real detectors (TRACE_FILE) replayed through Step.
\* The constants only bound Step's guard; inputs come from the traces.
SPECIFICATION TraceSpec
CONSTANTS Kinds = {"standard", "sliding", "fading"} Windows = {1} NAlpha = 1 Bank = FALSE
          NisVals = {0} NisDen = 4 Dims = {1}
          MaxLen = 50 FadeLen = 50 Trim = FALSE KeepHist = FALSE
CONSTANT Deltas <- DeltasQuick
INVARIANT TypeOK
INVARIANT DetectIffReaches
INVARIANT WindowIsLastW
INVARIANT MemoryUntouched
INVARIANT DetectExplained
INVARIANT MetricExplained
INVARIANT FlagExplained
INVARIANT TwinExplained
INVARIANT TwinMonotone
INVARIANT EmitT
