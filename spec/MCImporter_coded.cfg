INIT MCInitCounts
NEXT Next
CONSTANTS Configs = {}
  CountBasedCheck = TRUE
  SkipEpochWithoutRow = FALSE
  LoadEveryEngine = FALSE
  LoadOnlyOwnTargets = FALSE
INVARIANT ImportFaithful
INVARIANT NoStaleState
INVARIANT ObsReachFilter
PROPERTY ImporterReadOnly
