SPECIFICATION Spec
CONSTANTS Configs <- MCConfigs
  CountBasedCheck = TRUE
INVARIANT ImportFaithful
INVARIANT NoStaleState
INVARIANT ObsReachFilter
PROPERTY ImporterReadOnly
