SPECIFICATION Spec
CONSTANTS MaxT = 3 MaxS = 3 RewardVals = {0, 1} Policies = {"munkres", "greedy", "random", "allvisible"}
INVARIANT NonEmpty
INVARIANT DecisionFeasible
INVARIANT MunkresOptimal
INVARIANT GreedyOptimal
