SPECIFICATION Spec
CONSTANTS MaxT = 3 MaxS = 3 RewardVals = {0, 1} Policies = {"munkres", "greedy", "random", "allvisible"} VisBonus = 0
INVARIANT NonEmpty
INVARIANT DecisionFeasible
INVARIANT ScaleInvariant
INVARIANT MunkresOptimal
INVARIANT GreedyOptimal
