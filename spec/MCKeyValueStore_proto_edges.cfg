SPECIFICATION Spec
CONSTANTS Clients = {"c1"}
  RawKeys <- KeysEvOnly
  CacheKeys = {}
  Atoms = {"x"}
  SetLists <- Lists0
  Indexes <- IdxFront
  MaxLen = 3
  Records = {}
  CacheSizes = {}
  Paths = {"p1","p2"}
  Payloads = {"x","y"}
  MaxPush = 3
  Times <- NoTimes
  RedMax = 128
  Ops = {"set","xset","pop","flush","dump","get","setDBPath","clearDBPath","getDBConnection","pushEvent","logAndFlush"}
  Dev = "none"
  EmitEdges = TRUE
VIEW StoreView
