SPECIFICATION Spec
CONSTANTS Agents = {1, 2}
  MaxTick = 1
  MaxRows = 1
  MaxDup = 2
  Ops = {"insert","bulk","delete","reset","interval","epoch","ids"}
  Dev = "none"
  EmitEdges = FALSE
  Posed = TRUE
  QIdSets <- IdsAll
CONSTRAINT DepthOne
INVARIANT TypeOK
INVARIANT QuerySound
INVARIANT QueryComplete
INVARIANT PointIntervalIsEpoch
INVARIANT IdsCoverVisible
INVARIANT DroppedIsEmpty
PROPERTY WriteAtomic
PROPERTY WriteExact
PROPERTY QueriesRead
PROPERTY DeleteExact
PROPERTY ResetOnlyNamed
