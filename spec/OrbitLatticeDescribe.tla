------------------------- MODULE OrbitLatticeDescribe -------------------------
(***************************************************************************)
(* Which classical description of an orbit a COE configuration IS           *)
(* (property C12, last clause).  Mirrors                                    *)
(*   scenario/config/state_config.py:COEStateConfig.validate_elements       *)
(*       (which element set a configuration is taken to be)                 *)
(*   physics/orbits/elements.py:ClassicalElements.fromConfig                *)
(*       (which fields are then read)                                       *)
(*                                                                         *)
(* A configuration may carry any subset P of the six angular fields         *)
(*   raan  right_ascension            ta    true_anomaly                    *)
(*   argp  argument_periapsis         tlp   true_longitude_periapsis        *)
(*   arglat argument_latitude         tl    true_longitude                  *)
(* The documented element sets, most specific first (ClassicalElements      *)
(* docstring / the if-elif chain of the validator):                         *)
(*   IE {ta, raan, argp}   EE {ta, tlp}   IC {raan, arglat}   EC {tl}       *)
(* A configuration is accepted iff it contains one of them and it IS the    *)
(* first one it contains; the other fields are redundant and ignored.       *)
(*                                                                         *)
(* Information: raan gives the node, argp the perigee from the node, ta the *)
(* position from the perigee; tlp = node + perigee, arglat = perigee +      *)
(* position, tl = all three, as sums only.  An orbit class defines which    *)
(* of these exist separately:  IE all three;  EE (node+perigee), position;  *)
(* IC node, (perigee+position);  EC only the total.  Hence form F describes *)
(* an orbit of class C iff it supplies every quantity defined for C:        *)
(*   IE describes all classes, EE describes EE and EC, IC describes IC and  *)
(*   EC, EC describes EC.                                                   *)
(*                                                                         *)
(* THE PROPERTY (checked on real objects by harness/drivers/c12.py): every  *)
(* accepted configuration whose documented form describes the lattice       *)
(* orbit - minimal or over-specified with consistent redundant angles -     *)
(* converts to that orbit's state; a configuration containing no element    *)
(* set is rejected.  Deviation Pick = "last" (the LAST matching element set *)
(* decides) is refuted by DocumentedFormChosen / FullSetNeverLosesAngles.   *)
(***************************************************************************)
EXTENDS Integers, Sequences, FiniteSets, TLC, Json

CONSTANTS Pick        \* "first" (documented) | "last"

VARIABLES pc, class, present
vars == <<pc, class, present>>

Fields  == {"raan", "argp", "ta", "tlp", "arglat", "tl"}
Classes == {"IE", "EE", "IC", "EC"}
Order   == <<"IE", "EE", "IC", "EC">>                      \* most specific first
Needs   == [IE |-> {"ta", "raan", "argp"}, EE |-> {"ta", "tlp"}, IC |-> {"raan", "arglat"}, EC |-> {"tl"}]
Reads   == Needs                                           \* fromConfig reads exactly the set's fields
ASSUME Pick \in {"first", "last"}

Matches(P) == {k \in 1..4 : Needs[Order[k]] \subseteq P}
Documented(P) == IF Matches(P) = {} THEN "rejected"
                 ELSE Order[CHOOSE k \in Matches(P) : \A j \in Matches(P) : k <= j]
Chosen(P) == IF Matches(P) = {} THEN "rejected"
             ELSE IF Pick = "first" THEN Documented(P)
             ELSE Order[CHOOSE k \in Matches(P) : \A j \in Matches(P) : k >= j]

Describes(f, c) == CASE f = "IE" -> TRUE
                     [] f = "EE" -> c \in {"EE", "EC"}
                     [] f = "IC" -> c \in {"IC", "EC"}
                     [] f = "EC" -> c = "EC"
                     [] OTHER -> FALSE

Init == pc = "start" /\ class = "none" /\ present = {}
PoseClass == /\ pc = "start" /\ \E c \in Classes : class' = c
             /\ pc' = "class" /\ UNCHANGED present
PoseFields == /\ pc = "class" /\ \E P \in SUBSET Fields : present' = P
              /\ pc' = "validated" /\ UNCHANGED class
Next == PoseClass \/ PoseFields
Spec == Init /\ [][Next]_vars

\* ------------------------------------------------------------------ theorems
DocumentedFormChosen == pc = "validated" => Chosen(present) = Documented(present)
\* a configuration that carries the full classical set describes every orbit, whatever else it carries
FullSetNeverLosesAngles == (pc = "validated" /\ Needs.IE \subseteq present) => Describes(Chosen(present), class)
\* redundant fields never turn an accepted minimal description into a rejected one
SupersetsAccepted == pc = "validated" =>
  \A f \in Classes : Needs[f] \subseteq present => Chosen(present) # "rejected"

EmitDescription == pc = "validated" =>
  PrintT("DESCRIBE " \o ToJson([class |-> class, present |-> present, form |-> Documented(present),
                                describes |-> Describes(Documented(present), class),
                                reads |-> IF Documented(present) = "rejected" THEN {} ELSE Reads[Documented(present)]]))
=============================================================================
