SPECIFICATION Spec
CONSTANTS
  Targets <- T2
  Sensors <- S2
  InitTargets <- T2
  InitSensors <- S2
  Engines <- E1
  EngTargets <- AllT
  EngSensors <- AllS
  Policy <- PolGreedy
  NSteps = 2
  SpanSteps = 2
  Dt = 1
  OutDt = 1
  Events <- NoEvents
  WithEstimation = TRUE
  WithSerendipity = FALSE
  WithFaults = FALSE
  ResetChangesPerJob = FALSE
  MissListSquared = TRUE
  KeepMissedAcrossSteps = FALSE
  PriorityToAllEngines = FALSE
  PruneKeepsEqual = FALSE
  PartialCommit = FALSE
  UpdateTouchesTruth = FALSE
  TRank <- RankT
  LastMergeWins = FALSE
INVARIANT OneRecordPerTasking
INVARIANT NoRecordWithoutTasking
INVARIANT PointingReflectsTasking
INVARIANT LastStepMissesOnly
INVARIANT RowsExact
INVARIANT StepResultIsCanonical
INVARIANT OnlyVisibleTasked
INVARIANT TruthAtClock
INVARIANT EstimatesAtClock
INVARIANT DbComplete
INVARIANT DbNoDup
INVARIANT DbRefs
INVARIANT ExactlyOnceInstant
INVARIANT DurationActiveExactly
INVARIANT OnlyAddressee
INVARIANT DvOnce
INVARIANT NeverTwice
INVARIANT BiasActiveExactly
PROPERTY NonInterference
PROPERTY CommitAtomic
