---------------------------- MODULE TraceImporter ----------------------------
(* impl -> spec for C19: recorded runs of REAL scenarios against derived        *)
(* importer databases are validated against Importer.tla.  The first record of  *)
(* a trace is the configuration (agents, which are imported, the Epoch rows of   *)
(* the importer database as step indices, its ephemeris rows as <<agent, epoch   *)
(* index>> incl. unrelated agents and gaps, its observation rows, the engines    *)
(* with their sensors and target lists, which observation rows are stored twice, *)
(* whether the file has the full schema or only the tables the importer reads).  *)
(* A trace is accepted iff TLC can walk it to its end; Why names, for the record *)
(* at which a rejected trace is stuck, the formula of Importer.tla it breaks.    *)
EXTENDS Importer, Json, IOUtils

Traces == JsonDeserialize(IOEnv.TRACE_FILE)
VARIABLES tid, l
tvars == <<vars, tid, l>>
Tr == Traces[tid]
Rec == Tr[l]
ToSet(seq) == {seq[i] : i \in DOMAIN seq}
Pairs(seq) == {<<seq[i][1], seq[i][2]>> : i \in DOMAIN seq}
Triple(x) == <<x[1], x[2], x[3]>>
Triples(seq) == {Triple(seq[i]) : i \in DOMAIN seq}
\* engines logged as [[id, [sensors], [targets]], ...]
EngOf(r, e) == r.engines[CHOOSE i \in DOMAIN r.engines : r.engines[i][1] = e]
CfgOf(r) == [agents |-> ToSet(r.agents), imported |-> ToSet(r.imported), targets |-> ToSet(r.targets),
             epochs |-> ToSet(r.epochs), rows |-> Pairs(r.rows), obs |-> Triples(r.obs), nsteps |-> r.nsteps,
             dup |-> Triples(r.dup), schema |-> r.schema, near |-> Triples(r.near),
             born |-> [a \in ToSet(r.agents) |-> LET i == CHOOSE j \in DOMAIN r.born : r.born[j][1] = a IN r.born[i][2]],
             gone |-> [a \in ToSet(r.agents) |-> LET i == CHOOSE j \in DOMAIN r.gone : r.gone[j][1] = a IN r.gone[i][2]],
             engines |-> {r.engines[i][1] : i \in DOMAIN r.engines},
             sensorOf |-> [s \in ToSet(r.agents) \ ToSet(r.targets) |->
                             LET i == CHOOSE j \in DOMAIN r.engines : s \in ToSet(r.engines[j][2]) IN r.engines[i][1]],
             tracks |-> [e \in {r.engines[i][1] : i \in DOMAIN r.engines} |-> ToSet(EngOf(r, e)[3])],
             \* sites logged as [[sensor, site number], ...]: equal numbers = identical coordinates
             site |-> [s \in ToSet(r.agents) \ ToSet(r.targets) |->
                         LET i == CHOOSE j \in DOMAIN r.sites : r.sites[j][1] = s IN r.sites[i][2]]]
IsEvent(e) == l <= Len(Tr) /\ Rec.ev = e /\ l' = l + 1 /\ UNCHANGED tid

TraceInit == tid \in DOMAIN Traces /\ InitWith(CfgOf(Traces[tid][1])) /\ l = 2

\* the scenario has been built (every ImporterDatabase object exists): the file and its schema are what they were
TOpen == IsEvent("Open") /\ OpenImporter /\ Rec.unchanged /\ Rec.schema_unchanged
TBeginStep == IsEvent("BeginStep") /\ BeginStep /\ k' = Rec.k
\* held logged as [[agent, source, epoch, derived_ok], ...] for every imported agent of the scenario
\* 4th field: the agent's derived Earth-fixed state belongs to the same epoch as the imported inertial state
HeldMatch(h, seq) == \A i \in DOMAIN seq : h[seq[i][1]] = <<seq[i][2], seq[i][3]>> /\ seq[i][4]
TImportOk == IsEvent("ImportOk") /\ ImportOk /\ HeldMatch(held', Rec.held)
TImportMissing == IsEvent("ImportMissing") /\ ImportMissing
TSkipImport == IsEvent("SkipImport") /\ SkipImport
\* one engine's assess(); what it loaded is logged but not bound: only what reaches the filters is (the statement is
\* indifferent to WHICH engine carries an observation to the filter of its target)
TEngineLoad == IsEvent("EngineLoad") /\ LoadObs(Rec.engine)
\* observations that reached each target's update: [[t, [[k, t, s], ...]], ...]; multiplicities count
Count(seq, o) == Cardinality({j \in DOMAIN seq : Triple(seq[j]) = o})
ReachedMatch(r, seq) ==
  \A i \in DOMAIN seq :
    /\ \A o \in cfg.obs : o[2] = seq[i][1] => Count(seq[i][2], o) = r[o]
    /\ \A j \in DOMAIN seq[i][2] : Triple(seq[i][2][j]) \in cfg.obs /\ seq[i][2][j][2] = seq[i][1]
TLoadObs == IsEvent("LoadObs") /\ UpdateFilters /\ ReachedMatch(reached, Rec.reached)
\* an engine whose load was not logged (an implementation that loads elsewhere) still takes its step of the specification
TSilentLoad == l <= Len(Tr) /\ Rec.ev = "LoadObs" /\ LoadObsSome /\ UNCHANGED <<tid, l>>
TEndStep == IsEvent("EndStep") /\ EndStep
\* the truth rows of the run's OUTPUT database, read with plain SQL after the run: [[agent, epoch index of the row's Julian
\* date, source, epoch of the state it carries], ...] for epoch indices >= 1 (the initial save is not part of a step)
OutRows(seq) == {<<seq[i][1], seq[i][2], <<seq[i][3], seq[i][4]>>>> : i \in DOMAIN seq}
TOutput == IsEvent("Output") /\ OutRows(Rec.rows) = out /\ Len(Rec.rows) = Cardinality(out) /\ UNCHANGED vars
\* end of the run: the importer database file is byte-identical to what it was before
TEndRun == IsEvent("EndRun") /\ Rec.unchanged /\ Rec.schema_unchanged /\ UNCHANGED vars

TraceNext == TOutput \/ TOpen \/ TBeginStep \/ TImportOk \/ TSkipImport \/ TImportMissing \/ TEngineLoad \/ TSilentLoad \/ TLoadObs \/ TEndStep \/ TEndRun
TraceSpec == TraceInit /\ [][TraceNext]_tvars

\* diagnosis of the NEXT record against the current state (meaningful where the trace is stuck); the strings are kept
\* short because TLC wraps printed values at 80 columns:
\*   NoStaleState:epoch-absent-from-db      the run continued although the importer database has no such epoch at all
\*   NoStaleState:no-record-for-agent       the run continued although a registered agent has no record at this epoch
\*   NoStaleState:gap-masked-by-same-second-rec  ... and another epoch inside the same wall-clock second has one
\*   ImportFaithful:not-this-epochs-record  an imported agent's state is not the database record of this epoch
\*   ImportFaithful:record-of-another-epoch it is the record of an epoch that is not a scenario epoch
\*   ObsReachFilter:lost-cross-engine-obs   an observation whose sensor and target belong to different engines never arrived
\*   ObsReachFilter:lost-obs-of-colocated-sensor  every lost observation's sensor has the coordinates of another
\*                                          sensor that observed the same target at that epoch
\*   ObsReachFilter:lost-obs-of-sensor-joined-later   every lost observation's sensor joined its engine after step 1
\*   ObsReachFilter:obs-of-removed-sensor-loaded      observations of a sensor that has left the scenario were delivered
\*   ObsReachFilter:obs-lost / obs-more-than-once / obs-not-in-db
\*   NoStaleState:importer-not-queried      agents are imported but the step went on without importEphemerides
\*   RunContinues:duplicate-obs-row         the run died at an epoch for which an observation row is stored twice
\*   ImporterReadOnly:tables-created        using the importer database created schema objects in it
WhyImportOk ==
  IF pc # "registered" THEN "out-of-order"
  ELSE IF ~Complete
         THEN IF \E a \in registered : ~HasRow(a, k) /\ SameSecond(a, k, {"before", "after"}) # {}
                THEN "NoStaleState:gap-masked-by-same-second-rec"
              ELSE IF EpochAbsent(k) THEN "NoStaleState:epoch-absent-from-db"
                                     ELSE "NoStaleState:no-record-for-agent"
         ELSE IF ~HeldMatch(AfterImport, Rec.held)
                THEN IF \E i \in DOMAIN Rec.held : Rec.held[i][2] = "foreign" THEN "ImportFaithful:record-of-another-epoch"
                                                                             ELSE "ImportFaithful:not-this-epochs-record"
                ELSE "ok"
WhyLoadObs ==
  IF pc # "imported" THEN "out-of-order"
  ELSE IF done # cfg.engines THEN "ok"      \* silent loads pending
  ELSE LET seq == Rec.reached
           lost == {o \in cfg.obs : \E i \in DOMAIN seq : o[2] = seq[i][1] /\ Count(seq[i][2], o) < reached[o]}
           dup == {o \in cfg.obs : \E i \in DOMAIN seq : o[2] = seq[i][1] /\ Count(seq[i][2], o) > reached[o]}
           \* a lost observation whose sensor shares its coordinates with another sensor that observed the same target
           colo == {o \in lost : \E p \in cfg.obs : p # o /\ p[1] = o[1] /\ p[2] = o[2] /\ cfg.site[p[3]] = cfg.site[o[3]]}
       IN IF lost # {} /\ \A o \in lost : cfg.born[o[3]] > 1 THEN "ObsReachFilter:lost-obs-of-sensor-joined-later"
          ELSE IF dup # {} /\ \A o \in dup : o[1] = k /\ o[3] \notin Active(k) THEN "ObsReachFilter:obs-of-removed-sensor-loaded"
          ELSE IF lost # {} THEN (IF \E o \in lost : CrossEngine(o) THEN "ObsReachFilter:lost-cross-engine-obs"
                             ELSE IF colo = lost THEN "ObsReachFilter:lost-obs-of-colocated-sensor"
                             ELSE "ObsReachFilter:obs-lost")
          ELSE IF dup # {} THEN "ObsReachFilter:obs-more-than-once"
          ELSE IF ~ReachedMatch(reached, seq) THEN "ObsReachFilter:obs-not-in-db" ELSE "ok"
Why ==
  IF l > Len(Tr) THEN "end"
  ELSE CASE Rec.ev = "ImportOk" -> WhyImportOk
         [] Rec.ev = "ImportMissing" -> IF pc = "registered" /\ Complete THEN "raised-although-complete" ELSE "ok"
         [] Rec.ev \in {"EngineLoad", "LoadObs"} /\ pc = "registered" ->
              IF cfg.imported # {} THEN "NoStaleState:importer-not-queried" ELSE "out-of-order"
         [] Rec.ev = "LoadObs" -> WhyLoadObs
         [] Rec.ev \in {"Open", "EndRun"} ->
              IF ~Rec.schema_unchanged THEN (IF cfg.schema = "minimal" THEN "ImporterReadOnly:tables-created" ELSE "ImporterReadOnly:schema-modified")
              ELSE IF ~Rec.unchanged THEN "ImporterReadOnly:file-modified" ELSE "ok"
         [] Rec.ev = "Output" ->
              IF OutRows(Rec.rows) = out /\ Len(Rec.rows) = Cardinality(out) THEN "ok"
              ELSE IF \E r \in out : r[1] \in cfg.imported /\ r \notin OutRows(Rec.rows)
                     THEN "OutputRows:imported-agent-rows-at-wrong-epoch"
                     ELSE "OutputRows:output-rows-differ"
         [] Rec.ev = "Crash" -> IF pc = "imported" /\ \E o \in cfg.dup : o[1] = k THEN "RunContinues:duplicate-obs-row" ELSE "crash"
         [] OTHER -> "ok"
Accept == PrintT(<<"AT", tid, l, Len(Tr) + 1, Why>>)
=============================================================================
