---------------------------- MODULE TraceImporter ----------------------------
(* impl -> spec for C19: recorded runs of REAL scenarios against derived        *)
(* importer databases are validated against Importer.tla.  The first record of  *)
(* a trace is the configuration (agents, which are imported, the importer rows   *)
(* as <<agent, epoch index>> incl. unrelated agents and gaps, observation rows). *)
EXTENDS Importer, Json, IOUtils

Traces == JsonDeserialize(IOEnv.TRACE_FILE)
VARIABLES tid, l
tvars == <<vars, tid, l>>
Tr == Traces[tid]
Rec == Tr[l]
ToSet(seq) == {seq[i] : i \in DOMAIN seq}
Pairs(seq) == {<<seq[i][1], seq[i][2]>> : i \in DOMAIN seq}
Triples(seq) == {<<seq[i][1], seq[i][2], seq[i][3]>> : i \in DOMAIN seq}
CfgOf(r) == [agents |-> ToSet(r.agents), imported |-> ToSet(r.imported), targets |-> ToSet(r.targets),
             rows |-> Pairs(r.rows), obs |-> Triples(r.obs), nsteps |-> r.nsteps,
             born |-> [a \in ToSet(r.agents) |-> LET i == CHOOSE j \in DOMAIN r.born : r.born[j][1] = a IN r.born[i][2]]]
IsEvent(e) == l <= Len(Tr) /\ Rec.ev = e /\ l' = l + 1 /\ UNCHANGED tid

TraceInit == tid \in DOMAIN Traces /\ InitWith(CfgOf(Traces[tid][1])) /\ l = 2

TBeginStep == IsEvent("BeginStep") /\ BeginStep /\ k' = Rec.k
\* held logged as [[agent, source, epoch], ...] for every agent of the scenario
\* 4th field: the agent's derived Earth-fixed state belongs to the same epoch as the imported inertial state
HeldMatch(h, seq) == \A i \in DOMAIN seq : h[seq[i][1]] = <<seq[i][2], seq[i][3]>> /\ seq[i][4]
TImportOk == IsEvent("ImportOk") /\ ImportOk /\ HeldMatch(held', Rec.held)
TImportMissing == IsEvent("ImportMissing") /\ ImportMissing
TSkipImport == IsEvent("SkipImport") /\ SkipImport
\* observations that reached each target's update: [[t, [[k, t, s], ...]], ...]
ReachedMatch(r, seq) == \A i \in DOMAIN seq : r[seq[i][1]] = Triples(seq[i][2]) /\ Len(seq[i][2]) = Cardinality(Triples(seq[i][2]))
TLoadObs == IsEvent("LoadObs") /\ LoadObs /\ ReachedMatch(reached', Rec.reached)
TEndStep == IsEvent("EndStep") /\ EndStep
\* end of the run: the importer database file is byte-identical to what it was before
TEndRun == IsEvent("EndRun") /\ Rec.unchanged /\ UNCHANGED vars

TraceNext == TBeginStep \/ TImportOk \/ TSkipImport \/ TImportMissing \/ TLoadObs \/ TEndStep \/ TEndRun
TraceSpec == TraceInit /\ [][TraceNext]_tvars
Accept == PrintT(<<"AT", tid, l, Len(Tr) + 1>>)
=============================================================================
