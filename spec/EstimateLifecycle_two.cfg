SPECIFICATION Spec
CONSTANTS
  Targets <- T2
  NSteps = 3
  Configs <- CfgTwo
  IodIgnoresFlag = FALSE
  ReenterAdaptive = FALSE
  DropIodCopy = FALSE
  DoubleRecord = FALSE
  CloseKeepsStart = FALSE
  LastObsAlways = FALSE
INVARIANT TypeOK
INVARIANT FlagsConsistent
INVARIANT ModeConsistent
INVARIANT ManeuverOncePerDetection
INVARIANT ManeuverReachesDbAtNextSave
INVARIANT AdaptiveOnlyAfterDetection
INVARIANT MmaeOwnsFilter
INVARIANT CloseHandsBack
INVARIANT IodWindow
INVARIANT IodOnlyWhenConfigured
INVARIANT IodMmaeExclusive
INVARIANT IodStartsOnFreshDetection
INVARIANT CopyBackExact
INVARIANT EpochBookkeeping
INVARIANT LastObservedExact
INVARIANT FilterStepPerObservedStep
INVARIANT NoCrash
PROPERTY FrozenNominal
PROPERTY IodEndsOnlyBySuccess
