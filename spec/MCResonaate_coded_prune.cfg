SPECIFICATION Spec
CONSTANTS
  Targets <- T1
  Sensors <- S1
  InitTargets <- T1
  InitSensors <- S1
  Engines <- E1
  EngTargets <- AllT
  EngSensors <- AllS
  Policy <- PolGreedy
  NSteps = 3
  SpanSteps = 3
  Dt = 3
  OutDt = 3
  Events <- Imp3
  WithEstimation = TRUE
  WithSerendipity = FALSE
  WithFaults = FALSE
  ResetChangesPerJob = FALSE
  MissListSquared = FALSE
  KeepMissedAcrossSteps = FALSE
  PriorityToAllEngines = FALSE
  PruneKeepsEqual = TRUE
  PartialCommit = FALSE
  UpdateTouchesTruth = FALSE
  TRank <- RankT
  LastMergeWins = FALSE
INVARIANT OneRecordPerTasking
INVARIANT NoRecordWithoutTasking
INVARIANT PointingReflectsTasking
INVARIANT LastStepMissesOnly
INVARIANT RowsExact
INVARIANT StepResultIsCanonical
INVARIANT OnlyVisibleTasked
INVARIANT TruthAtClock
INVARIANT EstimatesAtClock
INVARIANT DbComplete
INVARIANT DbNoDup
INVARIANT DbRefs
INVARIANT ExactlyOnceInstant
INVARIANT DurationActiveExactly
INVARIANT OnlyAddressee
INVARIANT DvOnce
INVARIANT NeverTwice
INVARIANT BiasActiveExactly
PROPERTY NonInterference
PROPERTY CommitAtomic
