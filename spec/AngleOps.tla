------------------------------ MODULE AngleOps ------------------------------
(***************************************************************************)
(* Pure operators on the circle Z_N (N ticks per turn, one tick = 15 deg   *)
(* for N = 24) shared by Angles.tla and ObsGroup.tla (property C16).       *)
(*                                                                         *)
(* An angle VALUE is an integer number of ticks (any number of turns); the *)
(* ANGLE it denotes is its class mod N.                                    *)
(*                                                                         *)
(*  Wrap2Pi, WrapNegPiPi     documented ranges [0,N) and (-N/2, N/2]       *)
(*                           (physics/maths.py: wrapAngle2Pi,              *)
(*                           wrapAngleNegPiPi, vecWrapAngle2Pi,            *)
(*                           vecWrapAngleNeg)                              *)
(*  ResidualDef              the DEFINITION of the angular residual: the   *)
(*                           unique representative of a-b in (-N/2, N/2]   *)
(*  Raw(v, k, s)             a representation of the angle v: branch s     *)
(*                           ("pos" = [0,N), "sym" = (-N/2,N/2]) plus k    *)
(*                           whole turns                                   *)
(*  Cos4/Sin4, MeanOf        exact weighted circular mean on Z_24: sums of *)
(*                           w*cos, w*sin are elements of Q(sqrt2, sqrt3), *)
(*                           held as integer 4-tuples in the basis         *)
(*                           (1, sqrt2, sqrt3, sqrt6)/4                    *)
(*                           (physics/maths.py: angularMean)               *)
(***************************************************************************)
EXTENDS Integers, Sequences, FiniteSets

N    == 24
Half == N \div 2
Ticks == 0..(N - 1)

Wrap2Pi(x)     == x % N
WrapNegPiPi(x) == LET r == x % N IN IF r > Half THEN r - N ELSE r
In2Pi(x)       == 0 <= x /\ x < N
InNegPiPi(x)   == -Half < x /\ x <= Half

\* the definition (not an algorithm): the representative of a - b in (-N/2, N/2]
ResidualDef(a, b) == CHOOSE r \in (1 - Half)..Half : (r - (a - b)) % N = 0

Branches == {"pos", "sym"}
Other(s) == IF s = "pos" THEN "sym" ELSE "pos"
\* the value that represents angle v (any integer) on branch s with k extra turns
Raw(v, k, s) == (IF s = "pos" THEN Wrap2Pi(v) ELSE WrapNegPiPi(v)) + k * N

(***************************************************************************)
(* Q(sqrt2, sqrt3): p = <<p1,p2,p3,p4>> denotes p1 + p2*sqrt2 + p3*sqrt3 + *)
(* p4*sqrt6.  The basis is linearly independent over Q, so p = 0 iff all   *)
(* four integers are 0.  Signs are decided with integer bounds on the      *)
(* three roots (scale 10^4); "2" means undecided (never used as a verdict).*)
(***************************************************************************)
Zero4      == <<0, 0, 0, 0>>
Add4(a, b) == <<a[1] + b[1], a[2] + b[2], a[3] + b[3], a[4] + b[4]>>
Neg4(a)    == <<-a[1], -a[2], -a[3], -a[4]>>
Sub4(a, b) == Add4(a, Neg4(b))
Scale4(k, a) == <<k * a[1], k * a[2], k * a[3], k * a[4]>>
Mul4(a, b) == << a[1]*b[1] + 2*a[2]*b[2] + 3*a[3]*b[3] + 6*a[4]*b[4],
                 a[1]*b[2] + a[2]*b[1] + 3*(a[3]*b[4] + a[4]*b[3]),
                 a[1]*b[3] + a[3]*b[1] + 2*(a[2]*b[4] + a[4]*b[2]),
                 a[1]*b[4] + a[4]*b[1] + a[2]*b[3] + a[3]*b[2] >>

RootLo == <<10000, 14142, 17320, 24494>>
RootHi == <<10000, 14143, 17321, 24495>>
LoTerm(x, i) == IF x >= 0 THEN x * RootLo[i] ELSE x * RootHi[i]
HiTerm(x, i) == IF x >= 0 THEN x * RootHi[i] ELSE x * RootLo[i]
Lo4(p) == LoTerm(p[1], 1) + LoTerm(p[2], 2) + LoTerm(p[3], 3) + LoTerm(p[4], 4)
Hi4(p) == HiTerm(p[1], 1) + HiTerm(p[2], 2) + HiTerm(p[3], 3) + HiTerm(p[4], 4)
Sign4(p) == IF p = Zero4 THEN 0 ELSE IF Lo4(p) > 0 THEN 1 ELSE IF Hi4(p) < 0 THEN -1 ELSE 2

\* 4*cos(t ticks) for t = 0..6 (0, 15, .., 90 degrees)
CosTab == << <<4, 0, 0, 0>>, <<0, 1, 0, 1>>, <<0, 0, 2, 0>>, <<0, 2, 0, 0>>,
             <<2, 0, 0, 0>>, <<0, -1, 0, 1>>, <<0, 0, 0, 0>> >>
Cos4(t) == LET u == t % N
               v == IF u > Half THEN N - u ELSE u
           IN IF v <= 6 THEN CosTab[v + 1] ELSE Neg4(CosTab[(Half - v) + 1])
Sin4(t) == Cos4(t - 6)

\* the table is a table of cosines: Pythagoras, addition theorem, sign bounds are sane
ASSUME \A t \in Ticks : Add4(Mul4(Cos4(t), Cos4(t)), Mul4(Sin4(t), Sin4(t))) = <<16, 0, 0, 0>>
ASSUME \A s, t \in Ticks : Scale4(4, Cos4(s + t)) = Sub4(Mul4(Cos4(s), Cos4(t)), Mul4(Sin4(s), Sin4(t)))
ASSUME \A t \in Ticks : Sign4(Cos4(t)) = (IF t \in {6, 18} THEN 0 ELSE IF t < 6 \/ t > 18 THEN 1 ELSE -1)

(***************************************************************************)
(* Weighted circular mean of a list L of records [ang |-> value, w |-> Int]*)
(*   C = sum w cos(ang), S = sum w sin(ang),  mean = atan2(S, C).          *)
(* Cross(m) = C sin m - S cos m = |R| sin(m - mean),                       *)
(* Dot(m)   = C cos m + S sin m = |R| cos(m - mean)   (both times 16).     *)
(* The mean is the tick m iff Cross(m) = 0 and Dot(m) > 0; it lies in the  *)
(* open sector (m, m+1) iff Cross(m) < 0 < Cross(m+1); it is undefined     *)
(* iff C = S = 0.  Everything depends on the angles mod N only.            *)
(***************************************************************************)
RECURSIVE SumC(_), SumS(_)
SumC(L) == IF L = <<>> THEN Zero4 ELSE Add4(Scale4(Head(L).w, Cos4(Head(L).ang)), SumC(Tail(L)))
SumS(L) == IF L = <<>> THEN Zero4 ELSE Add4(Scale4(Head(L).w, Sin4(Head(L).ang)), SumS(Tail(L)))
CrossOf(C, S, m) == Sub4(Mul4(C, Sin4(m)), Mul4(S, Cos4(m)))
DotOf(C, S, m)   == Add4(Mul4(C, Cos4(m)), Mul4(S, Sin4(m)))

NoMean == [kind |-> "none", m |-> 0]
\* reference definition: scan the whole circle
MeanCandidates(C, S) ==
  {m \in Ticks : CrossOf(C, S, m) = Zero4 /\ Sign4(DotOf(C, S, m)) = 1}
    \cup {N + m : m \in {x \in Ticks : Sign4(CrossOf(C, S, x)) = -1 /\ Sign4(CrossOf(C, S, x + 1)) = 1}}
\* as used by the machines: the signs of C and S give the quarter turn [q, q+6) that holds
\* the mean, only its seven ticks are examined (the antipode of a zero of Cross lies outside)
MeanFromCS(C, S) ==
  LET sc == Sign4(C)
      ss == Sign4(S)
      q  == IF sc = 1 /\ ss \in {0, 1} THEN 0
            ELSE IF sc \in {0, -1} /\ ss = 1 THEN 6
            ELSE IF sc = -1 /\ ss \in {0, -1} THEN 12 ELSE 18
      exact  == {m \in q..(q + 5) : CrossOf(C, S, m) = Zero4}
      sector == {m \in q..(q + 5) : Sign4(CrossOf(C, S, m)) = -1 /\ Sign4(CrossOf(C, S, m + 1)) = 1}
  IN IF C = Zero4 /\ S = Zero4 THEN NoMean
     ELSE IF sc = 2 \/ ss = 2 THEN [kind |-> "undecided", m |-> 0]
     ELSE IF exact # {} THEN [kind |-> "tick", m |-> CHOOSE m \in exact : TRUE]
     ELSE IF sector # {} THEN [kind |-> "sector", m |-> CHOOSE m \in sector : TRUE]
     ELSE [kind |-> "undecided", m |-> 0]
MeanOf(L) == MeanFromCS(SumC(L), SumS(L))
MeanAsCandidate(r) == IF r.kind = "tick" THEN {r.m} ELSE IF r.kind = "sector" THEN {N + r.m} ELSE {}
\* rotate every member of the list / a mean result by s ticks
ShiftList(L, s) == [i \in DOMAIN L |-> [L[i] EXCEPT !.ang = @ + s]]
ShiftMean(r, s) == IF r.kind \in {"tick", "sector"} THEN [r EXCEPT !.m = (@ + s) % N] ELSE r
\* resultant length squared times 16: |R|^2 = C^2 + S^2 (to scale conditioning on the Python side)
Resultant2(C, S) == Add4(Mul4(C, C), Mul4(S, S))
=============================================================================
