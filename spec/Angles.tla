------------------------------- MODULE Angles -------------------------------
(***************************************************************************)
(* Angle helpers of resonaate (property C16, helper level) on the circle   *)
(* Z_24 with whole-turn offsets.  Operators are in AngleOps.tla.           *)
(*                                                                         *)
(* RESIDUAL MACHINE (SpecRes) - mirrors physics/maths.py                   *)
(*   residual(v1, v2, angular=True)  =                                     *)
(*        wrapAngleNegPiPi(wrapAngle2Pi(v1) - wrapAngle2Pi(v2))   "scalar" *)
(*   vecResiduals(v1, v2, angular)   =                                     *)
(*        vecWrapAngleNeg(vecWrapAngle2Pi(v1) - vecWrapAngle2Pi(v2)) "vec" *)
(*   (the second is the path of estimation/particle/                       *)
(*    genetic_particle_filter.py)                                          *)
(*  PoseA, PoseB       the environment poses two ANGLES a, b in Z_24       *)
(*  AddTurnsA/B(k)     re-express the value with k more turns              *)
(*  MoveSeamA/B        re-express it on the other branch ([0,N) <->        *)
(*                     (-N/2,N/2])                                         *)
(*  Reduce, Difference, Recentre   the three steps of the code             *)
(* Property formulas: ReducedInRange, ResidualInRange, ResidualCorrect     *)
(* (= Residual(a + kN, b) = Residual(a, b): the result depends on the      *)
(* angles only, never on turns or branch), GroupKeepsAngles (action        *)
(* property), WrapIdempotent, WrapRoundTrip, ResidualAntisymmetric,        *)
(* ResidualRotates.                                                        *)
(* Named deviations (as coded on the unchanged tree, used as spec mutants):*)
(*   VecReduceAsCoded    vecWrapAngle2Pi only adds one turn to negatives   *)
(*   VecRecentreAsCoded  vecWrapAngleNeg = (d + N/2) % N - N/2  (D12)      *)
(*                                                                         *)
(* MEAN MACHINE (SpecMean) - physics/maths.py: angularMean                 *)
(*  PoseCentre, PoseFirst, AppendMember, Freeze   pose a weighted list of   *)
(*                     angles (first member = centre, may have negative    *)
(*                     weight like the zeroth sigma point of the unscented *)
(*                     transform)                                          *)
(*  Accumulate, Locate the two steps of the code: weighted sums of cos and *)
(*                     sin (exact, in Q(sqrt2,sqrt3)); direction of the    *)
(*                     resultant: a tick / an open sector between two      *)
(*                     ticks / none (zero resultant)                       *)
(*  MAddTurns(i,k), MMoveSeam(i), MSwap(i)  group actions on the VALUES    *)
(* Property formulas: MeanEquivariant (Mean(a + r) = Mean(a) + r),         *)
(* MeanIsFunctionOfAngles, GroupKeepsMean, MeanMatchesDefinition,          *)
(* MeanSymmetric, MeanInHull.                                              *)
(*                                                                         *)
(* Every "done" state is one implementation test: Emit/EmitMean hand the   *)
(* values and the expected integers to harness/drivers/c16.py.             *)
(***************************************************************************)
EXTENDS AngleOps, TLC, Json

CONSTANTS TurnsA, TurnsB,            \* admissible turn offsets of the two values
          Algs,                      \* subset of {"scalar", "vec"}
          VecReduceAsCoded, VecRecentreAsCoded,
          MOffs, MW0, MW1, MMaxLen, MTurns, MMaxGroup, MRefCentres

VARIABLES pc, a, b, ka, kb, sa, sb, alg, w1, w2, d, res,
          mc, ml, mg, mres, mC, mS
rvars == <<a, b, ka, kb, sa, sb, alg, w1, w2, d, res>>
mvars == <<mc, ml, mg, mres, mC, mS>>
vars  == <<pc, rvars, mvars>>

RawA == Raw(a, ka, sa)
RawB == Raw(b, kb, sb)

\* ---- the steps as coded -------------------------------------------------
Reduce1(al, x) ==
  IF al = "vec" /\ VecReduceAsCoded THEN (IF x < 0 THEN x + N ELSE x)   \* np.where(x < 0, 2pi + x, x)
  ELSE x % N                                                           \* fmod, +2pi if negative
Recentre1(al, x) ==
  IF al = "vec" /\ VecRecentreAsCoded THEN ((x + Half) % N) - Half      \* (x + pi) % 2pi - pi
  ELSE LET r == x % N IN IF r > Half THEN r - N ELSE r                  \* remainder; if > pi: - 2pi

RIdleM == mc = 0 /\ ml = <<>> /\ mg = 0 /\ mres = NoMean /\ mC = Zero4 /\ mS = Zero4
InitRes == /\ pc = "start" /\ a = 0 /\ b = 0 /\ ka = 0 /\ kb = 0 /\ sa = "pos" /\ sb = "pos"
           /\ alg = "scalar" /\ w1 = 0 /\ w2 = 0 /\ d = 0 /\ res = 0
           /\ RIdleM

PoseA == /\ pc = "start" /\ \E x \in Ticks : a' = x
         /\ pc' = "a" /\ UNCHANGED <<b, ka, kb, sa, sb, alg, w1, w2, d, res, mvars>>
PoseB == /\ pc = "a" /\ \E x \in Ticks, al \in Algs : b' = x /\ alg' = al
         /\ pc' = "posed" /\ UNCHANGED <<a, ka, kb, sa, sb, w1, w2, d, res, mvars>>
AddTurnsA(k) == /\ pc = "posed" /\ ka + k \in TurnsA /\ ka' = ka + k
                /\ UNCHANGED <<pc, a, b, kb, sa, sb, alg, w1, w2, d, res, mvars>>
AddTurnsB(k) == /\ pc = "posed" /\ kb + k \in TurnsB /\ kb' = kb + k
                /\ UNCHANGED <<pc, a, b, ka, sa, sb, alg, w1, w2, d, res, mvars>>
MoveSeamA == /\ pc = "posed" /\ sa' = Other(sa)
             /\ UNCHANGED <<pc, a, b, ka, kb, sb, alg, w1, w2, d, res, mvars>>
MoveSeamB == /\ pc = "posed" /\ sb' = Other(sb)
             /\ UNCHANGED <<pc, a, b, ka, kb, sa, alg, w1, w2, d, res, mvars>>
Reduce == /\ pc = "posed" /\ w1' = Reduce1(alg, RawA) /\ w2' = Reduce1(alg, RawB)
          /\ pc' = "reduced" /\ UNCHANGED <<a, b, ka, kb, sa, sb, alg, d, res, mvars>>
Difference == /\ pc = "reduced" /\ d' = w1 - w2
              /\ pc' = "diffed" /\ UNCHANGED <<a, b, ka, kb, sa, sb, alg, w1, w2, res, mvars>>
Recentre == /\ pc = "diffed" /\ res' = Recentre1(alg, d)
            /\ pc' = "done" /\ UNCHANGED <<a, b, ka, kb, sa, sb, alg, w1, w2, d, mvars>>

GroupRes == \/ \E k \in {-1, 1} : AddTurnsA(k) \/ AddTurnsB(k)
            \/ MoveSeamA \/ MoveSeamB
NextRes == PoseA \/ PoseB \/ GroupRes \/ Reduce \/ Difference \/ Recentre
SpecRes == InitRes /\ [][NextRes]_vars

\* ---- C16, helper level ---------------------------------------------------
\* wrapping helpers keep their documented ranges
ReducedInRange  == pc \in {"reduced", "diffed", "done"} => In2Pi(w1) /\ In2Pi(w2)
ResidualInRange == pc = "done" => InNegPiPi(res)
\* the residual is the wrapped difference of the ANGLES: unchanged by turns and branch,
\* i.e. Residual(a + kN, b) = Residual(a, b)
ResidualCorrect == pc = "done" => res = ResidualDef(a, b)
\* a group action changes the values, never the angles they denote (so, by ResidualCorrect in the
\* "done" states that follow, never the residual)
GroupKeepsAngles == [][GroupRes => /\ Wrap2Pi(RawA') = Wrap2Pi(RawA) /\ Wrap2Pi(RawB') = Wrap2Pi(RawB)
                                   /\ a' = a /\ b' = b]_vars
\* wrapping twice = wrapping once; a value already in range is returned unchanged
WrapIdempotent == pc = "posed" =>
   /\ Wrap2Pi(Wrap2Pi(RawA)) = Wrap2Pi(RawA) /\ WrapNegPiPi(WrapNegPiPi(RawA)) = WrapNegPiPi(RawA)
   /\ (In2Pi(RawA) => Wrap2Pi(RawA) = RawA) /\ (InNegPiPi(RawA) => WrapNegPiPi(RawA) = RawA)
   /\ In2Pi(Wrap2Pi(RawA)) /\ InNegPiPi(WrapNegPiPi(RawA))
\* both wraps denote the same angle and convert into each other
WrapRoundTrip == pc = "posed" =>
   /\ Wrap2Pi(WrapNegPiPi(RawA)) = a /\ WrapNegPiPi(Wrap2Pi(RawA)) = WrapNegPiPi(a)
   /\ Wrap2Pi(RawA) = a
ResidualAntisymmetric == pc = "posed" =>
   LET r == ResidualDef(RawA, RawB)
   IN IF r = Half THEN ResidualDef(RawB, RawA) = Half ELSE ResidualDef(RawB, RawA) = -r
\* (+1 generates every rotation: the explored values are closed under it up to the turn bound)
ResidualRotates == pc = "posed" => ResidualDef(RawA + 1, RawB + 1) = ResidualDef(RawA, RawB)

Emit == pc = "done" =>
   PrintT("RES " \o ToJson([alg |-> alg, a |-> a, b |-> b, ra |-> RawA, rb |-> RawB, w1 |-> w1, w2 |-> w2,
                            wn |-> WrapNegPiPi(RawA), d |-> d, res |-> res,
                            resba |-> ResidualDef(RawB, RawA)]))

(***************************************************************************)
(* mean machine                                                            *)
(***************************************************************************)
MIdleR == /\ a = 0 /\ b = 0 /\ ka = 0 /\ kb = 0 /\ sa = "pos" /\ sb = "pos"
          /\ alg = "scalar" /\ w1 = 0 /\ w2 = 0 /\ d = 0 /\ res = 0
InitMean == /\ pc = "m_start" /\ mc = 0 /\ ml = <<>> /\ mg = 0 /\ mres = NoMean
            /\ mC = Zero4 /\ mS = Zero4 /\ MIdleR

Member(off, w) == [off |-> off, w |-> w, k |-> 0, s |-> "pos"]
\* the VALUES handed to the implementation and the ANGLES they denote
ValueList == [i \in DOMAIN ml |-> [ang |-> Raw(mc + ml[i].off, ml[i].k, ml[i].s), w |-> ml[i].w]]
AngleList == [i \in DOMAIN ml |-> [ang |-> Wrap2Pi(mc + ml[i].off), w |-> ml[i].w]]

PoseCentre == /\ pc = "m_start" /\ \E c \in Ticks : mc' = c
              /\ pc' = "m_centre" /\ UNCHANGED <<ml, mg, mres, mC, mS, rvars>>
PoseFirst == /\ pc = "m_centre" /\ \E w \in MW0 : ml' = <<Member(0, w)>>
             /\ pc' = "m_build" /\ UNCHANGED <<mc, mg, mres, mC, mS, rvars>>
\* members are appended in non-decreasing (offset, weight) order: the order of summation is
\* varied by MSwap, not by posing every list twice
AppendMember == /\ pc = "m_build" /\ Len(ml) < MMaxLen
                /\ \E off \in MOffs, w \in MW1 :
                      /\ Len(ml) > 1 => \/ ml[Len(ml)].off < off
                                        \/ ml[Len(ml)].off = off /\ ml[Len(ml)].w <= w
                      /\ ml' = ml \o <<Member(off, w)>>
                /\ UNCHANGED <<pc, mc, mg, mres, mC, mS, rvars>>
Freeze == /\ pc = "m_build" /\ pc' = "m_posed" /\ UNCHANGED <<mc, ml, mg, mres, mC, mS, rvars>>
\* angularMean: sin/cos of every member, weighted sums ...
Accumulate == /\ pc = "m_posed" /\ mC' = SumC(ValueList) /\ mS' = SumS(ValueList)
              /\ pc' = "m_summed" /\ UNCHANGED <<mc, ml, mg, mres, rvars>>
\* ... arctan2 of the sums, wrapped into the requested range
Locate == /\ pc = "m_summed" /\ mres' = MeanFromCS(mC, mS)
          /\ pc' = "m_done" /\ UNCHANGED <<mc, ml, mg, mC, mS, rvars>>
\* group actions re-express the values of a list whose mean has been computed; the claim
\* (MeanIsFunctionOfAngles) is that the sums, hence the mean, are still those of the new values
MAddTurns(i, k) == /\ pc = "m_done" /\ mg < MMaxGroup /\ i \in DOMAIN ml /\ ml[i].k = 0
                   /\ ml' = [ml EXCEPT ![i].k = k] /\ mg' = mg + 1
                   /\ UNCHANGED <<pc, mc, mres, mC, mS, rvars>>
MMoveSeam(i) == /\ pc = "m_done" /\ mg < MMaxGroup /\ i \in DOMAIN ml
                /\ ml' = [ml EXCEPT ![i].s = Other(@)] /\ mg' = mg + 1
                /\ UNCHANGED <<pc, mc, mres, mC, mS, rvars>>
MSwap(i) == /\ pc = "m_done" /\ mg < MMaxGroup /\ i \in DOMAIN ml /\ i + 1 \in DOMAIN ml
            /\ ml[i] # ml[i + 1]
            /\ ml' = [ml EXCEPT ![i] = ml[i + 1], ![i + 1] = ml[i]] /\ mg' = mg + 1
            /\ UNCHANGED <<pc, mc, mres, mC, mS, rvars>>

GroupMean == \E i \in 1..MMaxLen : MMoveSeam(i) \/ MSwap(i) \/ \E k \in MTurns \ {0} : MAddTurns(i, k)
NextMean == PoseCentre \/ PoseFirst \/ AppendMember \/ Freeze \/ Accumulate \/ Locate \/ GroupMean
SpecMean == InitMean /\ [][NextMean]_vars

\* the mean is a function of the ANGLES, not of the values that represent them, nor of their order
MeanIsFunctionOfAngles == pc = "m_done" =>
   /\ SumC(ValueList) = mC /\ SumS(ValueList) = mS
   /\ (mg = 0 => SumC(AngleList) = mC /\ SumS(AngleList) = mS)
GroupKeepsMean == [][GroupMean => /\ SumC(ValueList') = SumC(ValueList) /\ SumS(ValueList') = SumS(ValueList)
                                  /\ mres' = mres]_vars
\* Mean(a + r) = Mean(a) + r: checked for r = one tick on every posed list at every centre, which
\* generates every rotation (also across both seams)
MeanEquivariant == (pc = "m_done" /\ mg = 0) =>
   MeanOf(ShiftList(ValueList, 1)) = ShiftMean(mres, 1)
\* the quarter-turn search agrees with the reference definition (whole-circle scan), and at most
\* one tick or sector qualifies
MeanMatchesDefinition == (pc = "m_done" /\ mg = 0 /\ mc \in MRefCentres) =>
   /\ Cardinality(MeanCandidates(mC, mS)) <= 1
   /\ (mres.kind # "undecided" => MeanCandidates(mC, mS) = MeanAsCandidate(mres))
\* independent cross-check of the arithmetic: a list that is symmetric about its centre
\* (members come in pairs +off/-off with equal weight) has its mean on the axis
SymmetricAboutCentre ==
   \A i \in DOMAIN ml : ml[i].off % N = 0 \/ ml[i].off % N = Half \/
       Cardinality({j \in DOMAIN ml : ml[j].off % N = ml[i].off % N /\ ml[j].w = ml[i].w})
         = Cardinality({j \in DOMAIN ml : ml[j].off % N = (-ml[i].off) % N /\ ml[j].w = ml[i].w})
MeanSymmetric == (pc = "m_done" /\ mg = 0 /\ SymmetricAboutCentre) =>
   \/ mres.kind = "none"
   \/ mres.kind = "tick" /\ mres.m \in {mc, (mc + Half) % N}
\* positive weights within a quarter turn on one side of the centre: mean within the hull
MeanInHull == (pc = "m_done" /\ mg = 0 /\ \A i \in DOMAIN ml : ml[i].w > 0 /\ ml[i].off \in 0..5) =>
   \/ mres.kind = "tick" /\ (mres.m - mc) % N \in 0..5
   \/ mres.kind = "sector" /\ (mres.m - mc) % N \in 0..4

EmitMean == pc = "m_done" =>
   PrintT("MEAN " \o ToJson([c |-> mc, g |-> mg, vals |-> [i \in DOMAIN ml |-> ValueList[i].ang],
                             w |-> [i \in DOMAIN ml |-> ml[i].w], kind |-> mres.kind, m |-> mres.m,
                             off |-> [i \in DOMAIN ml |-> ml[i].off], k |-> [i \in DOMAIN ml |-> ml[i].k],
                             s |-> [i \in DOMAIN ml |-> ml[i].s]]))

\* ---- named constant values for cfg files ---------------------------------
Turns3  == -3..3
Turns1  == -1..1
Turns0  == {0}
OffsQuick    == {-8, 1, 12}
OffsThorough == {-11, -8, -6, -1, 1, 2, 12}
W0Quick      == {-3, 2}
W0Thorough   == {-11, -3, 0, 2}
W1All        == {1, 2}
MTurnsQuick    == {-3}
MTurnsThorough == {-3, 1, 2}
RefCentresQuick == {0, 7}
=============================================================================
