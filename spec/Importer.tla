------------------------------- MODULE Importer -------------------------------
(***************************************************************************)
(* C19: agents that take their truth state from an importer database.      *)
(*                                                                         *)
(* Mirrors Scenario.stepForward (registration of non-realtime agents),     *)
(* dynamics/importer.py:EphemerisImporter.importEphemerides,               *)
(* CentralizedTaskingEngine.loadImportedObservations and the routing of    *)
(* the loaded observations to the EstUpdate job of their target.           *)
(*                                                                         *)
(* The configuration (agent sets, which agents are imported, the rows of   *)
(* the importer database - possibly with unrelated agents and with gaps -, *)
(* its observation rows) is a VARIABLE fixed by Init, so that exhaustive   *)
(* exploration (all row sets) and trace validation (one configuration per  *)
(* recorded run) use the same actions.                                     *)
(*                                                                         *)
(* held[a] = <<source, epoch>>: where agent a's current truth state comes  *)
(* from ("init", "realtime", "import") and which epoch it belongs to.      *)
(*                                                                         *)
(* Properties: ImportFaithful, NoStaleState (= a gap raises instead of     *)
(* continuing), ObsReachFilter, ImporterReadOnly.                          *)
(* Named deviation: CountBasedCheck (D9, as coded): completeness is judged *)
(* by comparing COUNTS of rows and registered agents.                      *)
(***************************************************************************)
EXTENDS Integers, Sequences, FiniteSets, TLC

CONSTANTS Configs,          \* set of configuration records explored in model-checking mode
          CountBasedCheck   \* D9 as coded

VARIABLES cfg,      \* [agents, imported, targets, rows: set of <<a, k>>, obs: set of <<k, t, s>>, nsteps,
                    \*  born: [agents -> step in which the agent joins the scenario (0 = from the start)]]
          k, pc,
          held,     \* [agents -> <<source, epoch>>]
          registered,
          reached,  \* [targets -> set of <<k, t, s>>] observations handed to the filter update this step
          impdb     \* the importer database as the run leaves it: <<rows, obs>>
vars == <<cfg, k, pc, held, registered, reached, impdb>>

InitWith(c) ==
  /\ cfg = c /\ k = 0 /\ pc = "idle"
  /\ held = [a \in c.agents |-> <<"init", 0>>]
  /\ registered = {}
  /\ reached = [t \in c.targets |-> {}]
  /\ impdb = <<c.rows, c.obs>>
Init == \E c \in Configs : InitWith(c)

\* agents that take part in step j (an agent added by an event of step j is propagated / imported in step j)
Active(j) == {a \in cfg.agents : cfg.born[a] <= j}
RowsAt(j) == {r \in cfg.rows : r[2] = j}
HasRow(a, j) == <<a, j>> \in cfg.rows

\* ticToc; realtime agents are propagated by jobs, the others register with the importer
BeginStep ==
  /\ pc = "idle" /\ k < cfg.nsteps
  /\ k' = k + 1
  /\ registered' = cfg.imported \cap Active(k + 1)          \* every imported agent currently in the scenario, each step anew
  /\ held' = [a \in cfg.agents |-> IF a \in cfg.imported \/ a \notin Active(k + 1) THEN held[a] ELSE <<"realtime", k + 1>>]
  /\ reached' = [t \in cfg.targets |-> {}]
  /\ pc' = "registered"
  /\ UNCHANGED <<cfg, impdb>>

Complete == IF CountBasedCheck
              THEN Cardinality(RowsAt(k)) >= Cardinality(registered)
              ELSE \A a \in registered : HasRow(a, k)

\* importEphemerides: every registered agent with a row takes the row's state
ImportOk ==
  /\ pc = "registered" /\ cfg.imported # {} /\ Complete
  /\ held' = [a \in cfg.agents |-> IF a \in registered /\ HasRow(a, k) THEN <<"import", k>> ELSE held[a]]
  /\ registered' = {a \in registered : ~HasRow(a, k)}
  /\ pc' = "imported"
  /\ UNCHANGED <<cfg, k, reached, impdb>>

\* a scenario whose agents are all realtime has no ephemeris importer at all
SkipImport ==
  /\ pc = "registered" /\ cfg.imported = {}
  /\ pc' = "imported"
  /\ UNCHANGED <<cfg, k, held, registered, reached, impdb>>

\* MissingEphemerisError: the run stops
ImportMissing ==
  /\ pc = "registered" /\ ~Complete
  /\ pc' = "raised"
  /\ UNCHANGED <<cfg, k, held, registered, reached, impdb>>

\* loadImportedObservations + routing into the EstUpdate job of the observed target
LoadObs ==
  /\ pc = "imported"
  /\ reached' = [t \in cfg.targets |-> {o \in cfg.obs : o[1] = k /\ o[2] = t}]
  /\ pc' = "loaded"
  /\ UNCHANGED <<cfg, k, held, registered, impdb>>

EndStep ==
  /\ pc = "loaded"
  /\ pc' = "idle"
  /\ UNCHANGED <<cfg, k, held, registered, reached, impdb>>

Next == BeginStep \/ ImportOk \/ SkipImport \/ ImportMissing \/ LoadObs \/ EndStep
Spec == Init /\ [][Next]_vars

\* after a successful import every imported agent holds the database record of THIS epoch
ImportFaithful ==
  pc \in {"imported", "loaded"} => \A a \in cfg.imported \cap Active(k) : held[a] = <<"import", k>>
\* ... in particular the run never continues with a stale state: a gap must raise
NoStaleState ==
  pc \in {"imported", "loaded", "idle"} => \A a \in cfg.imported \cap Active(k) : held[a][2] = k
\* stored observations of the epoch reach the filter of their target at that epoch
ObsReachFilter ==
  pc = "loaded" => \A t \in cfg.targets : reached[t] = {o \in cfg.obs : o[1] = k /\ o[2] = t}
\* the importer database is never modified by a run
ImporterReadOnly == [][impdb' = impdb]_vars
=============================================================================
