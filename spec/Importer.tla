------------------------------- MODULE Importer -------------------------------
(***************************************************************************)
(* C19: agents that take their truth state from an importer database.      *)
(*                                                                         *)
(* Mirrors Scenario.stepForward (registration of non-realtime agents, the  *)
(* loop over the tasking engines, obs_dict -> EstUpdateRegistration),      *)
(* dynamics/importer.py:EphemerisImporter.importEphemerides and            *)
(* CentralizedTaskingEngine.loadImportedObservations (called from assess). *)
(*                                                                         *)
(* The configuration (agent sets, which agents are imported, the Epoch     *)
(* rows and ephemeris rows of the importer database - possibly with        *)
(* unrelated agents, with gaps for some agents, with epochs that are       *)
(* absent ALTOGETHER -, its observation rows, the tasking engines with     *)
(* their sensor partition and target lists) is a VARIABLE fixed by Init,   *)
(* so that exhaustive exploration (all row sets) and trace validation (one *)
(* configuration per recorded run) use the same actions.                   *)
(*                                                                         *)
(* held[a] = <<source, epoch>>: where agent a's current truth state comes  *)
(* from ("init", "realtime", "import") and which epoch it belongs to.      *)
(* reached[o] = how many times observation row o has been handed to the    *)
(* filter update of its target in the current step.                        *)
(*                                                                         *)
(* Properties: ImportFaithful, NoStaleState (= a gap raises instead of     *)
(* continuing - whether the record is missing for one agent or the whole   *)
(* epoch is missing from the database), ObsReachFilter (every stored       *)
(* observation of the epoch reaches its target's filter exactly once,      *)
(* whichever engines own the sensor and the target, and also when the row  *)
(* is stored twice: the observation table is a BAG), RunContinues (the     *)
(* only way a run stops early is MissingEphemerisError), ImporterReadOnly  *)
(* (rows AND schema: opening the database creates nothing in it),          *)
(* OutputFaithful (the truth rows the run writes to its output database    *)
(* are one per agent and step, at that step's epoch, with the state held). *)
(* Named deviations (each must be refuted by TLC):                         *)
(*   CountBasedCheck     (D9, as once coded) completeness judged by COUNTS *)
(*   SkipEpochWithoutRow the Epoch row is resolved first; "nothing to      *)
(*                       import" when the database has no such epoch       *)
(*   LoadEveryEngine     (D28, as once coded) every engine loads every     *)
(*                       observation of the epoch                          *)
(*   LoadOnlyOwnTargets  an engine loads only observations made by its own *)
(*                       sensors of its own targets                        *)
(*   MatchWholeSecond    the importer epoch is matched on the timestamp up  *)
(*                       to the second: a record at ANOTHER epoch inside   *)
(*                       the same wall-clock second is imported / masks a  *)
(*                       gap                                               *)
(*   DedupIgnoresSensor  (as once coded) the duplicate test of             *)
(*                       loadImportedObservations looks at the sensor's    *)
(*                       POSITION and the target only: of two different    *)
(*                       sensors at the same coordinates only one          *)
(*                       observation of a target survives                  *)
(*   FreezeRoster        the own-sensors filter of an engine's query is    *)
(*                       built at its first load and never refreshed: a    *)
(*                       sensor that joins later is never loaded, one that *)
(*                       left still is                                     *)
(*   StampCachedEpoch    an imported agent's output rows keep the Julian   *)
(*                       date cached at the initial save                   *)
(*   CrashOnDuplicate    (as once coded) the "dropped duplicate" branch of *)
(*                       loadImportedObservations raises AttributeError    *)
(*   KeepDuplicates      a row stored twice is handed to the filter twice  *)
(*   CreateMissingTables (as once coded) opening the importer database     *)
(*                       runs create_all on it: tables of the data model   *)
(*                       the file lacks are created in it                  *)
(***************************************************************************)
EXTENDS Integers, Sequences, FiniteSets, TLC

CONSTANTS Configs,              \* set of configuration records explored in model-checking mode
          CountBasedCheck,      \* D9 as coded
          SkipEpochWithoutRow,
          LoadEveryEngine,      \* D28 as coded
          LoadOnlyOwnTargets,
          MatchWholeSecond,
          DedupIgnoresSensor,
          FreezeRoster,
          StampCachedEpoch,
          CrashOnDuplicate,
          KeepDuplicates,
          CreateMissingTables

VARIABLES cfg,      \* [agents, imported, targets, nsteps,
                    \*  epochs: set of step indices for which the importer database has an Epoch row,
                    \*  rows: set of <<a, k>> (ephemeris records), obs: set of <<k, t, s>> (observation records),
                    \*  near: set of <<a, j, side>>: ephemeris records at epochs that are NOT scenario epochs (the database
                    \*       was sampled at other instants too, or merged from two producers): side "before" / "after" = inside
                    \*       the same wall-clock second as scenario epoch j (the scenario starts on a fractional second),
                    \*       "mid" = between step j - 1 and step j, in another second,
                    \*  site: [sensors -> site]: sensors with the same site have IDENTICAL coordinates (two sensors of one
                    \*       facility configured with the same latitude / longitude / altitude, or hosted on one spacecraft),
                    \*  dup: the observation records that are stored TWICE (same sensor, target, epoch, values: e.g. a
                    \*       database into which a run was imported twice),
                    \*  schema: "full" (every table of the data model exists) or "minimal" (only the tables the importer
                    \*       reads: epochs, agents, truth ephemerides, observations),
                    \*  born: [agents -> step in which the agent joins the scenario (0 = from the start)],
                    \*  gone: [agents -> first step in which the agent is no longer in the scenario (nsteps + 1 = stays)]:
                    \*       Scenario.addSensor / removeSensor (or the events) between two steps change an engine's roster,
                    \*  engines: set of engine ids, sensorOf: [sensors -> engine], tracks: [engines -> SUBSET targets]]
          k, pc,
          held,     \* [agents -> <<source, epoch>>]
          registered,
          done,     \* engines that have assessed (and loaded their imported observations) this step
          reached,  \* [obs -> number of times handed to the filter update of the observed target this step]
          out,      \* truth-ephemeris rows the run has written to its OUTPUT database: set of <<a, epoch stamp, held[a]>>
          impdb     \* the importer database as the run leaves it: <<epochs, rows, obs, dup, schema, near>>
vars == <<cfg, k, pc, held, registered, done, reached, impdb, out>>

SensorsIn(c) == c.agents \ c.targets
\* what an importer database / scenario pair looks like: records hang on Epoch rows (foreign key), observations are
\* of targets by sensors of the scenario, every sensor is tasked by exactly one engine, every target by at least one
WellFormed(c) ==
  /\ c.imported \subseteq c.agents /\ c.targets \subseteq c.agents
  /\ \A r \in c.rows : r[2] \in c.epochs
  /\ \A o \in c.obs : o[1] \in c.epochs /\ o[2] \in c.targets /\ o[3] \in SensorsIn(c)
  /\ c.dup \subseteq c.obs /\ c.schema \in {"full", "minimal"}
  /\ \A r \in c.near : r[2] \in 0..c.nsteps /\ r[3] \in {"before", "after", "mid"}
  /\ DOMAIN c.site = SensorsIn(c) /\ DOMAIN c.born = c.agents /\ DOMAIN c.gone = c.agents
  /\ DOMAIN c.sensorOf = SensorsIn(c) /\ \A s \in SensorsIn(c) : c.sensorOf[s] \in c.engines
  /\ DOMAIN c.tracks = c.engines /\ \A t \in c.targets : \E e \in c.engines : t \in c.tracks[e]

InitWith(c) ==
  /\ WellFormed(c)
  /\ cfg = c /\ k = 0 /\ pc = "closed"
  /\ held = [a \in c.agents |-> <<"init", 0>>]
  /\ registered = {}
  /\ done = {}
  /\ reached = [o \in c.obs |-> 0]
  /\ impdb = <<c.epochs, c.rows, c.obs, c.dup, c.schema, c.near>>
  /\ out = {}
Init == \E c \in Configs : InitWith(c)

\* agents that take part in step j (an agent added by an event of step j is propagated / imported in step j)
Active(j) == {a \in cfg.agents : cfg.born[a] <= j /\ j < cfg.gone[a]}
RowsAt(j) == {r \in cfg.rows : r[2] = j}
HasRow(a, j) == <<a, j>> \in cfg.rows
SensorsOf(e) == {s \in SensorsIn(cfg) : cfg.sensorOf[s] = e}
\* the whole epoch is absent from the importer database: a hole across all agents, a database sampled more coarsely
\* than the physics step, a database that ends before the scenario does
EpochAbsent(j) == j \notin cfg.epochs

\* building the scenario: every engine and the ephemeris importer open the database (ImporterDatabase.__init__)
OpenImporter ==
  /\ pc = "closed"
  /\ pc' = "idle"
  /\ impdb' = IF CreateMissingTables THEN [impdb EXCEPT ![5] = "full"] ELSE impdb
  /\ UNCHANGED <<cfg, k, held, registered, done, reached, out>>

\* ticToc; realtime agents are propagated by jobs, the others register with the importer
BeginStep ==
  /\ pc = "idle" /\ k < cfg.nsteps
  /\ k' = k + 1
  /\ registered' = cfg.imported \cap Active(k + 1)          \* every imported agent currently in the scenario, each step anew
  /\ held' = [a \in cfg.agents |-> IF a \in cfg.imported \/ a \notin Active(k + 1) THEN held[a] ELSE <<"realtime", k + 1>>]
  /\ done' = {}
  /\ reached' = [o \in cfg.obs |-> 0]
  /\ pc' = "registered"
  /\ UNCHANGED <<cfg, impdb, out>>

\* records of a at other epochs inside the wall-clock second of scenario epoch j: as designed they are never used
SameSecond(a, j, sides) == {r \in cfg.near : r[1] = a /\ r[2] = j /\ r[3] \in sides}
\* deviation: everything whose timestamp starts with the scenario epoch's second counts as "the record of this epoch"
Matched(a) == HasRow(a, k) \/ (MatchWholeSecond /\ SameSecond(a, k, {"before", "after"}) # {})
Complete == IF CountBasedCheck
              THEN Cardinality(RowsAt(k)) >= Cardinality(registered)
              ELSE \A a \in registered : Matched(a)
\* deviation: "the database holds no data at this epoch, nothing to import"
EpochSkipped == SkipEpochWithoutRow /\ EpochAbsent(k)
\* what the agents hold after importEphemerides went through
\* (under MatchWholeSecond the first matching row wins: the earliest epoch of the second)
AfterImport == [a \in cfg.agents |->
                  IF a \notin registered \/ ~Matched(a) THEN held[a]
                  ELSE IF MatchWholeSecond /\ SameSecond(a, k, {"before"}) # {} THEN <<"foreign", k>>
                  ELSE IF HasRow(a, k) THEN <<"import", k>>
                  ELSE <<"foreign", k>>]

\* importEphemerides: every registered agent with a row takes the row's state
ImportOk ==
  /\ pc = "registered" /\ cfg.imported # {} /\ (Complete \/ EpochSkipped)
  /\ held' = AfterImport
  /\ registered' = {a \in registered : ~Matched(a)}
  /\ pc' = "imported"
  /\ UNCHANGED <<cfg, k, done, reached, impdb, out>>

\* a scenario whose agents are all realtime has no ephemeris importer at all
SkipImport ==
  /\ pc = "registered" /\ cfg.imported = {}
  /\ pc' = "imported"
  /\ UNCHANGED <<cfg, k, held, registered, done, reached, impdb, out>>

\* MissingEphemerisError: the run stops
ImportMissing ==
  /\ pc = "registered" /\ cfg.imported # {} /\ ~(Complete \/ EpochSkipped)
  /\ pc' = "raised"
  /\ UNCHANGED <<cfg, k, held, registered, done, reached, impdb, out>>

\* engine e's assess(): loadImportedObservations, then Scenario files them under the observed target (obs_dict)
Queried(e) == {o \in cfg.obs : /\ o[1] = k
                               /\ (LoadEveryEngine \/ o[3] \in SensorsOf(e) \cap Active(IF FreezeRoster THEN 1 ELSE k))
                               /\ (LoadOnlyOwnTargets => o[2] \in cfg.tracks[e])}
\* observations of one target made from one place; as designed two DIFFERENT sensors are two observations
SamePlace(e, o) == {p \in Queried(e) : p[2] = o[2] /\ cfg.site[p[3]] = cfg.site[o[3]]}
Loads(e) == IF DedupIgnoresSensor THEN {o \in Queried(e) : o = CHOOSE p \in SamePlace(e, o) : TRUE} ELSE Queried(e)
\* the query returns a stored-twice row twice; the engine keeps the first and drops the second ("Dropped duplicate")
Copies(o) == IF KeepDuplicates /\ o \in cfg.dup THEN 2 ELSE 1
HitsDuplicate(e) == Loads(e) \cap cfg.dup # {}
LoadObs(e) ==
  /\ pc = "imported" /\ e \in cfg.engines \ done
  /\ ~(CrashOnDuplicate /\ HitsDuplicate(e))
  /\ done' = done \cup {e}
  /\ reached' = [o \in cfg.obs |-> IF o \in Loads(e) THEN reached[o] + Copies(o) ELSE reached[o]]
  /\ UNCHANGED <<cfg, k, pc, held, registered, impdb, out>>

\* deviation: the branch that drops the duplicate raises, stepForward dies
LoadObsCrash(e) ==
  /\ pc = "imported" /\ e \in cfg.engines \ done
  /\ CrashOnDuplicate /\ HitsDuplicate(e)
  /\ pc' = "crashed"
  /\ UNCHANGED <<cfg, k, held, registered, done, reached, impdb, out>>

\* after the last engine: one EstUpdate job per estimate, fed with everything filed under its target
UpdateFilters ==
  /\ pc = "imported" /\ done = cfg.engines
  /\ pc' = "loaded"
  /\ UNCHANGED <<cfg, k, held, registered, done, reached, impdb, out>>

\* the step is complete; on an output step saveDatabaseOutput writes one truth row per agent of the scenario, stamped with
\* the agent's own epoch (deviation: an imported agent's Julian date is cached at the initial save and never refreshed,
\* because importState assigns the time directly)
Stamp(a) == IF StampCachedEpoch /\ a \in cfg.imported THEN 0 ELSE k
EndStep ==
  /\ pc = "loaded"
  /\ pc' = "idle"
  /\ out' = out \cup {<<a, Stamp(a), held[a]>> : a \in Active(k)}
  /\ UNCHANGED <<cfg, k, held, registered, done, reached, impdb>>

\* the engines assess one after the other (dictionary order in the code; the outcome does not depend on the order)
LoadObsSome == \E e \in cfg.engines : LoadObs(e) \/ LoadObsCrash(e)

Next == OpenImporter \/ BeginStep \/ ImportOk \/ SkipImport \/ ImportMissing \/ LoadObsSome \/ UpdateFilters \/ EndStep
Spec == Init /\ [][Next]_vars

\* after a successful import every imported agent holds the database record of THIS epoch
ImportFaithful ==
  pc \in {"imported", "loaded"} => \A a \in cfg.imported \cap Active(k) : held[a] = <<"import", k>>
\* ... in particular the run never continues with a stale state: a gap must raise
NoStaleState ==
  pc \in {"imported", "loaded", "idle"} => \A a \in cfg.imported \cap Active(k) : held[a][2] = k
\* stored observations of the epoch reach the filter of their target at that epoch - each exactly once, none of another epoch
\* ... iff its sensor belongs to an engine of the scenario AT THAT EPOCH (a sensor may join or leave between steps)
ExpectedCount(o) == IF o[1] = k /\ o[3] \in Active(k) THEN 1 ELSE 0
ObsReachFilter ==
  pc = "loaded" => \A o \in cfg.obs : o[2] \in Active(k) => reached[o] = ExpectedCount(o)
\* a run ends by reaching its last step or by MissingEphemerisError - an importer database never makes it die otherwise
RunContinues == pc # "crashed"
\* what the run writes out is what the agents held: exactly one truth row per agent and completed step, stamped with that
\* step's epoch and carrying the state of that epoch (for an imported agent: the importer record of that epoch)
OutputFaithful ==
  pc = "idle" => /\ \A r \in out : r[2] \in 1..k /\ r[1] \in Active(r[2]) /\ r[3][2] = r[2]
                 /\ \A j \in 1..k : \A a \in Active(j) : Cardinality({r \in out : r[1] = a /\ r[2] = j}) = 1
\* the importer database is never modified by a run: neither its rows nor its schema
ImporterReadOnly == [][impdb' = impdb]_vars
\* an observation whose sensor is tasked by an engine that does not track its target
CrossEngine(o) == o[2] \notin cfg.tracks[cfg.sensorOf[o[3]]]
=============================================================================
