SPECIFICATION Spec
CONSTANTS MaxCalls = 2 InvertStartBySecTruncation = FALSE SampleMod = 3 SampleSeed = 0
CONSTANT StartSecs <- Secs60
CONSTANT Dts <- DtsLong
CONSTANT Quots <- QuotsLong
CONSTANT Rems <- RemsLong
INVARIANT StepsHonoured
INVARIANT EpochsAreStartPlusKDt
INVARIANT NoOvershoot
INVARIANT StopsOnlyWhenNoStepFits
INVARIANT Emit
