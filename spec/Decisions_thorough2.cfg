SPECIFICATION Spec
CONSTANTS MaxT = 2 MaxS = 3 RewardVals = {0, 1, 2} Policies = {"munkres", "greedy", "random", "allvisible"} VisBonus = 0
INVARIANT NonEmpty
INVARIANT DecisionFeasible
INVARIANT RelabelEquivariant
INVARIANT ScaleInvariant
INVARIANT MunkresOptimal
INVARIANT GreedyOptimal
