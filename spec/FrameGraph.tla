----------------------------- MODULE FrameGraph -----------------------------
(***************************************************************************)
(* Reference frames / coordinate systems of resonaate as a graph           *)
(* (property C04).  Nodes are the frames, edges are the conversion         *)
(* functions of physics/transforms/methods.py, each with the attributes    *)
(* the driver needs to execute it and to know what it must preserve:       *)
(*                                                                         *)
(*   fn     name of the function in methods.py                             *)
(*   impl   "real"    the function exists and is called as is              *)
(*          "derived" no function with that signature exists; the edge is  *)
(*                    realised from real functions only (see the driver):  *)
(*                    radec2eci = spherical2cartesian(..) + observer_eci   *)
(*                    (exactly what radec2razel does first), eci2ntw = the *)
(*                    transpose of the images of the unit vectors under    *)
(*                    the real ntw2eci                                     *)
(*   rigid  the position map is an isometry between Cartesian frames       *)
(*          (rotation, possibly after subtracting the site / reference)    *)
(*   rvel   the velocity is mapped by the same rotation (its norm is kept) *)
(*   vel    the velocity is carried at all (LLA has no velocity)           *)
(*          (radarObs2eciPosition returns the position only)               *)
(*   date / site / ref   the edge needs the UTC date / an observer site /  *)
(*          a reference orbit state                                        *)
(*                                                                         *)
(* The abstract state is "the physical point, untouched, plus the frame it *)
(* is currently expressed in": every edge changes `frame` and leaves       *)
(* `point` alone (PointUntouched).  A closed walk (frame = start again)    *)
(* therefore denotes the identity on coordinates: the driver executes each *)
(* closed walk TLC enumerates with the REAL functions and requires the     *)
(* coordinates at the end to equal those at the start; at every Cartesian  *)
(* frame on the way the pairwise distances of a small constellation must   *)
(* equal the original ones, and rigid edges must keep norms.               *)
(*                                                                         *)
(* Representation.  "All states" includes the integer-valued ones, and the *)
(* container a state is handed over in (float64 / int64 / float32 array,   *)
(* Python list; Python int / numpy float32 scalars for angle tuples) is    *)
(* not part of the physical point.  HandOver(e, r, k) is a behaviour of    *)
(* length one: the integer coordinates k (IntArgs) are handed to the       *)
(* conversion e in container r.  The driver calls the real function with   *)
(* exactly that container and requires the result of the float64 hand-over *)
(* (RepresentationIrrelevant).                                             *)
(***************************************************************************)
EXTENDS Integers, Sequences, FiniteSets, TLC, Json

CONSTANTS MaxLen,    \* longest walk enumerated
          Starts     \* frames in which walks start

Frames    == {"ECI", "ECEF", "LLA", "SEZ", "RAZEL", "RADEC", "RSW", "NTW"}
Cartesian == {"ECI", "ECEF", "SEZ", "RSW", "NTW"}

Ed(fn, src, dst, impl, rigid, rvel, vel, date, site, ref) ==
  [fn |-> fn, src |-> src, dst |-> dst, impl |-> impl, rigid |-> rigid, rvel |-> rvel,
   vel |-> vel, date |-> date, site |-> site, ref |-> ref]

T == TRUE
F == FALSE
Edges == {
  \*  fn             src      dst      impl       rigid rvel vel date site ref
  Ed("eci2ecef",    "ECI",   "ECEF",  "real",    T, F, T, T, F, F),
  Ed("ecef2eci",    "ECEF",  "ECI",   "real",    T, F, T, T, F, F),
  Ed("ecef2lla",    "ECEF",  "LLA",   "real",    F, F, F, F, F, F),
  Ed("lla2ecef",    "LLA",   "ECEF",  "real",    F, F, F, F, F, F),
  Ed("eci2lla",     "ECI",   "LLA",   "real",    F, F, F, T, F, F),
  Ed("lla2eci",     "LLA",   "ECI",   "real",    F, F, F, T, F, F),
  Ed("ecef2sez",    "ECEF",  "SEZ",   "real",    T, T, T, F, T, F),
  Ed("sez2ecef",    "SEZ",   "ECEF",  "real",    T, T, T, F, T, F),
  Ed("eci2sez",     "ECI",   "SEZ",   "real",    T, F, T, T, T, F),
  Ed("sez2eci",     "SEZ",   "ECI",   "real",    T, F, T, T, T, F),
  Ed("sez2razel",   "SEZ",   "RAZEL", "real",    F, F, T, F, F, F),
  Ed("razel2sez",   "RAZEL", "SEZ",   "real",    F, F, T, F, F, F),
  Ed("eci2razel",   "ECI",   "RAZEL", "real",    F, F, T, T, T, F),
  Ed("radarObs2eciPosition", "RAZEL", "ECI", "real", F, F, F, T, T, F),
  Ed("razel2radec", "RAZEL", "RADEC", "real",    F, F, T, T, T, F),
  Ed("radec2razel", "RADEC", "RAZEL", "real",    F, F, T, T, T, F),
  Ed("eci2radec",   "ECI",   "RADEC", "real",    F, F, T, T, T, F),
  Ed("radec2eci",   "RADEC", "ECI",   "derived", F, F, T, F, T, F),
  Ed("eci2rsw",     "ECI",   "RSW",   "real",    T, T, T, F, F, T),
  Ed("rsw2eci",     "RSW",   "ECI",   "real",    T, T, T, F, F, T),
  Ed("ntw2eci",     "NTW",   "ECI",   "real",    T, T, T, F, F, T),
  Ed("eci2ntw",     "ECI",   "NTW",   "derived", T, T, T, F, F, T) }

EdgeNamed(n) == CHOOSE e \in Edges : e.fn = n
EdgeNames    == {e.fn : e \in Edges}

\* the other conversions each function calls directly (read off methods.py), and the transitive closure.
\* Not part of the property: the driver uses it only to name the most likely culprit when closed walks fail.
Calls(fn) ==
  CASE fn = "eci2sez"     -> {"eci2ecef", "ecef2sez"}
    [] fn = "sez2eci"     -> {"sez2ecef", "ecef2eci"}
    [] fn = "eci2lla"     -> {"eci2ecef", "ecef2lla"}
    [] fn = "lla2eci"     -> {"lla2ecef", "ecef2eci"}
    [] fn = "eci2razel"   -> {"eci2ecef", "ecef2lla", "ecef2sez", "sez2razel"}     \* via getSlantRangeVector
    [] fn = "radec2razel" -> {"eci2razel"}
    [] fn = "razel2radec" -> {"eci2ecef", "ecef2lla", "razel2sez", "sez2ecef", "ecef2eci"}
    [] fn = "radarObs2eciPosition" -> {"razel2sez", "eci2ecef", "ecef2lla", "sez2eci"}
    [] fn = "eci2radec"   -> {"eci2razel", "razel2radec"}
    [] fn = "eci2ntw"     -> {"ntw2eci"}
    [] OTHER              -> {}
RECURSIVE UsesFrom(_)
UsesFrom(S) == LET N == S \cup UNION {Calls(n) : n \in S} IN IF N = S THEN S ELSE UsesFrom(N)
Uses(fn) == UsesFrom(Calls(fn))
ASSUME UsesAreEdges == \A n \in EdgeNames : Uses(n) \subseteq EdgeNames

\* ---- well-formedness of the graph itself (checked once by TLC) ----
ASSUME EdgesTyped   == \A e \in Edges : e.src \in Frames /\ e.dst \in Frames /\ e.src # e.dst
ASSUME NamesUnique  == \A e, f \in Edges : e.fn = f.fn => e = f
\* "each conversion pair is mutually inverse": every edge has a reverse edge
ASSUME EveryEdgeHasReverse == \A e \in Edges : \E f \in Edges : f.src = e.dst /\ f.dst = e.src
\* isometries only make sense between Cartesian frames; a rigidly mapped velocity needs a rigid edge
ASSUME RigidIsCartesian == \A e \in Edges : (e.rigid => e.src \in Cartesian /\ e.dst \in Cartesian)
                                            /\ (e.rvel => e.rigid /\ e.vel)
\* every frame reaches every other one (so closed walks pass through every frame)
RECURSIVE Reach(_)
Reach(S) == LET N == S \cup {e.dst : e \in {x \in Edges : x.src \in S}}
            IN IF N = S THEN S ELSE Reach(N)
ASSUME StronglyConnected == \A f \in Frames : Reach({f}) = Frames

(***************************************************************************)
(* State machine: a walk in the graph.                                     *)
(***************************************************************************)
Reps == {"float64", "int64", "float32", "list"}
\* functions documented to take the state RELATIVE to the observer although they start in an absolute frame
HandedRelative == {"ecef2sez", "eci2sez"}
\* integer-valued coordinates handed to a conversion, by the kind of its argument
IntAbsolute == { <<7000, 200, -300, 1, 7, 2>>, <<0, 0, -6500, 7, 0, 0>>, <<-20000, 15000, 8000, -2, -3, 1>> }
IntRelative == { <<0, 0, 100, 0, 0, 1>>, <<-295, 0, 52, 0, 7, 0>>, <<3, -4, 12, 1, 2, -2>> }
IntGeodetic == { <<1, -2, 400>>, <<0, 3, 0>>, <<-1, 0, 35786>> }
IntAngles   == { <<800, 1, 2, 1, 0, 0>>, <<100, 0, 4, 0, 0, 0>>, <<52, -1, 6, -2, 1, 1>> }
IntArgs(e) == CASE e.src = "LLA"                 -> IntGeodetic
                [] e.src \in {"RAZEL", "RADEC"}  -> IntAngles
                [] e.src \in {"SEZ", "RSW", "NTW"} \/ e.fn \in HandedRelative -> IntRelative
                [] OTHER                         -> IntAbsolute

VARIABLES start, frame, walk, point, hasVel, rep, coords
vars == <<start, frame, walk, point, hasVel, rep, coords>>

Init == /\ start \in Starts /\ frame = start /\ walk = <<>>
        /\ point = "P" /\ hasVel = TRUE
        /\ rep \in Reps /\ coords = <<>>

\* one action per conversion function: it re-expresses the same point
Convert(e) == /\ e.src = frame /\ rep = "float64"
              /\ Len(walk) < MaxLen
              /\ frame' = e.dst
              /\ walk' = Append(walk, e.fn)
              /\ hasVel' = (hasVel /\ e.vel)
              /\ UNCHANGED <<start, point, rep, coords>>
\* the same conversion, handed integer coordinates in another container (a behaviour of length one)
HandOver(e) == /\ e.src = frame /\ rep # "float64" /\ walk = <<>>
               /\ \E k \in IntArgs(e) : coords' = k
               /\ frame' = e.dst
               /\ walk' = <<e.fn>>
               /\ hasVel' = e.vel
               /\ UNCHANGED <<start, point, rep>>

Next == \E e \in Edges : Convert(e) \/ HandOver(e)
Spec == Init /\ [][Next]_vars

Closed == frame = start /\ Len(walk) >= 2
Handed == rep # "float64" /\ Len(walk) = 1
\* the container is not part of the state: a hand-over reaches exactly the state the plain conversion reaches
RepresentationIrrelevant ==
  Handed => /\ point = "P" /\ frame = EdgeNamed(walk[1]).dst /\ coords \in IntArgs(EdgeNamed(walk[1]))

TypeOK == /\ start \in Frames /\ frame \in Frames /\ Len(walk) <= MaxLen
          /\ \A i \in 1..Len(walk) : \E e \in Edges : e.fn = walk[i]
\* consecutive conversions chain: the walk is a path from `start` to `frame`
WalkChains ==
  /\ (walk # <<>> => EdgeNamed(walk[1]).src = start /\ EdgeNamed(walk[Len(walk)]).dst = frame)
  /\ \A i \in 1..(Len(walk) - 1) : EdgeNamed(walk[i]).dst = EdgeNamed(walk[i + 1]).src
\* no conversion touches the physical point
PointUntouched == point = "P"
PointNeverChanges == [][point' = point]_vars
\* velocity survives exactly when no edge of the walk drops it
VelocityBookkeeping == hasVel = (\A i \in 1..Len(walk) : EdgeNamed(walk[i]).vel)

Needs(attr(_)) == \E i \in 1..Len(walk) : attr(EdgeNamed(walk[i]))
EmitHand == Handed => PrintT("HAND " \o ToJson([fn |-> walk[1], rep |-> rep, coords |-> coords]))
EmitWalk == Closed =>
  PrintT("WALK " \o ToJson([start |-> start, walk |-> walk, vel |-> hasVel,
                            date |-> Needs(LAMBDA e : e.date), site |-> Needs(LAMBDA e : e.site),
                            ref |-> Needs(LAMBDA e : e.ref)]))
\* the edge table itself, for the driver (emitted once, from the initial states)
EmitEdges == (walk = <<>> /\ rep = "float64" /\ start = CHOOSE s \in Starts : TRUE) =>
  PrintT("EDGES " \o ToJson([cart |-> Cartesian, edges |-> Edges, uses |-> [n \in EdgeNames |-> Uses(n)]]))

AllFrames == Frames
=============================================================================
