INIT MCInitThorough
NEXT Next
CONSTANTS Configs = {}
  CountBasedCheck = FALSE
  SkipEpochWithoutRow = FALSE
  LoadEveryEngine = FALSE
  LoadOnlyOwnTargets = FALSE
INVARIANT ImportFaithful
INVARIANT NoStaleState
INVARIANT ObsReachFilter
PROPERTY ImporterReadOnly
