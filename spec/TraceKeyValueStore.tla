------------------------- MODULE TraceKeyValueStore -------------------------
(* impl -> spec for G01: sequences of transactions RECORDED from the real      *)
(* KeyValueStore (wrapper around KeyValueStore.submitTransaction) - while a    *)
(* real scenario runs, while real client threads run the db_connection /       *)
(* EventStack / CachedReductionParams calls under a seeded scheduler - are     *)
(* validated against KeyValueStore.tla.  Every record must be explained by the *)
(* spec action of its call: same transaction, same reply, same completion of   *)
(* the call, and the dictionary read back from the actor after the transaction *)
(* must equal the spec's.  The first record of a trace is the dictionary found *)
(* when recording started (configuration as a variable, as in Importer.tla);   *)
(* it is loaded by the first step (TLoad).  Clients, RawKeys (the key universe *)
(* of the batch) and NTraces are written into the cfg by the driver, so that   *)
(* the initial-state predicate never touches the trace file (TLC re-parses it  *)
(* on every reference while computing initial states).                         *)
EXTENDS KeyValueStore, IOUtils

CONSTANT NTraces
Traces == JsonDeserialize(IOEnv.TRACE_FILE)
VARIABLES tid, l
tvars == <<vars, tid, l>>
Tr  == Traces[tid]
Rec == Tr[l]

TrNone    == {}
\* every record lists every key of the universe (absent ones explicitly)
StoreOf(obj) == [k \in AllKeys |-> obj[k]]

TraceInit == tid \in 1..NTraces /\ l = 1 /\ Init
\* InitWith(dictionary found when recording started), as a step
TLoad ==
  /\ l = 1 /\ l' = 2 /\ UNCHANGED <<tid, pc, loc, got, last, deliveredAll, dup, lost, written, owners, built>>
  /\ store' = StoreOf(Tr[1].store)
  /\ evIds' = IF store'[EvKey].t = "list" THEN [i \in 1..Len(store'[EvKey].l) |-> i] ELSE <<>>
  /\ pushed' = Len(evIds')

RedAny(c, R) ==
  \/ Idle(c) /\ RedStart(c, R.loc.d, R.loc.m)
  \/ RedPmInit(c) \/ RedPmPut(c) \/ RedPnGrab(c) \/ RedPnInit(c) \/ RedPnPut(c)

TStep ==
  /\ l >= 2 /\ l <= Len(Tr)
  /\ LET R == Rec IN
     /\ \/ R.op = "set"    /\ Set(R.c, R.key, R.arg.v)
        \/ R.op = "get"    /\ Get(R.c, R.key)
        \/ R.op = "append" /\ AppendTx(R.c, R.key, R.arg.v.a)
        \/ R.op = "pop"    /\ Pop(R.c, R.key, R.arg.i)
        \/ R.op = "flush"  /\ Flush(R.c)
        \/ R.op = "dump"   /\ Dump(R.c)
        \/ R.op = "xset"   /\ XSet(R.c, R.key, R.arg.v)
        \/ R.op = "init"   /\ InitCache(R.c, R.key, R.arg.clear, R.arg.m)
        \/ R.op = "put"    /\ CachePut(R.c, R.key, R.arg.r, R.arg.v.a)
        \/ R.op = "grab"   /\ CacheGrab(R.c, R.key, R.arg.r)
        \/ R.op = "setDBPath"       /\ SetDBPath(R.c, R.arg.v.a)
        \/ R.op = "clearDBPath"     /\ ClearDBPath(R.c)
        \/ R.op = "getDBConnection" /\ GetDBConnection(R.c)
        \/ R.op = "pushEvent"       /\ PushEvent(R.c, R.arg.v.a)
        \/ R.op = "logAndFlush"     /\ (LogFlushBegin(R.c) \/ LogFlushStep(R.c))
        \/ R.op = "reduction"       /\ RedAny(R.c, R)
     \* the logged transaction, reply and outcome of the call are the spec's
     /\ last'.tx = R.tx /\ last'.key = R.key /\ last'.arg = R.arg
     /\ last'.res = R.res /\ last'.done = R.done /\ last'.opres = R.opres
     \* the dictionary read back from the actor is the spec's
     /\ store' = StoreOf(R.store)
  /\ l' = l + 1 /\ UNCHANGED tid

TraceSpec == TraceInit /\ [][TLoad \/ TStep]_tvars
Accept == PrintT(<<"AT", tid, l, Len(Tr) + 1>>)
=============================================================================
