------------------------ MODULE TraceLinearGaussian ------------------------
(***************************************************************************)
(* impl -> spec, property C06, state dimensions 3..8 and dense covariances *)
(* (outside the exact lattice of LinearGaussian.tla).                      *)
(*                                                                         *)
(* The driver runs the REAL UnscentedKalmanFilter on seeded random linear  *)
(* systems, logs the matrices after predict() / update() and projects      *)
(* every relation of the property to an INTEGER: the relative residual of  *)
(* the relation in units of 10^-12 (capped at 10^9; -1 = not applicable).  *)
(* Floating point never enters TLC; the numerical evaluation of a residual *)
(* (numpy, in the driver) is part of the trusted projection.  This module  *)
(* walks the logged life cycle predict (-> forecasts) -> update / noobs of  *)
(* every filter step (all on ONE filter instance) and states the          *)
(* relations as invariants on the projected record:                        *)
(*                                                                         *)
(*   wsum    | sum Wm_i - 1 |                              WeightsSumToOne *)
(*   sym     max asymmetry of pred_p / innov_cvr / est_p   Symmetric       *)
(*   psd     max(0, -lambda_min) of pred_p / innov_cvr / est_p      PSD    *)
(*   pkskt   || est_p - (pred_p - K S K') ||   PosteriorIsPriorMinusKSKt   *)
(*   le      max(0, -lambda_min(pred_p - est_p))           PosteriorLePrior*)
(*   noobs   || est_x - F x || , || est_p - pred_p ||                       *)
(*                                             NoObsReturnsPropagatedMean  *)
(*   kpred   || pred_x - F x || , || pred_p - (F P F' + Q) ||  KalmanPredict*)
(*   kfcast  the stand-alone forecast() calls made between predict() and   *)
(*           update() (nfc of them, each for a candidate stack Hc, Rc):    *)
(*           max of || S - (Hc Pg Hc' + Rc) ||, || K S - Pg Hc' ||,         *)
(*           || est_p - (pred_p - K S K') ||              ForecastIsKalman *)
(*   kinnov  || innov_cvr - (H Pg H' + R) ||               KalmanInnovation*)
(*   kgain   || K S - Pg H' ||                             KalmanGain      *)
(*   kmean   || est_x - (pred_x + K (y - H pred_x)) ||     KalmanMean      *)
(* with Pg = pred_p in redraw mode and F P F' in no-redraw mode (the two   *)
(* modes of LinearGaussian!Forecast).  Each norm is relative to the size   *)
(* of the quantities involved; the tolerance Tol is in the same units.     *)
(***************************************************************************)
EXTENDS Integers, Sequences, TLC, Json, IOUtils

CONSTANT Tol            \* 1000 = 10^-9 relative

Recs == JsonDeserialize(IOEnv.LG_RECORDS)

VARIABLES i, pc
vars == <<i, pc>>

\* records are picked in two stages (block, then record) so that TLC's workers share them
NB == 32
Init == i = 0 /\ pc = "start"
PickBlock == /\ i = 0 /\ pc = "start"
             /\ \E b \in 1..NB : i' = -b
             /\ pc' = "block"
PickRec == /\ pc = "block"
           /\ \E j \in {k \in DOMAIN Recs : k % NB = (-i) - 1} : i' = j /\ pc' = "posed"
\* the logged step: predict() first, then update() with or without observations
Predict == /\ pc = "posed" /\ pc' = "predicted" /\ UNCHANGED i
Update  == /\ pc = "predicted" /\ Recs[i].m > 0 /\ pc' = "updated" /\ UNCHANGED i
NoObs   == /\ pc = "predicted" /\ Recs[i].m = 0 /\ pc' = "kept" /\ UNCHANGED i
Next == PickBlock \/ PickRec \/ Predict \/ Update \/ NoObs
Spec == Init /\ [][Next]_vars

Within(v) == v = -1 \/ (0 <= v /\ v <= Tol)
Rec == Recs[i]
Live == pc \in {"posed", "predicted", "updated", "kept"}
After == pc \in {"updated", "kept"}

WellFormed == Live => /\ Rec.n \in 1..8 /\ Rec.m \in 0..16
                      /\ \A f \in {"wsum", "symp", "psdp", "kpred"} : f \in DOMAIN Rec
WeightsSumToOne == (pc = "posed") => Within(Rec.wsum)
KalmanPredict   == (pc = "predicted") => Within(Rec.kpred)
ForecastIsKalman == (pc = "predicted") => (Rec.nfc >= 0 /\ Within(Rec.kfcast))
Symmetric == /\ (pc = "predicted") => Within(Rec.symp)
             /\ After => Within(Rec.syme)
PSD       == /\ (pc = "predicted") => Within(Rec.psdp)
             /\ After => Within(Rec.psde)
KalmanInnovation == (pc = "updated") => Within(Rec.kinnov)
KalmanGain       == (pc = "updated") => Within(Rec.kgain)
KalmanMean       == (pc = "updated") => Within(Rec.kmean)
PosteriorIsPriorMinusKSKt == (pc = "updated") => Within(Rec.pkskt)
PosteriorLePrior == After => Within(Rec.le)
NoObsReturnsPropagatedMean == (pc = "kept") => Within(Rec.noobs)
=============================================================================
