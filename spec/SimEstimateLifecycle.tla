------------------------- MODULE SimEstimateLifecycle -------------------------
(***************************************************************************)
(* spec -> impl: behaviours of EstimateLifecycle.tla generated with        *)
(* TLC -simulate under an ENVIRONMENT PLAN that the driver can realise     *)
(* through the public configuration alone.  `plan` = detector class        *)
(*   "always"  threshold -> 1: the chi-square test fails on every observed *)
(*             step;  "never"  threshold -> 0: it never fails;             *)
(*   "real"    small threshold and ONE large unplanned impulse in step     *)
(*             plan.man: no detection before it, a certain detection at    *)
(*             the first observed step from then on, free afterwards.      *)
(* PlanOK is a state CONSTRAINT (it prunes generated behaviours); it is    *)
(* NOT part of the specification the real traces are validated against.    *)
(* SimEmit prints, at the end of every step, what the driver needs to      *)
(* realise the behaviour and to compare the mode sequence.                 *)
(***************************************************************************)
EXTENDS MCEstimateLifecycle

VARIABLE plan
Plans == [cls : {"always", "never", "real"}, man : 1..NSteps]
MCInit == Init /\ plan \in {p \in Plans : (p.cls # "real" => p.man = 1) /\ (~cfg.md => p.cls = "never")}
MCNext == Next /\ UNCHANGED plan
MCSpec == MCInit /\ [][MCNext]_<<vars, plan>>

\* the fresh detector answer of this step (sequential filter updated with observations) follows the plan
PlanOK ==
  \A t \in Targets :
    (stage[t] \in 1..8 /\ wk[t].upd = "seq") =>
      CASE plan.cls = "always" -> wk[t].detNow
        [] plan.cls = "never"  -> ~wk[t].detNow
        [] OTHER -> /\ (k < plan.man => ~wk[t].detNow)
                    /\ (k >= plan.man /\ obsH[t] \cap (plan.man..(k - 1)) = {} => wk[t].detNow)

\* one line per end-of-step state (pc = "idle"); behaviours are separated by the level going down
SimEmit ==
  (pc = "idle" /\ k >= 1) =>
    PrintT("SIM " \o ToJson([lvl |-> TLCGet("level"), k |-> k, cfg |-> cfg, plan |-> plan,
                             tg |-> [t \in Targets |->
                                       [obs |-> wk[t].observed, det |-> wk[t].detNow, mode |-> mode[t],
                                        kind |-> filt[t].kind, iod |-> iod[t], beg |-> k \in begH[t],
                                        closed |-> wk[t].closedNow, iodok |-> k \in iodH[t],
                                        nman |-> Len(db.man[t]) + Len(pend[t])]]]))
=============================================================================
