INIT ObsInit
NEXT Next
CONSTANTS Configs = {}
  CountBasedCheck = FALSE
  SkipEpochWithoutRow = FALSE
  LoadEveryEngine = FALSE
  LoadOnlyOwnTargets = FALSE
  CrashOnDuplicate = FALSE
  KeepDuplicates = TRUE
  CreateMissingTables = FALSE
INVARIANT ImportFaithful
INVARIANT NoStaleState
INVARIANT ObsReachFilter
INVARIANT RunContinues
PROPERTY ImporterReadOnly
