\* NON-VACUITY (expected to FAIL): an absolute bonus for visible pairs in the assignment problem must be
\* refuted by MunkresOptimal on rewards of the bonus' own magnitude
SPECIFICATION Spec
CONSTANTS MaxT = 2 MaxS = 2 RewardVals = {0, 1, 2} Policies = {"munkres"} VisBonus = 1
INVARIANT MunkresOptimal
