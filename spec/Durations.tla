------------------------------ MODULE Durations ------------------------------
(***************************************************************************)
(* Timed runs of the simulator (property C05, second sentence):            *)
(*   "Asking the simulator to run for a duration D from any start instant  *)
(*    advances it by exactly floor(D / step) steps, and the epochs it      *)
(*    records are start + k*step."                                         *)
(*                                                                         *)
(* Code mirrored:                                                          *)
(*   resonaate/__init__.py:runResonaate      target = start + D            *)
(*   physics/time/conversions.py:getTargetJulianDate  (start recovered     *)
(*        from the start Julian date, then + D)                            *)
(*   scenario/scenario.py:Scenario.propagateTo                             *)
(*        rounded_delta = round(target - clock.time)                       *)
(*        delta < step -> ValueError, else int(delta/step) x stepForward   *)
(*   scenario/clock.py:ScenarioClock.ticToc  clock.time += step            *)
(*   scenario.saveDatabaseOutput             one epoch recorded per step   *)
(*                                                                         *)
(* Requests range from a few seconds to several days (Durations_long_*.cfg: *)
(* 12 h .. 4 d with steps of 1-2 h).                                        *)
(* All times are integer seconds relative to the scenario start.  The      *)
(* second of the minute of the start instant (startSec) is part of the     *)
(* configuration because it is the quantity the date inversion depends on: *)
(* as DESIGNED it has no influence (Loss = {0}); the named deviation       *)
(* InvertStartBySecTruncation = TRUE models the as-coded inversion that    *)
(* may come back one second early when startSec # 0, and TLC then finds    *)
(* the lost step (spec mutant used by the driver to show non-vacuity).     *)
(*                                                                         *)
(* Properties: StepsHonoured, EpochsAreStartPlusKDt, NoOvershoot,          *)
(* StopsOnlyWhenNoStepFits.                                                *)
(***************************************************************************)
EXTENDS Integers, Sequences, FiniteSets, TLC, Json

CONSTANTS StartSecs,                  \* seconds of the minute of the start instant
          Dts,                        \* physics step sizes (s)
          Quots, Rems,                \* requested durations D = q*dt + RemOf(r, dt)
          MaxCalls,                   \* consecutive propagateTo calls
          InvertStartBySecTruncation, \* FALSE = as designed
          SampleMod, SampleSeed       \* which end states are emitted for the driver

VARIABLES pc, startSec, dt, clockSec, k, calls, reqs, counts, epochs, target, k0, stepsLeft
vars == <<pc, startSec, dt, clockSec, k, calls, reqs, counts, epochs, target, k0, stepsLeft>>

\* (the module is unit free: DurationsFrac.tla poses it in hundredths of a second, where the
\*  remainders "m51" .. "p50" are requests 0.51 s below .. 0.50 s above a multiple of the step)
RemOf(r, step) == CASE r = "zero" -> 0 [] r = "one" -> 1 [] r = "half" -> step \div 2
                    [] r = "max" -> step - 1
                    [] r = "m51" -> step - 51 [] r = "m50" -> step - 50 [] r = "m49" -> step - 49
                    [] r = "m12" -> step - 12 [] r = "p12" -> 12 [] r = "p49" -> 49 [] r = "p50" -> 50
                    [] r = "s100" -> 100 [] r = "s112" -> 112 [] r = "s150" -> 150
Requests(step) == {q * step + RemOf(r, step) : q \in Quots, r \in Rems} \ {0}
Loss == IF InvertStartBySecTruncation /\ startSec # 0 THEN {0, 1} ELSE {0}

RECURSIVE SumSeq(_)
SumSeq(s) == IF s = <<>> THEN 0 ELSE Head(s) + SumSeq(Tail(s))

Init == /\ pc = "start" /\ startSec = 0 /\ dt = 0 /\ clockSec = 0 /\ k = 0 /\ calls = 0
        /\ reqs = <<>> /\ counts = <<>> /\ epochs = <<>> /\ target = 0 /\ k0 = 0 /\ stepsLeft = 0

\* the configuration is posed in stages so that TLC's workers share the enumeration
PoseStart == /\ pc = "start" /\ \E s \in StartSecs : startSec' = s
             /\ pc' = "posed"
             /\ UNCHANGED <<dt, clockSec, k, calls, reqs, counts, epochs, target, k0, stepsLeft>>
PoseDt == /\ pc = "posed" /\ \E s \in Dts : dt' = s
          /\ pc' = "idle"
          /\ UNCHANGED <<startSec, clockSec, k, calls, reqs, counts, epochs, target, k0, stepsLeft>>

\* Scenario.propagateTo, entry: the number of whole steps is fixed here
PropagateToBegin(D) ==
  /\ pc = "idle" /\ calls < MaxCalls
  /\ \E loss \in Loss :
       LET delta == D - loss     \* rounded (target - clock.time) as the simulator sees it
       IN stepsLeft' = IF delta >= dt THEN delta \div dt ELSE 0   \* else: ValueError, no step
  /\ target' = clockSec + D      \* what was asked for
  /\ k0' = k /\ reqs' = Append(reqs, D) /\ pc' = "running"
  /\ UNCHANGED <<startSec, dt, clockSec, k, calls, counts, epochs>>

\* one stepForward: ticToc, then the epoch of the step is recorded
StepForward ==
  /\ pc = "running" /\ stepsLeft > 0
  /\ clockSec' = clockSec + dt /\ k' = k + 1
  /\ epochs' = Append(epochs, clockSec')
  /\ stepsLeft' = stepsLeft - 1
  /\ UNCHANGED <<pc, startSec, dt, calls, reqs, counts, target, k0>>

PropagateToEnd ==
  /\ pc = "running" /\ stepsLeft = 0
  /\ counts' = Append(counts, k - k0) /\ calls' = calls + 1 /\ pc' = "idle"
  /\ UNCHANGED <<startSec, dt, clockSec, k, reqs, epochs, target, k0, stepsLeft>>

Next == \/ PoseStart \/ PoseDt
        \/ \E D \in Requests(dt) : PropagateToBegin(D)
        \/ StepForward \/ PropagateToEnd
Spec == Init /\ [][Next]_vars

\* ------------------------------------------------------------- properties
\* C05: every call advanced exactly floor(D / step) steps
StepsHonoured == pc = "idle" => /\ Len(counts) = calls /\ Len(reqs) = calls
                                /\ \A c \in 1..calls : counts[c] = reqs[c] \div dt
\* C05: the recorded epochs (and the clock) are start + k*step
EpochsAreStartPlusKDt == /\ Len(epochs) = k /\ clockSec = k * dt
                         /\ \A j \in 1..k : epochs[j] = j * dt
NoOvershoot == pc \in {"running", "idle"} => clockSec <= target
StopsOnlyWhenNoStepFits == (pc = "idle" /\ calls > 0) => target - clockSec < dt

\* expected step counts / epochs for a sample of the end states (spec -> driver)
\* (a 1/SampleMod thinning of the lattice; the driver stratifies what is left over startSec)
Shape    == SumSeq(reqs) * 7 + dt * 17 + calls * 3 + SampleSeed
Selected == ((Shape % 100003) * 7919 + startSec * 104729) % SampleMod = 0     \* stays below 2^31
Emit == (pc = "idle" /\ calls > 0 /\ Selected) =>
   PrintT("DUR " \o ToJson([startSec |-> startSec, dt |-> dt, reqs |-> reqs,
                            counts |-> counts, epochs |-> epochs]))

\* named constant values for the cfg files
Secs60       == 0..59
DtsQuick     == {2, 7, 30, 60, 300, 900}
DtsThorough  == {2, 3, 7, 10, 30, 45, 60, 120, 300, 600, 900}
QuotsQuick   == {1, 3}
QuotsThorough == {0, 1, 2, 4}
RemsQuick    == {"zero", "one", "max"}
RemsThorough == {"zero", "one", "half", "max"}
\* requests of a day and more (1 d, 1 d 7.5 h, 2 d, 4 d, ...) with large steps
DtsLong      == {3600, 7200}
QuotsLong    == {12, 24, 31, 48}
RemsLong     == {"zero", "half"}
\* the sub-second lattice of DurationsFrac.tla (1 tick = 0.01 s): steps of 2, 7, 60, 300 s; requests
\* k*step - 0.51, - 0.50, - 0.49, - 0.12, + 0, + 0.12, + 0.49, + 0.50, + 1, + 1.12, + 1.50 s
DtsFrac      == {200, 700, 6000, 30000}
QuotsFrac    == {0, 1, 2}
SpanRemsAll  == {"zero", "s1", "m1", "frac"}      \* DurationsFrac.tla: configured span = 4 steps + 0 / 1 s / step - 1 s / a fraction
SpanRemsTwo  == {"m1", "frac"}
RemsFrac     == {"m51", "m50", "m49", "m12", "zero", "p12", "p49", "p50", "s100", "s112", "s150"}
=============================================================================
