SPECIFICATION Spec
CONSTANTS
  Targets <- T2
  Sensors <- S2
  Engines <- E1
  EngTargets <- AllT
  EngSensors <- AllS
  Policy <- PolRandom
  NSteps = 2
  OutEvery = 1
  WithEstimation = TRUE
  WithSerendipity = FALSE
  ResetChangesPerJob = FALSE
  MissListSquared = FALSE
  KeepMissedAcrossSteps = FALSE
INVARIANT OneRecordPerTasking
INVARIANT NoRecordWithoutTasking
INVARIANT PointingReflectsTasking
INVARIANT LastStepMissesOnly
INVARIANT RowsExact
INVARIANT StepResultIsCanonical
INVARIANT OnlyVisibleTasked
INVARIANT TruthAtClock
INVARIANT EstimatesAtClock
INVARIANT DbComplete
INVARIANT DbNoDup
INVARIANT DbRefs
INVARIANT ObsRowsHaveEpoch
