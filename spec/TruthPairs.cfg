SPECIFICATION Spec
INVARIANT Accept
PROPERTY OnlyExtended
