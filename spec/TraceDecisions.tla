-------------------------- MODULE TraceDecisions --------------------------
(* impl -> spec: every record (policy, R, V, D) produced by the real        *)
(* Decision.calculate is a one-step behaviour of Decisions: the instance is *)
(* posed, the policy decides D.  The record is accepted iff D is admissible *)
(* and every invariant of Decisions holds in the decided state.             *)
(* Certificates (large munkres instances) are checked with CertOk.          *)
(* Records may carry large integers: the real code saw R times a power of   *)
(* two (near ties at ordinary magnitudes); TLC decides on the integers.     *)
EXTENDS Decisions, Json, IOUtils

Recs  == JsonDeserialize(IOEnv.RECORDS_FILE)
Certs == JsonDeserialize(IOEnv.CERTS_FILE)

VARIABLE i
tvars == <<vars, i>>

InstOf(rec) == [p |-> rec.p, nt |-> rec.nt, ns |-> rec.ns, R |-> rec.R, V |-> rec.V]

\* records are picked in two stages (block, then record) so that TLC's workers share them
NB == 64
TraceInit == i = 0 /\ inst = NoInst /\ pc = "start" /\ dec = {}
PickBlock == /\ i = 0 /\ \E b \in 1..NB : i' = -b
             /\ UNCHANGED vars
PickRec == /\ i < 0
           /\ \E j \in {n \in DOMAIN Recs : n % NB = (-i) - 1} :
                 /\ i' = j
                 /\ inst' = InstOf(Recs[j])
           /\ pc' = "posed" /\ UNCHANGED dec
TraceDecide == /\ i > 0 /\ Decide
               /\ dec' = SetOf(inst, Recs[i].D)
               /\ UNCHANGED i
TraceNext == PickBlock \/ PickRec \/ TraceDecide
TraceSpec == TraceInit /\ [][TraceNext]_tvars

\* a record is explained iff the logged decision is one the policy admits
Explained == pc = "posed" => SetOf(inst, Recs[i].D) \in Admissible(inst)
\* relabelled twin: the driver also logs the decision computed on a relabelled copy
\* (fields pi, sg, D2); it must be admissible for the relabelled problem, and for
\* tie-free instances equal to the relabelled decision
RelabelExplained ==
  (pc = "posed" /\ "pi" \in DOMAIN Recs[i]) =>
     LET r2 == PermRec(inst, Recs[i].pi, Recs[i].sg)
     IN /\ SetOf(r2, Recs[i].D2) \in Admissible(r2)
        /\ PermBack(SetOf(r2, Recs[i].D2), Recs[i].pi, Recs[i].sg) \in Admissible(inst)
        /\ (Cardinality(Admissible(inst)) = 1 =>
              PermBack(SetOf(r2, Recs[i].D2), Recs[i].pi, Recs[i].sg) = SetOf(inst, Recs[i].D))

\* the same record in other units: the driver replays every munkres / greedy record with the rewards
\* multiplied by powers of two (exact in binary) and logs every decision that differs from D (field Ds).
\* Admissible is invariant under positive scaling (Decisions!ScaleInvariant), so each of them must be
\* admissible for the unscaled instance.
ScaleExplained ==
  (pc = "posed" /\ "Ds" \in DOMAIN Recs[i]) =>
     LET A == Admissible(inst) IN \A k \in DOMAIN Recs[i].Ds : SetOf(inst, Recs[i].Ds[k]) \in A

CertsOk == \A c \in DOMAIN Certs : CertOk(Certs[c]) \/ PrintT(<<"BADCERT", c>>)
ASSUME CertsOk
=============================================================================
