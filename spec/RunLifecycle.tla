----------------------------- MODULE RunLifecycle -----------------------------
(***************************************************************************)
(* ONE APPLICATION RUN of the simulator, from the command line to shutdown *)
(* (growth module G04).  State = where the run is, plus everything a run   *)
(* leaves behind in its process and on disk: the ray instance, the shared  *)
(* database path (it lives in the key-value-store actor), the output       *)
(* database file and the epochs it holds, the importer database, a         *)
(* pre-existing database file, what appears in the working directory.      *)
(*                                                                         *)
(* Code mirrored (one action per line-level stage, failure branches are    *)
(* the disjuncts that go to Fail):                                         *)
(*   resonaate/__init__.py                                                 *)
(*     main: getCommandLineParser().parse_args()            ParseArgs      *)
(*       (common/cli.py: fileChecker on INIT_FILE and -i -> argparse       *)
(*        error -> SystemExit(2); -t default 0.5; -d / -i default None)    *)
(*     runResonaate(...)  (sim_time_hours default 3)        EnterRun       *)
(*       if debug_mode: ...ParallelDebugMode = True         SetDebug       *)
(*   scenario/__init__.py buildScenarioFromConfigFile                      *)
(*       if importer_db_path: createDatabasePath(importer)  ImporterPath / *)
(*                                                          SkipImporter   *)
(*       ScenarioConfig.parseConfigFile (config/__init__.py,               *)
(*         common/utilities.loadJSONFile)                   ParseConfig    *)
(*   buildScenarioFromConfigDict                                           *)
(*       if not ray.is_initialized():                       RayCheck       *)
(*           ray.init(...)                                  RayInit        *)
(*       createDatabasePath(internal_db_path)  (data/__init__.py)          *)
(*                                                          CreateDbPath   *)
(*       setDBPath(path)          (data/db_connection.py)   SetDbPath      *)
(*       ScenarioConfig(<config dict>)                      Validate       *)
(*       ScenarioBuilder(config, importer_db_path)          Builder        *)
(*         (ScenarioClock.fromConfig opens the database and pre-populates  *)
(*          the epochs; agents / events rows; every engine opens the       *)
(*          ImporterDatabase when a path is given)                         *)
(*       Scenario(...)  (EphemerisImporter when an agent is imported;      *)
(*          saveDatabaseOutput of the initial state)        ScenarioInit   *)
(*   runResonaate: getTargetJulianDate(start, timedelta(hours))            *)
(*                                                          ComputeTarget  *)
(*     try: app.propagateTo(target)   (scenario/scenario.py)               *)
(*          delta < step -> ValueError | int(delta/step) steps             *)
(*                                                          PropagateBegin *)
(*          stepForward()             StepOk | StepInterrupted | StepFails *)
(*                                    | StepMissingEphemeris               *)
(*          if clock.time % output_step == 0: saveDatabaseOutput()         *)
(*                                                 SaveOutput | SkipOutput *)
(*          (loop exhausted)                                PropagateEnd   *)
(*     except KeyboardInterrupt: warning("Simulation terminated")          *)
(*                                                          HandleInterrupt*)
(*     else: info("Simulation complete")                    LogComplete    *)
(*     finally: app.shutdown()                              BeginShutdown  *)
(*   Scenario.shutdown: ray.timeline("timeline_<now>.json") WriteTimeline  *)
(*                      ray.shutdown()                      RayShutdown    *)
(*                                                                         *)
(* ray's contract as far as the run depends on it: is_initialized is set   *)
(* by init and cleared by shutdown; shutdown destroys the named actors, so *)
(* the shared DB path is gone with it; timeline(filename) writes a file    *)
(* relative to the working directory.                                      *)
(*                                                                         *)
(* The posed INPUT (variable inp, posed in stages so that TLC's workers    *)
(* share the enumeration): entry point (cli / api), requested duration     *)
(* (reqSec; -1 = leave the default) and physics step, output cadence,      *)
(* truth-only flag, database path class, importer path class, init-message *)
(* class, --debug, environment class (ray already initialised, DB path     *)
(* already set in this process), failure injected into step injStep        *)
(* (KeyboardInterrupt / another exception, raised on entry of the step).   *)
(*                                                                         *)
(* GUARANTEES (invariants of the code as it is; checked, must hold):       *)
(*   TypeOK, ShutdownAfterBuild, ShutdownOnlyAfterBuild, StepsHonoured,    *)
(*   TooShortIsValueError, DbHoldsOutputEpochs, DbRowsOnlyWhenBuilt,       *)
(*   InterruptIsGraceful, ErrorPropagates, NeverOverwrite,                 *)
(*   ImporterNeverModified, RayInitAtMostOnce, DbPathOwner,                *)
(*   NoDatabaseBeforeValidation, OutcomeIsFirstFailingStage, DebugIsFlag;  *)
(*   action properties DbMonotone, RayDownOnlyByShutdown, StepsInOrder;    *)
(*   the invariants of Durations.tla under the refinement mapping Dur      *)
(*   (DurStepsHonoured, DurEpochs, DurNoOvershoot, DurStopsOnlyWhenNoStep- *)
(*   Fits) and the action property RefinesDurations;                       *)
(*   liveness under FairSpec: Terminates, and ExitIsShutdownOrFailed.      *)
(* EXPECTATIONS the code as it is does NOT meet (named X...; TLC refutes   *)
(*   them; the driver replays the counterexamples into the real code and   *)
(*   lists them as observations): XRayReleased, XDbPathReleased,           *)
(*   XCwdUntouched, XNoTimelineInCwd, XDefaultDirOnlyWhenUsed,             *)
(*   XFailedBuildLeavesNoDatabase, XFailedRunLeavesNoDirectories,          *)
(*   XImporterNeverCreated, XShutdownOnlyOwnRay, XInterruptDistinguishable,*)
(*   XDurationCheckedBeforeBuild, XFinalStateSaved, XExistingCheckedFirst. *)
(* Named deviations (spec mutants, FALSE = as coded): ShutdownNotInFinally,*)
(*   NoExistenceCheck, MinutesForHours, SkipSetDbPathWhenGiven,            *)
(*   InterruptCatchesAll, SaveEveryStep, CeilSteps.                        *)
(***************************************************************************)
EXTENDS Integers, Sequences, FiniteSets, TLC

CONSTANTS
  Entries,        \* subset of {"cli", "api"}
  TimeClasses,    \* set of <<reqSec, dt>>; reqSec = -1: leave the default duration
  Modes,          \* set of <<outEvery, truthOnly>>
  DbClasses,      \* subset of {"none", "newInDir", "newInMissingDir", "existing"}
  ImpClasses,     \* subset of {"none", "existing", "missing"}
  CfgClasses,     \* subset of {"valid", "missing", "badJson", "empty", "noEngines", "subMissing", "schemaInvalid", "imported"}
  Debugs,         \* subset of BOOLEAN
  EnvClasses,     \* subset of {"fresh", "rayUp", "rayUpDbSet"}
  Injections,     \* set of <<kind, step>>, kind in {"none", "kbd", "err"}
  ShutdownNotInFinally, NoExistenceCheck, MinutesForHours, SkipSetDbPathWhenGiven,
  InterruptCatchesAll, SaveEveryStep, CeilSteps

VARIABLES
  inp,          \* the posed input (constant once posed)
  pc,           \* stage of the run
  outcome,      \* "running" | "completed" | exception class the process ends with
  pending,      \* exception in flight through the finally clause ("" = none)
  hoursSec,     \* sim_time_hours as passed to runResonaate, in seconds
  reqEff,       \* elapsed time handed to getTargetJulianDate, in seconds
  nSteps,       \* number of steps propagateTo decided on
  k,            \* completed steps (clock = start + k * dt)
  built,        \* a Scenario object exists (buildScenarioFromConfigFile returned)
  rayUp, rayInits, rayShutdowns,
  kvs,          \* shared DB path: "unset" | "pre" (set by the embedding process) | "run" (set by this run)
  debugMode,    \* BehavioralConfig...ParallelDebugMode
  tree,         \* what exists under the working directory
  dbFile,       \* output database of THIS run: "absent" | "created"
  dbAgents,     \* agent rows + pre-populated epochs are in it
  dbEpochs,     \* step indices that have truth-ephemeris rows
  estEpochs,    \* step indices that have estimate-ephemeris rows
  existing,     \* the pre-existing file given as -d: "none" | "same" | "modified"
  impFile,      \* importer database: "none" | "absent" | "same" | "created" | "modified"
  logLine       \* "none" | "complete" | "terminated"

vars == <<inp, pc, outcome, pending, hoursSec, reqEff, nSteps, k, built, rayUp, rayInits, rayShutdowns,
          kvs, debugMode, tree, dbFile, dbAgents, dbEpochs, estEpochs, existing, impFile, logLine>>
envVars == <<rayUp, rayInits, rayShutdowns, kvs, debugMode>>
diskVars == <<tree, dbFile, dbAgents, dbEpochs, estEpochs, existing, impFile>>
runRest == <<pending, hoursSec, reqEff, nSteps, k, built, logLine>>
runVars == <<outcome, runRest>>

Blank == [entry |-> "api", reqSec |-> -1, dt |-> 1, outEvery |-> 1, truthOnly |-> TRUE, db |-> "none", imp |-> "none",
          cfg |-> "valid", debug |-> FALSE, rayPre |-> FALSE, dbPre |-> FALSE, injKind |-> "none", injStep |-> 0]

CliDefaultSec == 1800           \* cli.py: -t default 0.5 ("DEFAULT: 1/2 hour")
ApiDefaultSec == 10800          \* runResonaate(sim_time_hours=3)
\* the duration the user asked for
Requested(i) == IF i.reqSec >= 0 THEN i.reqSec ELSE IF i.entry = "cli" THEN CliDefaultSec ELSE ApiDefaultSec

InitRest ==
  /\ outcome = "running" /\ pending = "" /\ hoursSec = 0 /\ reqEff = 0 /\ nSteps = 0 /\ k = 0 /\ built = FALSE
  /\ rayUp = FALSE /\ rayInits = 0 /\ rayShutdowns = 0 /\ kvs = "unset" /\ debugMode = FALSE
  /\ tree = {} /\ dbFile = "absent" /\ dbAgents = FALSE /\ dbEpochs = {} /\ estEpochs = {}
  /\ existing = "none" /\ impFile = "none" /\ logLine = "none"
Init == inp = Blank /\ pc = "poseEntry" /\ InitRest

\* ------------------------------------------------------------------ posing the input (staged)
Pose(from, to, newInp) == /\ pc = from /\ pc' = to /\ inp' = newInp
                          /\ UNCHANGED <<envVars, diskVars, runVars>>
PoseEntry  == \E e \in Entries : Pose("poseEntry", "poseTime", [inp EXCEPT !.entry = e])
PoseTime   == \E t \in TimeClasses : Pose("poseTime", "poseMode", [inp EXCEPT !.reqSec = t[1], !.dt = t[2]])
PoseMode   == \E m \in Modes : Pose("poseMode", "poseDb", [inp EXCEPT !.outEvery = m[1], !.truthOnly = m[2]])
PoseDb     == \E d \in DbClasses : Pose("poseDb", "poseImp", [inp EXCEPT !.db = d])
PoseImp    == \E d \in ImpClasses : Pose("poseImp", "poseCfg", [inp EXCEPT !.imp = d])
PoseCfg    == \E c \in CfgClasses : Pose("poseCfg", "poseEnv", [inp EXCEPT !.cfg = c])
PoseEnv    == \E e \in EnvClasses, d \in Debugs :
                Pose("poseEnv", "poseInj", [inp EXCEPT !.rayPre = (e # "fresh"), !.dbPre = (e = "rayUpDbSet"), !.debug = d])
PoseInject == \E j \in Injections : Pose("poseInj", "posed", [inp EXCEPT !.injKind = j[1], !.injStep = j[2]])

\* the state of the process and of the disk before the run starts
Begin ==
  /\ pc = "posed" /\ pc' = "start"
  /\ rayUp' = inp.rayPre
  /\ kvs' = IF inp.dbPre THEN "pre" ELSE "unset"
  /\ existing' = IF inp.db = "existing" THEN "same" ELSE "none"
  /\ impFile' = CASE inp.imp = "none" -> "none" [] inp.imp = "existing" -> "same" [] inp.imp = "missing" -> "absent"
  /\ UNCHANGED <<inp, runVars, rayInits, rayShutdowns, debugMode, tree, dbFile, dbAgents, dbEpochs, estEpochs>>

\* ------------------------------------------------------------------ helpers
Go(to) == pc' = to /\ UNCHANGED <<inp, outcome>>
Fail(cls) == pc' = "exit" /\ outcome' = cls /\ UNCHANGED inp
OutputSteps(n) == {j \in 0..n : SaveEveryStep \/ j % inp.outEvery = 0}

\* ------------------------------------------------------------------ main / cli
\* argparse applies fileChecker to INIT_FILE and to -i; a ValueError raised by a type function is an
\* argument error: usage message, SystemExit(2).  Nothing else has happened yet.
ParseArgs ==
  /\ pc = "start" /\ inp.entry = "cli"
  /\ IF inp.cfg = "missing" \/ inp.imp = "missing"
     THEN Fail("SystemExit") /\ UNCHANGED hoursSec
     ELSE Go("call") /\ hoursSec' = Requested(inp)
  /\ UNCHANGED <<envVars, diskVars, pending, reqEff, nSteps, k, built, logLine>>

\* runResonaate is entered (from main, or directly = entry "api")
EnterRun ==
  /\ \/ pc = "call"
     \/ pc = "start" /\ inp.entry = "api"
  /\ Go("debug") /\ hoursSec' = Requested(inp)
  /\ UNCHANGED <<envVars, diskVars, pending, reqEff, nSteps, k, built, logLine>>

SetDebug ==
  /\ pc = "debug" /\ Go("importerPath")
  /\ debugMode' = (debugMode \/ inp.debug)
  /\ UNCHANGED <<diskVars, runRest, rayUp, rayInits, rayShutdowns, kvs>>

\* ------------------------------------------------------------------ buildScenarioFromConfigFile
\* createDatabasePath(path, importer=True): a URL is formed, nothing is checked, nothing is created
ImporterPath ==
  /\ pc = "importerPath" /\ inp.imp # "none" /\ Go("parse")
  /\ UNCHANGED <<envVars, diskVars, runRest>>
SkipImporter ==
  /\ pc = "importerPath" /\ inp.imp = "none" /\ Go("parse")
  /\ UNCHANGED <<envVars, diskVars, runRest>>

ParseFailure(c) == CASE c = "missing"    -> "FileNotFoundError"      \* loadJSONFile re-raises
                     [] c = "badJson"    -> "JSONDecodeError"
                     [] c = "empty"      -> "OSError"                \* "Empty JSON file"
                     [] c = "noEngines"  -> "KeyError"               \* configuration.pop("engines_files")
                     [] c = "subMissing" -> "FileNotFoundError"      \* a targets/sensors/engine file is missing
                     [] OTHER            -> ""
ParseConfig ==
  /\ pc = "parse"
  /\ IF ParseFailure(inp.cfg) # "" THEN Fail(ParseFailure(inp.cfg)) ELSE Go("rayCheck")
  /\ UNCHANGED <<envVars, diskVars, pending, hoursSec, reqEff, nSteps, k, built, logLine>>

\* ------------------------------------------------------------------ buildScenarioFromConfigDict
RayCheck ==
  /\ pc = "rayCheck" /\ Go(IF rayUp THEN "dbPath" ELSE "rayInit")
  /\ UNCHANGED <<envVars, diskVars, runRest>>
RayInit ==
  /\ pc = "rayInit" /\ Go("dbPath")
  /\ rayUp' = TRUE /\ rayInits' = rayInits + 1
  /\ UNCHANGED <<diskVars, runRest, rayShutdowns, kvs, debugMode>>

\* createDatabasePath(path, importer=False)
CreateDbPath ==
  /\ pc = "dbPath"
  /\ CASE inp.db = "existing" /\ ~NoExistenceCheck -> Fail("FileExistsError") /\ UNCHANGED tree
       [] inp.db = "newInMissingDir" -> Go("setDb") /\ tree' = tree \cup {"givenDbDir"}        \* makedirs(directory)
       [] inp.db = "none"            -> Go("setDb") /\ tree' = tree \cup {"defaultDbDir"}      \* makedirs(cwd/db)
       [] OTHER                      -> Go("setDb") /\ UNCHANGED tree
  /\ UNCHANGED <<envVars, runRest, dbFile, dbAgents, dbEpochs, estEpochs, existing, impFile>>

\* setDBPath: ExclusiveSet on the key-value store; "should only be called once per script/simulation"
SetDbPath ==
  /\ pc = "setDb"
  /\ IF SkipSetDbPathWhenGiven /\ inp.db # "none"
     THEN Go("validate") /\ UNCHANGED kvs
     ELSE IF kvs # "unset" THEN Fail("DBConnectionError") /\ UNCHANGED kvs
          ELSE Go("validate") /\ kvs' = "run"
  /\ UNCHANGED <<diskVars, pending, hoursSec, reqEff, nSteps, k, built, logLine, rayUp, rayInits, rayShutdowns, debugMode>>

Validate ==
  /\ pc = "validate"
  /\ IF inp.cfg = "schemaInvalid" THEN Fail("ValidationError") ELSE Go("builder")
  /\ UNCHANGED <<envVars, diskVars, pending, hoursSec, reqEff, nSteps, k, built, logLine>>

DbFileName == IF inp.db = "none" THEN {"defaultDbFile"} ELSE IF inp.db = "newInMissingDir" THEN {"givenDbFile"} ELSE {}
\* ScenarioBuilder: the clock opens the shared database (the file is created here, epochs
\* pre-populated), agents and events are stored, every engine opens the importer database
Builder ==
  /\ pc = "builder"
  /\ IF kvs = "unset"
     THEN Fail("DBConnectionError") /\ UNCHANGED <<tree, dbFile, dbAgents, existing, impFile>>      \* getDBConnection before setDBPath
     ELSE /\ Go("scenarioInit")
          /\ tree' = tree \cup DbFileName
          /\ IF inp.db = "existing"
             THEN existing' = "modified" /\ UNCHANGED <<dbFile, dbAgents>>      \* only with NoExistenceCheck
             ELSE dbFile' = "created" /\ dbAgents' = TRUE /\ UNCHANGED existing
          /\ impFile' = IF impFile = "absent" THEN "created" ELSE impFile      \* ImporterDatabase(db_path) creates the file
  /\ UNCHANGED <<envVars, pending, hoursSec, reqEff, nSteps, k, built, logLine, dbEpochs, estEpochs>>

\* Scenario.__init__: EphemerisImporter(importer_db_path) when an agent is imported; initial output
ScenarioInit ==
  /\ pc = "scenarioInit"
  /\ IF inp.cfg = "imported" /\ inp.imp = "none"
     THEN Fail("ValueError") /\ UNCHANGED <<dbEpochs, estEpochs, built>>      \* "Importer database requires a valid url path"
     ELSE /\ Go("target") /\ built' = TRUE
          /\ dbEpochs' = dbEpochs \cup {0}
          /\ estEpochs' = IF inp.truthOnly THEN estEpochs ELSE estEpochs \cup {0}
  /\ UNCHANGED <<envVars, tree, dbFile, dbAgents, existing, impFile, pending, hoursSec, reqEff, nSteps, k, logLine>>

\* ------------------------------------------------------------------ runResonaate, after the build
ComputeTarget ==
  /\ pc = "target" /\ Go("propagate")
  /\ reqEff' = IF MinutesForHours THEN hoursSec \div 60 ELSE hoursSec
  /\ UNCHANGED <<envVars, diskVars, pending, hoursSec, nSteps, k, built, logLine>>

\* propagateTo: the number of whole steps is fixed on entry (the relation of Durations.tla)
PropagateBegin ==
  /\ pc = "propagate"
  /\ IF reqEff >= inp.dt
     THEN /\ Go("stepping") /\ UNCHANGED pending
          /\ nSteps' = IF CeilSteps THEN (reqEff + inp.dt - 1) \div inp.dt ELSE reqEff \div inp.dt
     ELSE Go("finally") /\ pending' = "ValueError" /\ UNCHANGED nSteps          \* "Delta less than physics time step"
  /\ UNCHANGED <<envVars, diskVars, hoursSec, reqEff, k, built, logLine>>

InjectedHere == inp.injKind # "none" /\ inp.injStep = k + 1
\* the importer database created empty by the build holds no ephemeris for the first epoch
EphemerisMissing == inp.cfg = "imported" /\ impFile = "created"

StepOk ==
  /\ pc = "stepping" /\ k < nSteps /\ ~InjectedHere /\ ~EphemerisMissing
  /\ Go("output") /\ k' = k + 1
  /\ UNCHANGED <<envVars, diskVars, pending, hoursSec, reqEff, nSteps, built, logLine>>
StepInterrupted ==
  /\ pc = "stepping" /\ k < nSteps /\ InjectedHere /\ inp.injKind = "kbd"
  /\ Go("except")
  /\ UNCHANGED <<envVars, diskVars, runRest>>
StepFails ==
  /\ pc = "stepping" /\ k < nSteps /\ InjectedHere /\ inp.injKind = "err"
  /\ IF InterruptCatchesAll THEN Go("except") /\ UNCHANGED pending
                            ELSE Go("finally") /\ pending' = "RuntimeError"
  /\ UNCHANGED <<envVars, diskVars, hoursSec, reqEff, nSteps, k, built, logLine>>
StepMissingEphemeris ==
  /\ pc = "stepping" /\ k < nSteps /\ ~InjectedHere /\ EphemerisMissing
  /\ IF InterruptCatchesAll THEN Go("except") /\ UNCHANGED pending
                            ELSE Go("finally") /\ pending' = "MissingEphemerisError"
  /\ UNCHANGED <<envVars, diskVars, hoursSec, reqEff, nSteps, k, built, logLine>>

\* if self.clock.time % self.output_time_step == 0: self.saveDatabaseOutput()
SaveOutput ==
  /\ pc = "output" /\ k \in OutputSteps(k) /\ Go("stepping")
  /\ dbEpochs' = dbEpochs \cup {k}
  /\ estEpochs' = IF inp.truthOnly THEN estEpochs ELSE estEpochs \cup {k}
  /\ UNCHANGED <<envVars, runRest, tree, dbFile, dbAgents, existing, impFile>>
SkipOutput ==
  /\ pc = "output" /\ k \notin OutputSteps(k) /\ Go("stepping")
  /\ UNCHANGED <<envVars, diskVars, runRest>>

PropagateEnd ==
  /\ pc = "stepping" /\ k >= nSteps /\ Go("else")
  /\ UNCHANGED <<envVars, diskVars, runRest>>

HandleInterrupt ==          \* except KeyboardInterrupt: the exception is swallowed
  /\ pc = "except" /\ Go("finally") /\ logLine' = "terminated"
  /\ UNCHANGED <<envVars, diskVars, pending, hoursSec, reqEff, nSteps, k, built>>
LogComplete ==              \* else:
  /\ pc = "else" /\ Go("finally") /\ logLine' = "complete"
  /\ UNCHANGED <<envVars, diskVars, pending, hoursSec, reqEff, nSteps, k, built>>

\* finally: app.shutdown()
BeginShutdown ==
  /\ pc = "finally"
  /\ IF ShutdownNotInFinally /\ pending # ""
     THEN Fail(pending)                                       \* shutdown placed after the try statement
     ELSE Go("timeline")
  /\ UNCHANGED <<envVars, diskVars, pending, hoursSec, reqEff, nSteps, k, built, logLine>>
WriteTimeline ==            \* ray.timeline(f"timeline_{pathSafeTime()}.json"): relative to the cwd
  /\ pc = "timeline" /\ Go("rayShutdown")
  /\ tree' = tree \cup {"timeline"}
  /\ UNCHANGED <<envVars, runRest, dbFile, dbAgents, dbEpochs, estEpochs, existing, impFile>>
RayShutdown ==              \* ray.shutdown(): the cluster and its actors (the shared DB path) are gone
  /\ pc = "rayShutdown" /\ pc' = "exit" /\ UNCHANGED inp
  /\ rayUp' = FALSE /\ kvs' = "unset" /\ rayShutdowns' = rayShutdowns + 1
  /\ outcome' = IF pending # "" THEN pending ELSE "completed"
  /\ UNCHANGED <<diskVars, pending, hoursSec, reqEff, nSteps, k, built, logLine, rayInits, debugMode>>

PoseNext == PoseEntry \/ PoseTime \/ PoseMode \/ PoseDb \/ PoseImp \/ PoseCfg \/ PoseEnv \/ PoseInject \/ Begin
RunNext ==
  \/ ParseArgs \/ EnterRun \/ SetDebug \/ ImporterPath \/ SkipImporter \/ ParseConfig
  \/ RayCheck \/ RayInit \/ CreateDbPath \/ SetDbPath \/ Validate \/ Builder \/ ScenarioInit
  \/ ComputeTarget \/ PropagateBegin \/ StepOk \/ StepInterrupted \/ StepFails \/ StepMissingEphemeris
  \/ SaveOutput \/ SkipOutput \/ PropagateEnd \/ HandleInterrupt \/ LogComplete
  \/ BeginShutdown \/ WriteTimeline \/ RayShutdown
Next == PoseNext \/ RunNext
Spec == Init /\ [][Next]_vars
FairSpec == Spec /\ WF_vars(Next)

\* =================================================================== guarantees
Exited == pc = "exit"
Posed == pc \notin {"poseEntry", "poseTime", "poseMode", "poseDb", "poseImp", "poseCfg", "poseEnv", "poseInj", "posed"}
Stages == {"poseEntry", "poseTime", "poseMode", "poseDb", "poseImp", "poseCfg", "poseEnv", "poseInj", "posed", "start",
           "call", "debug", "importerPath", "parse", "rayCheck", "rayInit", "dbPath", "setDb", "validate", "builder",
           "scenarioInit", "target", "propagate", "stepping", "output", "except", "else", "finally", "timeline",
           "rayShutdown", "exit"}
TypeOK ==
  /\ pc \in Stages /\ k \in Nat /\ nSteps \in Nat /\ (k <= nSteps)
  /\ rayInits \in 0..1 /\ rayShutdowns \in 0..1 /\ rayUp \in BOOLEAN /\ kvs \in {"unset", "pre", "run"}
  /\ dbFile \in {"absent", "created"} /\ existing \in {"none", "same", "modified"}
  /\ impFile \in {"none", "absent", "same", "created", "modified"}
  /\ tree \subseteq {"defaultDbDir", "defaultDbFile", "givenDbDir", "givenDbFile", "timeline"}
  /\ logLine \in {"none", "complete", "terminated"}
  /\ (pc = "exit") = (outcome # "running")

ShutdownDone == rayShutdowns = 1 /\ "timeline" \in tree /\ ~rayUp
\* every path that got as far as a built scenario ends with app.shutdown()
ShutdownAfterBuild == (Exited /\ built) => ShutdownDone
ShutdownOnlyAfterBuild == rayShutdowns > 0 => built
ExitIsShutdownOrFailed == Exited => (ShutdownDone \/ outcome # "completed")

\* on normal completion exactly floor(requested / step) steps were taken (Durations.tla's relation)
StepsHonoured ==
  (Exited /\ logLine = "complete") =>
     /\ outcome = "completed" /\ Requested(inp) >= inp.dt /\ k = Requested(inp) \div inp.dt
\* a request shorter than one step is a ValueError and no step is taken
TooShortIsValueError ==
  (Exited /\ built /\ Requested(inp) < inp.dt) => outcome = "ValueError" /\ k = 0 /\ logLine = "none"

\* the database holds exactly the output epochs up to the last completed step - on normal completion,
\* after a KeyboardInterrupt and after any other failure alike: what is on disk is what
\* saveDatabaseOutput committed (every cadence-th step and the initial state)
SavedSoFar == IF pc = "output" THEN OutputSteps(k) \ {k} ELSE OutputSteps(k)
DbHoldsOutputEpochs ==
  built => /\ dbFile = "created" /\ dbAgents
           /\ dbEpochs = {j \in SavedSoFar : j % inp.outEvery = 0}
           /\ estEpochs = IF inp.truthOnly THEN {} ELSE dbEpochs
DbRowsOnlyWhenBuilt == ~built => dbEpochs = {} /\ estEpochs = {}

\* Ctrl-C ends the run gracefully: no exception leaves runResonaate, the scenario is shut down
InterruptTaken == inp.injKind = "kbd" /\ built /\ Requested(inp) >= inp.dt
                  /\ inp.injStep <= Requested(inp) \div inp.dt
                  /\ ~(EphemerisMissing /\ inp.injStep > 1)
InterruptIsGraceful ==
  (Exited /\ InterruptTaken) => /\ outcome = "completed" /\ logLine = "terminated" /\ ShutdownDone
                                /\ k = inp.injStep - 1
\* any other exception raised while stepping leaves runResonaate unchanged, after the shutdown
ErrorPropagates ==
  (Exited /\ pending # "") => outcome = pending /\ logLine = "none" /\ ShutdownDone

\* an existing database file is never modified (and the run does not start)
NeverOverwrite ==
  /\ existing # "modified"
  /\ (inp.db = "existing" /\ Posed) => dbFile = "absent" /\ ~built
\* the importer database handed in is never written
ImporterNeverModified == impFile # "modified" /\ (inp.imp = "existing" /\ Posed => impFile = "same")

RayInitAtMostOnce == rayInits <= 1 /\ (rayInits = 1 => ~inp.rayPre)
\* setDBPath succeeds at most once per process: the run owns the path only if nobody set it before
DbPathOwner == /\ (kvs = "run" => ~inp.dbPre)
               /\ (kvs = "pre" => inp.dbPre)
               /\ (dbFile = "created" => ~inp.dbPre)
NoDatabaseBeforeValidation == dbFile = "created" => inp.cfg \in {"valid", "imported"}
DebugIsFlag == (Posed /\ pc \notin {"start", "call", "debug"} /\ outcome # "SystemExit") => debugMode = inp.debug

\* which exception class ends the run: the first failing stage in program order
FirstFailure(i) ==
  LET n == Requested(i) \div i.dt
      impEmpty == i.cfg = "imported" /\ i.imp = "missing"
      injAt == IF i.injKind # "none" /\ i.injStep <= n THEN i.injStep ELSE 0
  IN CASE i.entry = "cli" /\ (i.cfg = "missing" \/ i.imp = "missing") -> "SystemExit"
       [] ParseFailure(i.cfg) # ""                     -> ParseFailure(i.cfg)
       [] i.db = "existing"                             -> "FileExistsError"
       [] i.dbPre                                       -> "DBConnectionError"
       [] i.cfg = "schemaInvalid"                       -> "ValidationError"
       [] i.cfg = "imported" /\ i.imp = "none"          -> "ValueError"
       [] Requested(i) < i.dt                           -> "ValueError"
       [] injAt = 1 /\ i.injKind = "err"                -> "RuntimeError"
       [] injAt = 1 /\ i.injKind = "kbd"                -> "completed"
       [] impEmpty                                      -> "MissingEphemerisError"
       [] injAt > 1 /\ i.injKind = "err"                -> "RuntimeError"
       [] OTHER                                         -> "completed"
OutcomeIsFirstFailingStage == Exited => outcome = FirstFailure(inp)

\* rows are never removed; ray goes down only through ray.shutdown; steps are counted one by one
DbMonotone == [][dbEpochs \subseteq dbEpochs' /\ estEpochs \subseteq estEpochs' /\ (dbFile = "created" => dbFile' = "created")]_vars
RayDownOnlyByShutdown == [][(rayUp /\ ~rayUp') => rayShutdowns' = rayShutdowns + 1]_vars
StepsInOrder == [][k' \in {k, k + 1}]_vars

\* every run terminates (in shutdown or failed: ExitIsShutdownOrFailed)
Terminates == <>Exited

\* ------------------------------------------------------------------ Durations.tla, re-used
\* refinement mapping: the stepping part of a run IS one propagateTo call of Durations.tla
Propagating == pc \in {"stepping", "output"}
Ended == pc \in {"else", "finally", "timeline", "rayShutdown", "exit"} /\ logLine # "terminated" /\ pending = "" /\ built
Begun == Propagating \/ pc \in {"except", "else", "finally", "timeline", "rayShutdown"} \/ (pc = "exit" /\ built)
Dur == INSTANCE Durations WITH
         StartSecs <- {0}, Dts <- {}, Quots <- {}, Rems <- {}, MaxCalls <- 1,
         InvertStartBySecTruncation <- FALSE, SampleMod <- 1, SampleSeed <- 0,
         pc <- IF Propagating THEN "running" ELSE "idle",
         startSec <- 0, dt <- inp.dt, clockSec <- k * inp.dt, k <- k,
         calls <- IF Ended /\ reqEff >= inp.dt THEN 1 ELSE 0,
         reqs <- IF (Propagating \/ Ended) /\ reqEff >= inp.dt THEN <<reqEff>> ELSE <<>>,
         counts <- IF Ended /\ reqEff >= inp.dt THEN <<k>> ELSE <<>>,
         epochs <- [j \in 1..k |-> j * inp.dt],
         target <- IF Begun /\ reqEff >= inp.dt THEN reqEff ELSE 0,
         k0 <- 0,
         stepsLeft <- IF Propagating THEN nSteps - k ELSE 0
DurStepsHonoured == Dur!StepsHonoured
DurEpochs == Dur!EpochsAreStartPlusKDt
DurNoOvershoot == Dur!NoOvershoot
DurStopsOnlyWhenNoStepFits == Dur!StopsOnlyWhenNoStepFits
\* every step of an undisturbed propagation is a step of Durations.tla (or leaves its variables alone)
Undisturbed == inp.injKind = "none" /\ ~EphemerisMissing
RefinesDurations ==
  [][(Undisturbed /\ pc \in {"propagate", "stepping", "output"} /\ reqEff >= inp.dt)
        => (Dur!PropagateToBegin(reqEff) \/ Dur!StepForward \/ Dur!PropagateToEnd \/ UNCHANGED Dur!vars)]_vars

\* =================================================================== expectations NOT met by the code as it is
\* a run that initialised ray releases it, also when the build fails
XRayReleased == (Exited /\ rayInits = 1) => ~rayUp
\* the shared DB path set by the run is released, also when the build fails
XDbPathReleased == Exited => kvs # "run"
\* the run writes nothing into the working directory that was not asked for
XCwdUntouched == Exited => tree \subseteq {"givenDbDir", "givenDbFile"}
XNoTimelineInCwd == "timeline" \notin tree
XDefaultDirOnlyWhenUsed == (Exited /\ "defaultDbDir" \in tree) => "defaultDbFile" \in tree
\* a failed build leaves no (partial) database behind
XFailedBuildLeavesNoDatabase == (Exited /\ ~built) => dbFile = "absent"
\* a run that produced no database created no directories either
XFailedRunLeavesNoDirectories == (Exited /\ dbFile = "absent") => tree \cap {"defaultDbDir", "givenDbDir"} = {}
\* a missing importer database is reported, not created
XImporterNeverCreated == impFile # "created"
\* the run only shuts down a ray instance it started itself
XShutdownOnlyOwnRay == rayShutdowns = 1 => rayInits = 1
\* an interrupted run can be told from a completed one by the way the process ends
XInterruptDistinguishable == (Exited /\ logLine = "terminated") => outcome # "completed"
\* a duration shorter than one step is reported before anything is built or written
XDurationCheckedBeforeBuild == (Exited /\ pending = "ValueError") => (dbFile = "absent" /\ tree = {})
\* after normal completion the database holds the final state of the run
XFinalStateSaved == (Exited /\ logLine = "complete") => k \in dbEpochs
\* an existing output file is reported before ray is started
XExistingCheckedFirst == (Exited /\ outcome = "FileExistsError") => rayInits = 0

Expectations == <<
  <<"XRayReleased", XRayReleased>>, <<"XDbPathReleased", XDbPathReleased>>, <<"XCwdUntouched", XCwdUntouched>>,
  <<"XNoTimelineInCwd", XNoTimelineInCwd>>, <<"XDefaultDirOnlyWhenUsed", XDefaultDirOnlyWhenUsed>>,
  <<"XFailedBuildLeavesNoDatabase", XFailedBuildLeavesNoDatabase>>,
  <<"XFailedRunLeavesNoDirectories", XFailedRunLeavesNoDirectories>>, <<"XImporterNeverCreated", XImporterNeverCreated>>,
  <<"XShutdownOnlyOwnRay", XShutdownOnlyOwnRay>>, <<"XInterruptDistinguishable", XInterruptDistinguishable>>,
  <<"XDurationCheckedBeforeBuild", XDurationCheckedBeforeBuild>>, <<"XFinalStateSaved", XFinalStateSaved>>,
  <<"XExistingCheckedFirst", XExistingCheckedFirst>> >>
Broken == {Expectations[i][1] : i \in {j \in DOMAIN Expectations : ~Expectations[j][2]}}
=============================================================================
