\* Largest exhaustive SMM lattice of the thorough tier (first plan of harness/drivers/c18.py).
SPECIFICATION Spec
CONSTANTS Kinds = {"smm"}
CONSTANTS NModels = {2, 3, 4} LVals = {0, 1, 3} Layouts = {1}
CONSTANTS MaxUpdates = 3 BigN = 4 GpbBigN = 99 NoObsAt = {1, 2}
CONSTANT KeepHist = TRUE
CONSTANT Thresholds <- ThAll
CONSTANT Pcts <- PctAll
CONSTANT MixRatios <- MixOne
INVARIANT NonNegative
INVARIANT SumToOne
INVARIANT AtLeastOneModel
INVARIANT BayesRule
INVARIANT ResetOnlyOnTrueUnderflow
INVARIANT ModeMixValid
INVARIANT MixtureMoments
INVARIANT SpreadForm
INVARIANT HandBackIsSurvivor
INVARIANT NotClosedEarly
INVARIANT TieFree
INVARIANT PruneNeverEmpties
INVARIANT Emit
