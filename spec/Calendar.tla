------------------------------ MODULE Calendar ------------------------------
(***************************************************************************)
(* The proleptic Gregorian calendar (years FirstYear..LastYear, used with  *)
(* 1901..2099) and its relation to Julian dates, as a state machine.       *)
(* Serves properties C05 (calendar <-> Julian date <-> scenario seconds)   *)
(* and C11/C04 (list of boundary instants, day of year).                   *)
(*                                                                         *)
(* Code mirrored (resonaate/physics/time):                                 *)
(*   stardate.py:JulianDate.getJulianDate / datetimeToJulianDate            *)
(*        = ToJD   (day number + second of day, exact integers)            *)
(*   stardate.py:getCalendarDate / days2mdh / julianDateToDatetime          *)
(*        = FromJD (year by division, month by accumulating month lengths) *)
(*   conversions.py:dayOfYear  = DoyOf                                      *)
(*   ScenarioTime.convertToJulianDate / JulianDate.convertToScenarioTime    *)
(*        = SecondsBetween (a plain integer offset in seconds)             *)
(*                                                                         *)
(* State: the current instant (y, m, d, sod = second of day), the day      *)
(* number dn and day of year doy, both maintained INCREMENTALLY by the     *)
(* tick actions and recomputed in closed form by JumpTo, plus two history  *)
(* variables (last action, previous instant).                              *)
(*   TickDay      next calendar day, same second of day                    *)
(*   TickSecond   next second (carries into the next day at 86399)         *)
(*   JumpTo       any valid instant, day number from the closed form       *)
(*                                                                         *)
(* dn is the proleptic Gregorian ordinal (0001-01-01 = 1), so that         *)
(*   JD = dn + 1721424.5 + sod/86400.                                      *)
(* A Julian date is represented exactly by the pair                        *)
(*   ToJD = << 2*dn + 3442849 (half days at 0h), sod >>.                   *)
(* Products dn*86400 would overflow TLC's 32-bit integers, hence the pair  *)
(* and the lexicographic order JDLess.                                     *)
(*                                                                         *)
(* Formulas stating the property (C05, first sentence):                    *)
(*   RoundTrip    FromJD(ToJD(instant)) = instant                          *)
(*   Monotone     every tick strictly increases ToJD (action property)     *)
(*   OffsetsRoundTrip  offset -> instant -> offset is the identity         *)
(* Calendar facts the implementation must reproduce (checked on every      *)
(* reachable state, then replayed into the code by harness/drivers/c05.py):*)
(*   MonthLengths, LeapRule, DoyCorrect, ClosedFormDayNumber,              *)
(*   ClosedForm1901, DayNumberRoundTrip, HmsRoundTrip.                      *)
(* StartInversionExact (C11): inverting the start Julian date yields the   *)
(* start instant, for every second of the minute.                          *)
(***************************************************************************)
EXTENDS Integers, Sequences, FiniteSets, TLC, Json

CONSTANTS FirstYear, LastYear,   \* 1901, 2099
          JumpDates,             \* set of <<y, m, d>> JumpTo may target
          JumpSods               \* set of seconds of day JumpTo may target

VARIABLES y, m, d, sod, dn, doy, last, prev
vars == <<y, m, d, sod, dn, doy, last, prev>>

\* ---------------------------------------------------------------- calendar
Leap(yy)    == yy % 4 = 0 /\ (yy % 100 # 0 \/ yy % 400 = 0)
Dim(yy, mm) == IF mm = 2 THEN (IF Leap(yy) THEN 29 ELSE 28)
               ELSE IF mm \in {4, 6, 9, 11} THEN 30 ELSE 31
Diy(yy)     == IF Leap(yy) THEN 366 ELSE 365
ValidDate(yy, mm, dd) == /\ yy \in FirstYear..LastYear /\ mm \in 1..12
                         /\ dd \in 1..Dim(yy, mm)

\* days of year yy in the months before mm: by definition (recursive) and as the usual
\* table (what TLC evaluates; MonthLengths checks that the two agree)
RECURSIVE DaysBeforeRec(_, _)
DaysBeforeRec(yy, mm) == IF mm = 1 THEN 0 ELSE DaysBeforeRec(yy, mm - 1) + Dim(yy, mm - 1)
CumDays == <<0, 31, 59, 90, 120, 151, 181, 212, 243, 273, 304, 334, 365>>
DaysBefore(yy, mm) == CumDays[mm] + IF mm > 2 /\ Leap(yy) THEN 1 ELSE 0
DoyOf(yy, mm, dd)  == DaysBefore(yy, mm) + dd

\* closed form: proleptic Gregorian ordinal of a date
ToDayNumber(yy, mm, dd) ==
  LET p == yy - 1 IN 365 * p + p \div 4 - p \div 100 + p \div 400 + DoyOf(yy, mm, dd)
\* the form valid only for 1901..2099 (no skipped leap year inside), as used by
\* stardate.py:getCalendarDate  ( (year-1900)*365 + floor((year-1901)/4) )
DN1901 == 693961
ToDayNumber1901(yy, dy) == 365 * (yy - 1901) + (yy - 1901) \div 4 + dy - 1 + DN1901

Min2(a, b) == IF a < b THEN a ELSE b
\* inverse: year by division over the 400/100/4/1-year cycles; month and day in closed form
\* (January and February directly, March onwards by the 153-days-per-5-months rule) --
\* deliberately a different formulation from the table DaysBefore, DayNumberRoundTrip and
\* RoundTrip check that the two agree on every day
FromDayNumber(n) ==
  LET n0   == n - 1
      q400 == n0 \div 146097
      r400 == n0 % 146097
      q100 == Min2(r400 \div 36524, 3)
      r100 == r400 - q100 * 36524
      q4   == r100 \div 1461
      r4   == r100 % 1461
      q1   == Min2(r4 \div 365, 3)
      dy   == r4 - q1 * 365 + 1                       \* day of the year, from 1
      yy   == 400 * q400 + 100 * q100 + 4 * q4 + q1 + 1
      feb  == IF Leap(yy) THEN 29 ELSE 28
      e    == dy - 31 - feb - 1                       \* days since 1 March, from 0
      mp   == (5 * e + 2) \div 153                    \* months since March
  IN IF dy <= 31 THEN <<yy, 1, dy>>
     ELSE IF dy <= 31 + feb THEN <<yy, 2, dy - 31>>
     ELSE <<yy, mp + 3, e - (153 * mp + 2) \div 5 + 1>>

\* ------------------------------------------------------------ time of day
Hms(s)         == <<s \div 3600, (s % 3600) \div 60, s % 60>>
SodOf(h, mi, s) == 3600 * h + 60 * mi + s

\* ------------------------------------------------------------ Julian date
ToJDOf(n, s) == <<2 * n + 3442849, s>>           \* JD = [1]/2 + [2]/86400
ToJD         == ToJDOf(dn, sod)
JDLess(a, b) == a[1] < b[1] \/ (a[1] = b[1] /\ a[2] < b[2])
FromJD(j)    == LET c == FromDayNumber((j[1] - 3442849) \div 2) IN <<c[1], c[2], c[3], j[2]>>
Instant      == <<y, m, d, sod>>

\* seconds from instant (n1, s1) to (n2, s2); only used for nearby days (no overflow)
SecondsBetween(n1, s1, n2, s2) == (n2 - n1) * 86400 + s2 - s1
\* instant reached `off` seconds after (n, s), off >= 0
Advance(n, s, off) == <<n + (s + off) \div 86400, (s + off) % 86400>>

\* ------------------------------------------------- boundary classification
\* kind of boundary between a day and the next one (crossed by TickDay)
DayBoundaryOf(yy, mm, dd) ==
  IF mm = 12 /\ dd = 31 THEN "year"
  ELSE IF mm = 2 /\ Leap(yy) /\ dd \in {28, 29} THEN "leapday"
  ELSE IF dd = Dim(yy, mm) THEN "month" ELSE "day"
\* kind of boundary crossed by TickSecond from an instant
SecondBoundaryOf(yy, mm, dd, ss) ==
  IF ss = 86399 THEN DayBoundaryOf(yy, mm, dd)
  ELSE IF ss = 43199 THEN "noon"           \* the integer part of the Julian date changes
  ELSE IF ss % 3600 = 3599 THEN "hour"
  ELSE IF ss % 60 = 59 THEN "minute" ELSE "second"
DayBoundary    == DayBoundaryOf(y, m, d)
SecondBoundary == SecondBoundaryOf(y, m, d, sod)

\* ---------------------------------------------------------- state machine
Init == /\ y = FirstYear /\ m = 1 /\ d = 1 /\ sod = 0
        /\ dn = ToDayNumber(FirstYear, 1, 1) /\ doy = 1
        /\ last = "init" /\ prev = <<FirstYear, 1, 1, 0>>

NotLastDay == ~(y = LastYear /\ m = 12 /\ d = 31)

\* the date part of a day advance (shared by TickDay and the carry of TickSecond)
NextDate == /\ IF d < Dim(y, m) THEN d' = d + 1 /\ UNCHANGED <<y, m>>
               ELSE IF m < 12 THEN m' = m + 1 /\ d' = 1 /\ UNCHANGED y
               ELSE y' = y + 1 /\ m' = 1 /\ d' = 1
            /\ dn' = dn + 1
            /\ doy' = IF y' = y THEN doy + 1 ELSE 1

TickDay == /\ NotLastDay /\ NextDate /\ UNCHANGED sod
           /\ last' = "day" /\ prev' = Instant

TickSecond == /\ IF sod < 86399
                   THEN sod' = sod + 1 /\ UNCHANGED <<y, m, d, dn, doy>>
                   ELSE NotLastDay /\ sod' = 0 /\ NextDate
              /\ last' = "second" /\ prev' = Instant

JumpTo(yy, mm, dd, ss) ==
  /\ ValidDate(yy, mm, dd) /\ ss \in 0..86399
  /\ y' = yy /\ m' = mm /\ d' = dd /\ sod' = ss
  /\ dn' = ToDayNumber(yy, mm, dd) /\ doy' = DoyOf(yy, mm, dd)
  /\ last' = "jump" /\ prev' = Instant

Jump == \E c \in JumpDates, ss \in JumpSods : JumpTo(c[1], c[2], c[3], ss)
Next == TickDay \/ TickSecond \/ Jump
Spec == Init /\ [][Next]_vars

\* Restrictions of Next used by the configurations (every behaviour of these is a
\* behaviour of Spec):
\*  walk     one jump from the initial state to a 1 January (so that TLC's workers share
\*           the years; the jump computes dn/doy in closed form, the ticks incrementally,
\*           and both must land on the same states), then day ticks only
\*  seconds  one jump from the initial state to a boundary instant, then any ticks
NextWalk    == (last = "init" /\ Jump) \/ TickDay
NextSeconds == (last = "init" /\ Jump) \/ (last # "init" /\ (TickDay \/ TickSecond))
SpecWalk    == Init /\ [][NextWalk]_vars
SpecSeconds == Init /\ [][NextSeconds]_vars

\* ------------------------------------------------------------- properties
TypeOK == /\ ValidDate(y, m, d) /\ sod \in 0..86399
          /\ last \in {"init", "day", "second", "jump"}
MonthLengths == /\ d \in 1..Dim(y, m)
                /\ DaysBefore(y, m) = DaysBeforeRec(y, m)
                /\ DaysBefore(y, m + 1) - DaysBefore(y, m) = Dim(y, m)
                /\ DaysBefore(y, 13) = Diy(y)
                /\ Dim(y, m) \in {28, 29, 30, 31}
                /\ (Dim(y, m) = 29 <=> (m = 2 /\ Leap(y)))
\* inside 1901..2099 the Gregorian rule coincides with "every fourth year" (the form the
\* code uses: remainder(year - 1900, 4) == 0); 2000 IS a leap year
LeapRule == /\ (Leap(y) <=> (y - 1900) % 4 = 0)
            /\ Leap(2000) /\ ~Leap(1900) /\ ~Leap(2100)
            /\ (Leap(y) <=> Diy(y) = 366)
DoyCorrect   == doy = DoyOf(y, m, d) /\ doy \in 1..Diy(y)
                /\ ((m = 12 /\ d = 31) <=> doy = Diy(y))
ClosedFormDayNumber == dn = ToDayNumber(y, m, d)
ClosedForm1901      == dn = ToDayNumber1901(y, doy)
DayNumberRoundTrip  == FromDayNumber(dn) = <<y, m, d>>
HmsRoundTrip == LET t == Hms(sod) IN /\ SodOf(t[1], t[2], t[3]) = sod
                                     /\ t[1] \in 0..23 /\ t[2] \in 0..59 /\ t[3] \in 0..59
\* C05: Julian date -> calendar inverts calendar -> Julian date, exactly
RoundTrip == FromJD(ToJD) = Instant
\* C05: conversions are strictly monotonic (every tick increases the Julian date)
Monotone == [][last' \in {"day", "second"} => JDLess(ToJD, ToJD')]_vars
\* one second / one day later is exactly that far away (ties offsets to ticks)
TickLength ==
  LET p == prev IN
    /\ last = "second" => SecondsBetween(ToDayNumber(p[1], p[2], p[3]), p[4], dn, sod) = 1
    /\ last = "day" => dn = ToDayNumber(p[1], p[2], p[3]) + 1 /\ sod = p[4]
\* C05: scenario-second offsets round trip (offset -> instant -> offset), a few offsets
Offsets == {0, 1, 60, 86399, 86400, 200000}
OffsetsRoundTrip ==
  \A off \in Offsets : LET a == Advance(dn, sod, off)
                       IN /\ SecondsBetween(dn, sod, a[1], a[2]) = off
                          /\ a[2] \in 0..86399
                          /\ ~JDLess(ToJDOf(a[1], a[2]), ToJD)
\* C11: the start instant recovered from the start Julian date is the start instant,
\* whatever its second of the minute (this is what Terrestrial.__init__ relies on)
StartInversionExact ==
  LET c == FromDayNumber((ToJD[1] - 3442849) \div 2)      \* date part of FromJD
  IN \A s \in 0..59 : LET s0 == (sod \div 60) * 60 + s
                      IN <<c[1], c[2], c[3], ToJDOf(dn, s0)[2]>> = <<y, m, d, s0>>

\* --------------------------------------------------- output for the driver
\* one line per calendar day (walk configuration)
EmitDay == (sod = 0 /\ last \in {"init", "day"}) =>
   PrintT("DAY " \o ToJson([y |-> y, m |-> m, d |-> d, dn |-> dn, doy |-> doy,
                            kind |-> DayBoundary, leap |-> Leap(y)]))
\* one line per second tick (seconds configuration): the transition prev -> Instant
EmitTick == last = "second" =>
   PrintT("TICK " \o ToJson([from |-> prev, to |-> Instant, dn |-> dn, doy |-> doy,
                             kind |-> SecondBoundaryOf(prev[1], prev[2], prev[3], prev[4])]))

\* ------------------------------- configuration restrictions (cfg files only)
Within3  == TLCGet("level") <= 3
Within8  == TLCGet("level") <= 8
Within10 == TLCGet("level") <= 10

\* named constant values (cfg syntax has no tuples)
NewYears == {<<yy, 1, 1>> : yy \in FirstYear..LastYear}
Midnight == {0}
YearsQuick    == {1901, 1904, 1999, 2000, 2016, 2019, 2020, 2098, 2099}
YearsThorough == {yy \in 1901..2099 : yy % 7 = 0 \/ yy % 100 \in {0, 1, 99} \/ yy \in 2014..2022}
EndsOf(Y) == {c \in Y \X (1..12) \X {1, 28, 29, 30, 31} :
                 /\ c[3] <= Dim(c[1], c[2])
                 /\ (c[3] = 1 \/ c[3] >= Dim(c[1], c[2]) - 1)
                 /\ ~(c[1] = LastYear /\ c[2] = 12 /\ c[3] = 31)}
DatesQuick    == {c \in EndsOf(YearsQuick) : c[2] \in {1, 2, 3, 12}}
DatesThorough == EndsOf(YearsThorough)
SodsQuick     == {0, 57, 3597, 43197, 86337, 86397}
\* C11: the midnights inside the Earth-orientation table shipped with the simulator
DatesEop      == {c \in EndsOf(2014..2021) : c[3] # 1}
LastSecond    == {86399}
SodsThorough  == {0, 56, 3596, 43196, 86336, 86396}
=============================================================================
