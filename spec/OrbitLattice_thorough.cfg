\* thorough (C12 and C20): all 7 families x 88 orientations x 4 anomalies x 2 arcs
SPECIFICATION Spec
CONSTANT Families <- FamAll
CONSTANT OrientKinds <- KindsAll
CONSTANT WithArcs = TRUE
CONSTANT RetroConvention = "motion"
INVARIANT VisViva
INVARIANT EnergyConst
INVARIANT HConstant
INVARIANT EccVector
INVARIANT KeplerGeometry
INVARIANT OnLattice
INVARIANT ElementRoundTrip
INVARIANT EquatorialSplit
INVARIANT EquinoctialRoundTrip
INVARIANT EqeMatchesCoe
INVARIANT ArcSameOrbit
INVARIANT ArcLagrange
INVARIANT ArcMinimumEnergy
INVARIANT NoOverflow
INVARIANT Emit
INVARIANT EmitArc
INVARIANT EmitCases
