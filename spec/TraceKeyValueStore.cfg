SPECIFICATION TraceSpec
CONSTANTS Clients = {CLIENTS}
  RawKeys = {KEYS}
  NTraces = {NTRACES}
  CacheKeys = {}
  Atoms = {}
  SetLists <- TrNone
  Indexes <- TrNone
  MaxLen = 0
  Records = {}
  CacheSizes = {}
  Paths = {}
  Payloads = {}
  MaxPush = 1000000
  Times <- TrNone
  RedMax = 128
  Ops = {}
  Dev = "none"
  EmitEdges = FALSE
INVARIANT Accept
INVARIANT ExclusiveSetAtMostOnce
INVARIANT WrittenConsistent
INVARIANT EvGhostAligned
INVARIANT PushedEventsFlushedExactlyOnce
INVARIANT FlusherFIFO
INVARIANT CacheBounded
INVARIANT ReductionCacheConsistent
