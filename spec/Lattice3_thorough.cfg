SPECIFICATION Spec
CONSTANTS K = 3
CONSTANT Turns <- TurnsThorough
INVARIANT SkewIsCross
INVARIANT SkewAntisym
INVARIANT CrossAlgebra
INVARIANT TriadsRightHanded
INVARIANT RotCompose
INVARIANT RotOrthogonal
INVARIANT RotDetOne
INVARIANT RotInverseIsTranspose
INVARIANT RotAxisFixed
INVARIANT RotPeriodic
INVARIANT QuarterTurnIsCross
INVARIANT RotPreservesCross
INVARIANT DotRotIsRotOfCross
INVARIANT SezAxesAreGeographic
INVARIANT SezDirIsUnit
INVARIANT SezRotationIsRigid
INVARIANT WrapAlgebra
INVARIANT EmitVec
INVARIANT EmitRot
INVARIANT EmitDot
INVARIANT EmitSite
INVARIANT EmitLook
INVARIANT EmitSiteVec
INVARIANT EmitWrap
