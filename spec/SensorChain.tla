----------------------------- MODULE SensorChain -----------------------------
(***************************************************************************)
(* Property C02: the observation-attempt chain of a resonaate sensor.      *)
(*                                                                         *)
(* Models  src/resonaate/sensors/sensor_base.py                            *)
(*           Sensor.collectObservations  -> action Slew (canSlew, boresight*)
(*                                          and time_last_tasked update),  *)
(*           Sensor.attemptObservation   -> action Attempt (inFieldOfView, *)
(*                                          isVisible of the sensor kind), *)
(*           the serendipitous loop      -> actions Background /           *)
(*                                          SkipBackground / Finish,       *)
(*         with the isVisible overrides of sensors/radar.py (Radar,        *)
(*         AdvRadar: + radar sensitivity) and sensors/optical.py (Optical: *)
(*         + solar flux, visual magnitude, galactic exclusion, and for a   *)
(*         spacecraft host Sun cone + Earth limb, for a ground host site   *)
(*         darkness); callers tasking/predictions.py and                   *)
(*         parallel/tasking_execution.py.                                  *)
(*                                                                         *)
(* The machine is a DECISION PROCEDURE over the values of an INDEPENDENT   *)
(* evaluation of every constraint:  1 = holds, 0 = fails, 2 = undecided    *)
(* (the independent margin is inside its tolerance band; either answer of  *)
(* the implementation is admissible - DESIGN.md 7-2).  The ORDER in which  *)
(* the implementation tests the constraints is not part of the property:   *)
(* Attempt may name ANY constraint that (may) fail.                        *)
(*                                                                         *)
(* Property formulas (state predicates over instance x and outcome o, used *)
(* both on the states of this machine and on records of the real code by   *)
(* TraceSensorChain):                                                      *)
(*   ObsAllowedP        an observation only if ALL constraints hold        *)
(*   BgNeedsSlewP       a serendipitous observation only if the commanded  *)
(*                      pointing was reached (slew reachability)           *)
(*   MissReasonTrueP    a miss names a constraint of this sensor kind that *)
(*                      really fails                                       *)
(*   ExactlyOneMissP    no observation of the primary <=> exactly one miss *)
(*   BgOnlyObsP         background targets never get miss records         *)
(*   BoresightIffSlewP  boresight / time_last_tasked updated <=> slew OK   *)
(*   MeasurementP       reported measurement = independent geometry        *)
(*                      (integer-projected error, 100 = tolerance)         *)
(***************************************************************************)
EXTENDS Integers, Sequences, FiniteSets, TLC

Kinds == {"radar", "adv_radar", "optical"}
Hosts == {"ground", "space"}

PartA == {"slew", "fov", "minR", "maxR", "los", "el", "az"}
PartB == {"radar", "flux", "vismag", "galactic", "sunCone", "limb", "dark"}
AllC  == PartA \cup PartB
Base  == {"minR", "maxR", "los", "el", "az"}       \* Sensor.isVisible (every kind)

\* constraints of isVisible for a sensor kind on a host kind
Needed(kind, host) ==
  Base \cup (IF kind = "optical"
               THEN {"flux", "vismag", "galactic"}
                    \cup (IF host = "space" THEN {"sunCone", "limb"} ELSE {"dark"})
               ELSE {"radar"})
\* everything attemptObservation tests for one target
Gate(kind, host) == {"fov"} \cup Needed(kind, host)

MayHold(v) == v # 0
MayFail(v) == v # 1

\* instance x = [kind, host, calcBg, p (constraints of the primary target, incl. slew),
\*               bg (sequence of constraint vectors of the background targets)]
NT(x)     == Len(x.bg)
Tgts(x)   == 0..NT(x)                               \* 0 = primary (tasked) target
Vec(x, t) == IF t = 0 THEN x.p ELSE x.bg[t]
GateOK(x, t)      == \A c \in Gate(x.kind, x.host) : MayHold(Vec(x, t)[c])
FailingGate(x, t) == {c \in Gate(x.kind, x.host) : MayFail(Vec(x, t)[c])}

(***************************************************************************)
(* Outcome o = [bs, obsN, miss, stray, meas]                               *)
(*   bs    0 boresight & time_last_tasked unchanged, 1 updated to the new  *)
(*         pointing, 2 indistinguishable (old = new), 3 anything else      *)
(*   obsN  obsN[t+1] = number of Observation objects for target t          *)
(*   miss  sequence of [t, r]: MissedObservation for target t, reason r    *)
(*   stray number of returned objects that name no target of the call      *)
(*   meas  per observation, measurement error in percent of its tolerance  *)
(***************************************************************************)
Observed(x, o) == {t \in Tgts(x) : o.obsN[t + 1] > 0}

ObsAllowedP(x, o) ==
  /\ \A t \in Observed(x, o) : GateOK(x, t)
  /\ 0 \in Observed(x, o) => MayHold(x.p.slew)
  /\ o.stray = 0
BgNeedsSlewP(x, o) ==
  \A t \in Observed(x, o) : t # 0 => MayHold(x.p.slew) /\ o.bs \in {1, 2}
MissReasonTrueP(x, o) ==
  \A k \in DOMAIN o.miss :
     LET m == o.miss[k]
     IN /\ m.t \in Tgts(x)
        /\ m.r \in {"slew"} \cup Gate(x.kind, x.host)
        /\ IF m.r = "slew" THEN MayFail(x.p.slew) ELSE MayFail(Vec(x, m.t)[m.r])
PrimaryMisses(o) == {k \in DOMAIN o.miss : o.miss[k].t = 0}
ExactlyOneMissP(x, o) ==
  IF o.obsN[1] = 0 THEN Cardinality(PrimaryMisses(o)) = 1
                   ELSE o.obsN[1] = 1 /\ PrimaryMisses(o) = {}
BgOnlyObsP(x, o) ==
  /\ \A k \in DOMAIN o.miss : o.miss[k].t = 0
  /\ \A t \in Tgts(x) : o.obsN[t + 1] <= 1
BgFlagP(x, o) == ~x.calcBg => Observed(x, o) \subseteq {0}
BoresightIffSlewP(x, o) ==
  CASE x.p.slew = 1 -> o.bs \in {1, 2}
    [] x.p.slew = 0 -> o.bs \in {0, 2}
    [] OTHER        -> o.bs \in {0, 1, 2}
\* a slew miss goes with an unchanged boresight, any other primary record with an updated one
BoresightMatchesRecordP(x, o) ==
  /\ (\E k \in DOMAIN o.miss : o.miss[k].r = "slew") => o.bs \in {0, 2}
  /\ (o.obsN[1] > 0 \/ \E k \in DOMAIN o.miss : o.miss[k].t = 0 /\ o.miss[k].r # "slew") => o.bs \in {1, 2}
MeasurementP(x, o) == \A k \in DOMAIN o.meas : o.meas[k] <= 100

(***************************************************************************)
(* State machine.                                                          *)
(***************************************************************************)
CONSTANTS MaxBg,      \* number of background targets explored: 0..MaxBg
          VaryPrim,   \* constraints of the primary that range over Vals (others hold)
          VaryBg,     \* same for a background target
          Vals,       \* {0,1} (exact) or {0,1,2} (with undecided inputs)
          OnlyRelevant \* TRUE: only constraints the sensor kind / host kind has are varied

VARIABLES x, pc, bs, obs, misses, j
vars == <<x, pc, bs, obs, misses, j>>

AllOnes == [c \in AllC |-> 1]
NoInst  == [kind |-> "none", host |-> "none", calcBg |-> FALSE, p |-> AllOnes, bg |-> <<>>, n |-> 0]
Ext(f, base) == [c \in AllC |-> IF c \in DOMAIN f THEN f[c] ELSE base[c]]

\* constraints that are varied for instance x
Rel(y) == IF OnlyRelevant THEN {"slew"} \cup Gate(y.kind, y.host) ELSE AllC

Init == x = NoInst /\ pc = "start" /\ bs = 0 /\ obs = {} /\ misses = <<>> /\ j = 1

\* the instance is posed in stages so that TLC's workers share the enumeration
PoseKind == /\ pc = "start"
            /\ \E k \in Kinds, h \in Hosts, cb \in BOOLEAN, n \in 0..MaxBg :
                 x' = [NoInst EXCEPT !.kind = k, !.host = h, !.calcBg = cb, !.n = n]
            /\ pc' = "poseA" /\ UNCHANGED <<bs, obs, misses, j>>
PosePrimA == /\ pc = "poseA"
             /\ \E f \in [VaryPrim \cap PartA \cap Rel(x) -> Vals] : x' = [x EXCEPT !.p = Ext(f, x.p)]
             /\ pc' = "poseB" /\ UNCHANGED <<bs, obs, misses, j>>
PosePrimB == /\ pc = "poseB"
             /\ \E f \in [VaryPrim \cap PartB \cap Rel(x) -> Vals] : x' = [x EXCEPT !.p = Ext(f, x.p)]
             /\ pc' = (IF x.n = 0 THEN "posed" ELSE "poseBg")
             /\ UNCHANGED <<bs, obs, misses, j>>
PoseBg == /\ pc = "poseBg"
          /\ \E f \in [(VaryBg \cap Rel(x)) \ {"slew"} -> Vals] :
               x' = [x EXCEPT !.bg = Append(x.bg, Ext(f, [AllOnes EXCEPT !["slew"] = x.p.slew]))]
          /\ pc' = (IF Len(x.bg) + 1 = x.n THEN "posed" ELSE "poseBg")
          /\ UNCHANGED <<bs, obs, misses, j>>

\* collectObservations: canSlew; on success boresight := pointing, time_last_tasked := now
Slew == /\ pc = "posed"
        /\ \/ /\ MayHold(x.p.slew)
              /\ bs' = 1 /\ pc' = "slewed" /\ UNCHANGED misses
           \/ /\ MayFail(x.p.slew)
              \* undecided slew: the old boresight may coincide with the commanded pointing (bs = 2)
              /\ bs' \in (IF x.p.slew = 2 THEN {0, 2} ELSE {0}) /\ pc' = "background"
              /\ misses' = Append(misses, [t |-> 0, r |-> "slew"])
        /\ UNCHANGED <<x, obs, j>>

\* attemptObservation of the tasked target: observation iff every gate constraint holds,
\* otherwise ONE miss naming any failing constraint (order of checks not specified)
Attempt == /\ pc = "slewed"
           /\ \/ /\ GateOK(x, 0)
                 /\ obs' = obs \cup {0} /\ UNCHANGED misses
              \/ \E r \in FailingGate(x, 0) :
                   /\ misses' = Append(misses, [t |-> 0, r |-> r]) /\ UNCHANGED obs
           /\ pc' = "background" /\ UNCHANGED <<x, bs, j>>

\* serendipitous attempt on background target j: an observation or nothing, never a miss;
\* an observation needs the commanded pointing to have been reached
Background == /\ pc = "background" /\ x.calcBg /\ j <= NT(x)
              /\ \/ /\ bs \in {1, 2} /\ GateOK(x, j)
                    /\ obs' = obs \cup {j}
                 \/ UNCHANGED obs
              /\ j' = j + 1 /\ UNCHANGED <<x, pc, bs, misses>>
SkipBackground == /\ pc = "background" /\ ~x.calcBg
                  /\ pc' = "done" /\ UNCHANGED <<x, bs, obs, misses, j>>
Finish == /\ pc = "background" /\ x.calcBg /\ j > NT(x)
          /\ pc' = "done" /\ UNCHANGED <<x, bs, obs, misses, j>>

Chain == Slew \/ Attempt \/ Background \/ SkipBackground \/ Finish
Next  == PoseKind \/ PosePrimA \/ PosePrimB \/ PoseBg \/ Chain
Spec  == Init /\ [][Next]_vars

\* the outcome carried by the current state
Out == [bs |-> bs, obsN |-> [k \in 1..(NT(x) + 1) |-> IF (k - 1) \in obs THEN 1 ELSE 0],
        miss |-> misses, stray |-> 0, meas |-> <<>>]
Running == pc \in {"slewed", "background", "done"}

(***************************************************************************)
(* The properties of C02 as invariants of the machine.                     *)
(***************************************************************************)
ObservationAllowed         == Running => ObsAllowedP(x, Out) /\ BgNeedsSlewP(x, Out)
MissReasonTrue             == Running => MissReasonTrueP(x, Out)
ExactlyOneMissForPrimary   == pc \in {"background", "done"} => ExactlyOneMissP(x, Out)
BackgroundOnlyObservations == Running => BgOnlyObsP(x, Out) /\ BgFlagP(x, Out)
BoresightUpdatedIffSlew    == Running => BoresightIffSlewP(x, Out) /\ BoresightMatchesRecordP(x, Out)

\* consequence of the above for decided inputs: the primary is observed IFF all hold
Decided(v) == \A c \in AllC : v[c] \in {0, 1}
PrimaryObservedIffAllHold ==
  (pc = "done" /\ Decided(x.p)) =>
     (0 \in obs <=> (x.p.slew = 1 /\ \A c \in Gate(x.kind, x.host) : x.p[c] = 1))
\* constraints a sensor kind does not have never influence the outcome
IrrelevantIgnored ==
  pc = "done" => \A k \in DOMAIN misses : misses[k].r \in {"slew"} \cup Gate(x.kind, x.host)
\* some outcome always exists (the chain never blocks before "done")
NeverStuck == pc \in {"posed", "slewed", "background"} => ENABLED Chain
=============================================================================
