-------------------------- MODULE TraceRunLifecycle --------------------------
(***************************************************************************)
(* impl -> spec for G04: decides whether the stage events recorded from    *)
(* REAL application runs (harness/drivers/_runlifecycle.py: wrappers,      *)
(* installed from outside in the process of the run, on the argument       *)
(* parser, runResonaate, buildScenarioFromConfigFile/Dict,                 *)
(* createDatabasePath, ScenarioConfig.parseConfigFile / __init__,          *)
(* ray.is_initialized / init / timeline / shutdown, setDBPath,             *)
(* ScenarioBuilder.__init__, Scenario.__init__ / propagateTo / stepForward *)
(* / saveDatabaseOutput / shutdown, getTargetJulianDate and the two log    *)
(* lines of runResonaate) are behaviours of RunLifecycle.tla.              *)
(* Every trace action re-uses the specification's action and binds the     *)
(* logged result (ok / exception class) and the projection of the REAL     *)
(* process and disk state after the stage (working-directory tree, shared  *)
(* DB path, rows of the SQLite file read back with sqlite3, clock).        *)
(* Stages the code performs without a call that could be wrapped (the      *)
(* skipped importer branch, an output step that is not due) are silent.    *)
(* The last record of a trace is the projection of what the finished       *)
(* process left behind (Exit); all guarantees of RunLifecycle are          *)
(* evaluated in every state of every trace.                                *)
(*                                                                         *)
(* A file holds many traces: [inp |-> posed input, ev |-> events].  The    *)
(* harness derives the verdict from the AT lines (accepted iff position    *)
(* Len + 1 is reached).                                                    *)
(***************************************************************************)
EXTENDS RunLifecycle, Json, IOUtils

Traces == JsonDeserialize(IOEnv.TRACE_FILE)
NAgents == 3        \* agents of the scenarios the harness runs (2 targets + 1 sensor)
NTargets == 2

VARIABLES tid, l
tvars == <<vars, tid, l>>

Tr  == Traces[tid].ev
Rec == Tr[l]
At(e) == l <= Len(Tr) /\ Rec.ev = e /\ l' = l + 1 /\ UNCHANGED tid
Silent == UNCHANGED <<tid, l>>
ToSet(seq) == {seq[i] : i \in DOMAIN seq}
\* the logged result of a stage: it returned (the run is at `next`) or raised (the process ends with that class)
Result(next) == IF Rec.ok THEN pc' = next ELSE pc' = "exit" /\ outcome' = Rec.exc
\* projection of the REAL SQLite file of the run equals the specification's database
DbIs(p) ==
  /\ dbFile' = p.file
  /\ p.file = "created" =>
       /\ dbAgents' = (p.agents = NAgents)
       /\ dbEpochs' = ToSet(p.truth) /\ estEpochs' = ToSet(p.est)
       /\ ToSet(p.truthPerEpoch) \subseteq {NAgents} /\ ToSet(p.estPerEpoch) \subseteq {NTargets}
ImpIs(s) == impFile' = s

TraceInit == /\ tid \in DOMAIN Traces /\ l = 1
             /\ inp = Traces[tid].inp /\ pc = "posed" /\ InitRest

TBegin == Begin /\ Silent
TParseArgs ==
  /\ At("ParseArgs") /\ ParseArgs /\ Result("call")
  /\ Rec.ok => /\ hoursSec' * 1000 = Rec.hoursMs /\ Rec.db = (inp.db # "none") /\ Rec.imp = (inp.imp # "none")
               /\ Rec.debug = inp.debug /\ Rec.initAbs
TEnterRun ==
  /\ At("RunBegin") /\ EnterRun
  /\ hoursSec' * 1000 = Rec.hoursMs /\ Rec.db = (inp.db # "none") /\ Rec.imp = (inp.imp # "none") /\ Rec.debug = inp.debug
TSetDebug == At("BuildBegin") /\ SetDebug /\ debugMode' = Rec.debugMode
TImporterPath == At("CreateDbPath") /\ Rec.importer /\ ImporterPath /\ Rec.ok /\ tree = ToSet(Rec.tree)
TSkipImporter == SkipImporter /\ Silent
TParseConfig == At("ParseConfig") /\ ParseConfig /\ Result("rayCheck")
TRayCheck == At("RayCheck") /\ RayCheck /\ Rec.up = rayUp
TRayInit == At("RayInit") /\ RayInit
TCreateDbPath ==
  /\ At("CreateDbPath") /\ ~Rec.importer /\ CreateDbPath /\ Result("setDb")
  /\ tree' = ToSet(Rec.tree) /\ Rec.given = (inp.db # "none")
  /\ Rec.ok => Rec.isDefaultName = (inp.db = "none") /\ Rec.dirThere /\ ~Rec.fileThere
TSetDbPath == At("SetDbPath") /\ SetDbPath /\ Result("validate") /\ kvs' = Rec.kvs
TValidate == At("Validate") /\ Validate /\ Result("builder")
TBuilder == At("Builder") /\ Builder /\ Result("scenarioInit") /\ DbIs(Rec.dbp) /\ ImpIs(Rec.imp)
TScenarioInit == At("ScenarioInit") /\ ScenarioInit /\ Result("target") /\ DbIs(Rec.dbp) /\ ImpIs(Rec.imp)
TComputeTarget == At("ComputeTarget") /\ ComputeTarget /\ reqEff' * 1000 = Rec.deltaMs
TPropagateBegin ==
  /\ At("PropagateBegin") /\ PropagateBegin /\ Rec.reqSec = reqEff
  /\ IF Rec.ok THEN pc' = "stepping" ELSE pc' = "finally" /\ pending' = Rec.exc
TStepOk == At("Step") /\ StepOk /\ k' = Rec.k
TStepRaise ==
  /\ At("StepRaise") /\ (StepInterrupted \/ StepFails \/ StepMissingEphemeris)
  /\ Rec.injected = InjectedHere
  /\ Rec.k \in (IF Rec.injected THEN {k} ELSE {k, k + 1})   \* a failing real step may already have moved the clock
  /\ \/ pc' = "except" /\ Rec.exc = "KeyboardInterrupt"
     \/ pc' = "finally" /\ pending' = Rec.exc
TSaveOutput == At("Save") /\ SaveOutput /\ Rec.k = k /\ DbIs(Rec.dbp)
TSkipOutput == SkipOutput /\ Silent
TPropagateEnd == At("PropagateEnd") /\ PropagateEnd /\ Rec.k = k
THandleInterrupt == At("LogTerminated") /\ HandleInterrupt
TLogComplete == At("LogComplete") /\ LogComplete
TBeginShutdown == At("ShutdownBegin") /\ BeginShutdown
TWriteTimeline == At("Timeline") /\ WriteTimeline /\ Rec.cwd_file
TRayShutdown == At("RayShutdown") /\ RayShutdown
\* what the finished process left behind
TExit ==
  /\ At("Exit") /\ pc = "exit" /\ UNCHANGED vars
  /\ outcome = Rec.outcome /\ k = Rec.steps
  /\ built => Rec.clockK \in (IF pending \in {"", "ValueError", "RuntimeError"} THEN {k} ELSE {k, k + 1})
  /\ rayUp = Rec.rayUp /\ rayInits = Rec.rayInits /\ rayShutdowns = Rec.rayShutdowns /\ kvs = Rec.kvs
  /\ debugMode = Rec.debugMode /\ tree = ToSet(Rec.tree)
  /\ dbFile = Rec.dbp.file
  /\ Rec.dbp.file = "created" => /\ dbAgents = (Rec.dbp.agents = NAgents)
                                 /\ dbEpochs = ToSet(Rec.dbp.truth) /\ estEpochs = ToSet(Rec.dbp.est)
  /\ impFile = Rec.imp /\ existing = Rec.existing

TraceNext ==
  \/ TBegin \/ TParseArgs \/ TEnterRun \/ TSetDebug \/ TImporterPath \/ TSkipImporter \/ TParseConfig
  \/ TRayCheck \/ TRayInit \/ TCreateDbPath \/ TSetDbPath \/ TValidate \/ TBuilder \/ TScenarioInit
  \/ TComputeTarget \/ TPropagateBegin \/ TStepOk \/ TStepRaise \/ TSaveOutput \/ TSkipOutput \/ TPropagateEnd
  \/ THandleInterrupt \/ TLogComplete \/ TBeginShutdown \/ TWriteTimeline \/ TRayShutdown \/ TExit
TraceSpec == TraceInit /\ [][TraceNext]_tvars

\* progress report, one line per reached (trace, position)
Accept == PrintT(<<"AT", tid, l, Len(Tr) + 1>>)
=============================================================================
