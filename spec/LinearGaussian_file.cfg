SPECIFICATION Spec
CONSTANT Lattices <- LatsFile
CONSTANT StaleResampleFlag = FALSE
INVARIANT WeightsSumToOne
INVARIANT UnitSecondMoment
INVARIANT TuningAdmissible
INVARIANT Symmetric
INVARIANT PSD
INVARIANT PosteriorIsPriorMinusKSKt
INVARIANT PosteriorLePrior
INVARIANT NoObsReturnsPropagatedMean
INVARIANT ForecastUsesFreshSigmaPoints
PROPERTY ForecastKeepsEstimate
INVARIANT GainSolvesNormalEquations
INVARIANT RedrawIsTextbookKalman
INVARIANT NoRedrawIsVariant
INVARIANT UnitChangeEquivariant
INVARIANT NoOverflow
INVARIANT Emit
INVARIANT EmitOverflow
