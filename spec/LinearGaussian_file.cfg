SPECIFICATION Spec
CONSTANT Lattices <- LatsFile
INVARIANT WeightsSumToOne
INVARIANT UnitSecondMoment
INVARIANT TuningAdmissible
INVARIANT Symmetric
INVARIANT PSD
INVARIANT PosteriorIsPriorMinusKSKt
INVARIANT PosteriorLePrior
INVARIANT NoObsReturnsPropagatedMean
INVARIANT GainSolvesNormalEquations
INVARIANT RedrawIsTextbookKalman
INVARIANT NoRedrawIsVariant
INVARIANT NoOverflow
INVARIANT Emit
INVARIANT EmitOverflow
