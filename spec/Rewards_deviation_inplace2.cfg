\* NON-VACUITY (expected to FAIL): ... and by RecalculateIsStuttering (a second evaluation differs)
SPECIFICATION Spec
CONSTANTS NT = 1 NS = 2 Kinds = {"combined"}
CONSTANT MetricVals <- ValsQuick
CONSTANT Deltas <- DeltasQuick
CONSTANT FullOrders <- NoOrders
CONSTANT Rotations <- RotQuick
CONSTANT ScaledOrders <- NoOrders
CONSTANT Deviation = "CalculateScalesSensorInPlace"
PROPERTY RecalculateIsStuttering
