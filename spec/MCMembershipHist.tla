--------------------------- MODULE MCMembershipHist ---------------------------
(***************************************************************************)
(* MCMembership.tla + the history of completed operations, for the runs    *)
(* that search the as-coded machine for behaviours violating the EXPECTED  *)
(* consistency (layer 2 of Membership.tla):                                *)
(*   OBS    the behaviour that violates the expected invariant named by    *)
(*          Focus (FocusHolds prints it just before TLC reports it), or    *)
(*          every (violating state, violated invariant) pair (EmitObs);    *)
(*   CAUSE  classification of every operation that breaks an expected      *)
(*          invariant that held before it: (op, outcome, invariant).       *)
(* With `hist` in the state the exploration is a tree: keep MaxOps small.  *)
(***************************************************************************)
EXTENDS MCMembership

CONSTANT Focus         \* name of the expected invariant a counterexample run looks at ("" = none)

VARIABLE hist
mcvars == <<vars, hist>>

\* ---- history ------------------------------------------------------------------------------
MCInit == Init /\ hist = <<>>
Completed == \/ (nops' # nops /\ pc' # "events")                  \* a direct call or a save
             \/ evDone' # evDone                                  \* an event handler
             \/ (pc = "assess" /\ pc' \in {"run", "crashed"})     \* a step
MCNext == /\ Next
          /\ hist' = IF Completed THEN Append(hist, last') ELSE hist
MCSpec == MCInit /\ [][MCNext]_mcvars

\* ---- counterexample runs for the expected-consistency invariants ---------------------------
ExpNames == {"EngineTargetsKnown", "EveryTargetTasked", "EngineSensorsKnown", "SensorOwnedOnce", "NoDuplicateInLists",
             "AgentRowsExist", "MatrixDimsMatch", "RolesDisjoint", "EnginesNotEmpty", "NoStepCrash", "NoSaveCrash",
             "NoEventCrash", "FailedOpIsNoop", "BuildErrorsAreNamed", "BuiltHasEngine"}
ExpectedHolds(f) ==
  CASE f = "EngineTargetsKnown" -> EngineTargetsKnown [] f = "EveryTargetTasked" -> EveryTargetTasked
    [] f = "EngineSensorsKnown" -> EngineSensorsKnown [] f = "SensorOwnedOnce" -> SensorOwnedOnce
    [] f = "NoDuplicateInLists" -> NoDuplicateInLists [] f = "AgentRowsExist" -> AgentRowsExist
    [] f = "MatrixDimsMatch" -> MatrixDimsMatch [] f = "RolesDisjoint" -> RolesDisjoint
    [] f = "EnginesNotEmpty" -> EnginesNotEmpty [] f = "NoStepCrash" -> NoStepCrash [] f = "NoSaveCrash" -> NoSaveCrash
    [] f = "NoEventCrash" -> NoEventCrash [] f = "FailedOpIsNoop" -> FailedOpIsNoop
    [] f = "BuildErrorsAreNamed" -> BuildErrorsAreNamed [] f = "BuiltHasEngine" -> BuiltHasEngine
\* the invariant under Focus; a violating state prints the whole behaviour before TLC reports it
FocusHolds ==
  \/ Focus = ""
  \/ ExpectedHolds(Focus)
  \/ ~PrintT("OBS " \o ToJson([inv |-> Focus, cfg |-> cfg, hist |-> hist, out |-> last, snap |-> Snap, pc |-> pc, atomic |-> (Snap = pre)]))

\* the same for the runs over configured events (only the event invariant is of interest there)
EmitObsEvents ==
  NoEventCrash \/ PrintT("OBS " \o ToJson([inv |-> "NoEventCrash", cfg |-> cfg, hist |-> hist, out |-> last, snap |-> Snap, pc |-> pc, atomic |-> (Snap = pre)]))

\* ---- classification of causes -------------------------------------------------------------
XNames == {"EngineTargetsKnown", "EveryTargetTasked", "EngineSensorsKnown", "SensorOwnedOnce", "NoDuplicateInLists",
           "AgentRowsExist", "RolesDisjoint", "EnginesNotEmpty"}
XHolds(n, s) == CASE n = "EngineTargetsKnown" -> XEngineTargetsKnown(s) [] n = "EveryTargetTasked" -> XEveryTargetTasked(s)
                  [] n = "EngineSensorsKnown" -> XEngineSensorsKnown(s) [] n = "SensorOwnedOnce" -> XSensorOwnedOnce(s)
                  [] n = "NoDuplicateInLists" -> XNoDuplicateInLists(s) [] n = "AgentRowsExist" -> XAgentRowsExist(s)
                  [] n = "RolesDisjoint" -> XRolesDisjoint(s) [] n = "EnginesNotEmpty" -> XEnginesNotEmpty(s)
                  [] n = "StepSafe" -> XStepSafe(s)
NewlyBroken == {n \in XNames : XHolds(n, pre) /\ ~XHolds(n, Snap)}
\* all expected invariants at once: one OBS line per (state, invariant) where the violation is FRESH, i.e. the
\* invariant held when the last operation began (a shortest counterexample always ends in a fresh violation); the
\* harness keeps, per invariant, the behaviour with the fewest operations
StateKind == {"EngineTargetsKnown", "EveryTargetTasked", "EngineSensorsKnown", "SensorOwnedOnce", "NoDuplicateInLists",
              "AgentRowsExist", "MatrixDimsMatch", "RolesDisjoint", "EnginesNotEmpty"}
Fresh(f) == IF f \in StateKind THEN (IF f = "MatrixDimsMatch" THEN XMatrixDimsMatch(pre) ELSE XHolds(f, pre))
            ELSE IF f = "BuiltHasEngine" THEN hist = <<>> ELSE TRUE
EmitObs ==
  \A f \in ExpNames :
     ExpectedHolds(f) \/ ~Fresh(f)
       \/ PrintT("OBS " \o ToJson([inv |-> f, cfg |-> cfg, hist |-> hist, out |-> last, snap |-> Snap, pc |-> pc, atomic |-> (Snap = pre)]))

EmitCause ==
  (pc = "run" /\ last.op \in OpNames /\ nops > 0 /\ NewlyBroken # {}) =>
     PrintT("CAUSE " \o ToJson([op |-> last.op, out |-> last.out, broken |-> NewlyBroken, atomic |-> (last.out = "ok" \/ Snap = pre),
                                preOk |-> XConsistent(pre), cfg |-> cfg, hist |-> hist, snap |-> Snap]))
=============================================================================
