------------------------------ MODULE Rationals ------------------------------
(* Exact rational arithmetic on gcd-normalised pairs <<num, den>>, den > 0.   *)
(* All specifications that need fractions share this module; constants are    *)
(* chosen by the callers so that every intermediate stays below 2^31.         *)
EXTENDS Integers
LOCAL Abs(x) == IF x < 0 THEN -x ELSE x
RECURSIVE Gcd(_, _)
Gcd(a, b) == IF b = 0 THEN Abs(a) ELSE Gcd(b, a % b)
Norm(n, d) == LET s == IF d < 0 THEN -1 ELSE 1
                  g == Gcd(Abs(n), Abs(d))
              IN IF n = 0 THEN <<0, 1>> ELSE <<(s * n) \div g, (s * d) \div g>>
Q(n)        == <<n, 1>>
QAdd(a, b)  == Norm(a[1] * b[2] + b[1] * a[2], a[2] * b[2])
QNeg(a)     == <<-a[1], a[2]>>
QSub(a, b)  == QAdd(a, QNeg(b))
QMul(a, b)  == Norm(a[1] * b[1], a[2] * b[2])
QDiv(a, b)  == Norm(a[1] * b[2], a[2] * b[1])
QLe(a, b)   == a[1] * b[2] <= b[1] * a[2]
QLt(a, b)   == a[1] * b[2] < b[1] * a[2]
QEq(a, b)   == a[1] * b[2] = b[1] * a[2]
QSign(a)    == IF a[1] > 0 THEN 1 ELSE IF a[1] < 0 THEN -1 ELSE 0
QSmall(a)   == Abs(a[1]) < 1000000000 /\ a[2] < 1000000000
=============================================================================
