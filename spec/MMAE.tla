------------------------------- MODULE MMAE -------------------------------
(***************************************************************************)
(* Multiple-model adaptive estimation of resonaate (property C18).         *)
(*                                                                         *)
(* Models the life-cycle of                                                *)
(*   estimation/adaptive/smm.py   StaticMultipleModel.update,              *)
(*        _prunedToSingleModel, _convergedToSingleModel                    *)
(*   estimation/adaptive/gpb1.py  GeneralizedPseudoBayesian1.update,       *)
(*        _constructMixMatrix                                              *)
(*   estimation/adaptive/adaptive_filter.py  AdaptiveFilter.prune,         *)
(*        _compileUpdateStep, _resumeSequentialFiltering (converged_filter *)
(*        is what agents/estimate_agent.py:_handleMMAE hands back)         *)
(* from the point where the models exist (initialize() sets the weights    *)
(* and mode probabilities to 1/n) until estimation closes.                 *)
(*                                                                         *)
(* Probabilities are INTEGER MASSES: Prob(k) = mass[k] / Sum(mass).        *)
(* `models` is the code's list self.models (ids in list order), `mass` the *)
(* parallel array self.model_weights, `modeMass` self.mode_probabilities   *)
(* (GPB1).  One action per step of update():                               *)
(*   BeginUpdate/PoseLik  the environment poses the likelihood of every    *)
(*                model, an integer from LVals (0 = exp() underflow);      *)
(*   Update       SMM: weight*likelihood;  GPB1: likelihood*modeProb       *)
(*   ResetOnZeroMass   `if fpe_equals(0, sum): weights = ones` (SMM),      *)
(*                `likelihoods = ones` (GPB1)                              *)
(*   Renormalise  weights / sum (a gcd reduction here: probabilities are   *)
(*                unchanged); GPB1 also mixes the mode probabilities       *)
(*   Compile      _compileUpdateStep: probability-weighted mean and        *)
(*                moment-matched covariance of scalar integer model        *)
(*                means / variances, in exact rationals                    *)
(*   Prune        SMM: weights < prune_threshold are removed from the      *)
(*                highest index down while more than one model is left     *)
(*   Converge     SMM: exactly one weight >= prune_percentage and the      *)
(*                chi-square gate (an environment boolean) holds           *)
(*   Gate         GPB1: the chi-square gate alone closes estimation        *)
(*   NoObs        update([]) : nothing changes                             *)
(*                                                                         *)
(* Likelihood values.  The likelihoods of one update are known to Bayes'   *)
(* rule only up to a common positive factor, so the integers of LVals are  *)
(* RATIOS: the real likelihood of model k is c * lik[k] with any c > 0     *)
(* (the replay driver draws c from 1 down to 1e-300 and lets det(S) under- *)
(* and overflow).  The value 0 means TRUE underflow: the Gaussian          *)
(* likelihood, however it is evaluated, is 0.0 in IEEE double (NIS beyond  *)
(* about 1490 after the determinant term).  The fallback of                *)
(* ResetOnZeroMass is admissible ONLY when every model's mass is zero in   *)
(* that sense (ResetOnlyOnTrueUnderflow); a total mass that is merely      *)
(* small (every NIS above 68, a large or tiny det(S), many stacked          *)
(* measurements) must go through Bayes' rule.                              *)
(*                                                                         *)
(* Mixed regimes: some (not all) models may have likelihood 0, and with    *)
(* prune_threshold 0 (pruning off, ThZero) a model whose probability is    *)
(* exactly 0 stays in the list, so later updates start from priors that    *)
(* are exactly 0 for some models.  Expected: Bayes' rule over the models   *)
(* with positive mass, zero stays zero (ZeroStaysZero), fallback only when *)
(* ALL masses are zero; the deviation "fallback on any zero mass"          *)
(* (DeviationResetOnAnyZero) is refuted by TLC.                            *)
(*                                                                         *)
(* Property C18 = the invariants NonNegative, SumToOne, AtLeastOneModel,   *)
(* BayesRule, ResetOnlyOnTrueUnderflow, ModeMixValid, MixtureMoments,      *)
(* SpreadForm, HandBackIsSurvivor.                                         *)
(* TieFree is a side condition of the binding (no probability sits exactly *)
(* on a threshold in the explored lattice); PruneNeverEmpties says the     *)
(* admissible set of Prune is never empty.                                 *)
(*                                                                         *)
(* Where the statement is indifferent the spec admits a set: when EVERY    *)
(* model is below the pruning threshold, any single survivor with positive *)
(* probability is admitted (the code keeps the first, see                  *)
(* AsCodedAdmissible).  GPB1 documents no survivor: it hands back the      *)
(* mixture.                                                                *)
(***************************************************************************)
EXTENDS Integers, Sequences, FiniteSets, FiniteSetsExt, TLC, Json, Rationals

CONSTANTS Kinds,       \* subset of {"smm", "gpb1"}
          NModels,     \* set of initial model counts
          LVals,       \* set of integer likelihood values (0 = underflow)
          Thresholds,  \* set of <<num, den>> : prune_threshold
          Pcts,        \* set of <<num, den>> : prune_percentage
          MixRatios,   \* set of <<p, q>>     : GPB1 mix_ratio = p/q
          Layouts,     \* set of naturals: which scalar means/variances the models carry
          MaxUpdates,  \* bound on the number of update() calls
          BigN,        \* SMM with >= BigN models is explored for one update fewer
          GpbBigN,     \* GPB1 with >= GpbBigN models is explored for one update fewer
          NoObsAt,     \* set of update counts after which update([]) is explored as well
          KeepHist     \* BOOLEAN: keep the history variable (behaviours for the replay driver)

VARIABLES pc,        \* control point inside update()
          cfg,       \* [kind, n, th, pct, mix, lay]
          models,    \* sequence of model ids         (self.models)
          mass,      \* sequence of integer masses     (self.model_weights)
          modeMass,  \* sequence of integer masses     (self.mode_probabilities, GPB1)
          lik,       \* likelihood vector of the current update (self.model_likelihoods)
          prior,     \* masses the current update started from
          didReset,  \* the zero-mass rule fired in the current update
          alts,      \* ids admissible as single survivor when the last Prune found every model below the threshold
          comb,      \* [mean, cov] of the combined estimate (est_x, est_p), rationals
          closed,    \* ADAPTIVE_ESTIMATION_CLOSE raised, converged_filter built
          handBack,  \* [ids, mean, cov] of converged_filter
          nupd,      \* number of update() calls so far
          hist       \* history of completed updates (only if KeepHist)
vars == <<pc, cfg, models, mass, modeMass, lik, prior, didReset, alts, comb, closed,
          handBack, nupd, hist>>

(* ------------------------------ arithmetic ------------------------------ *)
SumSeq(s) == MapThenSumSet(LAMBDA k : s[k], DOMAIN s)
RECURSIVE GcdUpTo(_, _)
GcdUpTo(s, k) == IF k = 0 THEN 0 ELSE Gcd(GcdUpTo(s, k - 1), s[k])
\* primitive form of a non-negative integer vector; two vectors are proportional
\* iff their primitive forms are equal
Reduce(s) == LET g == GcdUpTo(s, Len(s))
             IN IF g = 0 THEN s ELSE [k \in DOMAIN s |-> s[k] \div g]
Ones(n)   == [k \in 1..n |-> 1]
RemoveAt(s, i) == SubSeq(s, 1, i - 1) \o SubSeq(s, i + 1, Len(s))
RECURSIVE DescSeq(_)
DescSeq(S) == IF S = {} THEN <<>> ELSE <<Max(S)>> \o DescSeq(S \ {Max(S)})
One == <<1, 1>>

(* scalar lattice carried by the models: integer mean and variance of model `id` *)
Mu(lay, id)  == ((id * (lay + 1) + lay * lay) % 7) - 3
Var(lay, id) == 1 + ((id + lay) % 3)

(* moment matching: mean = sum p*mu ; cov = sum p*(var + mu^2) - mean^2 *)
MomA(lay, ms, w) == MapThenSumSet(LAMBDA k : w[k] * Mu(lay, ms[k]), DOMAIN ms)
MomB(lay, ms, w) == MapThenSumSet(LAMBDA k : w[k] * (Var(lay, ms[k]) + Mu(lay, ms[k]) * Mu(lay, ms[k])), DOMAIN ms)
Moments(lay, ms, w) ==
  LET W == SumSeq(w)  A == MomA(lay, ms, w)  B == MomB(lay, ms, w)
  IN IF lay = 0 THEN [mean |-> <<0, 1>>, cov |-> <<0, 1>>]      \* no lattice carried (trace validation)
     ELSE [mean |-> Norm(A, W), cov |-> Norm(B * W - A * A, W * W)]
(* the form the code uses: sum p * (var + (mu - mean)^2), over the common denominator W^3 *)
SpreadCov(lay, ms, w) ==
  LET W == SumSeq(w)  A == MomA(lay, ms, w)
  IN Norm(MapThenSumSet(LAMBDA k : w[k] * (Var(lay, ms[k]) * W * W
                                           + (Mu(lay, ms[k]) * W - A) * (Mu(lay, ms[k]) * W - A)),
                        DOMAIN ms),
          W * W * W)

(* ------------------------------ pruning --------------------------------- *)
Below(w, k, t)   == w[k] * t[2] <  t[1] * SumSeq(w)       \* Prob(k) <  t  (exact)
AtLeast(w, k, t) == w[k] * t[2] >= t[1] * SumSeq(w)       \* Prob(k) >= t  (exact)
OnTie(w, k, t)   == w[k] * t[2] =  t[1] * SumSeq(w)

\* AdaptiveFilter.prune: for index in reversed(prune_index): if len(models) != 1: pop(index)
RECURSIVE PruneLoop(_, _, _)
PruneLoop(idx, ms, w) ==
  IF idx = <<>> THEN <<ms, w>>
  ELSE IF Len(ms) # 1
         THEN PruneLoop(Tail(idx), RemoveAt(ms, Head(idx)), RemoveAt(w, Head(idx)))
         ELSE PruneLoop(Tail(idx), ms, w)
AsCoded(S, ms, w) == PruneLoop(DescSeq(S), ms, w)
\* what the statement admits: the models below the threshold go, but never all of them; when
\* every model is below it, one of them stays and the probabilities must still be valid, so
\* the one that stays carries positive mass
PruneResults(S, ms, w) ==
  IF S = DOMAIN ms THEN {<< <<ms[k]>>, <<w[k]>> >> : k \in {j \in DOMAIN ms : w[j] > 0}}
                   ELSE {AsCoded(S, ms, w)}

(* ------------------------------ state machine --------------------------- *)
NoCfg  == [kind |-> "none", n |-> 0, th |-> One, pct |-> One, mix |-> One, lay |-> 0]
NoComb == [mean |-> <<0, 1>>, cov |-> <<0, 1>>]
NoHB   == [ids |-> <<>>, mean |-> <<0, 1>>, cov |-> <<0, 1>>]

Init == /\ pc = "start" /\ cfg = NoCfg /\ models = <<>> /\ mass = <<>> /\ modeMass = <<>>
        /\ lik = <<>> /\ prior = <<>> /\ didReset = FALSE /\ alts = {}
        /\ comb = NoComb /\ closed = FALSE /\ handBack = NoHB /\ nupd = 0 /\ hist = <<>>

PoseKind == /\ pc = "start"
            /\ \E kd \in Kinds, n \in NModels : cfg' = [NoCfg EXCEPT !.kind = kd, !.n = n]
            /\ pc' = "kind"
            /\ UNCHANGED <<models, mass, modeMass, lik, prior, didReset, alts, comb, closed,
                           handBack, nupd, hist>>

\* AdaptiveFilter.initialize (end): weights and mode probabilities 1/n
Start == /\ pc = "kind"
         /\ \E th \in (IF cfg.kind = "smm" THEN Thresholds ELSE {CHOOSE t \in Thresholds : TRUE}),
               pct \in Pcts,
               mix \in (IF cfg.kind = "gpb1" THEN MixRatios ELSE {One}),
               lay \in Layouts :
               cfg' = [cfg EXCEPT !.th = th, !.pct = pct, !.mix = mix, !.lay = lay]
         /\ models' = [k \in 1..cfg.n |-> k]
         /\ mass' = Ones(cfg.n) /\ modeMass' = Ones(cfg.n)
         /\ pc' = "ready"
         /\ UNCHANGED <<lik, prior, didReset, alts, comb, closed, handBack, nupd, hist>>

UpdBound == IF cfg.n >= (IF cfg.kind = "gpb1" THEN GpbBigN ELSE BigN) THEN MaxUpdates - 1 ELSE MaxUpdates
BeginUpdate == /\ pc = "ready" /\ ~closed /\ nupd < UpdBound
               /\ lik' = <<>> /\ pc' = "posing"
               /\ UNCHANGED <<cfg, models, mass, modeMass, prior, didReset, alts, comb,
                              closed, handBack, nupd, hist>>
PoseLik == /\ pc = "posing" /\ Len(lik) < Len(models)
           /\ \E v \in LVals : lik' = Append(lik, v)
           /\ UNCHANGED <<pc, cfg, models, mass, modeMass, prior, didReset, alts, comb,
                          closed, handBack, nupd, hist>>

\* smm.py: model_weights[num] *= model_likelihoods[num]
\* gpb1.py: model_weights = model_likelihoods * mode_probabilities / c
Update == /\ pc = "posing" /\ Len(lik) = Len(models)
          /\ prior' = (IF cfg.kind = "smm" THEN mass ELSE modeMass)
          /\ mass' = [k \in DOMAIN models |-> prior'[k] * lik[k]]
          /\ nupd' = nupd + 1 /\ pc' = "weighted"
          /\ UNCHANGED <<cfg, models, modeMass, lik, didReset, alts, comb, closed, handBack, hist>>

\* smm.py: if fpe_equals(0.0, sum(weights)): weights = ones_like(weights)
\* gpb1.py: if fpe_equals(0.0, c): likelihoods = ones  (so weights = mode probabilities)
ResetOnZeroMass ==
  /\ pc = "weighted"
  /\ IF SumSeq(mass) = 0
       THEN /\ mass' = (IF cfg.kind = "smm" THEN Ones(Len(models)) ELSE modeMass)
            /\ didReset' = TRUE
       ELSE /\ mass' = mass /\ didReset' = FALSE
  /\ pc' = "reset"
  /\ UNCHANGED <<cfg, models, modeMass, lik, prior, alts, comb, closed, handBack, nupd, hist>>

\* weights / sum(weights); GPB1: mode_probabilities = MixMatrix . weights, diagonal p/((n-1)q+p),
\* off-diagonal q/((n-1)q+p):  mode[k] ~ q*W + (p-q)*mass[k]
Mixed(w, mix) == [k \in DOMAIN w |-> mix[2] * SumSeq(w) + (mix[1] - mix[2]) * w[k]]
Renormalise ==
  /\ pc = "reset"
  /\ mass' = Reduce(mass)
  /\ modeMass' = (IF cfg.kind = "gpb1" THEN Reduce(Mixed(Reduce(mass), cfg.mix)) ELSE modeMass)
  /\ pc' = "normalised"
  /\ UNCHANGED <<cfg, models, lik, prior, didReset, alts, comb, closed, handBack, nupd, hist>>

Compile == /\ pc = "normalised"
           /\ comb' = Moments(cfg.lay, models, mass)
           /\ pc' = "compiled"
           /\ UNCHANGED <<cfg, models, mass, modeMass, lik, prior, didReset, alts, closed,
                          handBack, nupd, hist>>

StepRec(ms, w, cm, cl, g, na) ==
  [L |-> lik, obs |-> TRUE, g |-> g, ids |-> ms, mass |-> w, mode |-> modeMass,
   mean |-> cm.mean, cov |-> cm.cov, closed |-> cl, reset |-> didReset, adm |-> na]
Push(r) == hist' = IF KeepHist THEN Append(hist, r) ELSE hist
HB(ms, cm) == [ids |-> ms, mean |-> cm.mean, cov |-> cm.cov]
\* end of update(): g = 1 gate held, 0 gate failed, 2 gate not evaluated
Finish(ms, w, cm, cl, g, na) ==
  /\ models' = ms /\ mass' = w /\ comb' = cm
  /\ closed' = cl /\ handBack' = (IF cl THEN HB(ms, cm) ELSE handBack)
  /\ pc' = (IF cl THEN "closed" ELSE "ready")
  /\ Push(StepRec(ms, w, cm, cl, g, na))
  /\ lik' = <<>> /\ prior' = <<>> /\ didReset' = FALSE /\ alts' = {}

\* the chi-square gate compares the combined NIS with a bound; when every likelihood
\* underflowed every NIS is beyond 1400, so the gate cannot hold in that update
GateChoices == IF didReset THEN {FALSE} ELSE BOOLEAN

\* smm.py _prunedToSingleModel
PruneSet == {k \in DOMAIN models : Below(mass, k, cfg.th)}
Prune ==
  /\ pc = "compiled" /\ cfg.kind = "smm"
  /\ \E res \in PruneResults(PruneSet, models, mass) :
       LET ms == res[1]  w == Reduce(res[2])  cm == Moments(cfg.lay, ms, w)
           na == IF PruneSet = DOMAIN models
                   THEN {r[1][1] : r \in PruneResults(PruneSet, models, mass)} ELSE {}
       IN IF Len(ms) = 1
            THEN Finish(ms, w, cm, TRUE, 2, na)
            ELSE /\ models' = ms /\ mass' = w /\ comb' = cm /\ alts' = na /\ pc' = "pruned"
                 /\ UNCHANGED <<closed, handBack, hist, lik, prior, didReset>>
  /\ UNCHANGED <<cfg, modeMass, nupd>>

\* smm.py _convergedToSingleModel
Solution == {k \in DOMAIN models : AtLeast(mass, k, cfg.pct)}
Converge ==
  /\ pc = "pruned"
  /\ IF Cardinality(Solution) = 1
       THEN \E g \in GateChoices :
              IF g THEN LET res == AsCoded(DOMAIN models \ Solution, models, mass)
                            ms == res[1]  w == Reduce(res[2])
                        IN Finish(ms, w, Moments(cfg.lay, ms, w), TRUE, 1, alts)
                   ELSE Finish(models, mass, comb, FALSE, 0, alts)
       ELSE Finish(models, mass, comb, FALSE, 2, alts)
  /\ UNCHANGED <<cfg, modeMass, nupd>>

\* gpb1.py: maneuver_gate => _resumeSequentialFiltering (the mixture is handed back)
Gate ==
  /\ pc = "compiled" /\ cfg.kind = "gpb1"
  /\ \E g \in GateChoices : Finish(models, mass, comb, g, IF g THEN 1 ELSE 0, {})
  /\ UNCHANGED <<cfg, modeMass, nupd>>

\* update([]) after at least one real update: no probability changes, nothing new to prune,
\* the gate sees the same combined NIS as before (it failed then, it fails now)
NoObs ==
  /\ pc = "ready" /\ ~closed /\ nupd >= 1 /\ nupd \in NoObsAt /\ nupd < UpdBound
  /\ (hist # <<>> => hist[Len(hist)].obs)
  /\ nupd' = nupd + 1
  /\ Push([L |-> <<>>, obs |-> FALSE, g |-> 2, ids |-> models, mass |-> mass, mode |-> modeMass,
           mean |-> comb.mean, cov |-> comb.cov, closed |-> FALSE, reset |-> FALSE, adm |-> {}])
  /\ UNCHANGED <<pc, cfg, models, mass, modeMass, lik, prior, didReset, alts, comb, closed, handBack>>

Next == PoseKind \/ Start \/ BeginUpdate \/ PoseLik \/ Update \/ ResetOnZeroMass \/ Renormalise
        \/ Compile \/ Prune \/ Converge \/ Gate \/ NoObs
Spec == Init /\ [][Next]_vars

(* ------------------------------ property C18 ---------------------------- *)
Running == pc \notin {"start", "kind"}
\* control points at which update()/prune() have produced probabilities
Stable  == pc \in {"ready", "normalised", "compiled", "pruned", "closed"}
Total   == SumSeq(mass)
Prob(k) == Norm(mass[k], Total)
RECURSIVE QSumUpTo(_, _)
QSumUpTo(f, k) == IF k = 0 THEN <<0, 1>> ELSE QAdd(QSumUpTo(f, k - 1), f[k])

NonNegative == /\ \A k \in DOMAIN mass : mass[k] >= 0
               /\ \A k \in DOMAIN modeMass : modeMass[k] >= 0
\* probabilities are defined (positive total mass) and add up to exactly one
SumToOne == (Running /\ Stable) =>
               /\ Total > 0
               /\ Len(mass) = Len(models)
               /\ (Total < 40000 => QSumUpTo([k \in DOMAIN mass |-> Prob(k)], Len(mass)) = One)
               /\ (cfg.kind = "gpb1" => SumSeq(modeMass) > 0 /\ Len(modeMass) = Len(models))
AtLeastOneModel == Running => Len(models) >= 1
\* posterior ~ prior * likelihood; the documented underflow rule when that is all zero
BayesRule ==
  pc \in {"reset", "normalised"} =>
     LET prod == [k \in DOMAIN models |-> prior[k] * lik[k]]
     IN IF SumSeq(prod) = 0
          THEN /\ didReset
               /\ Reduce(mass) = Reduce(IF cfg.kind = "smm" THEN Ones(Len(models)) ELSE prior)
          ELSE /\ ~didReset /\ Reduce(mass) = Reduce(prod)
\* the fallback replaces Bayes' rule exactly when every prior * likelihood is zero (true underflow),
\* and the outcome of an update does not depend on the common scale of its likelihoods
ResetOnlyOnTrueUnderflow ==
  pc \in {"reset", "normalised", "compiled", "pruned"} =>
     /\ (didReset <=> \A k \in DOMAIN lik : prior[k] * lik[k] = 0)
     /\ (pc \in {"reset", "normalised"} /\ ~didReset) =>
           \A c \in {2, 7, 1000} : Reduce([k \in DOMAIN lik |-> prior[k] * (c * lik[k])]) = Reduce(mass)
\* NOT theorems (deviations TLC must refute; the driver runs them and requires a counterexample):
\* "the fallback fires as soon as ANY model has lost its mass" - it must not: Bayes' rule runs over the
\* models that still have mass, a zero stays zero, the fallback is for ALL masses zero only
DeviationResetOnAnyZero ==
  pc = "reset" => ((\E k \in DOMAIN lik : prior[k] * lik[k] = 0) => didReset)
\* "a model whose probability is zero cannot come back" is a theorem only while SMM does not reset
ZeroStaysZero ==
  (pc \in {"reset", "normalised"} /\ ~didReset) => \A k \in DOMAIN lik : prior[k] * lik[k] = 0 => mass[k] = 0
\* GPB1: new mode probabilities are a stochastic mix of the posterior: every entry between
\* the smallest and largest mixing coefficient, total preserved
ModeMixValid ==
  (cfg.kind = "gpb1" /\ pc \in {"normalised", "compiled", "closed"} /\ nupd > 0) =>
     LET n == Len(models)  p == cfg.mix[1]  q == cfg.mix[2]  D == (n - 1) * q + p
         M == SumSeq(modeMass)
     IN /\ Reduce(modeMass) = Reduce(Mixed(mass, cfg.mix))
        /\ SumSeq(Mixed(mass, cfg.mix)) = D * Total
        /\ \A k \in DOMAIN models : /\ modeMass[k] * D >= M * (IF p < q THEN p ELSE q)
                                    /\ modeMass[k] * D <= M * (IF p < q THEN q ELSE p)
Compiled == pc \in {"compiled", "pruned", "closed"} \/ (pc = "ready" /\ nupd > 0)
MixtureMoments ==
  (Running /\ Compiled /\ cfg.lay # 0) =>
     LET A == MomA(cfg.lay, models, mass)  B == MomB(cfg.lay, models, mass)
         V == MapThenSumSet(LAMBDA k : mass[k] * Var(cfg.lay, models[k]), DOMAIN models)
     IN /\ comb = Moments(cfg.lay, models, mass)
        /\ Total % comb.mean[2] = 0
        /\ comb.mean[1] * (Total \div comb.mean[2]) = A                  \* weighted-mean identity
        /\ comb.cov[1] >= 0 /\ comb.cov[2] > 0                            \* PSD (scalar)
        /\ B * Total - A * A >= V * Total                                 \* spread of means >= 0
        /\ (Len(models) = 1 => comb = [mean |-> Q(Mu(cfg.lay, models[1])), cov |-> Q(Var(cfg.lay, models[1]))])
\* the covariance the code accumulates, sum p*(P + d d^T), is the moment-matched one
SpreadForm == (Running /\ Compiled /\ cfg.lay # 0 /\ Total <= 300) => SpreadCov(cfg.lay, models, mass) = comb.cov
\* SMM: exactly one model survives and the filter handed back is that model;
\* GPB1 (documented): the mixture is handed back
HandBackIsSurvivor ==
  closed =>
    /\ pc = "closed" /\ handBack.ids = models
    /\ handBack.mean = comb.mean /\ handBack.cov = comb.cov
    /\ (cfg.kind = "smm" =>
          /\ Len(models) = 1
          /\ (cfg.lay # 0 => /\ handBack.mean = Q(Mu(cfg.lay, models[1]))
                             /\ handBack.cov = Q(Var(cfg.lay, models[1]))))
NotClosedEarly == (~closed) => handBack = NoHB

(* side conditions of the binding *)
\* (threshold 0 = pruning switched off: "weight < 0" is false for every weight, also in floating point)
TieFree == /\ (pc = "compiled" /\ cfg.kind = "smm" /\ cfg.th[1] # 0) =>
                 \A k \in DOMAIN models : ~OnTie(mass, k, cfg.th)
           /\ pc = "pruned" => \A k \in DOMAIN models : ~OnTie(mass, k, cfg.pct)
\* NOT a theorem of this module: AdaptiveFilter.prune as coded keeps the FIRST model when every
\* model is below the threshold, even when that model has zero mass (then weights/sum = 0/0).
\* TLC refutes this formula (e.g. 5 models, threshold 26/101, likelihoods <<0,1,1,1,1>>); the
\* replay driver shows the same behaviour on the real class.
AsCodedAdmissible ==
  (pc = "compiled" /\ cfg.kind = "smm") =>
     AsCoded(PruneSet, models, mass) \in PruneResults(PruneSet, models, mass)
PruneNeverEmpties ==
  (pc = "compiled" /\ cfg.kind = "smm") =>
     /\ Len(AsCoded(PruneSet, models, mass)[1]) >= 1
     /\ PruneResults(PruneSet, models, mass) # {}

(* behaviours for the replay driver: one line per maximal behaviour *)
Leaf == pc = "closed" \/ (pc = "ready" /\ nupd = UpdBound)
Emit == (KeepHist /\ Leaf) =>
          PrintT("BEH " \o ToJson([cfg |-> cfg, hist |-> hist, closed |-> closed, hb |-> handBack]))

(* ---- named constant values for the cfg files (cfg syntax has no tuples) ---- *)
ThQuick     == {<<10, 101>>, <<26, 101>>}
ThAll       == {<<1, 1009>>, <<10, 101>>, <<26, 101>>, <<41, 101>>}
PctQuick    == {<<34, 101>>, <<91, 101>>}
PctOne      == {<<91, 101>>}
PctLow      == {<<34, 101>>}
PctThree    == {<<34, 101>>, <<67, 101>>, <<91, 101>>}
ThOne       == {<<26, 101>>}
ThZero      == {<<0, 1>>}
MixOne      == {<<3, 2>>}
PctAll      == {<<34, 101>>, <<51, 101>>, <<67, 101>>, <<91, 101>>}
MixQuick    == {<<3, 2>>, <<1, 2>>}
MixAll      == {<<3, 2>>, <<2, 1>>, <<1, 2>>}
ThSim       == {<<1, 1009>>, <<3, 101>>, <<10, 101>>}
=============================================================================
