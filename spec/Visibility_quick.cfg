SPECIFICATION Spec
CONSTANTS N = 360 DirMax = 2 LosR = 1 LosMax = 3 LosToStep = 1 LimbR = 2 LimbMax = 6 SunR = 2 SunMax = 6 PenK = 8 PenOut = 2
CONSTANT Kinds <- KindsAll
CONSTANT RectShapes <- RectShapesQuick
CONSTANT AzGrid <- AzGridQuick
CONSTANT ElGrid <- ElGridQuick
CONSTANT Rots <- RotsQuick
CONSTANT Cones <- ConesQuick
CONSTANT MaskGrid <- MaskGridQuick
CONSTANT MaskAz <- MaskAzQuick
CONSTANT MaskEl <- MaskElQuick
CONSTANT MaskAzCfg <- MaskAzCfgQuick
CONSTANT PenFrames <- PenFramesAll
CONSTANT PenDist <- PenDistQuick
CONSTANT ElMaskShapes <- ElMaskShapesAll
CONSTANT ElMaskAz <- ElMaskAzAll
CONSTANT ElMaskEl <- ElMaskElAll
CONSTANT LimbSensors <- LimbSensorsQuick
CONSTANT SunDirs <- SunDirsQuick
INVARIANT RectReflexive
INVARIANT RectRotationInvariant
INVARIANT RectSymmetric
INVARIANT RectShortestArc
INVARIANT ConicReflexive
INVARIANT ConicRotationInvariant
INVARIANT ConicSymmetric
INVARIANT ConicScaleInvariant
INVARIANT MaskSound
INVARIANT MaskTwoBranch
INVARIANT MaskRotationEquivariant
INVARIANT MaskComplement
INVARIANT DirectInvertedElevationEmpty
INVARIANT DirectMaskAsGiven
INVARIANT ConfiguredArcAdmitted
INVARIANT ConfigKeepsAzimuthOrder
INVARIANT ConfigElevationUnordered
INVARIANT PenBand
INVARIANT LosSymmetric
INVARIANT LosIsSegmentTest
INVARIANT LosRigidInvariant
INVARIANT LimbIsBlockedRay
INVARIANT SunFullHasClearRay
INVARIANT SunUmbraHasBlockedRay
INVARIANT NoOverflow
INVARIANT Emit
