SPECIFICATION Spec
CONSTANTS MaxCalls = 3 InvertStartBySecTruncation = FALSE SampleMod = 7 SampleSeed = 0
CONSTANT StartSecs <- Secs60
CONSTANT Dts <- DtsQuick
CONSTANT Quots <- QuotsQuick
CONSTANT Rems <- RemsQuick
INVARIANT StepsHonoured
INVARIANT EpochsAreStartPlusKDt
INVARIANT NoOvershoot
INVARIANT StopsOnlyWhenNoStepFits
INVARIANT Emit
