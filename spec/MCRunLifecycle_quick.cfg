SPECIFICATION Spec
CONSTANTS
  Entries <- EntriesAll
  TimeClasses <- TimesQuick
  Modes <- ModesQuick
  DbClasses <- DbAll
  ImpClasses <- ImpAll
  CfgClasses <- CfgAll
  Debugs = {TRUE, FALSE}
  EnvClasses <- EnvAll
  Injections <- InjQuick
  ShutdownNotInFinally = FALSE
  NoExistenceCheck = FALSE
  MinutesForHours = FALSE
  SkipSetDbPathWhenGiven = FALSE
  InterruptCatchesAll = FALSE
  SaveEveryStep = FALSE
  CeilSteps = FALSE
INVARIANT TypeOK
INVARIANT ShutdownAfterBuild
INVARIANT ShutdownOnlyAfterBuild
INVARIANT ExitIsShutdownOrFailed
INVARIANT StepsHonoured
INVARIANT TooShortIsValueError
INVARIANT DbHoldsOutputEpochs
INVARIANT DbRowsOnlyWhenBuilt
INVARIANT InterruptIsGraceful
INVARIANT ErrorPropagates
INVARIANT NeverOverwrite
INVARIANT ImporterNeverModified
INVARIANT RayInitAtMostOnce
INVARIANT DbPathOwner
INVARIANT NoDatabaseBeforeValidation
INVARIANT DebugIsFlag
INVARIANT OutcomeIsFirstFailingStage
INVARIANT DurStepsHonoured
INVARIANT DurEpochs
INVARIANT DurNoOvershoot
INVARIANT DurStopsOnlyWhenNoStepFits
INVARIANT Emit
PROPERTY DbMonotone
PROPERTY RayDownOnlyByShutdown
PROPERTY StepsInOrder
PROPERTY RefinesDurations
