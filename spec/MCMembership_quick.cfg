\* The "roots" run of ./check G03 --tier quick by hand (theorems of the as-coded machine, every operation
\* sequence up to 3 operations from the quick root configurations):
\*   java -cp tla2tools.jar:CommunityModules-deps.jar tlc2.TLC -deadlock -config MCMembership_quick.cfg MCMembership.tla
SPECIFICATION Spec
CONSTANTS
  Ids <- Ids4
  EngIds <- Eng2
  EngArgs <- Eng3
  Classes <- ClsAB
  MaxOps = 3
  MaxLen = 3
  PoseMode = FALSE
  Roots <- RootsQuick
  MaxEng = 2
  MaxT = 2
  MaxS = 2
  DevAddSkipsEstimate = FALSE
  DevRemoveSensorKeepsEngine = FALSE
  DevDupSensorAccepted = FALSE
  DevAddExistingAccepted = FALSE
  DevNoSort = FALSE
  DevRemoveAll = FALSE
CONSTRAINT LenOK
INVARIANT TypeOK
INVARIANT EstimatesMatchTargets
INVARIANT ListsSorted
INVARIANT NamedRejectionIsNoop
INVARIANT OkEffect
INVARIANT ExistenceChecked
INVARIANT BuildFaithful
INVARIANT BuildOkIsConsistent
INVARIANT StepCrashIffUnsafe
INVARIANT ConsistentStepsSafely
INVARIANT StepOnlyRefreshesDims
INVARIANT SaveCrashIffStale
