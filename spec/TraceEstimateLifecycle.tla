----------------------- MODULE TraceEstimateLifecycle -----------------------
(***************************************************************************)
(* impl -> spec: decides whether life-cycle traces recorded from the REAL  *)
(* resonaate code (harness/drivers/_lifecycle.py: wrappers on              *)
(* EstPredictRegistration / EstUpdateRegistration.processResults, the body *)
(* of asyncUpdateEstimate, the nominal filter's update, EstimateAgent.     *)
(* _handleManeuverDetection / _handleIOD / _attemptInitialOrbit-           *)
(* Determination / _beginAdaptiveEstimation / _handleMMAE / _resetFilter,  *)
(* Scenario.stepForward / saveDatabaseOutput) are behaviours of            *)
(* EstimateLifecycle.tla.  Every trace action re-uses the specification's  *)
(* action and binds the logged arguments and the projected post-state of   *)
(* the REAL objects (worker-side copy inside the job, driver-side agent    *)
(* after processResults, rows of the output database).  All invariants and *)
(* action properties of EstimateLifecycle are evaluated in every state of  *)
(* every trace.                                                            *)
(*                                                                         *)
(* A file holds many traces; a trace = [cfg |-> configuration record,      *)
(* ev |-> sequence of events].  `tid` selects one; the harness derives the *)
(* verdict from the AT lines (accepted iff position Len+1 is reached).     *)
(***************************************************************************)
EXTENDS EstimateLifecycle, Json, IOUtils

Traces == JsonDeserialize(IOEnv.TRACE_FILE)

VARIABLES tid, l
tvars == <<vars, tid, l>>

Tr  == Traces[tid].ev
Rec == Tr[l]
IsEvent(e) == l <= Len(Tr) /\ Rec.ev = e /\ l' = l + 1 /\ UNCHANGED tid
ToSet(seq) == {seq[i] : i \in DOMAIN seq}
\* JSON arrays of integers -> sequences (an empty array may arrive as an empty record/tuple)
SeqOf(a) == [i \in 1..Len(a) |-> a[i]]
\* [[t, [..]], ...] -> the list logged for target t
ListOf(a, t) == LET i == CHOOSE j \in DOMAIN a : a[j][1] = t IN SeqOf(a[i][2])

\* the projection of a real filter object equals the specification's filter record
FilterIs(f, r) == /\ f.kind = r.kind /\ f.flags = ToSet(r.flags) /\ f.time = r.ftime /\ f.det = r.fdet
                  /\ (f.kind = "mmae" => f.orig = r.orig)

TraceInit == /\ tid \in DOMAIN Traces /\ l = 1
             /\ cfg = Traces[tid].cfg /\ ValidCfg(cfg) /\ InitRest

TBeginStep == IsEvent("BeginStep") /\ BeginStep /\ k' = Rec.k
TPredict == /\ IsEvent("Predict") /\ Predict(Rec.t)
            /\ at'[Rec.t] = Rec.at /\ FilterIs(filt'[Rec.t], Rec)
            /\ Rec.est_is_pred                      \* the agent's estimate IS the predicted state
TPutEstimates == IsEvent("PutEstimates") /\ PutEstimates
TUpdateNoObs == /\ IsEvent("UpdateNoObs") /\ UpdateNoObs(Rec.t)
                /\ FilterIs(wk'[Rec.t].filt, Rec)
TUpdateObs == /\ IsEvent("UpdateObs") /\ UpdateObs(Rec.t, Rec.det)
              /\ FilterIs(wk'[Rec.t].filt, Rec)
TAdaptiveStep == /\ IsEvent("AdaptiveStep") /\ AdaptiveStep(Rec.t, Rec.conv)
                 /\ FilterIs(wk'[Rec.t].filt, Rec)
                 /\ Rec.has_conv = Rec.conv          \* a converged filter exists iff CLOSE was raised
TRecordManeuver == /\ IsEvent("RecordManeuver") /\ RecordManeuver(Rec.t)
                   /\ wk'[Rec.t].pend = SeqOf(Rec.pend) /\ Rec.at = k
TBeginIOD == IsEvent("BeginIOD") /\ BeginIOD(Rec.t) /\ wk'[Rec.t].iod = Rec.start
TIODStep == /\ IsEvent("IODStep") /\ IODStep(Rec.t, Rec.ok) /\ wk'[Rec.t].iod = Rec.iod
            /\ (Rec.ok => Rec.x_replaced)            \* success puts the IOD state into the filter
TBeginAdaptive == /\ IsEvent("BeginAdaptive") /\ BeginAdaptive(Rec.t, Rec.ok, Rec.conv /\ Rec.ok)
                  /\ pc' # "crashed" /\ ~Rec.crashed
                  /\ FilterIs(wk'[Rec.t].filt, Rec) /\ Rec.nobs > 0
TCloseAdaptive == /\ IsEvent("CloseAdaptive") /\ CloseAdaptive(Rec.t)
                  /\ FilterIs(wk'[Rec.t].filt, Rec)
                  /\ Rec.handed                      \* the new nominal filter IS adaptive.converged_filter
TWorkerReturn == /\ IsEvent("WorkerReturn") /\ WorkerReturn(Rec.t)
                 /\ FilterIs(wk[Rec.t].filt, Rec) /\ wk[Rec.t].iod = Rec.iod
                 /\ wk[Rec.t].pend = SeqOf(Rec.pend) /\ wk[Rec.t].observed = Rec.observed
TCompleteUpdate == /\ IsEvent("CompleteUpdate") /\ CompleteUpdate(Rec.t)
                   /\ FilterIs(filt'[Rec.t], Rec) /\ iod'[Rec.t] = Rec.iod /\ at'[Rec.t] = Rec.at
                   /\ pend'[Rec.t] = SeqOf(Rec.pend) /\ lastObs'[Rec.t] = Rec.last_obs
                   /\ fsq'[Rec.t] = SeqOf(Rec.fs)
                   /\ Rec.est_is_upd /\ Rec.same_filter   \* estimate/covariance ARE the filter's; filter IS the returned one
                   /\ (Rec.nobs > 0) = wk[Rec.t].observed
                   /\ Rec.iod_active = (iod'[Rec.t] # None /\ iod'[Rec.t] < k)
TSaveOutput == /\ IsEvent("SaveOutput") /\ SaveOutput /\ Rec.k = k
               /\ \A t \in Targets : /\ db'.man[t] = ListOf(Rec.man, t) /\ db'.fs[t] = ListOf(Rec.fs, t)
                                     /\ pend'[t] = ListOf(Rec.pend, t)
                                     /\ Len(fsq'[t]) = LET i == CHOOSE j \in DOMAIN Rec.nfs : Rec.nfs[j][1] = t IN Rec.nfs[i][2]
TSkipOutput == IsEvent("SkipOutput") /\ SkipOutput

TraceNext ==
  \/ TBeginStep \/ TPredict \/ TPutEstimates \/ TUpdateNoObs \/ TUpdateObs \/ TAdaptiveStep \/ TRecordManeuver
  \/ TBeginIOD \/ TIODStep \/ TBeginAdaptive \/ TCloseAdaptive \/ TWorkerReturn \/ TCompleteUpdate
  \/ TSaveOutput \/ TSkipOutput

TraceSpec == TraceInit /\ [][TraceNext]_tvars

\* progress report, one line per reached (trace, position)
Accept == PrintT(<<"AT", tid, l, Len(Tr) + 1>>)
=============================================================================
