\* NON-VACUITY (expected to FAIL): a normalisation that divides by max(maximum, 1) without the
\* "maximum > 0" guard must be refuted by NormalisedByKind (on a column whose maximum is in (0, 1))
SPECIFICATION Spec
CONSTANTS NT = 1 NS = 2 Kinds = {"cost"}
CONSTANT MetricVals <- ValsQuick
CONSTANT Deltas <- DeltasQuick
CONSTANT FullOrders <- NoOrders
CONSTANT Rotations <- RotQuick
CONSTANT ScaledOrders <- DocOrdersOnly
CONSTANT Deviation = "DivisorFlooredAtOne"
INVARIANT NormalisedByKind
