-------------------------- MODULE TraceSensorChain --------------------------
(* impl -> spec for C02.  Every record is one call of the REAL                *)
(* Sensor.collectObservations(estimate_eci, target_agent, background_agents): *)
(*   [kind, host, calcBg, p, bg, out]                                         *)
(* p / bg hold the driver's INDEPENDENT tri-state evaluation of every         *)
(* constraint (harness/drivers/_c02geom.py), out is what the implementation   *)
(* returned, projected to integers (see SensorChain.tla, "Outcome").          *)
(*                                                                            *)
(* 1. the C02 property predicates are evaluated on (instance, logged outcome) *)
(*    in the "posed" state of the record (one INVARIANT per property);        *)
(* 2. the record is then replayed through the actions of SensorChain,         *)
(*    constrained to stay consistent with the logged outcome; a record whose  *)
(*    outcome is reached in a "done" state prints MATCHED (it is a behaviour  *)
(*    of the specification).                                                  *)
EXTENDS SensorChain, Json, IOUtils

Recs == JsonDeserialize(IOEnv.RECORDS_FILE)

VARIABLE i
tvars == <<vars, i>>

InstOf(r) == [kind |-> r.kind, host |-> r.host, calcBg |-> r.calcBg, p |-> r.p, bg |-> r.bg, n |-> Len(r.bg)]

\* records are picked in two stages (block, then record) so that TLC's workers share them
NB == 64
TraceInit == i = 0 /\ Init
PickBlock == /\ i = 0 /\ \E b \in 1..NB : i' = -b
             /\ UNCHANGED vars
PickRec == /\ i < 0
           /\ \E k \in {n \in DOMAIN Recs : n % NB = (-i) - 1} :
                 /\ i' = k
                 /\ x' = InstOf(Recs[k])
           /\ pc' = "posed" /\ UNCHANGED <<bs, obs, misses, j>>

RecOut == Recs[i].out
BsAgrees(b, ob) == ob = b \/ (ob = 2 /\ b \in {0, 1})
IsPrefix(s, t) == Len(s) <= Len(t) /\ \A k \in DOMAIN s : s[k] = t[k]
\* the machine state does not contradict the logged outcome
Consistent == /\ obs \subseteq Observed(x, RecOut)
              /\ IsPrefix(misses, RecOut.miss)
              /\ (pc \in {"slewed", "background", "done"} => BsAgrees(bs, RecOut.bs))
Replay == /\ i > 0 /\ Chain /\ UNCHANGED i
          /\ Consistent'
TraceNext == PickBlock \/ PickRec \/ Replay
TraceSpec == TraceInit /\ [][TraceNext]_tvars

Posed == i > 0 /\ pc = "posed"
\* ---- the properties of C02 on the record of the implementation ----
ObservationAllowed_impl         == Posed => ObsAllowedP(x, RecOut)
BackgroundNeedsSlew_impl        == Posed => BgNeedsSlewP(x, RecOut)
MissReasonTrue_impl             == Posed => MissReasonTrueP(x, RecOut)
ExactlyOneMissForPrimary_impl   == Posed => ExactlyOneMissP(x, RecOut)
BackgroundOnlyObservations_impl == Posed => BgOnlyObsP(x, RecOut) /\ BgFlagP(x, RecOut)
BoresightUpdatedIffSlew_impl    == Posed => BoresightIffSlewP(x, RecOut) /\ BoresightMatchesRecordP(x, RecOut)
Measurement_impl                == Posed => MeasurementP(x, RecOut)

\* ---- the record is a behaviour of SensorChain ----
Matched == /\ i > 0 /\ pc = "done"
           /\ obs = Observed(x, RecOut) /\ misses = RecOut.miss
           /\ BsAgrees(bs, RecOut.bs) /\ RecOut.stray = 0
           /\ \A t \in Tgts(x) : RecOut.obsN[t + 1] <= 1
EmitMatched == Matched => PrintT(<<"MATCHED", i>>)
=============================================================================
