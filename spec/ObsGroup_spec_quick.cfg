SPECIFICATION Spec
CONSTANTS Tunings = {"default"} MaxGroup = 2 PermSet = "some"
CONSTANT KindSets <- KindSetsQuick
CONSTANT Placements <- PlacementsQuick
CONSTANT SubPatterns <- SubsQuick
CONSTANT TurnVals <- TurnsQuick
CONSTANT RangePatterns <- RangeNear
CONSTANTS MaxHist = 0 ContinueFrom = "any"
INVARIANT PosteriorIsBasePosterior
INVARIANT InnovationInRange
INVARIANT InnovationIsAngleResidual
INVARIANT StackIsPermutation
PROPERTY GroupKeepsPosterior
PROPERTY PosteriorIgnoresHistory
