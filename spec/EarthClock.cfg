SPECIFICATION Spec
CONSTANTS FirstYear = 2014 LastYear = 2022 BaseDat = 35 Tol = 2742 SmoothMax = 500000
INVARIANT TypeOK
INVARIANT DoyMatchesClosedForm
INVARIANT DayNoMatchesClosedForm
INVARIANT LeapOnlyAtMidnight
INVARIANT EmitDay
INVARIANT ContinuityOK
INVARIANT TtBoundariesPosed
PROPERTY DoyRestartsOnlyAtNewYear
