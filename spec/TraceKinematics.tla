--------------------------- MODULE TraceKinematics ---------------------------
(***************************************************************************)
(* impl -> spec validation of the conservation clause of C03.              *)
(*                                                                         *)
(* A two-body behaviour of Kinematics ("calls" mode: any sequence of       *)
(* Propagate / PropagateBulk calls, any split, any output grid) leaves the *)
(* first integrals of the motion unchanged: specific orbital energy and    *)
(* the three components of the specific angular momentum STUTTER along the *)
(* behaviour.  harness/drivers/c03.py replays TLC-generated call sequences *)
(* through the REAL TwoBody dynamics (Celestial.propagate / propagateBulk) *)
(* and logs, at the initial time and at every output time of every call,   *)
(*      cons = << dE, dhx, dhy, dhz >>                                     *)
(* = round(1e9 * (Q(t) - Q(t0)) / |Q(t0)|)  (energy relative to |E0|, the  *)
(* momentum components relative to |h0|): integers in units of 1e-9        *)
(* relative.  A trace is [band, pts]; it is accepted iff every point is a  *)
(* stuttering step of the conserved quantities at the stated resolution:   *)
(* |cons[c]| <= band (band = 1 for runs at rtol 1e-13, i.e. rounding only; *)
(* for the shipped rtol 1e-10 the band grows with the number of            *)
(* revolutions, see the driver).                                           *)
(* Traces are picked in two stages so that TLC's workers share them.       *)
(***************************************************************************)
EXTENDS Integers, Sequences, TLC, Json, IOUtils

Traces == JsonDeserialize(IOEnv.TRACES_FILE)
NB == 16

VARIABLES i, j, cons
vars == <<i, j, cons>>

Abs(x) == IF x < 0 THEN -x ELSE x
Zero == <<0, 0, 0, 0>>

Init == i = 0 /\ j = 0 /\ cons = Zero
PickBlock == /\ i = 0 /\ \E b \in 1..NB : i' = -b
             /\ UNCHANGED <<j, cons>>
PickTrace == /\ i < 0
             /\ \E n \in {m \in DOMAIN Traces : m % NB = (-i) - 1} : i' = n
             /\ j' = 1 /\ cons' = Traces[i'].pts[1]
\* one output of Propagate / PropagateBulk: the logged first integrals at the next output time
Output == /\ i > 0 /\ j < Len(Traces[i].pts)
          /\ j' = j + 1
          /\ cons' = Traces[i].pts[j + 1]
          /\ UNCHANGED i
Next == PickBlock \/ PickTrace \/ Output
Spec == Init /\ [][Next]_vars

\* C03: energy and angular momentum are conserved (stutter at the logged resolution)
Conserved == i > 0 => \A c \in 1..4 : Abs(cons[c]) <= Traces[i].band
\* the first point of a trace is the initial state itself
StartsAtZero == (i > 0 /\ j = 1) => cons = Zero
=============================================================================
