SPECIFICATION Spec
CONSTANTS N = 360 DirMax = 3 LosR = 2 LosMax = 6 LosToStep = 2 LimbR = 2 LimbMax = 6 SunR = 2 SunMax = 6 PenK = 20 PenOut = 3
CONSTANT Kinds <- KindsAll
CONSTANT RectShapes <- RectShapesThorough
CONSTANT AzGrid <- AzGridThorough
CONSTANT ElGrid <- ElGridThorough
CONSTANT Rots <- RotsThorough
CONSTANT Cones <- ConesThorough
CONSTANT MaskGrid <- MaskGridThorough
CONSTANT MaskAz <- MaskAzThorough
CONSTANT MaskEl <- MaskElThorough
CONSTANT MaskAzCfg <- MaskAzCfgThorough
CONSTANT PenFrames <- PenFramesAll
CONSTANT PenDist <- PenDistThorough
CONSTANT ElMaskShapes <- ElMaskShapesAll
CONSTANT ElMaskAz <- ElMaskAzAll
CONSTANT ElMaskEl <- ElMaskElAll
CONSTANT LimbSensors <- LimbSensorsThorough
CONSTANT SunDirs <- SunDirsThorough
INVARIANT RectReflexive
INVARIANT RectRotationInvariant
INVARIANT RectSymmetric
INVARIANT RectShortestArc
INVARIANT ConicReflexive
INVARIANT ConicRotationInvariant
INVARIANT ConicSymmetric
INVARIANT ConicScaleInvariant
INVARIANT MaskSound
INVARIANT MaskTwoBranch
INVARIANT MaskRotationEquivariant
INVARIANT MaskComplement
INVARIANT DirectInvertedElevationEmpty
INVARIANT DirectMaskAsGiven
INVARIANT ConfiguredArcAdmitted
INVARIANT ConfigKeepsAzimuthOrder
INVARIANT ConfigElevationUnordered
INVARIANT PenBand
INVARIANT LosSymmetric
INVARIANT LosRigidInvariant
INVARIANT LimbIsBlockedRay
INVARIANT SunFullHasClearRay
INVARIANT SunUmbraHasBlockedRay
INVARIANT NoOverflow
INVARIANT Emit
