SPECIFICATION Spec
CONSTANTS MaxCalls = 3 InvertStartBySecTruncation = FALSE SampleMod = 41 SampleSeed = 0
CONSTANT StartSecs <- Secs60
CONSTANT Dts <- DtsThorough
CONSTANT Quots <- QuotsThorough
CONSTANT Rems <- RemsQuick
INVARIANT StepsHonoured
INVARIANT EpochsAreStartPlusKDt
INVARIANT NoOvershoot
INVARIANT StopsOnlyWhenNoStepFits
INVARIANT Emit
