------------------------------ MODULE Membership ------------------------------
(***************************************************************************)
(* AGENT / ENGINE MEMBERSHIP of a scenario: which targets, estimates and   *)
(* sensors exist, which tasking engine lists which ids, which ids have an  *)
(* Agent row in the database and how large every engine's reward /         *)
(* decision / visibility matrices are - how this state is BUILT from a     *)
(* configuration and how it CHANGES at run time.                           *)
(*                                                                         *)
(* The module models WHAT THE CODE DOES, line by line where a later line   *)
(* can raise after earlier lines have already mutated the state.           *)
(*                                                                         *)
(* Code mirrored                                                action     *)
(*   harness posing of a configuration dict            PoseEngine /        *)
(*       (engines -> targets -> sensors, in stages)    PoseTarget /        *)
(*                                                     PoseSensor/PoseDone *)
(*   scenario/config/engine_config.py EngineConfig                         *)
(*       (targets / sensors: min_length = 1)           ValidateConfig      *)
(*   scenario/scenario_builder.py ScenarioBuilder                          *)
(*     _initTaskingEngines: duplicate unique_id        BuildEngineCheck    *)
(*     _validateTargetAgents (one list entry)          BuildValidateTarget *)
(*     _validateSensingAgents (one list entry)         BuildValidateSensor *)
(*     CentralizedTaskingEngine(...) (sorted lists,                        *)
(*       zero matrices) and tasking_engines[id] = ...  BuildMakeEngine     *)
(*     _initTargets / _initEstimates / _initSensors    BuildInitAgents     *)
(*     _loadAgentsIntoDatabase (one AgentModel row per                     *)
(*       target AND per sensor, one bulkSave)          BuildLoadAgents     *)
(*     _loadEventsIntoDatabase (data dependencies,                         *)
(*       events sorted by start time)                  BuildLoadEvent /    *)
(*                                                     BuildDone           *)
(*   scenario/scenario.py Scenario                                         *)
(*     addTarget / _addTargetConf                      AddTarget(id, e)    *)
(*     removeTarget                                    RemoveTarget(id, e) *)
(*     addSensor / _addSensorConf                      AddSensor(id, e)    *)
(*     removeSensor                                    RemoveSensor(id, e) *)
(*     stepForward: handleRelevantEvents(SCENARIO_STEP)StepBegin,          *)
(*       data/events/target_addition.py, sensor_addition.py,               *)
(*       agent_removal.py handleEvent -> the four calls Deliver(i),        *)
(*                                                     EventsDone          *)
(*     stepForward: per engine tasking_engine.assess   Assess              *)
(*       (tasking/engine/centralized_engine.py: matrices re-dimensioned,   *)
(*        _sensor_store[id] / _estimate_store[id] look-ups,                *)
(*        Reward.normalizeMetrics on an empty matrix)                      *)
(*     stepForward returns                             StepEnd             *)
(*     saveDatabaseOutput -> engine.getCurrentTasking  Save                *)
(*   tasking/engine/engine_base.py addTarget / removeTarget / addSensor /  *)
(*     removeSensor (append / remove + sort, index maps) ListAdd,          *)
(*                                                     ListRemove,IndexMap *)
(*                                                                         *)
(* Refinement: this module refines the membership part of the system       *)
(* specification Resonaate.tla - its Init (EngTargets / EngSensors ->      *)
(* engT / engS), Deliver(id) for the kinds addTarget / addSensor /         *)
(* removeTarget / removeSensor (there: sets, total success), BeginStep /   *)
(* EndStepEvents (here StepBegin / EventsDone) and the matrix reset of     *)
(* EngineReset (here Assess).  Resonaate.tla keeps engT / engS as SETS and *)
(* assumes every delivery succeeds; here the lists are SEQUENCES (the code *)
(* keeps sorted lists, duplicates are possible), every call has an outcome *)
(* (ok or the exception class) and a failing call leaves exactly the state *)
(* the executed lines produced.                                            *)
(*                                                                         *)
(* Two layers of properties:                                               *)
(*  (1) THEOREMS of the as-coded machine (must hold; the real code is      *)
(*      checked to be this machine by replay and by trace validation):     *)
(*      TypeOK, EstimatesMatchTargets, ListsSorted, NamedRejectionIsNoop,  *)
(*      OkEffect, ExistenceChecked, BuildFaithful, BuildOkIsConsistent,    *)
(*      StepCrashIffUnsafe, StepOnlyRefreshesDims, SaveCrashIffStale,      *)
(*      ConsistentStepsSafely.                                             *)
(*  (2) EXPECTED CONSISTENCY a user would expect between operations        *)
(*      (X... operators over a snapshot, invariants of the same name       *)
(*      without X).  The code as it stands violates most of them after     *)
(*      some operation sequence; TLC produces the shortest counterexample, *)
(*      the harness replays it into the real Scenario and reports it as    *)
(*      an OBSERVATION: EngineTargetsKnown, EveryTargetTasked,             *)
(*      EngineSensorsKnown, SensorOwnedOnce, NoDuplicateInLists,           *)
(*      AgentRowsExist, MatrixDimsMatch, RolesDisjoint, EnginesNotEmpty,   *)
(*      NoStepCrash, NoSaveCrash, NoEventCrash, FailedOpIsNoop,            *)
(*      BuildErrorsAreNamed, BuiltHasEngine.                               *)
(*                                                                         *)
(* Named deviations (spec mutants, FALSE = as coded; every one must be     *)
(* refuted by a theorem): DevAddSkipsEstimate, DevRemoveSensorKeepsEngine, *)
(* DevDupSensorAccepted, DevAddExistingAccepted, DevNoSort, DevRemoveAll.  *)
(*                                                                         *)
(* Not modelled: the agents' physical state, AGENT_PROPAGATION events of   *)
(* removed targets, importer databases, realtime_observation = FALSE.      *)
(* Where the code is indifferent the module is permissive: the events of   *)
(* one step may be delivered in any order.                                 *)
(***************************************************************************)
EXTENDS Integers, Sequences, FiniteSets, TLC

CONSTANTS
  Ids,          \* agent id universe (targets and sensors draw ids from the SAME universe)
  EngIds,       \* engine ids a posed configuration may use
  EngArgs,      \* engine ids used as ARGUMENTS of run-time calls (EngIds + an id no configuration uses)
  Classes,      \* initial-state classes of a target entry (two entries "agree" iff same class)
  MaxOps,       \* bound on run-time calls + steps + saves of one behaviour
  MaxLen,       \* bound on the length of an engine list (state constraint LenOK; duplicates can pile up)
  PoseMode,     \* TRUE: the configuration is posed in stages; FALSE: Init picks one of Roots
  Roots,        \* set of configuration records (see Cfg below)
  MaxEng, MaxT, MaxS,          \* posing bounds: engines, target entries / engine, sensor entries / engine
  DevAddSkipsEstimate, DevRemoveSensorKeepsEngine, DevDupSensorAccepted,
  DevAddExistingAccepted, DevNoSort, DevRemoveAll

\* A configuration:  [name      |-> label (evidence only),
\*                    engines   |-> sequence of [id |-> engine id, tg |-> sequence of [id, cls], sn |-> sequence of ids],
\*                    events    |-> sequence of [at |-> step index >= 1, kind |-> "addT"|"remT"|"addS"|"remS", id, eng],
\*                    truthOnly |-> propagation.truth_simulation_only]

VARIABLES
  cfg,        \* the configuration (constant once posed)
  pc,         \* "pose" | "validate" | "build" | "run" | "events" | "assess" | "failed" (build raised) | "crashed"
  bld,        \* ScenarioBuilder locals: [stage, i, j, vT, vS, curT, curS]
  order,      \* engine ids in dictionary (insertion) order: keys of Scenario.tasking_engines
  engT, engS, \* [engine id -> engine.target_list / engine.sensor_list]  (sequences)
  dims,       \* [engine id -> <<rows, columns>> of reward_matrix / decision_matrix / visibility_matrix]
  targets,    \* keys of Scenario.target_agents
  estimates,  \* keys of Scenario.estimate_agents
  sensors,    \* keys of Scenario.sensor_agents
  dbAgents,   \* ids with an AgentModel row
  k,          \* index of the current step (saturates after the last configured event)
  evDone,     \* indices (into Ev) of the events already handed to their handler
  cur,        \* position in `order` of the engine assessed next
  last,       \* outcome of the last completed operation: [op, id, eng, out, via]
  pre,        \* history: the snapshot taken when the last operation (or step) began
  nops        \* number of run-time operations begun

vars == <<cfg, pc, bld, order, engT, engS, dims, targets, estimates, sensors, dbAgents, k, evDone, cur, last, pre, nops>>
memVars == <<order, engT, engS, dims, targets, estimates, sensors, dbAgents>>

\* ------------------------------------------------------------------------------------------
\* lists as the code keeps them
Range(s) == {s[i] : i \in DOMAIN s}
Count(s, x) == Cardinality({i \in DOMAIN s : s[i] = x})
MinOf(S) == CHOOSE x \in S : \A y \in S : x <= y
MaxOf(S) == CHOOSE x \in S : \A y \in S : y <= x
Drop(s, i) == SubSeq(s, 1, i - 1) \o SubSeq(s, i + 1, Len(s))
FirstIdx(s, x) == MinOf({i \in DOMAIN s : s[i] = x})
RECURSIVE SortedList(_)
SortedList(s) == IF s = <<>> THEN <<>>
              ELSE LET m == MinOf(Range(s)) IN <<m>> \o SortedList(Drop(s, FirstIdx(s, m)))
IsSorted(s) == \A i \in 1..(Len(s) - 1) : s[i] <= s[i + 1]
\* engine_base.addTarget / addSensor:  list.append(x); list.sort()
ListAdd(s, x) == IF DevNoSort THEN Append(s, x) ELSE SortedList(Append(s, x))
\* engine_base.removeTarget / removeSensor:  list.remove(x) (FIRST occurrence; ValueError when absent); list.sort()
ListRemove(s, x) == IF DevRemoveAll THEN SelectSeq(s, LAMBDA y : y # x)
                    ELSE SortedList(Drop(s, FirstIdx(s, x)))
\* _sortTargets / _sortSensors:  {id: idx for idx, id in enumerate(list)}  (a duplicate keeps its LAST index)
IndexMap(s) == {<<x, MaxOf({i \in DOMAIN s : s[i] = x}) - 1>> : x \in Range(s)}

\* ------------------------------------------------------------------------------------------
\* the observable abstract state (what the harness projects from the real Scenario)
EngRec(e) == [id |-> e, T |-> engT[e], S |-> engS[e], dims |-> dims[e],
              tix |-> IndexMap(engT[e]), six |-> IndexMap(engS[e])]
Snap == [T |-> targets, E |-> estimates, S |-> sensors, D |-> dbAgents,
         eng |-> [i \in 1..Len(order) |-> EngRec(order[i])]]
NoSnap == [T |-> {}, E |-> {}, S |-> {}, D |-> {}, eng |-> <<>>]

BuildErrors == {"ValidationError", "DuplicateEngineError", "DuplicateTargetError", "DuplicateSensorError",
                "IntegrityError", "ValueError"}
Outcomes == {"ok", "AgentAdditionError", "AgentRemovalError", "KeyError", "ValueError", "IndexError"} \cup BuildErrors
OpNames == {"addT", "remT", "addS", "remS"}
NoOp == [op |-> "none", id |-> 0, eng |-> 0, out |-> "ok", via |-> "direct"]
Done(op, id, e, out, via) == [op |-> op, id |-> id, eng |-> e, out |-> out, via |-> via]

Bld0 == [stage |-> "eng", i |-> 1, j |-> 1, vT |-> [x \in Ids |-> "none"], vS |-> {}, curT |-> <<>>, curS |-> <<>>]
EmptyCfg == [name |-> "posed", engines |-> <<>>, events |-> <<>>, truthOnly |-> FALSE]

\* events in the order _loadEventsIntoDatabase inserts them: sorted(events, key=start_time) (stable)
RECURSIVE SortByAt(_)
SortByAt(s) == IF s = <<>> THEN <<>>
               ELSE LET m == MinOf({s[i].at : i \in DOMAIN s})
                        i == MinOf({j \in DOMAIN s : s[j].at = m})
                    IN <<s[i]>> \o SortByAt(Drop(s, i))
Ev == SortByAt(cfg.events)
MaxEvents == 8                 \* a configuration holds at most this many add / remove events
Horizon == IF cfg.events = <<>> THEN 0 ELSE MaxOf({cfg.events[i].at : i \in DOMAIN cfg.events})

MemInit ==
  /\ order = <<>> /\ engT = <<>> /\ engS = <<>> /\ dims = <<>>
  /\ targets = {} /\ estimates = {} /\ sensors = {} /\ dbAgents = {}
RestInit == /\ bld = Bld0 /\ MemInit /\ k = 0 /\ evDone = {} /\ cur = 1 /\ last = NoOp /\ pre = NoSnap /\ nops = 0

Init == /\ RestInit
        /\ IF PoseMode THEN cfg = EmptyCfg /\ pc = "pose"
                       ELSE cfg \in Roots /\ pc = "validate"

\* ------------------------------------------------------------------------------------------
\* posing a configuration in stages (canonical order: engine, its targets, its sensors, next engine)
LastEng == cfg.engines[Len(cfg.engines)]
PoseEngine(e) ==
  /\ pc = "pose" /\ Len(cfg.engines) < MaxEng
  /\ cfg' = [cfg EXCEPT !.engines = Append(@, [id |-> e, tg |-> <<>>, sn |-> <<>>])]
  /\ UNCHANGED <<pc, bld, memVars, k, evDone, cur, last, pre, nops>>
PoseTarget(id, c) ==
  /\ pc = "pose" /\ cfg.engines # <<>> /\ LastEng.sn = <<>> /\ Len(LastEng.tg) < MaxT
  /\ cfg' = [cfg EXCEPT !.engines[Len(cfg.engines)].tg = Append(@, [id |-> id, cls |-> c])]
  /\ UNCHANGED <<pc, bld, memVars, k, evDone, cur, last, pre, nops>>
PoseSensor(id) ==
  /\ pc = "pose" /\ cfg.engines # <<>> /\ Len(LastEng.sn) < MaxS
  /\ cfg' = [cfg EXCEPT !.engines[Len(cfg.engines)].sn = Append(@, id)]
  /\ UNCHANGED <<pc, bld, memVars, k, evDone, cur, last, pre, nops>>
PoseDone ==
  /\ pc = "pose" /\ pc' = "validate"
  /\ UNCHANGED <<cfg, bld, memVars, k, evDone, cur, last, pre, nops>>

\* ------------------------------------------------------------------------------------------
\* building.  A raising line abandons the builder: no Scenario exists afterwards.
Fail(err) ==
  /\ pc' = "failed" /\ last' = Done("build", 0, 0, err, "direct") /\ bld' = Bld0
  /\ order' = <<>> /\ engT' = <<>> /\ engS' = <<>> /\ dims' = <<>>
  /\ targets' = {} /\ estimates' = {} /\ sensors' = {} /\ dbAgents' = {}
  /\ UNCHANGED <<cfg, k, evDone, cur, pre, nops>>

\* ScenarioConfig(**dict): EngineConfig.targets / .sensors are Field(..., min_length=1)
ValidateConfig ==
  /\ pc = "validate"
  /\ IF \E i \in DOMAIN cfg.engines : cfg.engines[i].tg = <<>> \/ cfg.engines[i].sn = <<>>
     THEN Fail("ValidationError")
     ELSE /\ pc' = "build" /\ bld' = Bld0
          /\ UNCHANGED <<cfg, memVars, k, evDone, cur, last, pre, nops>>

BEng == cfg.engines[bld.i]
\* for engine_conf in config.engines:  if engine_conf.unique_id in tasking_engines: raise DuplicateEngineError
BuildEngineCheck ==
  /\ pc = "build" /\ bld.stage = "eng"
  /\ IF bld.i > Len(cfg.engines)
     THEN /\ bld' = [bld EXCEPT !.stage = "agents"]
          /\ UNCHANGED <<cfg, pc, memVars, k, evDone, cur, last, pre, nops>>
     ELSE IF BEng.id \in DOMAIN engT
     THEN Fail("DuplicateEngineError")
     ELSE /\ bld' = [bld EXCEPT !.stage = "tgt", !.j = 1, !.curT = <<>>, !.curS = <<>>]
          /\ UNCHANGED <<cfg, pc, memVars, k, evDone, cur, last, pre, nops>>

\* _validateTargetAgents, one entry: an id seen before (in ANY engine, also this one) is accepted iff
\* its state equals the recorded one; the id is appended to this engine's list either way.
BuildValidateTarget ==
  /\ pc = "build" /\ bld.stage = "tgt"
  /\ IF bld.j > Len(BEng.tg)
     THEN /\ bld' = [bld EXCEPT !.stage = "sen", !.j = 1]
          /\ UNCHANGED <<cfg, pc, memVars, k, evDone, cur, last, pre, nops>>
     ELSE LET t == BEng.tg[bld.j] IN
          IF bld.vT[t.id] # "none" /\ bld.vT[t.id] # t.cls
          THEN Fail("DuplicateTargetError")
          ELSE /\ bld' = [bld EXCEPT !.j = @ + 1, !.curT = Append(@, t.id), !.vT[t.id] = t.cls]
               /\ UNCHANGED <<cfg, pc, memVars, k, evDone, cur, last, pre, nops>>

\* _validateSensingAgents, one entry: an id seen before (in ANY engine, also this one) is refused
BuildValidateSensor ==
  /\ pc = "build" /\ bld.stage = "sen"
  /\ IF bld.j > Len(BEng.sn)
     THEN /\ bld' = [bld EXCEPT !.stage = "mk"]
          /\ UNCHANGED <<cfg, pc, memVars, k, evDone, cur, last, pre, nops>>
     ELSE LET s == BEng.sn[bld.j] IN
          IF s \in bld.vS /\ ~DevDupSensorAccepted
          THEN Fail("DuplicateSensorError")
          ELSE /\ bld' = [bld EXCEPT !.j = @ + 1, !.curS = Append(@, s), !.vS = @ \cup {s}]
               /\ UNCHANGED <<cfg, pc, memVars, k, evDone, cur, last, pre, nops>>

\* CentralizedTaskingEngine(id, sensors, targets, ...): sorted(lists), zeros((num_targets, num_sensors))
BuildMakeEngine ==
  /\ pc = "build" /\ bld.stage = "mk"
  /\ engT' = engT @@ (BEng.id :> SortedList(bld.curT))
  /\ engS' = engS @@ (BEng.id :> SortedList(bld.curS))
  /\ dims' = dims @@ (BEng.id :> <<Len(bld.curT), Len(bld.curS)>>)
  /\ order' = Append(order, BEng.id)
  /\ bld' = [bld EXCEPT !.stage = "eng", !.i = @ + 1]
  /\ UNCHANGED <<cfg, pc, targets, estimates, sensors, dbAgents, k, evDone, cur, last, pre, nops>>

\* _initTargets, _initEstimates (both over validated_target_configs), _initSensors
BuildInitAgents ==
  /\ pc = "build" /\ bld.stage = "agents"
  /\ targets' = {x \in Ids : bld.vT[x] # "none"}
  /\ estimates' = {x \in Ids : bld.vT[x] # "none"}
  /\ sensors' = bld.vS
  /\ bld' = [bld EXCEPT !.stage = "dbagents"]
  /\ UNCHANGED <<cfg, pc, order, engT, engS, dims, dbAgents, k, evDone, cur, last, pre, nops>>

\* _loadAgentsIntoDatabase: AgentModel(unique_id) for every target, then for every sensor, ONE bulkSave:
\* an id that is both a target and a sensor makes two rows with one primary key -> sqlalchemy IntegrityError
BuildLoadAgents ==
  /\ pc = "build" /\ bld.stage = "dbagents"
  /\ IF targets \cap sensors # {}
     THEN Fail("IntegrityError")
     ELSE /\ dbAgents' = targets \cup sensors
          /\ bld' = [bld EXCEPT !.stage = "dbevents", !.j = 1]
          /\ UNCHANGED <<cfg, pc, order, engT, engS, dims, targets, estimates, sensors, k, evDone, cur, last, pre, nops>>

\* _loadEventsIntoDatabase, one event (sorted by start time): the Agent row of an ADDED agent is created when it
\* is missing (DataDependency with attributes); a REMOVAL needs the row to exist already (ValueError otherwise)
BuildLoadEvent ==
  /\ pc = "build" /\ bld.stage = "dbevents" /\ bld.j <= Len(Ev)
  /\ LET ev == Ev[bld.j] IN
     IF ev.kind \in {"remT", "remS"} /\ ev.id \notin dbAgents
     THEN Fail("ValueError")
     ELSE /\ dbAgents' = dbAgents \cup {ev.id}
          /\ bld' = [bld EXCEPT !.j = @ + 1]
          /\ UNCHANGED <<cfg, pc, order, engT, engS, dims, targets, estimates, sensors, k, evDone, cur, last, pre, nops>>

\* Scenario(...) is constructed (its initial saveDatabaseOutput finds fresh matrices)
BuildDone ==
  /\ pc = "build" /\ bld.stage = "dbevents" /\ bld.j > Len(Ev)
  /\ pc' = "run" /\ last' = Done("build", 0, 0, "ok", "direct") /\ bld' = Bld0
  /\ UNCHANGED <<cfg, memVars, k, evDone, cur, pre, nops>>

\* ------------------------------------------------------------------------------------------
\* the four calls.  `out` is the outcome; every disjunct is the state after the last executed line.

\* Scenario._addTargetConf(target_spec, tasking_engine_id)
AddTargetEff(id, e, out) ==
  LET reject == id \in targets /\ ~DevAddExistingAccepted        \* if target_spec.id in self.target_agents: raise
      afterStoreTruth == targets \cup {id}                         \* self.target_agents[id] = target_agent
      afterStoreEstimate == IF DevAddSkipsEstimate THEN estimates  \* self._estimate_agents[id] = estimate_agent
                            ELSE estimates \cup {id}
  IN \/ /\ reject /\ out = "AgentAdditionError" /\ UNCHANGED memVars
     \/ /\ ~reject /\ e \notin DOMAIN engT /\ out = "KeyError"      \* self._tasking_engines[e] raises AFTER both stores
        /\ targets' = afterStoreTruth /\ estimates' = afterStoreEstimate
        /\ UNCHANGED <<order, engT, engS, dims, sensors, dbAgents>>
     \/ /\ ~reject /\ e \in DOMAIN engT /\ out = "ok"                \* .addTarget(id): append + sort
        /\ targets' = afterStoreTruth /\ estimates' = afterStoreEstimate
        /\ engT' = [engT EXCEPT ![e] = ListAdd(@, id)]
        /\ UNCHANGED <<order, engS, dims, sensors, dbAgents>>

\* Scenario.removeTarget(agent_id, tasking_engine_id)
RemoveTargetEff(id, e, out) ==
  LET afterDelTruth == targets \ {id}                               \* del self.target_agents[id]
      afterDelEstimate == estimates \ {id}                          \* del self._estimate_agents[id]
  IN \/ /\ id \notin targets /\ out = "AgentRemovalError" /\ UNCHANGED memVars
     \/ /\ id \in targets /\ id \notin estimates /\ out = "KeyError" \* the second del raises (only with DevAddSkipsEstimate)
        /\ targets' = afterDelTruth
        /\ UNCHANGED <<order, engT, engS, dims, estimates, sensors, dbAgents>>
     \/ /\ id \in targets /\ id \in estimates /\ e \notin DOMAIN engT /\ out = "KeyError"
        /\ targets' = afterDelTruth /\ estimates' = afterDelEstimate
        /\ UNCHANGED <<order, engT, engS, dims, sensors, dbAgents>>
     \/ /\ id \in targets /\ id \in estimates /\ e \in DOMAIN engT /\ id \notin Range(engT[e]) /\ out = "ValueError"
        /\ targets' = afterDelTruth /\ estimates' = afterDelEstimate   \* list.remove(x): x not in list
        /\ UNCHANGED <<order, engT, engS, dims, sensors, dbAgents>>
     \/ /\ id \in targets /\ id \in estimates /\ e \in DOMAIN engT /\ id \in Range(engT[e]) /\ out = "ok"
        /\ targets' = afterDelTruth /\ estimates' = afterDelEstimate
        /\ engT' = [engT EXCEPT ![e] = ListRemove(@, id)]
        /\ UNCHANGED <<order, engS, dims, sensors, dbAgents>>

\* Scenario._addSensorConf(sensor_spec, tasking_engine_id)
AddSensorEff(id, e, out) ==
  LET afterStore == sensors \cup {id}                               \* self._sensor_agents[id] = sensing_agent
  IN \/ /\ id \in sensors /\ out = "AgentAdditionError" /\ UNCHANGED memVars
     \/ /\ id \notin sensors /\ e \notin DOMAIN engT /\ out = "KeyError"
        /\ sensors' = afterStore
        /\ UNCHANGED <<order, engT, engS, dims, targets, estimates, dbAgents>>
     \/ /\ id \notin sensors /\ e \in DOMAIN engT /\ out = "ok"
        /\ sensors' = afterStore /\ engS' = [engS EXCEPT ![e] = ListAdd(@, id)]
        /\ UNCHANGED <<order, engT, dims, targets, estimates, dbAgents>>

\* Scenario.removeSensor(agent_id, tasking_engine_id)
RemoveSensorEff(id, e, out) ==
  LET afterDel == sensors \ {id}                                    \* del self.sensor_agents[id]
  IN \/ /\ id \notin sensors /\ out = "AgentRemovalError" /\ UNCHANGED memVars
     \/ /\ id \in sensors /\ e \notin DOMAIN engT /\ out = "KeyError"
        /\ sensors' = afterDel
        /\ UNCHANGED <<order, engT, engS, dims, targets, estimates, dbAgents>>
     \/ /\ id \in sensors /\ e \in DOMAIN engT /\ id \notin Range(engS[e]) /\ out = "ValueError"
        /\ sensors' = afterDel
        /\ UNCHANGED <<order, engT, engS, dims, targets, estimates, dbAgents>>
     \/ /\ id \in sensors /\ e \in DOMAIN engT /\ id \in Range(engS[e]) /\ out = "ok"
        /\ sensors' = afterDel
        /\ engS' = IF DevRemoveSensorKeepsEngine THEN engS ELSE [engS EXCEPT ![e] = ListRemove(@, id)]
        /\ UNCHANGED <<order, engT, dims, targets, estimates, dbAgents>>

Eff(kind, id, e, out) ==
  CASE kind = "addT" -> AddTargetEff(id, e, out)
    [] kind = "remT" -> RemoveTargetEff(id, e, out)
    [] kind = "addS" -> AddSensorEff(id, e, out)
    [] kind = "remS" -> RemoveSensorEff(id, e, out)

\* a direct call of the public method (the caller may catch the exception and go on)
Call(kind, id, e) ==
  /\ pc = "run" /\ nops < MaxOps
  /\ \E out \in Outcomes : Eff(kind, id, e, out) /\ last' = Done(kind, id, e, out, "direct")
  /\ pre' = Snap /\ nops' = nops + 1
  /\ UNCHANGED <<cfg, pc, bld, k, evDone, cur>>
AddTarget(id, e)    == /\ pc = "run" /\ Call("addT", id, e)
RemoveTarget(id, e) == /\ pc = "run" /\ Call("remT", id, e)
AddSensor(id, e)    == /\ pc = "run" /\ Call("addS", id, e)
RemoveSensor(id, e) == /\ pc = "run" /\ Call("remS", id, e)

\* ------------------------------------------------------------------------------------------
\* one stepForward.  The step index k only decides which configured events are due (it saturates after the last one);
\* `last` is reset so that it always names the operation that was completed (or begun) most recently, `pre` is the
\* snapshot taken when that operation began (for a step: when its event phase ended).
StepBegin ==
  /\ pc = "run" /\ nops < MaxOps
  /\ pc' = "events" /\ k' = IF k > Horizon THEN k ELSE k + 1
  /\ pre' = Snap /\ nops' = nops + 1 /\ last' = Done("begin", 0, 0, "ok", "direct")
  /\ UNCHANGED <<cfg, bld, memVars, evDone, cur>>

Due == {i \in DOMAIN Ev : Ev[i].at = k /\ i \notin evDone}
\* handleRelevantEvents(SCENARIO_STEP): event.handleEvent(scenario) -> one of the four calls; an exception
\* leaves stepForward (the run is over), the state stays as the executed lines left it
Deliver(i) ==
  /\ pc = "events" /\ i \in Due
  /\ \E out \in Outcomes :
       /\ Eff(Ev[i].kind, Ev[i].id, Ev[i].eng, out)
       /\ last' = Done(Ev[i].kind, Ev[i].id, Ev[i].eng, out, "event")
       /\ pc' = IF out = "ok" THEN "events" ELSE "crashed"
  /\ evDone' = evDone \cup {i} /\ pre' = Snap
  /\ UNCHANGED <<cfg, bld, k, cur, nops>>

EventsDone ==
  /\ pc = "events" /\ Due = {}
  /\ pc' = "assess" /\ cur' = 1 /\ pre' = Snap
  /\ UNCHANGED <<cfg, bld, memVars, k, evDone, last, nops>>

\* what assess() of engine e does with the current membership (after re-dimensioning its matrices):
\*   [self._sensor_store[s] for s in sensor_list] / self._estimate_store[t] for t in target_list -> KeyError,
\*   then Reward.normalizeMetrics: metric_matrix[..., m].max() on a zero-size array -> ValueError
AssessOutcome(lt, ls, est, sen) ==
  IF ~(Range(ls) \subseteq sen) \/ ~(Range(lt) \subseteq est) THEN "KeyError"
  ELSE IF lt = <<>> \/ ls = <<>> THEN "ValueError" ELSE "ok"
Assess ==
  /\ pc = "assess" /\ ~cfg.truthOnly /\ cur <= Len(order)
  /\ LET e == order[cur]
         out == AssessOutcome(engT[e], engS[e], estimates, sensors)
     IN /\ dims' = [dims EXCEPT ![e] = <<Len(engT[e]), Len(engS[e])>>]
        /\ IF out = "ok"
           THEN cur' = cur + 1 /\ UNCHANGED <<pc, last>>
           ELSE pc' = "crashed" /\ last' = Done("step", 0, e, out, "direct") /\ UNCHANGED cur
  /\ UNCHANGED <<cfg, bld, order, engT, engS, targets, estimates, sensors, dbAgents, k, evDone, pre, nops>>

\* "Truth simulation only - skipping Assess steps", or every engine assessed
StepEnd ==
  /\ pc = "assess" /\ (cfg.truthOnly \/ cur > Len(order))
  /\ pc' = "run" /\ last' = Done("step", 0, 0, "ok", "direct")
  /\ UNCHANGED <<cfg, bld, memVars, k, evDone, cur, pre, nops>>

\* saveDatabaseOutput -> engine.getCurrentTasking: for every pair of target_indices x sensor_indices the three
\* matrices are indexed; they still have the shape of the last assess()
StaleEngine(lt, ls, d) == lt # <<>> /\ ls # <<>> /\ (Len(lt) > d[1] \/ Len(ls) > d[2])
Save ==
  /\ pc = "run" /\ nops < MaxOps
  /\ LET bad == ~cfg.truthOnly /\ \E e \in DOMAIN engT : StaleEngine(engT[e], engS[e], dims[e])
     IN /\ pc' = IF bad THEN "crashed" ELSE "run"
        /\ last' = Done("save", 0, 0, IF bad THEN "IndexError" ELSE "ok", "direct")
  /\ pre' = Snap /\ nops' = nops + 1
  /\ UNCHANGED <<cfg, bld, memVars, k, evDone, cur>>

Next ==
  \/ \E e \in EngIds : PoseEngine(e)
  \/ \E id \in Ids, c \in Classes : PoseTarget(id, c)
  \/ \E id \in Ids : PoseSensor(id)
  \/ PoseDone \/ ValidateConfig
  \/ BuildEngineCheck \/ BuildValidateTarget \/ BuildValidateSensor \/ BuildMakeEngine
  \/ BuildInitAgents \/ BuildLoadAgents \/ BuildLoadEvent \/ BuildDone
  \/ \E id \in Ids, e \in EngArgs : AddTarget(id, e) \/ RemoveTarget(id, e) \/ AddSensor(id, e) \/ RemoveSensor(id, e)
  \/ StepBegin \/ EventsDone \/ Assess \/ StepEnd \/ Save
  \/ \E i \in 1..MaxEvents : Deliver(i)

Spec == Init /\ [][Next]_vars

\* state constraint for model checking: duplicates pile up without bound otherwise
LenOK == \A e \in DOMAIN engT : Len(engT[e]) <= MaxLen /\ Len(engS[e]) <= MaxLen

\* ==========================================================================================
\* (1) theorems of the as-coded machine
Settled == pc = "run"                                  \* between operations, a Scenario exists
JustDone(ops) == pc \in {"run", "events", "crashed"} /\ last.op \in ops
Bag(s) == [x \in Ids |-> Count(s, x)]
EngOf(s, e) == LET i == CHOOSE j \in DOMAIN s.eng : s.eng[j].id = e IN s.eng[i]
HasEng(s, e) == \E j \in DOMAIN s.eng : s.eng[j].id = e
NoDims(s) == [T |-> s.T, E |-> s.E, S |-> s.S, D |-> s.D,
              eng |-> [i \in DOMAIN s.eng |-> [id |-> s.eng[i].id, T |-> s.eng[i].T, S |-> s.eng[i].S]]]

TypeOK ==
  /\ pc \in {"pose", "validate", "build", "run", "events", "assess", "failed", "crashed"}
  /\ targets \subseteq Ids /\ estimates \subseteq Ids /\ sensors \subseteq Ids /\ dbAgents \subseteq Ids
  /\ DOMAIN engT = Range(order) /\ DOMAIN engS = Range(order) /\ DOMAIN dims = Range(order)
  /\ \A e \in DOMAIN engT : Range(engT[e]) \subseteq Ids /\ Range(engS[e]) \subseteq Ids
  /\ last.out \in Outcomes /\ nops \in 0..MaxOps

\* every target has its estimate agent and vice versa (the two dictionaries are mutated on adjacent lines)
EstimatesMatchTargets == estimates = targets
\* the engine lists are sorted (append + sort, remove + sort)
ListsSorted == \A e \in DOMAIN engT : IsSorted(engT[e]) /\ IsSorted(engS[e])
\* the two DOCUMENTED refusals change nothing
NamedRejectionIsNoop ==
  (JustDone(OpNames) /\ last.out \in {"AgentAdditionError", "AgentRemovalError"}) => Snap = pre
\* a call that returns normally did exactly its job: the id (dis)appears in the dictionaries, exactly one
\* occurrence (dis)appears in the named engine's list, nothing else changes
OkEffect ==
  (JustDone(OpNames) /\ last.out = "ok") =>
    LET id == last.id  e == last.eng  isT == last.op \in {"addT", "remT"}  add == last.op \in {"addT", "addS"}
        new == EngOf(Snap, e)  old == EngOf(pre, e)
        lnew == IF isT THEN new.T ELSE new.S    lold == IF isT THEN old.T ELSE old.S
        onew == IF isT THEN new.S ELSE new.T    oold == IF isT THEN old.S ELSE old.T
    IN /\ HasEng(pre, e)
       /\ targets   = (IF ~isT THEN pre.T ELSE IF add THEN pre.T \cup {id} ELSE pre.T \ {id})
       /\ estimates = (IF ~isT THEN pre.E ELSE IF add THEN pre.E \cup {id} ELSE pre.E \ {id})
       /\ sensors   = (IF isT THEN pre.S ELSE IF add THEN pre.S \cup {id} ELSE pre.S \ {id})
       /\ dbAgents = pre.D
       /\ Bag(lnew) = [Bag(lold) EXCEPT ![id] = IF add THEN @ + 1 ELSE @ - 1]
       /\ onew = oold /\ new.dims = old.dims
       /\ \A j \in DOMAIN pre.eng : pre.eng[j].id # e => Snap.eng[j] = pre.eng[j]
       /\ Len(Snap.eng) = Len(pre.eng)
\* the existence checks are made: adding an existing id / removing an unknown id is refused
ExistenceChecked ==
  JustDone(OpNames) =>
    /\ (last.op = "addT" /\ last.id \in pre.T => last.out = "AgentAdditionError")
    /\ (last.op = "addS" /\ last.id \in pre.S => last.out = "AgentAdditionError")
    /\ (last.op = "remT" /\ last.id \notin pre.T => last.out = "AgentRemovalError")
    /\ (last.op = "remS" /\ last.id \notin pre.S => last.out = "AgentRemovalError")

\* a successful build yields exactly what the configuration lists
CfgTargetIds(i) == {cfg.engines[i].tg[j].id : j \in DOMAIN cfg.engines[i].tg}
BuildFaithful ==
  (pc = "run" /\ last.op = "build") =>
    /\ order = [i \in DOMAIN cfg.engines |-> cfg.engines[i].id]
    /\ \A i \in DOMAIN cfg.engines :
         LET e == cfg.engines[i].id IN
         /\ Bag(engT[e]) = Bag([j \in DOMAIN cfg.engines[i].tg |-> cfg.engines[i].tg[j].id])
         /\ Bag(engS[e]) = Bag(cfg.engines[i].sn)
         /\ dims[e] = <<Len(cfg.engines[i].tg), Len(cfg.engines[i].sn)>>
    /\ targets = UNION {CfgTargetIds(i) : i \in DOMAIN cfg.engines}
    /\ sensors = UNION {Range(cfg.engines[i].sn) : i \in DOMAIN cfg.engines}
    /\ dbAgents = targets \cup sensors \cup {cfg.events[i].id : i \in {j \in DOMAIN cfg.events : cfg.events[j].kind \in {"addT", "addS"}}}

\* ---- (2) expected consistency, as operators over a snapshot ------------------------------
EngIdsOf(s) == {s.eng[i].id : i \in DOMAIN s.eng}
XEngineTargetsKnown(s) == \A i \in DOMAIN s.eng : Range(s.eng[i].T) \subseteq s.T
XEveryTargetTasked(s)  == \A t \in s.T : \E i \in DOMAIN s.eng : t \in Range(s.eng[i].T)
XEngineSensorsKnown(s) == \A i \in DOMAIN s.eng : Range(s.eng[i].S) \subseteq s.S
RECURSIVE SumCount(_, _, _)
SumCount(s, x, i) == IF i = 0 THEN 0 ELSE Count(s.eng[i].S, x) + SumCount(s, x, i - 1)
XSensorOwnedOnce(s)    == \A x \in s.S : SumCount(s, x, Len(s.eng)) = 1
XNoDuplicateInLists(s) == \A i \in DOMAIN s.eng : /\ \A x \in Range(s.eng[i].T) : Count(s.eng[i].T, x) = 1
                                                  /\ \A x \in Range(s.eng[i].S) : Count(s.eng[i].S, x) = 1
XAgentRowsExist(s)     == (s.T \cup s.S) \subseteq s.D
XMatrixDimsMatch(s)    == \A i \in DOMAIN s.eng : s.eng[i].dims = <<Len(s.eng[i].T), Len(s.eng[i].S)>>
XRolesDisjoint(s)      == s.T \cap s.S = {}
XEnginesNotEmpty(s)    == \A i \in DOMAIN s.eng : s.eng[i].T # <<>> /\ s.eng[i].S # <<>>
XEstimatesMatch(s)     == s.E = s.T
\* everything but the matrix shapes (which are refreshed by the next assess)
XConsistent(s) == /\ XEngineTargetsKnown(s) /\ XEveryTargetTasked(s) /\ XEngineSensorsKnown(s) /\ XSensorOwnedOnce(s)
                  /\ XNoDuplicateInLists(s) /\ XRolesDisjoint(s) /\ XEnginesNotEmpty(s) /\ XEstimatesMatch(s)
\* what stepForward needs from the membership
XStepSafe(s) == \A i \in DOMAIN s.eng : AssessOutcome(s.eng[i].T, s.eng[i].S, s.E, s.S) = "ok"

\* theorems connecting the two layers
\* a successful build is consistent except that it accepts a repeated target entry and zero engines
BuildOkIsConsistent ==
  (pc = "run" /\ last.op = "build") =>
    /\ XEngineTargetsKnown(Snap) /\ XEveryTargetTasked(Snap) /\ XEngineSensorsKnown(Snap) /\ XSensorOwnedOnce(Snap)
    /\ XRolesDisjoint(Snap) /\ XEnginesNotEmpty(Snap) /\ XAgentRowsExist(Snap) /\ XMatrixDimsMatch(Snap)
\* stepForward raises iff some engine is unsafe - at the first such engine in dictionary order, with that engine's
\* exception; the truth-only run never raises
StepCrashIffUnsafe ==
  /\ (pc = "crashed" /\ last.op = "step") =>
        /\ ~cfg.truthOnly /\ HasEng(Snap, last.eng)
        /\ LET r == EngOf(Snap, last.eng) IN AssessOutcome(r.T, r.S, estimates, sensors) = last.out
        /\ \A j \in DOMAIN Snap.eng :
              (\E i \in DOMAIN Snap.eng : i > j /\ Snap.eng[i].id = last.eng) =>
                 AssessOutcome(Snap.eng[j].T, Snap.eng[j].S, estimates, sensors) = "ok"
  /\ (pc = "run" /\ last.op = "step") => (cfg.truthOnly \/ XStepSafe(Snap))
ConsistentStepsSafely == (pc \in {"assess", "crashed"} /\ last.op = "step" /\ last.out # "ok") => ~XConsistent(Snap)
\* a completed step changes nothing but the matrix shapes, which then match the lists
StepOnlyRefreshesDims ==
  (pc = "run" /\ last.op = "step") => /\ NoDims(Snap) = NoDims(pre)
                                       /\ (~cfg.truthOnly => XMatrixDimsMatch(Snap))
SaveCrashIffStale ==
  /\ (pc = "crashed" /\ last.op = "save") => (~XMatrixDimsMatch(Snap) /\ Snap = pre)
  /\ (pc = "run" /\ last.op = "save") => Snap = pre

\* ---- (2) as invariants between operations -------------------------------------------------
EngineTargetsKnown == Settled => XEngineTargetsKnown(Snap)
EveryTargetTasked  == Settled => XEveryTargetTasked(Snap)
EngineSensorsKnown == Settled => XEngineSensorsKnown(Snap)
SensorOwnedOnce    == Settled => XSensorOwnedOnce(Snap)
NoDuplicateInLists == Settled => XNoDuplicateInLists(Snap)
AgentRowsExist     == Settled => XAgentRowsExist(Snap)
MatrixDimsMatch    == Settled => XMatrixDimsMatch(Snap)
RolesDisjoint      == Settled => XRolesDisjoint(Snap)
EnginesNotEmpty    == Settled => XEnginesNotEmpty(Snap)
NoCrash            == pc # "crashed"
NoStepCrash        == ~(pc = "crashed" /\ last.op = "step")          \* stepForward never raises
NoSaveCrash        == ~(pc = "crashed" /\ last.op = "save")          \* saveDatabaseOutput never raises
NoEventCrash       == ~(pc = "crashed" /\ last.via = "event")        \* a configured event never ends the run
\* an operation that raises leaves the scenario as it was
FailedOpIsNoop     == (JustDone(OpNames) /\ last.out # "ok") => Snap = pre
\* a refused configuration is refused with one of the builder's own, named errors
BuildErrorsAreNamed == pc = "failed" =>
                         last.out \in {"ValidationError", "DuplicateEngineError", "DuplicateTargetError", "DuplicateSensorError"}
\* ScenarioBuilder documents "ValueError: raised if the 'engines' field is empty"
BuiltHasEngine     == Settled => order # <<>>
=============================================================================
