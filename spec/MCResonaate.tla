---------------------------- MODULE MCResonaate ----------------------------
(* Concrete constants for the exhaustive / simulation configurations of      *)
(* Resonaate.tla (cfg files cannot express functions).                        *)
EXTENDS Resonaate

T1 == {"t1"}
T2 == {"t1", "t2"}
T3 == {"t1", "t2", "t3"}
S1 == {"s1"}
S2 == {"s1", "s2"}
S3 == {"s1", "s2", "s3"}
E1 == {"e1"}
E2 == {"e1", "e2"}

\* single engine owning everything
AllT == [e \in Engines |-> Targets]
AllS == [e \in Engines |-> Sensors]
\* two engines: e1 owns t1/s1, e2 the rest
SplitT == [e \in Engines |-> IF e = "e1" THEN {"t1"} ELSE Targets \ {"t1"}]
SplitS == [e \in Engines |-> IF e = "e1" THEN {"s1"} ELSE Sensors \ {"s1"}]

PolMunkres    == [e \in Engines |-> "munkres"]
PolGreedy     == [e \in Engines |-> "greedy"]
PolRandom     == [e \in Engines |-> "random"]
PolAllVisible == [e \in Engines |-> "allvisible"]
PolMixed      == [e \in Engines |-> IF e = "e1" THEN "greedy" ELSE "munkres"]

\* the state space is a tree in db (rows accumulate); bound the depth by NSteps only
=============================================================================
