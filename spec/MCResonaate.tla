---------------------------- MODULE MCResonaate ----------------------------
(* Concrete constants for the exhaustive / simulation configurations of      *)
(* Resonaate.tla (cfg files cannot express functions, records or tuples).     *)
EXTENDS Resonaate, Json

T1 == {"t1"}
T2 == {"t1", "t2"}
T3 == {"t1", "t2", "t3"}
S1 == {"s1"}
S2 == {"s1", "s2"}
S3 == {"s1", "s2", "s3"}
E0 == {}
RankT == [t \in Targets |-> CASE t = "t1" -> 1 [] t = "t2" -> 2 [] t = "t3" -> 3 [] OTHER -> 0]
E1 == {"e1"}
E2 == {"e1", "e2"}

\* single engine owning every initial agent
AllT == [e \in Engines |-> InitTargets]
AllS == [e \in Engines |-> InitSensors]
\* two engines: e1 owns t1/s1, e2 the rest
SplitT == [e \in Engines |-> IF e = "e1" THEN {"t1"} ELSE InitTargets \ {"t1"}]
SplitS == [e \in Engines |-> IF e = "e1" THEN {"s1"} ELSE InitSensors \ {"s1"}]

PolMunkres    == [e \in Engines |-> "munkres"]
PolGreedy     == [e \in Engines |-> "greedy"]
PolRandom     == [e \in Engines |-> "random"]
PolAllVisible == [e \in Engines |-> "allvisible"]
PolMixed      == [e \in Engines |-> IF e = "e1" THEN "greedy" ELSE "munkres"]

\* behaviours for spec -> impl replay: in -simulate mode (one worker) every state of every
\* behaviour prints the choices the harness needs (completion orders via pend, environment
\* outcomes via visM / slewOK / hit); a new behaviour starts when lvl = 1
SimEmit == PrintT("SIM " \o ToJson([lvl |-> TLCGet("level"), pc |-> pc, k |-> k, eng |-> eng, pend |-> pend,
                                      visM |-> visM, decision |-> decision, slewOK |-> slewOK, hit |-> hit]))

EvRec(id, kind, t0, t1, who, en, tgt, planned) ==
  [id |-> id, kind |-> kind, t0 |-> t0, t1 |-> t1, who |-> who, eng |-> en, tgt |-> tgt, planned |-> planned]
NoEvents == {}

\* ---- event families for the C01 configurations (Dt = 3 ticks, NSteps = 3) ----
\* one impulse on target t1 at every tick of the span (on and off step boundaries)
ImpulseAt(t) == {EvRec("imp", "impulse", t, t, "t1", "e1", "t1", TRUE)}
\* environment choice of the event time is made by running one config per tick: see cfg generator
Imp1 == ImpulseAt(1)  Imp2 == ImpulseAt(2)  Imp3 == ImpulseAt(3)  Imp4 == ImpulseAt(4)
Imp5 == ImpulseAt(5)  Imp6 == ImpulseAt(6)  Imp7 == ImpulseAt(7)  Imp8 == ImpulseAt(8)  Imp9 == ImpulseAt(9)
\* two impulses in the same step, one exactly on the boundary, second unplanned
ImpPair == {EvRec("impA", "impulse", 3, 3, "t1", "e1", "t1", TRUE), EvRec("impB", "impulse", 2, 2, "t1", "e1", "t1", FALSE)}
\* agent set changes: t2 added on a boundary, s2 removed off-grid, t1 removed late
AddRemove == {EvRec("add", "addTarget", 3, 3, "t2", "e1", "t2", FALSE),
              EvRec("rmS", "removeSensor", 4, 4, "s2", "e1", "s2", FALSE),
              EvRec("rmT", "removeTarget", 7, 7, "t1", "e1", "t1", FALSE)}
\* duration events: a priority for engine e2 and a time bias for sensor s1
Durations == {EvRec("prio", "priority", 2, 6, "e2", "e2", "t2", FALSE),
              EvRec("bias", "bias", 3, 6, "s1", "e1", "s1", FALSE),
              EvRec("burn", "burn", 2, 7, "t1", "e1", "t1", TRUE)}
=============================================================================
