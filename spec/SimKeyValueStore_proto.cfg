SPECIFICATION SimSpec
CONSTANTS Clients = {"c1","c2","c3"}
  RawKeys = {}
  CacheKeys = {}
  Atoms = {}
  SetLists <- NoLists
  Indexes <- IdxFront
  MaxLen = 0
  Records = {}
  CacheSizes = {}
  Paths = {"p1","p2"}
  Payloads = {"x","y"}
  MaxPush = 40
  Times <- Times3
  RedMax = 128
  Ops = {"setDBPath","clearDBPath","getDBConnection","pushEvent","logAndFlush","reduction","flush"}
  Dev = "none"
  EmitEdges = FALSE
INVARIANT SimEmitBeh

