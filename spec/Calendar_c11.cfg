SPECIFICATION SpecSeconds
CONSTANTS FirstYear = 1901 LastYear = 2099
CONSTANT JumpDates <- DatesEop
CONSTANT JumpSods <- LastSecond
CONSTRAINT Within3
INVARIANT TypeOK
INVARIANT MonthLengths
INVARIANT LeapRule
INVARIANT DoyCorrect
INVARIANT ClosedFormDayNumber
INVARIANT ClosedForm1901
INVARIANT DayNumberRoundTrip
INVARIANT RoundTrip
INVARIANT TickLength
INVARIANT StartInversionExact
INVARIANT EmitTick
PROPERTY Monotone
