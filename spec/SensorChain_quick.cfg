\* exhaustive: every constraint vector of the primary target x sensor kinds x host kinds
\* (the driver harness/drivers/c02.py builds this and the background / undecided configs as text)
SPECIFICATION Spec
CONSTANTS MaxBg = 0
          VaryPrim = {"slew", "fov", "minR", "maxR", "los", "el", "az", "radar", "flux", "vismag", "galactic", "sunCone", "limb", "dark"}
          VaryBg = {} Vals = {0, 1} OnlyRelevant = TRUE
INVARIANT ObservationAllowed
INVARIANT MissReasonTrue
INVARIANT ExactlyOneMissForPrimary
INVARIANT BackgroundOnlyObservations
INVARIANT BoresightUpdatedIffSlew
INVARIANT PrimaryObservedIffAllHold
INVARIANT IrrelevantIgnored
