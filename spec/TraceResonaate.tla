--------------------------- MODULE TraceResonaate ---------------------------
(***************************************************************************)
(* impl -> spec: decides whether executions recorded from the REAL         *)
(* resonaate code (harness/tracer.py) are behaviours of Resonaate.tla.     *)
(* Every trace action re-uses the specification's action and binds the     *)
(* logged arguments / projected post-state; all invariants of Resonaate    *)
(* are evaluated in every state of every trace.                            *)
(* A file holds many traces (same constants); `tid` selects one.  A trace  *)
(* is accepted iff the state with l = Len+1 is reached (line ACCEPT tid).  *)
(***************************************************************************)
EXTENDS Resonaate, Json, IOUtils

Traces == JsonDeserialize(IOEnv.TRACE_FILE)

VARIABLES tid, l
tvars == <<vars, tid, l>>

Tr == Traces[tid]
Ev == Tr[l]
IsEvent(e) == l <= Len(Tr) /\ Ev.ev = e /\ l' = l + 1 /\ UNCHANGED tid
ToSet(seq) == {seq[i] : i \in DOMAIN seq}
PairSet(seq) == {<<seq[i][1], seq[i][2]>> : i \in DOMAIN seq}

\* bag logged as [[k, t, s, n], ...]  vs  spec bag keyed <<k, t, s>>
Bag3(seq) == [x \in {<<seq[i][1], seq[i][2], seq[i][3]>> : i \in DOMAIN seq} |->
                 LET i == CHOOSE j \in DOMAIN seq : <<seq[j][1], seq[j][2], seq[j][3]>> = x IN seq[i][4]]
\* bag logged as [[k, a, n], ...]
Bag2(seq) == [x \in {<<seq[i][1], seq[i][2]>> : i \in DOMAIN seq} |->
                 LET i == CHOOSE j \in DOMAIN seq : <<seq[j][1], seq[j][2]>> = x IN seq[i][3]]
StepBag(b, kk) == [x \in {y \in DOMAIN b : y[1] = kk} |-> b[x]]
DropStep(b) == [p \in {<<x[2], x[3]>> : x \in DOMAIN b} |-> b[<<k, p[1], p[2]>>]]

TraceInit == Init /\ tid \in DOMAIN Traces /\ l = 1

TBeginStep == IsEvent("BeginStep") /\ BeginStep /\ k' = Ev.k
TCompletePropagate == IsEvent("CompletePropagate") /\ CompletePropagate(Ev.a) /\ truthAt'[Ev.a] = Ev.at
TJoinPropagate == IsEvent("JoinPropagate") /\ JoinPropagate
TCompletePredict == IsEvent("CompletePredict") /\ CompletePredict(Ev.t) /\ estAt'[Ev.t][1] = Ev.at
TJoinPredict == IsEvent("JoinPredict") /\ JoinPredict
TEngineReset == IsEvent("EngineReset") /\ EngineReset(Ev.e)
TCompleteReward == IsEvent("CompleteReward") /\ CompleteReward(Ev.t, ToSet(Ev.row))
TDecide == /\ IsEvent("Decide") /\ Decide
           /\ decision' = PairSet(Ev.decision)
           /\ Vis = PairSet(Ev.vis)               \* the engine's visibility matrix is the merged rows

\* sensor_changes logged as [[s, stepLastTasked, targetPointedAt], ...]
ChangesMatch(ch, seq, kk) ==
   LET logged == {seq[i][1] : i \in DOMAIN seq}
       at(s) == LET i == CHOOSE j \in DOMAIN seq : seq[j][1] = s IN seq[i]
   IN /\ {s \in Sensors : ch[s] # NoChange} = logged
      /\ \A s \in logged : IF ch[s] = Keep THEN at(s)[2] < kk
                           ELSE at(s)[2] = ch[s][1] /\ at(s)[3] = ch[s][2]

TCompleteExec ==
  /\ IsEvent("CompleteExec")
  /\ CompleteExec(Ev.t, ToSet(Ev.slew), ToSet(Ev.hit), PairSet(Ev.ser))
  /\ {<<o[1], o[2]>> : o \in {x \in obsStep' : x[3] \in EngTargets[eng]}} = PairSet(Ev.obs)
  /\ StepBag(savedMiss', k) = Bag3(Ev.miss)
  /\ missHeld' = Bag3(Ev.held)
  /\ ChangesMatch(changes', Ev.changes, k)

PointingMatch(pt, seq, kk) ==
   \A i \in DOMAIN seq : LET s == seq[i][1] IN
        /\ pt[s][1] = seq[i][2]
        /\ (pt[s][1] = kk => pt[s][2] = seq[i][3])
TApplyChanges == IsEvent("ApplyChanges") /\ ApplyChanges /\ PointingMatch(pointing', Ev.pointing, k)
TNextEngine == IsEvent("NextEngine") /\ NextEngine
TCompleteUpdate == /\ IsEvent("CompleteUpdate") /\ CompleteUpdate(Ev.t)
                   /\ {<<o[1], o[2]>> : o \in estObs[Ev.t]} = PairSet(Ev.obs)
                   /\ Cardinality(estObs[Ev.t]) = Len(Ev.obs)
TJoinUpdate == IsEvent("JoinUpdate") /\ JoinUpdate

TSaveOutput ==
  /\ IsEvent("SaveOutput") /\ SaveOutput
  /\ db'.epochs = ToSet(Ev.rows.epochs) /\ Len(Ev.rows.epochs) = Cardinality(db'.epochs)
  /\ db'.truth = Bag2(Ev.rows.truth)
  /\ db'.est = Bag2(Ev.rows.est)
  /\ db'.obs = Bag3(Ev.rows.obs)
  /\ db'.miss = Bag3(Ev.rows.miss)
  /\ db'.tasks = Bag3(Ev.rows.tasks)
TSkipOutput == IsEvent("SkipOutput") /\ SkipOutput
\* end of stepForward: the numeric results of the step (observations, estimates, matrices,
\* sensor state) equal those of the reference schedule of the same scenario (logged boolean)
TEndStep == IsEvent("EndStep") /\ Ev.same /\ UNCHANGED vars

TraceNext ==
  \/ TBeginStep \/ TCompletePropagate \/ TJoinPropagate \/ TCompletePredict \/ TJoinPredict
  \/ TEngineReset \/ TCompleteReward \/ TDecide \/ TCompleteExec \/ TApplyChanges \/ TNextEngine
  \/ TCompleteUpdate \/ TJoinUpdate \/ TSaveOutput \/ TSkipOutput \/ TEndStep

TraceSpec == TraceInit /\ [][TraceNext]_tvars

\* progress report: the harness derives the verdict from these lines
\* one line per reached (trace, position): the longest explained prefix of every trace
Accept == PrintT(<<"AT", tid, l, Len(Tr) + 1>>)
=============================================================================
