--------------------------- MODULE TraceResonaate ---------------------------
(***************************************************************************)
(* impl -> spec: decides whether executions recorded from the REAL         *)
(* resonaate code (harness/tracer.py) are behaviours of Resonaate.tla.     *)
(* Every trace action re-uses the specification's action and binds the     *)
(* logged arguments / projected post-state; all invariants of Resonaate    *)
(* are evaluated in every state of every trace.                            *)
(* A file holds many traces (same constants); `tid` selects one.  A trace  *)
(* is accepted iff the state with l = Len+1 is reached (line ACCEPT tid).  *)
(***************************************************************************)
EXTENDS Resonaate, Json, IOUtils

Traces == JsonDeserialize(IOEnv.TRACE_FILE)

VARIABLES tid, l
tvars == <<vars, tid, l>>

Tr == Traces[tid]
Rec == Tr[l]
IsEvent(e) == l <= Len(Tr) /\ Rec.ev = e /\ l' = l + 1 /\ UNCHANGED tid
ToSet(seq) == {seq[i] : i \in DOMAIN seq}
PairSet(seq) == {<<seq[i][1], seq[i][2]>> : i \in DOMAIN seq}

\* bag logged as [[k, t, s, n], ...]  vs  spec bag keyed <<k, t, s>>
Bag3(seq) == [x \in {<<seq[i][1], seq[i][2], seq[i][3]>> : i \in DOMAIN seq} |->
                 LET i == CHOOSE j \in DOMAIN seq : <<seq[j][1], seq[j][2], seq[j][3]>> = x IN seq[i][4]]
\* bag logged as [[k, a, n], ...]
Bag2(seq) == [x \in {<<seq[i][1], seq[i][2]>> : i \in DOMAIN seq} |->
                 LET i == CHOOSE j \in DOMAIN seq : <<seq[j][1], seq[j][2]>> = x IN seq[i][3]]
StepBag(b, kk) == [x \in {y \in DOMAIN b : y[1] = kk /\ y[2] \in engT[eng]} |-> b[x]]   \* this engine's list
DropStep(b) == [p \in {<<x[2], x[3]>> : x \in DOMAIN b} |-> b[<<k, p[1], p[2]>>]]

TraceInit == Init /\ tid \in DOMAIN Traces /\ l = 1

TBeginStep == IsEvent("BeginStep") /\ BeginStep /\ Rec.k = k + 1
\* one handler call; the handler logged by the implementation must be the one the spec names
TDeliver == /\ IsEvent("Deliver") /\ Rec.id \in EventIds /\ Deliver(Rec.id)
            /\ delivered'[Rec.id][Len(delivered'[Rec.id])][2] = Rec.handler
\* silent: the scenario skips a maneuver event of an absent agent without calling any handler
TSkipAbsent == /\ l <= Len(Tr) /\ \E id \in EventIds : SkipAbsent(id)
               /\ UNCHANGED <<tid, l>>
TEndStepEvents == IsEvent("EndStepEvents") /\ EndStepEvents
\* planned propagation events were also handed to the estimate of their target (estq)
TTicToc == /\ IsEvent("TicToc") /\ TicToc /\ k' = Rec.k
           /\ {id \in handled : /\ Ev(id).planned /\ Ev(id).kind \in PropKinds
                                 /\ delivered[id][Len(delivered[id])][2] # Absent} = ToSet(Rec.estq)
           /\ (~WithEstimation \/ Len(Rec.estq) = Cardinality(ToSet(Rec.estq)))
Changed(f, g) == {id \in EventIds : f[id] # g[id]}
TCompletePropagate == /\ IsEvent("CompletePropagate") /\ CompletePropagate(Rec.a) /\ truthAt'[Rec.a] = Rec.at
                      /\ Changed(applied, applied') = ToSet(Rec.applied)
                      /\ Len(Rec.applied) = Cardinality(ToSet(Rec.applied))
TJoinPropagate == IsEvent("JoinPropagate") /\ JoinPropagate
TCompletePredict == /\ IsEvent("CompletePredict") /\ CompletePredict(Rec.t) /\ estAt'[Rec.t][1] = Rec.at
                    /\ Changed(appliedEst, appliedEst') = ToSet(Rec.applied)
                    /\ Len(Rec.applied) = Cardinality(ToSet(Rec.applied))
TJoinPredict == IsEvent("JoinPredict") /\ JoinPredict
TEndBiasEvents == IsEvent("EndBiasEvents") /\ EndBiasEvents
\* the sensors' time-bias queues as the engine sees them: [[s, [ids]], ...]
BiasMatch(seq) == \A i \in DOMAIN seq : biasQ[seq[i][1]] = ToSet(seq[i][2])
TEngineReset == IsEvent("EngineReset") /\ EngineReset(Rec.e) /\ BiasMatch(Rec.bias)
TRewardJoined == IsEvent("RewardJoined") /\ RewardJoined
TCompleteReward == IsEvent("CompleteReward") /\ CompleteReward(Rec.t, ToSet(Rec.row))
TDecide == /\ IsEvent("Decide") /\ Decide
           /\ decision' = PairSet(Rec.decision)
           /\ Vis = PairSet(Rec.vis)               \* the engine's visibility matrix is the merged rows

\* sensor_changes logged as [[s, stepLastTasked, targetPointedAt], ...]
ChangesMatch(ch, seq, kk) ==
   LET logged == {seq[i][1] : i \in DOMAIN seq}
       at(s) == LET i == CHOOSE j \in DOMAIN seq : seq[j][1] = s IN seq[i]
   IN /\ {s \in Sensors : ch[s] # NoChange} = logged
      /\ \A s \in logged : IF ch[s] = Keep THEN at(s)[2] < kk
                           ELSE at(s)[2] = ch[s][1] /\ at(s)[3] = ch[s][2]

TCompleteExec ==
  /\ IsEvent("CompleteExec")
  /\ CompleteExec(Rec.t, ToSet(Rec.slew), ToSet(Rec.hit), PairSet(Rec.ser))
  /\ {<<o[1], o[2]>> : o \in {x \in obsStep' : x[3] \in engT[eng]}} = PairSet(Rec.obs)
  /\ StepBag(savedMiss', k) = Bag3(Rec.miss)
  /\ missHeld' = Bag3(Rec.held)
  /\ ChangesMatch(changes', Rec.changes, k)

PointingMatch(pt, seq, kk) ==
   \A i \in DOMAIN seq : LET s == seq[i][1] IN
        /\ pt[s][1] = seq[i][2]
        /\ (pt[s][1] = kk => pt[s][2] = seq[i][3])
TApplyChanges == IsEvent("ApplyChanges") /\ ApplyChanges /\ PointingMatch(pointing', Rec.pointing, k)
TNextEngine == IsEvent("NextEngine") /\ NextEngine
TCompleteUpdate == /\ IsEvent("CompleteUpdate") /\ CompleteUpdate(Rec.t)
                   /\ {<<o[1], o[2]>> : o \in estObs[Rec.t]} = PairSet(Rec.obs)
                   /\ Cardinality(estObs[Rec.t]) = Len(Rec.obs)
TJoinUpdate == IsEvent("JoinUpdate") /\ JoinUpdate

RowsMatch(d, rows) ==
  /\ d.epochs = ToSet(rows.epochs) /\ Len(rows.epochs) = Cardinality(d.epochs)
  /\ d.truth = Bag2(rows.truth)
  /\ d.est = Bag2(rows.est)
  /\ d.obs = Bag3(rows.obs)
  /\ d.miss = Bag3(rows.miss)
  /\ d.tasks = Bag3(rows.tasks)
\* value-level clauses of C09, evaluated by the audit with plain SQL and logged:
\*   epochs unique, strictly increasing, timestamp = Julian date (independent conversion);
\*   no row refers to a missing epoch or agent; stored states/covariances equal the held ones
\*   at most one detected-maneuver / filter-step row per (epoch, target)
ValuesOk(rows) == rows.epochs_ok /\ rows.dangling = 0 /\ rows.readback /\ rows.dup_rows = 0
TSaveOutput == IsEvent("SaveOutput") /\ SaveOutput /\ RowsMatch(db', Rec.rows) /\ ValuesOk(Rec.rows)
\* a commit that raised: the audit of all tables afterwards must equal the state before
TSaveFail == IsEvent("SaveFail") /\ SaveFail /\ RowsMatch(db', Rec.rows)
TSkipOutput == IsEvent("SkipOutput") /\ SkipOutput
\* end of stepForward: the numeric results of the step (observations, estimates, matrices,
\* sensor state) equal those of the reference schedule of the same scenario (logged boolean)
TEndStep == IsEvent("EndStep") /\ Rec.same /\ UNCHANGED vars

TraceNext ==
  \/ TBeginStep \/ TDeliver \/ TSkipAbsent \/ TEndStepEvents \/ TTicToc \/ TEndBiasEvents \/ TRewardJoined \/ TSaveFail
  \/ TCompletePropagate \/ TJoinPropagate \/ TCompletePredict \/ TJoinPredict
  \/ TEngineReset \/ TCompleteReward \/ TDecide \/ TCompleteExec \/ TApplyChanges \/ TNextEngine
  \/ TCompleteUpdate \/ TJoinUpdate \/ TSaveOutput \/ TSkipOutput \/ TEndStep

TraceSpec == TraceInit /\ [][TraceNext]_tvars

\* progress report: the harness derives the verdict from these lines
\* one line per reached (trace, position): the longest explained prefix of every trace
Accept == PrintT(<<"AT", tid, l, Len(Tr) + 1>>)
=============================================================================
