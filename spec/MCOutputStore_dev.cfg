SPECIFICATION Spec
CONSTANTS Agents = {1, 2}
  MaxTick = 1
  MaxRows = 1
  MaxDup = 1
  Ops = {"insert","delete","interval","epoch"}
  Dev = "none"
  EmitEdges = FALSE
  Posed = TRUE
  QIdSets <- IdsThree
CONSTRAINT DepthOne
INVARIANT QuerySound
INVARIANT QueryComplete
INVARIANT PointIntervalIsEpoch
PROPERTY WriteAtomic
PROPERTY DeleteExact
