SPECIFICATION SpecSeconds
CONSTANTS FirstYear = 1901 LastYear = 2099
CONSTANT JumpDates <- DatesThorough
CONSTANT JumpSods <- SodsThorough
CONSTRAINT Within10
INVARIANT TypeOK
INVARIANT MonthLengths
INVARIANT LeapRule
INVARIANT DoyCorrect
INVARIANT ClosedFormDayNumber
INVARIANT ClosedForm1901
INVARIANT DayNumberRoundTrip
INVARIANT HmsRoundTrip
INVARIANT RoundTrip
INVARIANT TickLength
INVARIANT OffsetsRoundTrip
INVARIANT StartInversionExact
INVARIANT EmitTick
PROPERTY Monotone
