\* spec -> impl, random long histories (tlc -simulate): length 30, dimensions 1..8,
\* windows 1..10, six fading factors, five significance levels, NIS in steps of 1/2.
SPECIFICATION SimSpec
CONSTANTS Kinds = {"standard", "sliding", "fading"} Windows = {1, 2, 3, 4, 5, 6, 7, 8, 9, 10} NAlpha = 5 Bank = TRUE
          NisVals = {0, 1, 2, 3, 4, 5, 6, 8, 10, 12, 15, 18, 22, 27, 33, 40, 50, 64, 80}
          NisDen = 2 Dims = {1, 2, 3, 4, 5, 6, 7, 8}
          MaxLen = 30 FadeLen = 30 Trim = FALSE KeepHist = TRUE
CONSTANT Deltas <- DeltasWide
INVARIANT TypeOK
INVARIANT DetectIffReaches
INVARIANT WindowIsLastW
INVARIANT MemoryUntouched
INVARIANT DocStandard
INVARIANT DocSliding
INVARIANT Emit
