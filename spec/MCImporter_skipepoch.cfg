INIT MCInitEpochs
NEXT Next
CONSTANTS Configs = {}
  CountBasedCheck = FALSE
  SkipEpochWithoutRow = TRUE
  LoadEveryEngine = FALSE
  LoadOnlyOwnTargets = FALSE
INVARIANT ImportFaithful
INVARIANT NoStaleState
INVARIANT ObsReachFilter
PROPERTY ImporterReadOnly
