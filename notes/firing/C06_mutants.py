import subprocess, shutil, sys, os, re, time
BASE="/tmp/c06repo"          # scratch copy WITH the D11 candidate fix applied
UKF="src/resonaate/estimation/kalman/unscented_kalman_filter.py"
RES="src/resonaate/estimation/results.py"
M=[
 ("M01_cvr_weights_for_mean", UKF, "self.pred_x = self.sigma_points.dot(self.mean_weight)", "self.pred_x = self.sigma_points.dot(self.cvr_weight.diagonal())"),
 ("M02_Q_twice", UKF, "self.cvr_weight.dot(self.sigma_x_res.T)) + self.q_matrix", "self.cvr_weight.dot(self.sigma_x_res.T)) + 2 * self.q_matrix"),
 ("M03_Q_dropped", UKF, "self.cvr_weight.dot(self.sigma_x_res.T)) + self.q_matrix", "self.cvr_weight.dot(self.sigma_x_res.T))"),
 ("M04_gain_prev_step_in_est_p", UKF,
  "        self.kalman_gain = self.cross_cvr.dot(inv(self.innov_cvr))\n\n        # STEP 4: Update the error covariance (P(k + 1|k + 1))\n        self.est_p = self.pred_p - self.kalman_gain.dot(self.innov_cvr.dot(self.kalman_gain.T))",
  "        old_gain = self.kalman_gain\n        self.kalman_gain = self.cross_cvr.dot(inv(self.innov_cvr))\n        g = old_gain if old_gain.shape == self.kalman_gain.shape else self.kalman_gain\n        self.est_p = self.pred_p - g.dot(self.innov_cvr.dot(g.T))"),
 ("M05_R_block_order_swapped", UKF, "block_diag(*[ob.r_matrix for ob in observations])", "block_diag(*[ob.r_matrix for ob in reversed(observations)])"),
 ("M06_kappa_sign", UKF, "lambda_kf = (alpha**2) * (self.x_dim + kappa) - self.x_dim", "lambda_kf = (alpha**2) * (self.x_dim - kappa) - self.x_dim"),
 ("M07_centre_weight_wrong_index", UKF, "self.mean_weight[0] = first_weight", "self.mean_weight[1] = first_weight"),
 ("M08_noobs_wrong_sigma_index", UKF, "self.est_x = self.sigma_points[:, 0]", "self.est_x = self.sigma_points[:, 1]"),
 ("M09_always_resample", UKF, "        if self._resample:\n            self.sigma_points = self.generateSigmaPoints(self.pred_x, self.pred_p)", "        if True:\n            self.sigma_points = self.generateSigmaPoints(self.pred_x, self.pred_p)"),
 ("M10_gamma_uses_kappa", UKF, "self.gamma = sqrt(self.x_dim + lambda_kf)", "self.gamma = sqrt(self.x_dim + kappa)"),
 ("M11_gain_without_inverse_of_R_part", UKF, "self.kalman_gain = self.cross_cvr.dot(inv(self.innov_cvr))", "self.kalman_gain = self.cross_cvr.dot(inv(self.innov_cvr - self.r_matrix + self.r_matrix.T * 1.0000001))"),
 ("M12_result_drops_sigma_x_res", RES, "    sigma_x_res: ndarray\n    \"\"\":math:`N\\times S` state sigma point residuals.\"\"\"\n", ""),
 ("M13_true_y_stack_reversed", UKF, "concatenate([ob.measurement_states for ob in observations], axis=0)", "concatenate([ob.measurement_states for ob in reversed(observations)], axis=0)"),
 ("M14_weight_off_by_one", UKF, "weight = 1 / (2.0 * (lambda_kf + self.x_dim))", "weight = 1 / (2.0 * (lambda_kf + self.x_dim) + 1)"),
 ("M15_est_p_plus", UKF, "self.est_p = self.pred_p - self.kalman_gain.dot(self.innov_cvr.dot(self.kalman_gain.T))", "self.est_p = self.pred_p - self.kalman_gain.dot(self.r_matrix.dot(self.kalman_gain.T))"),
 ("M16_cross_cvr_mean_weights", UKF, "self.cross_cvr = self.sigma_x_res.dot(self.cvr_weight.dot(self.sigma_y_res.T))", "self.cross_cvr = self.sigma_x_res.dot(self.cvr_weight.dot(self.sigma_y_res.T)) * (1 + 1e-6)"),
]
only=sys.argv[1:] 
for name,f,old,new in M:
    if only and not any(o in name for o in only): continue
    d=f"/tmp/c06/mut/{name}"
    shutil.rmtree(d, ignore_errors=True); os.makedirs(d)
    shutil.copytree(BASE+"/src", d+"/src")
    p=d+"/"+f; s=open(p).read()
    if s.count(old)!=1:
        print(name, "PATTERN COUNT", s.count(old)); continue
    open(p,"w").write(s.replace(old,new))
    t=time.time()
    r=subprocess.run(["./check","C06","--tier","quick"],cwd="/verif",env=dict(os.environ,VERIF_REPO=d),capture_output=True,text=True,timeout=1200)
    out=r.stdout+r.stderr
    sigs=[]
    for m in re.finditer(r"replay=(\S+)",out):
        import json
        try: sigs.append(json.load(open(m.group(1)))["signature"])
        except Exception as e: sigs.append("?")
    print(f"{name}: exit {r.returncode} ({time.time()-t:.0f}s) sigs={sigs}", flush=True)
    if r.returncode==2: print(out[-800:])
    shutil.rmtree(d, ignore_errors=True)
