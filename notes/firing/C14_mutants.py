"""Code mutants used to demonstrate non-vacuity of ./check C14 (kept for reference).
Usage: mkdir -p /tmp/c14scratch && cp -r /repo/src /repo/tests /tmp/c14scratch/ ; apply the D7 hunk of
notes/candidate_fixes.diff and notes/firing/C14_sunfrac_candidate_fix.diff to the copy (so that the baseline
exits 0), then `python3 C14_mutants.py [M1 M2 ...]`.  Each mutant is applied to the scratch copy, the quick
check is run with VERIF_REPO=/tmp/c14scratch, and the file is restored.  Result on 2026-09-29: M1-M17, M21,
M22 exit 1 (caught); M18-M20 (<= versus < exactly on an edge) exit 0: undecided by the margin rule."""
import subprocess, shutil, sys, re, os
ROOT="/tmp/c14scratch/src/resonaate/"
M = [
 ("M1 mask wrap branch: or -> and", "sensors/sensor_base.py", "azimuth >= self.az_mask[0] or azimuth <= self.az_mask[1]", "azimuth >= self.az_mask[0] and azimuth <= self.az_mask[1]"),
 ("M2 mask branch select: > -> >=", "sensors/sensor_base.py", "if self.az_mask[0] > self.az_mask[1] and (", "if self.az_mask[0] >= self.az_mask[1] and ("),
 ("M3 conic: full angle instead of half", "sensors/field_of_view.py", "return angle <= self.cone_angle / 2", "return angle <= self.cone_angle"),
 ("M4 lineOfSight: drop closest-point-interior test", "physics/sensor_utils.py", "    if tau < 0.0 or tau > 1.0:\n        return True\n", ""),
 ("M5 limb: radius without atmosphere", "physics/sensor_utils.py", "body_limb=Earth.radius + Earth.atmosphere,", "body_limb=Earth.radius,"),
 ("M6 rect: elevation full angle instead of half", "sensors/field_of_view.py", "elevation_angle <= self.elevation_angle / 2", "elevation_angle <= self.elevation_angle"),
 ("M7 lineOfSight: drop 'or tau > 1.0'", "physics/sensor_utils.py", "if tau < 0.0 or tau > 1.0:", "if tau < 0.0:"),
 ("M8 sun: early exit comparison flipped", "physics/sensor_utils.py", "if norm(sun_eci_position) >= norm(sat_sun_vector):", "if norm(sun_eci_position) <= norm(sat_sun_vector):"),
 ("M9 rect fix variant: wrap to [0,2pi) instead of (-pi,pi]", "sensors/field_of_view.py", "abs(wrapAngleNegPiPi(pointing_azimuth - background_azimuth))", "abs(wrapAngle2Pi(pointing_azimuth - background_azimuth))"),
 ("M10 el mask: or -> and", "sensors/sensor_base.py", "if elevation < self.el_mask[0] or elevation > self.el_mask[1]:", "if elevation < self.el_mask[0] and elevation > self.el_mask[1]:"),
 ("M11 rect: elevation sign", "sensors/field_of_view.py", "abs(pointing_elevation - background_elevation)", "abs(pointing_elevation + background_elevation)"),
 ("M12 getAzimuth mirrored (x sign)", "physics/measurements.py", "azimuth = arctan2(slant_range_sez[1], -1.0 * slant_range_sez[0])", "azimuth = arctan2(slant_range_sez[1], slant_range_sez[0])"),
 ("M13 lineOfSight: tau numerator uses r2sq", "physics/sensor_utils.py", "tau = (r1sq - r1_dot_r2) / (r1sq + r2sq - 2 * r1_dot_r2)", "tau = (r2sq - r1_dot_r2) / (r1sq + r2sq - 2 * r1_dot_r2)"),
 ("M14 sun: full occultation c < |b-a| -> c < b+a... partial branch swapped", "physics/sensor_utils.py", "if c < abs(b - a):\n        return 0.0", "if c < abs(b - a) / 2:\n        return 0.0"),
 ("M15 limb: strict > flipped to target above limb", "physics/sensor_utils.py", "return limb_elevation > target_elevation", "return limb_elevation + PI / 180 > target_elevation"),
 ("M16 mask: lo<=az<=hi uses az_mask[1] twice (wrong index)", "sensors/sensor_base.py", "self.az_mask[0] <= azimuth <= self.az_mask[1]", "self.az_mask[1] <= azimuth <= self.az_mask[1]"),
 ("M17 sun: partial fraction not subtracted from 1", "physics/sensor_utils.py", "return 1.0 - A / (PI * a**2)", "return 1.0 + A / (PI * a**2)"),
 ("M18 rect: az <= half -> <", "sensors/field_of_view.py", "azimuth_angle <= self.azimuth_angle / 2 and", "azimuth_angle < self.azimuth_angle / 2 and"),
 ("M19 mask: lo <= az -> lo < az", "sensors/sensor_base.py", "self.az_mask[0] <= azimuth <= self.az_mask[1]", "self.az_mask[0] < azimuth <= self.az_mask[1]"),
 ("M20 lineOfSight: >= R^2 -> > R^2", "physics/sensor_utils.py", "* tau >= Earth.radius**2", "* tau > Earth.radius**2"),
 ("M21 limb: elevation from slant z uses index 1 (wrong index in getElevation)", "physics/measurements.py", "return arcsin(slant_range_sez[2] / norm(slant_range_sez[:3]))", "return arcsin(slant_range_sez[1] / norm(slant_range_sez[:3]))"),
 ("M22 sun: Earth radius replaced by Sun/Earth swap in b", "physics/sensor_utils.py", "b = arcsin(Earth.radius / norm(tgt_eci_position))", "b = arcsin(Earth.radius / norm(sat_sun_vector))"),
]
sel = sys.argv[1:]
for name, f, old, new in M:
    if sel and name.split()[0] not in sel: continue
    path = ROOT + f
    src = open(path).read()
    if old not in src:
        print(name, "-> PATTERN NOT FOUND"); continue
    mut = src.replace(old, new)
    if "wrapAngle2Pi(" in new and "wrapAngle2Pi" not in src:
        mut = mut.replace("from ..physics.maths import subtendedAngle, wrapAngleNegPiPi", "from ..physics.maths import subtendedAngle, wrapAngle2Pi, wrapAngleNegPiPi")
    open(path, "w").write(mut)
    try:
        p = subprocess.run(["./check", "C14", "--tier", "quick"], cwd="/verif", env=dict(os.environ, VERIF_REPO="/tmp/c14scratch"), capture_output=True, text=True, timeout=1200)
        out = p.stdout + p.stderr
        sigs = []
        for m in re.finditer(r"replay=(\S+)", out):
            import json
            sigs.append(json.load(open(m.group(1)))["signature"])
        last = [l for l in out.splitlines() if l.startswith("C14 tier") or "MACHINERY" in l]
        print(f"{name} -> exit {p.returncode} sigs={sigs} {last[-1] if last else out[-300:]}", flush=True)
    finally:
        open(path, "w").write(src)
