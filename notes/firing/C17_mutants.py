"""Non-vacuity of ./check C17: apply one mutation at a time to a scratch copy of the repository
and run the check against it (VERIF_REPO).  Usage:

    /venv/bin/python notes/firing/C17_mutants.py [name ...]      (TIER=thorough, PYTEST=1 optional)

Creates /tmp/c17mut (src + tests), removes it at the end.  Result of the last sweep (quick
tier, 2026-09-29): all 17 mutants exit 1; see C17_mutants.txt.
"""
import os
import re
import shutil
import subprocess
import sys
import time

ROOT = "/tmp/c17mut"
MD = "src/resonaate/estimation/maneuver_detection.py"
ST = "src/resonaate/physics/statistics.py"
SF = "src/resonaate/estimation/sequential_filter.py"
QF = "self.prior_nis = self.delta * self.prior_nis + chiSquareQuadraticForm(residual, innov_cvr)"
M = {
    "m01_window_plus1": (MD, "self.nis_list = deque(maxlen=window_size)\n        self.dim_list = deque(maxlen=window_size)",
                         "self.nis_list = deque(maxlen=window_size + 1)\n        self.dim_list = deque(maxlen=window_size + 1)"),
    "m02_lt_to_le": (ST, "upper_bound = chi2.isf(alpha, dof * runs) / runs\n    return metric < upper_bound",
                     "upper_bound = chi2.isf(alpha, dof * runs) / runs\n    return metric <= upper_bound"),
    "m03_sliding_dof_latest_dim_times_len": (MD, "dof = sum(self.dim_list)", "dof = residual.shape[0] * len(self.dim_list)"),
    "m04_sliding_dof_w_times_dim": (MD, "dof = sum(self.dim_list)", "dof = self.window_size * residual.shape[0]"),
    "m05_fading_factor_after_add": (MD, QF, "self.prior_nis = self.delta * (self.prior_nis + chiSquareQuadraticForm(residual, innov_cvr))"),
    "m06_fading_missing_1_plus_delta": (MD, "self.metric = self.prior_nis * (1 + self.delta)", "self.metric = self.prior_nis"),
    "m07_fading_dof_latest_dim": (MD, "dof = avg_dim * (1 + self.delta) / (1 - self.delta)", "dof = dim * (1 + self.delta) / (1 - self.delta)"),
    "m08_dimlist_only_plus1": (MD, "self.dim_list = deque(maxlen=window_size)", "self.dim_list = deque(maxlen=window_size + 1)"),
    "m09_quadform_no_inverse": (ST, "return residual.T.dot(inv(covariance).dot(residual))", "return residual.T.dot(covariance.dot(residual))"),
    "m10_flag_always": (SF, "        if not self.maneuver_detected:\n            return\n\n        self.flags |= FilterFlag.MANEUVER_DETECTION",
                        "        self.flags |= FilterFlag.MANEUVER_DETECTION\n        if not self.maneuver_detected:\n            return\n"),
    "m11_fading_total_off_by_one": (MD, "self.total_dim = 0\n        self.total = 0", "self.total_dim = 0\n        self.total = 1"),
    "m12_standard_returns_test": (MD, "        self.metric = chiSquareQuadraticForm(residual, innov_cvr)\n        return not test(self.metric, self.threshold, dof)\n\n\nclass SlidingNis",
                                  "        self.metric = chiSquareQuadraticForm(residual, innov_cvr)\n        return bool(test(self.metric, self.threshold, dof))\n\n\nclass SlidingNis"),
    "m13_sliding_metric_mean": (MD, "self.metric = sum(self.nis_list)", "self.metric = sum(self.nis_list) / len(self.nis_list)"),
    "m14_fading_dof_1_minus_over_1_plus": (MD, "dof = avg_dim * (1 + self.delta) / (1 - self.delta)", "dof = avg_dim * (1 - self.delta) / (1 + self.delta)"),
    "m15_window_minus1_when_gt1": (MD, "self.nis_list = deque(maxlen=window_size)", "self.nis_list = deque(maxlen=max(1, window_size - 1))"),
    "m16_fading_prior_not_stored": (MD, QF + "\n        # Moment-match metric value\n        self.metric = self.prior_nis * (1 + self.delta)",
                                    "prior_nis = self.delta * self.prior_nis + chiSquareQuadraticForm(residual, innov_cvr)\n        # Moment-match metric value\n        self.metric = prior_nis * (1 + self.delta)"),
    "m17_isf_to_ppf": (ST, "upper_bound = chi2.isf(alpha, dof * runs) / runs\n    return metric < upper_bound",
                       "upper_bound = chi2.ppf(alpha, dof * runs) / runs\n    return metric < upper_bound"),
}


def main():
    shutil.rmtree(ROOT, ignore_errors=True)
    os.makedirs(ROOT)
    shutil.copytree("/repo/src", ROOT + "/src")
    shutil.copytree("/repo/tests", ROOT + "/tests")
    try:
        for name in sys.argv[1:] or sorted(M):
            f, a, b = M[name]
            for ff in (MD, ST, SF):
                shutil.copy("/repo/" + ff, f"{ROOT}/{ff}")
            t = open(f"{ROOT}/{f}").read()
            assert t.count(a) == 1, (name, t.count(a))
            open(f"{ROOT}/{f}", "w").write(t.replace(a, b))
            t0 = time.time()
            p = subprocess.run(["./check", "C17", "--tier", os.environ.get("TIER", "quick")], cwd="/verif",
                               env=dict(os.environ, VERIF_REPO=ROOT), capture_output=True, text=True)
            sigs = set()
            for line in p.stdout.splitlines():
                if line.startswith("VIOLATION"):
                    path = line.split("replay=")[1]
                    sigs.add(re.search(r'"signature": "([^"]*)"', open(path).read()).group(1))
                    os.remove(path)
            print(f"{name}: exit {p.returncode} in {time.time() - t0:.0f}s; " + "; ".join(sorted(sigs)), flush=True)
            if p.returncode == 2:
                print(p.stderr[-1500:])
            if os.environ.get("PYTEST"):
                q = subprocess.run(["/venv/bin/python", "-m", "pytest", "-q", "-p", "no:cacheprovider", "tests/estimation/test_maneuver_detection.py",
                                    "tests/physics/test_statistics.py"], cwd=ROOT, env=dict(os.environ, PYTHONPATH=ROOT + "/src"),
                                   capture_output=True, text=True)
                print("   repository tests:", q.stdout.strip().splitlines()[-1] if q.stdout.strip() else q.stderr[-300:], flush=True)
    finally:
        shutil.rmtree(ROOT, ignore_errors=True)


if __name__ == "__main__":
    main()
