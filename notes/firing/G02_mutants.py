"""Apply one code mutant at a time to a copy of the (candidate-fixed) scratch tree and run ./check G02."""
import os, shutil, subprocess, sys, re
BASE = "/tmp/g02/repo"
MUT = "/tmp/g02/mut"
EA = "src/resonaate/agents/estimate_agent.py"
EU = "src/resonaate/parallel/estimate_update.py"
AF = "src/resonaate/estimation/adaptive/adaptive_filter.py"
M = {
 "M1_processResults_drops_iod_start_time": (EU, "        self._registrant.iod_start_time = results.iod_start_time\n", "        pass\n"),
 "M2_processResults_extends_detected_maneuvers": (EU, "            self._registrant._detected_maneuvers = results.detected_maneuvers  # noqa: SLF001\n",
                                                   "            self._registrant._detected_maneuvers.extend(results.detected_maneuvers)  # noqa: SLF001\n"),
 "M3_resume_keeps_START_flag": (AF, "        if FilterFlag.ADAPTIVE_ESTIMATION_START in self.flags:\n            self.flags ^= FilterFlag.ADAPTIVE_ESTIMATION_START\n        self.flags |= FilterFlag.ADAPTIVE_ESTIMATION_CLOSE\n",
                                "        self.flags |= FilterFlag.ADAPTIVE_ESTIMATION_CLOSE\n"),
 "M3b_handleMMAE_keeps_CLOSE_on_discarded_filter": (EA, "            self.nominal_filter.flags ^= FilterFlag.ADAPTIVE_ESTIMATION_CLOSE\n", "            pass\n"),
 "M4_finalizeUpdate_last_observed_without_obs": (EA, "        if not observed:\n            return\n\n        self.last_observed_at = self.julian_date_epoch\n",
                                                 "        self.last_observed_at = self.julian_date_epoch\n        if not observed:\n            return\n\n"),
 "M5_update_without_observations_not_skipped": (EA, "        if not observations:\n            return\n\n        if self.nominal_filter.maneuver_detected:", "        if self.nominal_filter.maneuver_detected:"),
 "M6_iod_active_off_by_one": (EA, "self.iod_start_time is not None and self.iod_start_time < self.time", "self.iod_start_time is not None and self.iod_start_time <= self.time"),
 "M7_iod_success_keeps_start_time": (EA, "                self.iod_start_time = None\n                self.nominal_filter.est_x = iod_state\n", "                self.nominal_filter.est_x = iod_state\n"),
 "M8_processResults_finalizes_before_reset": (EU, "        self._registrant._resetFilter(results.updated_filter)  # noqa: SLF001\n        self._registrant._finalizeUpdate(results.observed)  # noqa: SLF001\n",
                                              "        self._registrant._finalizeUpdate(results.observed)  # noqa: SLF001\n        self._registrant._resetFilter(results.updated_filter)  # noqa: SLF001\n"),
 "M9_getDetectedManeuvers_does_not_clear": (EA, "        detections = self._detected_maneuvers\n        self._detected_maneuvers = []\n", "        detections = list(self._detected_maneuvers)\n"),
 "M10_converged_filter_at_antecedent_time": (AF, "            tgt_id=self.target_id,\n            time=self.time,\n", "            tgt_id=self.target_id,\n            time=self.mmae_antecedent_time,\n"),
 "M11_iod_success_does_not_replace_estimate": (EA, "                self.iod_start_time = None\n                self.nominal_filter.est_x = iod_state\n", "                self.iod_start_time = None\n"),
}
names = sys.argv[1:] or list(M)
for name in names:
    f, old, new = M[name]
    shutil.rmtree(MUT, ignore_errors=True)
    shutil.copytree(BASE, MUT)
    p = os.path.join(MUT, f)
    s = open(p).read()
    assert s.count(old) == 1, (name, s.count(old))
    open(p, "w").write(s.replace(old, new))
    r = subprocess.run(["./check", "G02"], cwd="/verif", env={**os.environ, "VERIF_REPO": MUT}, capture_output=True, text=True, timeout=400)
    out = r.stdout + r.stderr
    sigs = sorted(set(re.findall(r"^# ([^ ]+): ", out, re.M)))
    print(name, "exit", r.returncode, "signatures", sigs[:6], flush=True)
    if r.returncode == 2:
        print(out[-1500:])
shutil.rmtree(MUT, ignore_errors=True)
