---- MODULE DecTrace ----
EXTENDS Integers, Sequences, FiniteSets, Json, IOUtils, TLC, FiniteSetsExt, Functions
Recs == ndJsonDeserialize(IOEnv.TRACE_FILE)
RECURSIVE SumSeq(_)
SumSeq(s) == IF s = <<>> THEN 0 ELSE Head(s) + SumSeq(Tail(s))
Rows(r) == 1..r.nt
Cols(r) == 1..r.ns
\* complete one-to-one assignments: injections from the smaller side
Assignments(r) ==
  IF r.nt <= r.ns
  THEN { {<<t, f[t]>> : t \in Rows(r)} : f \in {g \in [Rows(r) -> Cols(r)] : \A a, b \in Rows(r) : a # b => g[a] # g[b]} }
  ELSE { {<<f[s], s>> : s \in Cols(r)} : f \in {g \in [Cols(r) -> Rows(r)] : \A a, b \in Cols(r) : a # b => g[a] # g[b]} }
Total(r, A) == FoldSet(LAMBDA p, acc : acc + r.R[p[1]][p[2]], 0, A)
MaxTotal(r) == LET As == Assignments(r) IN {A \in As : \A B \in As : Total(r, B) <= Total(r, A)}
Mask(r, A) == {p \in A : r.V[p[1]][p[2]] = 1}
Dset(r) == {<<t, s>> \in Rows(r) \X Cols(r) : r.D[t][s] = 1}
OkMunkres(r) == \E A \in MaxTotal(r) : Mask(r, A) = Dset(r)
ColMax(r, s) == {t \in Rows(r) : \A u \in Rows(r) : r.R[u][s] <= r.R[t][s]}
OkGreedy(r) == \E f \in [Cols(r) -> Rows(r)] : (\A s \in Cols(r) : f[s] \in ColMax(r, s))
                   /\ Mask(r, {<<f[s], s>> : s \in Cols(r)}) = Dset(r)
Ok(r) == IF r.p = "munkres" THEN OkMunkres(r) ELSE OkGreedy(r)
VARIABLE i
Init == i = 1
Next == i <= Len(Recs) /\ (Ok(Recs[i]) \/ PrintT(<<"REJECT", i>>)) /\ Ok(Recs[i]) /\ i' = i + 1
Spec == Init /\ [][Next]_i
Accepted == TLCGet("stats").diameter - 1 = Len(Recs)
====
