import sys, warnings
warnings.filterwarnings("ignore")
import os; sys.path.insert(0,os.environ.get("RSRC","/repo/src"))
import numpy as np
from functools import partial
from resonaate.dynamics.celestial import Celestial
from resonaate.dynamics.integration_events.finite_thrust import ScheduledFiniteBurn, eciBurn
from resonaate.dynamics.integration_events.scheduled_impulse import ScheduledECIImpulse
from resonaate.physics.time.stardate import ScenarioTime
class Lin(Celestial):
    """constant acceleration g + optional thrust; exactly integrable."""
    G=np.array([0.,0.,0.])
    def _differentialEquation(self,time,state,check_collision=True):
        step=state.shape[0]//6; half=state.shape[0]//2
        d=np.empty_like(state)
        for jj in range(step):
            d[jj:jj+half:step]=state[jj+half::step]
            a=self.G.copy()
            if self.finite_thrust:
                a=a+self.finite_thrust(np.concatenate((state[jj:jj+half:step],state[jj+half::step])))[:3]
            d[jj+half::step]=a
        return d
dyn=Lin()
x0=np.array([1.,2,3,4,5,6])
# composability exactness
a=dyn.propagate(0,300,x0.copy()); b=dyn.propagate(100,300,dyn.propagate(0,100,x0.copy()))
print("lin exact:",a, np.abs(a-b).max())
# batch
X=np.stack([x0,2*x0,3*x0],axis=1)
B=dyn.propagate(0,300,X.copy()); print("batch ok", np.abs(B[:,1]-dyn.propagate(0,300,2*x0)).max())
# bulk
T=dyn.propagateBulk([0,60,120,300],X.copy()); print("bulk shape",T.shape, np.abs(T[:,2,1]-dyn.propagate(0,120,3*x0)).max())
# burn inside the step
ev=ScheduledFiniteBurn(ScenarioTime(10),ScenarioTime(20),partial(eciBurn,acc_vector=np.array([0,0,1.0])),1)
s=dyn.propagate(0,60,x0.copy(),scheduled_events=[ev]); print("burn 10-20 in [0,60]: vz gain",s[5]-x0[5],"expected 10")
ev=ScheduledFiniteBurn(ScenarioTime(10),ScenarioTime(60),partial(eciBurn,acc_vector=np.array([0,0,1.0])),1)
s=dyn.propagate(0,60,x0.copy(),scheduled_events=[ev]); print("burn 10-60 in [0,60]: vz gain",s[5]-x0[5],"expected 50")
