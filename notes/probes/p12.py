import sys, os, warnings
warnings.filterwarnings("ignore")
sys.path.insert(0,os.environ.get("RSRC","/repo/src"))
import numpy as np
from functools import partial
from resonaate.dynamics.integration_events.finite_thrust import ScheduledFiniteBurn, eciBurn, ntwBurn
from resonaate.dynamics.integration_events.event_stack import EventStack
from resonaate.physics.time.stardate import ScenarioTime, JulianDate
from resonaate.dynamics.special_perturbations import SpecialPerturbations
from resonaate.scenario.config.geopotential_config import GeopotentialConfig
from resonaate.scenario.config.perturbations_config import PerturbationsConfig
dyn=SpecialPerturbations(JulianDate(2459304.1666666665),GeopotentialConfig(model="egm96.txt",degree=2,order=0),PerturbationsConfig(third_bodies=[]),0.0)
x0=np.array([7000.,0,0,0,7.546,0])
ev=ScheduledFiniteBurn(ScenarioTime(120.0),ScenarioTime(240.0),partial(ntwBurn,acc_vector=np.array([0,0,0.002])),1)
import resonaate.dynamics.celestial as C
calls=[]
_orig=ScheduledFiniteBurn.getStateChangeCallback
def cb(self,t):
    r=_orig(self,t); calls.append((float(t), r is not None)); return r
ScheduledFiniteBurn.getStateChangeCallback=cb
s=dyn.propagate(0,300,x0.copy(),scheduled_events=[ev]); r=dyn.propagate(0,300,x0.copy())
print("callbacks",calls); print("dv vs ref", s[3:]-r[3:], "dpos", s[:3]-r[:3])
