SPECIFICATION TraceSpec
CONSTANTS
  Sensors <- TSensors
  Targets <- TTargets
  Policy <- TPolicy
  NSteps <- TNSteps
  ResetChangesPerJob = FALSE
  MissListSquared = FALSE
  KeepStaleChanges = FALSE
INVARIANT OneRecordPerTasking
INVARIANT NoRecordWithoutTasking
INVARIANT PointingReflectsTasking
INVARIANT RowsExact
POSTCONDITION TraceAccepted
CHECK_DEADLOCK FALSE
