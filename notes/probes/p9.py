import sys, warnings, logging
warnings.filterwarnings("ignore")
sys.path.insert(0,"/tmp/probe")
import fakeray; fakeray.install()
sys.path.insert(0,"/repo/src")
logging.disable(logging.CRITICAL)
import json, copy
import numpy as np
from resonaate.scenario.config import ScenarioConfig
from resonaate.scenario.scenario_builder import ScenarioBuilder
from resonaate.scenario.scenario import Scenario
from resonaate.data import setDBPath
from resonaate.sensors.sensor_base import Sensor
from resonaate.data.observation import MissedObservation
from resonaate.common.utilities import getTypeString
import resonaate.parallel.tasking_reward_generation as trg
setDBPath("sqlite://")
cfg=ScenarioConfig.fromConfigFile("/repo/tests/datafiles/json/config/init_messages/minimal_init.json")
cfg.engines[0].decision.name="AllVisibleDecision"
print("decision cfg:",cfg.engines[0].decision, "reward:",cfg.engines[0].reward)
b=ScenarioBuilder(cfg)
app=Scenario(b.config,b.clock,b.target_agents,b.estimate_agents,b.sensor_agents,b.tasking_engines,logger=b.logger)
# force: every sensor "sees" the estimate, every attempt misses
orig_predict=trg.predictObservation
def fake_predict(sensing_agent, estimate_agent):
    from resonaate.data.observation import Observation
    return Observation.fromMeasurement(epoch_jd=sensing_agent.julian_date_epoch,target_id=estimate_agent.simulation_id,tgt_eci_state=estimate_agent.eci_state,sensor_id=sensing_agent.simulation_id,sensor_eci=sensing_agent.eci_state,sensor_type=getTypeString(sensing_agent.sensors),measurement=sensing_agent.sensors.measurement,noisy=False)
trg.predictObservation=fake_predict
Sensor.canSlew=lambda self,sez: True
def fake_attempt(self,target_agent,pointing_sez):
    return MissedObservation(julian_date=self.host.julian_date_epoch,sensor_type=getTypeString(self),sensor_id=self.host.simulation_id,target_id=target_agent.simulation_id,sensor_eci=self.host.eci_state,reason="Line of Sight")
Sensor.attemptObservation=fake_attempt
eng=list(app.tasking_engines.values())[0]
for i in range(2):
    app.stepForward()
    print("step",i+1,"decision sum",int(eng.decision_matrix.sum()),"missed_observations prop",len(eng.missed_observations),"saved",len(eng._saved_missed_observations),"sensor_changes",len(eng.sensor_changes))
    app.saveDatabaseOutput()
