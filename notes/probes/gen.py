import sys, json, itertools, warnings
warnings.filterwarnings("ignore")
sys.path.insert(0,"/repo/src")
import numpy as np
from resonaate.tasking.decisions.decisions import MunkresDecision, MyopicNaiveGreedyDecision
n=int(sys.argv[1]); out=sys.argv[2]
rng=np.random.default_rng(0)
pol={"munkres":MunkresDecision(),"greedy":MyopicNaiveGreedyDecision()}
with open(out,"w") as f:
    for i in range(n):
        nt=int(rng.integers(1,4)); ns=int(rng.integers(1,4))
        R=rng.integers(-1,3,size=(nt,ns)); V=rng.integers(0,2,size=(nt,ns)).astype(bool)
        p="munkres" if i%2 else "greedy"
        D=pol[p].calculate(R.astype(float),V)
        f.write(json.dumps({"p":p,"nt":nt,"ns":ns,"R":R.tolist(),"V":V.astype(int).tolist(),"D":D.astype(int).tolist()})+"\n")
