import sys
sys.path.insert(0,"/repo/src")
import numpy as np
from resonaate.dynamics.two_body import TwoBody
from resonaate.dynamics.integration_events.scheduled_impulse import ScheduledECIImpulse
from resonaate.dynamics.integration_events.event_stack import EventStack
from resonaate.physics.time.stardate import ScenarioTime
from resonaate.physics.maths import fpe_equals
x0=np.array([7000.,0,0,0,7.546,0])
dyn=TwoBody()
for tev in [300.0, 299.99997, 300.00003, 150.0]:
    ev=ScheduledECIImpulse(ScenarioTime(tev), np.array([0,0,0.1]), 1)
    # reference without event
    ref1=dyn.propagate(0,300,x0.copy()); ref2=dyn.propagate(300,600,ref1.copy())
    q=[ev]
    def prune(q,t):
        return [e for e in q if t<e.time or fpe_equals(e.time,t)]
    s=x0.copy(); t=0.0
    q1=prune(q,t); s1=dyn.propagate(0,300,s,scheduled_events=q1)
    q2=prune(q,300.0); s2=dyn.propagate(300,600,s1.copy(),scheduled_events=q2)
    q3=prune(q,600.0); s3=dyn.propagate(600,900,s2.copy(),scheduled_events=q3)
    ref3=dyn.propagate(600,900,ref2.copy())
    print(tev, "in-queue", len(q1),len(q2),len(q3), "dvz after1 %.4f after2 %.4f after3 %.4f"%(s1[5]-ref1[5], s2[5]-ref2[5], s3[5]-ref3[5]))
