SPECIFICATION TraceSpec
CONSTANTS
  Sensors <- TSensors
  Targets <- TTargets
  Policy <- TPolicy
  NSteps <- TNSteps
  ResetChangesPerJob = TRUE
  MissListSquared = TRUE
  KeepStaleChanges = TRUE
POSTCONDITION TraceAccepted
CHECK_DEADLOCK FALSE
