"""Probe: output DB of one run used as importer DB of the next; gap + superset behaviour."""
import sys, os, warnings, logging, json, shutil, sqlite3, hashlib
warnings.filterwarnings("ignore")
sys.path.insert(0,"/tmp/probe"); import fakeray; fakeray.install()
sys.path.insert(0,os.environ.get("RSRC","/repo/src")); logging.disable(logging.CRITICAL)
from resonaate.scenario.config import ScenarioConfig
from resonaate.scenario.scenario_builder import ScenarioBuilder
from resonaate.scenario.scenario import Scenario
from resonaate.data import setDBPath, getDBConnection
from resonaate.common.exceptions import MissingEphemerisError
import numpy as np
out="/tmp/probe/out1.sqlite3"
for f in (out,): 
    if os.path.exists(f): os.remove(f)
def build(cfgd, importer=None):
    cfg=ScenarioConfig(**cfgd)
    b=ScenarioBuilder(cfg, importer_db_path=importer)
    return Scenario(b.config,b.clock,b.target_agents,b.estimate_agents,b.sensor_agents,b.tasking_engines,importer_db_path=importer,logger=b.logger)
cfgd=ScenarioConfig.parseConfigFile("/repo/tests/datafiles/json/config/init_messages/main_init.json")
cfgd["engines"]=cfgd["engines"][:1]
cfgd["engines"][0]["targets"]=cfgd["engines"][0]["targets"][:3]; cfgd["engines"][0]["sensors"]=cfgd["engines"][0]["sensors"][:2]
cfgd["propagation"]["truth_simulation_only"]=True
setDBPath("sqlite:///"+out)
app=build(cfgd)
for i in range(3): app.stepForward(); app.saveDatabaseOutput()
truth={tid:a.eci_state.copy() for tid,a in app.target_agents.items()}
print("run1 done; targets",list(truth))
con=sqlite3.connect(out); print("tables",[r[0] for r in con.execute("select name from sqlite_master where type='table'")][:12]); print("truth rows",con.execute("select count(*) from truth_ephemerides").fetchone()); con.close()
def sha(p): return hashlib.sha256(open(p,'rb').read()).hexdigest()[:12]
def run_import(dbfile,label):
    h0=sha(dbfile)
    db=getDBConnection(); db.resetData(tuple(db.VALID_DATA_TYPES.keys()))
    c=json.loads(json.dumps(cfgd)); c["propagation"]["target_realtime_propagation"]=False
    try:
        app2=build(c, importer="sqlite:///"+dbfile)
        for i in range(3): app2.stepForward()
        ok=all(np.array_equal(app2.target_agents[t].eci_state, truth[t]) for t in truth)
        print(label,"completed; states equal run1:",ok, "hash unchanged:",sha(dbfile)==h0)
    except MissingEphemerisError as e:
        print(label,"MissingEphemerisError raised; hash unchanged:",sha(dbfile)==h0)
    except Exception as e:
        print(label,"other exception",type(e).__name__,str(e)[:100])
# switch output db to memory for second runs
import resonaate.data.db_connection as dbc
from resonaate.data import clearDBPath
clearDBPath(); setDBPath("sqlite://")
imp="/tmp/probe/imp_exact.sqlite3"; shutil.copy(out,imp); run_import(imp,"exact set:")
# gap: delete one target's row at the 2nd epoch; database ALSO contains the sensors (unrelated to target import) -> superset
imp2="/tmp/probe/imp_gap.sqlite3"; shutil.copy(out,imp2)
con=sqlite3.connect(imp2); tid=list(truth)[0]
jds=[r[0] for r in con.execute("select distinct julian_date from truth_ephemerides order by julian_date")]
con.execute("delete from truth_ephemerides where agent_id=? and julian_date=?",(tid,jds[2])); con.commit(); con.close()
run_import(imp2,"gap for one registered target, sensors' rows present as extras:")
