import sys
import os; sys.path.insert(0,os.environ.get("RSRC","/repo/src"))
from datetime import datetime, timedelta
from resonaate.physics.time.stardate import datetimeToJulianDate, julianDateToDatetime, JulianDate, ScenarioTime
bad=0; n=0; ex=[]
t=datetime(2021,3,30,16,0,0)
for s in range(0,86400,7):
    d=t+timedelta(seconds=s)
    back=julianDateToDatetime(datetimeToJulianDate(d))
    n+=1
    if back!=d:
        bad+=1
        if len(ex)<5: ex.append((d,back))
print(bad,n,ex)
# by second-of-minute
from collections import Counter
c=Counter()
for s in range(0,3600):
    d=t+timedelta(seconds=s)
    back=julianDateToDatetime(datetimeToJulianDate(d))
    if back!=d: c[d.second]+=1
print(sorted(c.items()))
