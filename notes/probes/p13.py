import sys, os, warnings, logging
warnings.filterwarnings("ignore")
sys.path.insert(0,"/tmp/probe"); import fakeray; fakeray.install()
sys.path.insert(0,os.environ.get("RSRC","/repo/src")); logging.disable(logging.CRITICAL)
from datetime import timedelta
from resonaate.scenario.config import ScenarioConfig, constructFromUnion
from resonaate.scenario.config.event_configs import EventConfig
from resonaate.scenario.scenario_builder import ScenarioBuilder
from resonaate.scenario.scenario import Scenario
from resonaate.data import setDBPath
from resonaate.physics.time.stardate import datetimeToJulianDate
setDBPath("sqlite://")
cfg=ScenarioConfig.fromConfigFile("/repo/tests/datafiles/json/config/init_messages/minimal_maneuver_detection_init.json")
tgt=cfg.engines[0].targets[0]
t1=cfg.time.start_timestamp+timedelta(minutes=2); t2=cfg.time.start_timestamp+timedelta(minutes=4)
cfg.events.append(constructFromUnion(EventConfig,{"scope":"agent_propagation","scope_instance_id":tgt.id,"start_time":t1,"end_time":t2,"event_type":"finite_burn","acc_vector":[0.0,0.0,0.002],"thrust_frame":"ntw","planned":False}))
from resonaate.dynamics.integration_events.finite_thrust import ScheduledFiniteBurn
_o=ScheduledFiniteBurn.getStateChangeCallback
def _cb(self,t):
    r=_o(self,t); print("  callback",float(t),r is not None); return r
ScheduledFiniteBurn.getStateChangeCallback=_cb
from resonaate.data.events.finite_burn import ScheduledFiniteBurnEvent
_h=ScheduledFiniteBurnEvent.handleEvent
def _hh(self,inst):
    print("  handleEvent ->",type(inst).__name__, inst.simulation_id); return _h(self,inst)
ScheduledFiniteBurnEvent.handleEvent=_hh
b=ScenarioBuilder(cfg)
app=Scenario(b.config,b.clock,b.target_agents,b.estimate_agents,b.sensor_agents,b.tasking_engines,logger=b.logger)
app.propagateTo(datetimeToJulianDate(cfg.time.start_timestamp+timedelta(minutes=5)))
eng=list(app.tasking_engines.values())[0]
print("obs",[(o.sensor_id,o.target_id) for o in eng.observations],"missed",[(m.sensor_id,m.reason) for m in eng.missed_observations])
est=app.estimate_agents[tgt.id]; f=est.nominal_filter
print("maneuver_detected flag",f.maneuver_detected,"metric",f.maneuver_metric,"nis",getattr(f,'nis',None), "threshold", f.maneuver_detection.threshold if f.maneuver_detection else None, type(f.maneuver_detection).__name__)
ta=app.target_agents[tgt.id]
print("queue",[(type(e).__name__,float(e.start_time),float(e.end_time)) for e in ta.propagate_event_queue], "time",float(ta.time))
from resonaate.dynamics.integration_events.event_stack import EventStack
