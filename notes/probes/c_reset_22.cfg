SPECIFICATION Spec
CONSTANTS
  Sensors = {s1,s2}
  Targets = {t1,t2}
  Policy = "greedy"
  NSteps = 2
  ResetChangesPerJob = TRUE
  MissListSquared = FALSE
  KeepStaleChanges = FALSE
INVARIANT OneRecordPerTasking
INVARIANT NoRecordWithoutTasking
INVARIANT PointingReflectsTasking
INVARIANT RowsExact
INVARIANT OnlyVisibleTasked
CHECK_DEADLOCK FALSE
