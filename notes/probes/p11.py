"""Probe: impulse delivery/application counts through the real Scenario for aligned (start, dt, k)."""
import sys, os, warnings, logging, random, json
warnings.filterwarnings("ignore")
sys.path.insert(0,"/tmp/probe"); import fakeray; fakeray.install()
sys.path.insert(0,os.environ.get("RSRC","/repo/src")); logging.disable(logging.CRITICAL)
from datetime import datetime, timedelta
from collections import Counter
import numpy as np
from resonaate.scenario.config import ScenarioConfig, constructFromUnion
from resonaate.scenario.config.event_configs import EventConfig
from resonaate.scenario.scenario_builder import ScenarioBuilder
from resonaate.scenario.scenario import Scenario
from resonaate.data import setDBPath, clearDBPath
from resonaate.data.events.scheduled_impulse import ScheduledImpulseEvent
from resonaate.dynamics.integration_events.scheduled_impulse import ScheduledECIImpulse
import resonaate.data.db_connection as dbc
rng=random.Random(int(sys.argv[1])); N=int(sys.argv[2])
base=json.load(open("/repo/tests/datafiles/json/config/init_messages/minimal_init.json"))
DELIV=[0]; APPL=[0]
_h=ScheduledImpulseEvent.handleEvent
def h(self,inst): DELIV[0]+=1; return _h(self,inst)
ScheduledImpulseEvent.handleEvent=h
_g=ScheduledECIImpulse.getStateChange
def g(self,t,s): APPL[0]+=1; return _g(self,t,s)
ScheduledECIImpulse.getStateChange=g
stats=Counter(); ex=[]
for i in range(N):
    start=datetime(2019,1,1)+timedelta(seconds=rng.randrange(0,86400*900,60))
    dt=rng.choice([30,60,120,300,600]); n=6; k=rng.randrange(1,n+1)
    cfgd=ScenarioConfig.parseConfigFile("/repo/tests/datafiles/json/config/init_messages/minimal_init.json")
    cfgd["time"]={"start_timestamp":start.isoformat()+"Z","stop_timestamp":(start+timedelta(seconds=dt*n)).isoformat()+"Z","physics_step_sec":dt,"output_step_sec":dt}
    cfgd.setdefault("propagation",{})["propagation_model"]="two_body"; cfgd["propagation"]["truth_simulation_only"]=True
    cfg=ScenarioConfig(**cfgd)
    tgt=cfg.engines[0].targets[0]
    cfg.engines[0].sensors=cfg.engines[0].sensors[:1]
    t_ev=start+timedelta(seconds=k*dt)
    cfg.events.append(constructFromUnion(EventConfig,{"scope":"agent_propagation","scope_instance_id":tgt.id,"start_time":t_ev,"end_time":t_ev,"event_type":"impulse","thrust_vector":[0.0,0.0,0.001],"thrust_frame":"eci","planned":False}))
    if i==0: setDBPath("sqlite://")
    else:
        from resonaate.data import getDBConnection
        _db=getDBConnection(); _db.resetData(tuple(_db.VALID_DATA_TYPES.keys()))
    b=ScenarioBuilder(cfg)
    app=Scenario(b.config,b.clock,b.target_agents,b.estimate_agents,b.sensor_agents,b.tasking_engines,logger=b.logger)
    DELIV[0]=0; APPL[0]=0
    for j in range(n): app.stepForward()
    key=(DELIV[0],APPL[0]); stats[key]+=1
    if key!=(1,1) and len(ex)<6: ex.append((start.isoformat(),dt,k,key))
print(dict(stats)); print(ex)
