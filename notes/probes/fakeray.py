"""Deterministic stand-in for ray (probe)."""
import copy, sys, types, pickle
class Ref:
    __slots__=("val","id")
    _n=0
    def __init__(self,val):
        Ref._n+=1; self.id=Ref._n; self.val=val
    def __hash__(self): return hash(self.id)
    def __eq__(self,o): return isinstance(o,Ref) and o.id==self.id
SCHED=[None]  # callable choosing index
LOG=[]
def _copy(x): return pickle.loads(pickle.dumps(x))
def put(x): return Ref(_copy(x))
def get(r):
    if isinstance(r,list): return [get(i) for i in r]
    return _copy(r.val)
class _Method:
    def __init__(self,bound): self.bound=bound
    def remote(self,*a,**k): return Ref(_copy(self.bound(*_copy(a),**_copy(k))))
class _ActorHandle:
    def __init__(self,obj): self._obj=obj
    def __getattr__(self,n): return _Method(getattr(self._obj,n))
_ACTORS={}
class _ActorClass:
    def __init__(self,cls,name=None): self.cls=cls; self.name=name
    def options(self,name=None,get_if_exists=False,**kw): return _ActorClass(self.cls,name)
    def remote(self,*a,**k):
        if self.name and self.name in _ACTORS: return _ACTORS[self.name]
        h=_ActorHandle(self.cls(*a,**k))
        if self.name: _ACTORS[self.name]=h
        return h
class _RF:
    def __new__(cls,f):
        if isinstance(f,type): return _ActorClass(f)
        return super().__new__(cls)
    def __init__(self,f): self.f=f
    def remote(self,*a,**k):
        a=_copy(a); k=_copy(k)
        return Ref(self.f(*a,**k))
def remote(f=None,**kw):
    if f is None: return lambda g:_RF(g)
    return _RF(f)
def wait(refs,**kw):
    i = SCHED[0](refs) if SCHED[0] else 0
    return [refs[i]], refs[:i]+refs[i+1:]
def is_initialized(): return True
def init(*a,**k): pass
def shutdown(): pass
def timeline(*a,**k): pass
def install():
    m=types.ModuleType("ray")
    for n in ("put","get","remote","wait","is_initialized","init","shutdown","timeline"):
        setattr(m,n,globals()[n])
    m.ObjectRef=Ref
    sys.modules["ray"]=m
    return m
