---------------------------- MODULE Tasking ----------------------------
(* Prototype of the tasking / bookkeeping core of Resonaate.tla (probe).   *)
EXTENDS Integers, Sequences, FiniteSets, TLC, FiniteSetsExt

CONSTANTS Sensors, Targets, Policy, NSteps,
          ResetChangesPerJob,   \* as coded: sensor_changes = {} in every processResults
          MissListSquared,      \* as coded: n misses of a job are stored n*n times
          KeepStaleChanges      \* as coded: sensor_changes survives into the next step

None == "none"
NoChange == <<0, "none">>
Keep == <<0, "keep">>
Pairs == Targets \X Sensors

VARIABLES k, pc,
          vis,        \* environment: which (t,s) pairs are visible this step
          pendR,      \* outstanding reward jobs (one per target)
          visM,       \* rows of the visibility matrix merged so far
          decision,   \* set of <<t,s>>
          slewOK, hit,\* environment: per tasked pair
          pendE,      \* outstanding task-execution jobs (one per tasked target)
          obsStep,    \* engine._observations            (set of <<t,s>>)
          missStep,   \* misses recorded this step        (bag: <<t,s>> -> count)
          changes,    \* engine.sensor_changes            (s -> target or None)
          pointing,   \* sensor boresight, abstractly: <<step, target>> or None
          rowsObs, rowsMiss \* database rows, bags keyed by <<step,t,s>>
vars == <<k, pc, vis, pendR, visM, decision, slewOK, hit, pendE, obsStep, missStep,
          changes, pointing, rowsObs, rowsMiss>>

EmptyBag == [p \in {} |-> 0]
BagAdd(b, x, n) == IF x \in DOMAIN b THEN [b EXCEPT ![x] = @ + n] ELSE b @@ (x :> n)
Cnt(b, x) == IF x \in DOMAIN b THEN b[x] ELSE 0

TaskedOf(d, t) == {s \in Sensors : <<t, s>> \in d}
TargetsOfSensor(d, s) == {t \in Targets : <<t, s>> \in d}

OnePerSensor(d) == \A s \in Sensors : Cardinality(TargetsOfSensor(d, s)) <= 1
OnePerTarget(d) == \A t \in Targets : Cardinality(TaskedOf(d, t)) <= 1
Feasible(v) ==
  CASE Policy = "munkres"    -> {d \in SUBSET v : OnePerSensor(d) /\ OnePerTarget(d)}
    [] Policy = "greedy"     -> {d \in SUBSET v : OnePerSensor(d)}
    [] Policy = "random"     -> {d \in SUBSET v : OnePerSensor(d)
                                   /\ \A s \in Sensors : (\E t \in Targets : <<t,s>> \in v) => TargetsOfSensor(d,s) # {}}
    [] Policy = "allvisible" -> {v}

Init == /\ k = 0 /\ pc = "begin"
        /\ vis = {} /\ pendR = {} /\ visM = [t \in Targets |-> None]
        /\ decision = {} /\ slewOK = {} /\ hit = {} /\ pendE = {}
        /\ obsStep = {} /\ missStep = EmptyBag
        /\ changes = [s \in Sensors |-> NoChange]
        /\ pointing = [s \in Sensors |-> <<0, None>>]
        /\ rowsObs = EmptyBag /\ rowsMiss = EmptyBag

StepBegin == /\ pc = "begin" /\ k < NSteps
             /\ k' = k + 1
             /\ vis' = {}
             /\ visM' = [t \in Targets |-> None]
             /\ pendR' = Targets
             /\ obsStep' = {} /\ missStep' = EmptyBag
             /\ decision' = {} /\ slewOK' = {} /\ hit' = {} /\ pendE' = {}
             /\ changes' = IF KeepStaleChanges THEN changes ELSE [s \in Sensors |-> NoChange]
             /\ pc' = "reward"
             /\ UNCHANGED <<pointing, rowsObs, rowsMiss>>

CompleteReward(t, row) ==
                     /\ pc = "reward" /\ t \in pendR
                     /\ vis' = vis \cup {<<t,s>> : s \in row}
                     /\ visM' = [visM EXCEPT ![t] = row]
                     /\ pendR' = pendR \ {t}
                     /\ UNCHANGED <<k, pc, decision, slewOK, hit, pendE, obsStep, missStep,
                                    changes, pointing, rowsObs, rowsMiss>>

Decide == /\ pc = "reward" /\ pendR = {}
          /\ decision' \in Feasible({<<t,s>> \in Pairs : s \in visM[t]})
          /\ slewOK' = {} /\ hit' = {}
          /\ pendE' = {t \in Targets : TaskedOf(decision', t) # {}}
          /\ pc' = "exec"
          /\ UNCHANGED <<k, vis, pendR, visM, obsStep, missStep, changes, pointing, rowsObs, rowsMiss>>

\* merge of one task-execution job (TaskExecutionRegistration.processResults)
CompleteExec(t, slewT, hitT) ==
  /\ pc = "exec" /\ t \in pendE
  /\ slewT \subseteq TaskedOf(decision, t) /\ hitT \subseteq slewT
  /\ slewOK' = slewOK \cup {<<t,s>> : s \in slewT}
  /\ hit' = hit \cup {<<t,s>> : s \in hitT}
  /\ LET ss     == TaskedOf(decision, t)
         hits   == hitT
         misses == ss \ hits
         n      == Cardinality(misses)
         mult   == IF MissListSquared THEN n ELSE 1
         base   == IF ResetChangesPerJob THEN [s \in Sensors |-> NoChange] ELSE changes
     IN /\ obsStep' = obsStep \cup {<<t,s>> : s \in hits}
        /\ missStep' = FoldSet(LAMBDA s, b : BagAdd(b, <<t,s>>, mult), missStep, misses)
        \* sensor_info: new pointing only if the sensor could slew, else its old state
        /\ changes' = [s \in Sensors |-> IF s \in ss
                                           THEN (IF s \in slewT THEN <<k, t>> ELSE Keep)
                                           ELSE base[s]]
  /\ pendE' = pendE \ {t}
  /\ UNCHANGED <<k, pc, vis, pendR, visM, decision, pointing, rowsObs, rowsMiss>>

Apply == /\ pc = "exec" /\ pendE = {}
         /\ pointing' = [s \in Sensors |-> IF changes[s] \notin {NoChange, Keep} THEN changes[s] ELSE pointing[s]]
         /\ pc' = "out"
         /\ UNCHANGED <<k, vis, pendR, visM, decision, slewOK, hit, pendE, obsStep, missStep, changes, rowsObs, rowsMiss>>

SaveOutput == /\ pc = "out"
              /\ rowsObs' = FoldSet(LAMBDA p, b : BagAdd(b, <<k, p[1], p[2]>>, 1), rowsObs, obsStep)
              /\ rowsMiss' = FoldSet(LAMBDA p, b : BagAdd(b, <<k, p[1], p[2]>>, missStep[p]), rowsMiss, DOMAIN missStep)
              /\ pc' = "begin"
              /\ UNCHANGED <<k, vis, pendR, visM, decision, slewOK, hit, pendE, obsStep, missStep, changes, pointing>>

Next == \/ StepBegin \/ Decide \/ Apply \/ SaveOutput
        \/ \E t \in Targets : \/ \E row \in SUBSET Sensors : CompleteReward(t, row)
                               \/ \E sl \in SUBSET Sensors : \E h \in SUBSET sl : CompleteExec(t, sl, h)
Spec == Init /\ [][Next]_vars

--------------------------------------------------------------------------
\* C08 clauses
OneRecordPerTasking ==
  pc = "out" => \A p \in decision :
      (IF p \in obsStep THEN 1 ELSE 0) + Cnt(missStep, p) = 1
NoRecordWithoutTasking ==
  pc = "out" => /\ obsStep \subseteq decision /\ DOMAIN missStep \subseteq decision
PointingReflectsTasking ==
  pc = "out" => \A s \in Sensors :
      LET ts == {t \in TargetsOfSensor(decision, s) : <<t,s>> \in slewOK}
      IN IF ts # {} THEN pointing[s] \in {<<k, t>> : t \in ts}
         ELSE pointing[s][1] < k
RowsExact ==
  pc = "begin" => \A key \in DOMAIN rowsMiss : rowsMiss[key] = 1
OnlyVisibleTasked == decision \subseteq vis
=============================================================================
