import sys, warnings
warnings.filterwarnings("ignore")
import os; sys.path.insert(0,os.environ.get("RSRC","/repo/src"))
import numpy as np
from functools import partial
from resonaate.sensors.field_of_view import RectangularFoV, ConicFoV
def sez(az,el):
    az=np.radians(az); el=np.radians(el)
    return np.array([-np.cos(el)*np.cos(az), np.cos(el)*np.sin(az), np.sin(el),0,0,0])*1000
f=RectangularFoV(np.radians(2),np.radians(2))
print("seam 359.8 vs 0.2:", f.inFieldOfView(sez(359.8,30),sez(0.2,30)), " interior 100.0 vs 100.4:", f.inFieldOfView(sez(100.0,30),sez(100.4,30)))
from resonaate.dynamics.integration_events.finite_thrust import ScheduledFiniteBurn, eciBurn
from resonaate.physics.time.stardate import ScenarioTime, JulianDate
from resonaate.dynamics.special_perturbations import SpecialPerturbations
from resonaate.scenario.config.geopotential_config import GeopotentialConfig
from resonaate.scenario.config.perturbations_config import PerturbationsConfig
from resonaate.physics.maths import fpe_equals
dyn=SpecialPerturbations(JulianDate(2458454.0),GeopotentialConfig(model="egm96.txt",degree=2,order=0),PerturbationsConfig(third_bodies=[]),0.0)
x0=np.array([7000.,0,0,0,7.546,0])
acc=np.array([0,0,1e-4])
def run(ts,te,dt=60,n=5):
    ev=ScheduledFiniteBurn(ScenarioTime(ts),ScenarioTime(te),partial(eciBurn,acc_vector=acc),1)
    q=[ev]; s=x0.copy(); r=x0.copy(); t=0.0
    for k in range(n):
        # prune as Agent does
        q=[e for e in q if (t<e.end_time and not fpe_equals(e.end_time,t))]
        s=dyn.propagate(t,t+dt,s,scheduled_events=list(q))
        r=dyn.propagate(t,t+dt,r)
        t+=dt
    return (s[5]-r[5])/acc[2]
for ts,te in [(60,120),(60,90),(70,100),(30,200),(10,20)]:
    print("burn",ts,te,"expected dv/a=",te-ts,"got approx thrust-seconds=%.2f"%run(ts,te))
