"""Probe: record a Tasking trace from the real engine under the fake scheduler."""
import sys, warnings, logging, json, random
warnings.filterwarnings("ignore")
sys.path.insert(0,"/tmp/probe"); import fakeray; fakeray.install()
import os; sys.path.insert(0,os.environ.get("RSRC","/repo/src")); logging.disable(logging.CRITICAL)
import numpy as np
from collections import Counter
from resonaate.scenario.config import ScenarioConfig
from resonaate.scenario.scenario_builder import ScenarioBuilder
from resonaate.scenario.scenario import Scenario
from resonaate.data import setDBPath
from resonaate.sensors.sensor_base import Sensor
from resonaate.agents.sensing_agent import SensingAgent
from resonaate.data.observation import MissedObservation, Observation
from resonaate.common.utilities import getTypeString
from resonaate.physics.transforms.methods import getSlantRangeVector
import resonaate.parallel.tasking_reward_generation as trg
import resonaate.parallel.tasking_execution as tex
from resonaate.tasking.engine.centralized_engine import CentralizedTaskingEngine
from resonaate.tasking.engine.engine_base import TaskingEngine

seed=int(sys.argv[1]); policy=sys.argv[2]; out=sys.argv[3]; nsteps=int(sys.argv[4])
rng=random.Random(seed)
setDBPath("sqlite://")
cfg=ScenarioConfig.fromConfigFile("/repo/tests/datafiles/json/config/init_messages/main_init.json")
eng_cfg=cfg.engines[0]
eng_cfg.decision.name=policy
eng_cfg.targets=eng_cfg.targets[:3]; eng_cfg.sensors=eng_cfg.sensors[:3]
cfg.engines=[eng_cfg]
cfg.propagation.propagation_model="two_body"
cfg.estimation.sequential_filter.dynamics_model="two_body"
b=ScenarioBuilder(cfg)
app=Scenario(b.config,b.clock,b.target_agents,b.estimate_agents,b.sensor_agents,b.tasking_engines,logger=b.logger)
eng=list(app.tasking_engines.values())[0]
S=lambda i:f"s{i}"; T=lambda i:f"t{i}"
EV=[]; K=[0]
def emit(**kw): EV.append(kw)
emit(ev="Config",sensors=[S(i) for i in eng.sensor_list],targets=[T(i) for i in eng.target_list],policy={"MunkresDecision":"munkres","MyopicNaiveGreedyDecision":"greedy","RandomDecision":"random","AllVisibleDecision":"allvisible"}[policy],nsteps=nsteps)
# table-driven environment
VIS={}; SLEW={}; HIT={}
def tab(d,key,p):
    if key not in d: d[key]=rng.random()<p
    return d[key]
def fake_predict(sa,ea):
    if not tab(VIS,(K[0],ea.simulation_id,sa.simulation_id),0.7): return None
    return Observation.fromMeasurement(epoch_jd=sa.julian_date_epoch,target_id=ea.simulation_id,tgt_eci_state=ea.eci_state,sensor_id=sa.simulation_id,sensor_eci=sa.eci_state,sensor_type=getTypeString(sa.sensors),measurement=sa.sensors.measurement,noisy=False)
trg.predictObservation=fake_predict
PRIMARY=[None]
_collect=Sensor.collectObservations
def collect(self,estimate_eci,target_agent,background_agents):
    PRIMARY[0]=target_agent.simulation_id
    return _collect(self,estimate_eci,target_agent,[])   # no serendipitous in this probe
Sensor.collectObservations=collect
Sensor.canSlew=lambda self,sez: tab(SLEW,(K[0],PRIMARY[0],self.host.simulation_id),0.8)
_attempt=Sensor.attemptObservation
def attempt(self,target_agent,pointing_sez):
    if tab(HIT,(K[0],target_agent.simulation_id,self.host.simulation_id),0.5):
        return Observation.fromMeasurement(epoch_jd=self.host.julian_date_epoch,target_id=target_agent.simulation_id,tgt_eci_state=target_agent.eci_state,sensor_id=self.host.simulation_id,sensor_eci=self.host.eci_state,sensor_type=getTypeString(self),measurement=self._measurement,noisy=True)
    return MissedObservation(julian_date=self.host.julian_date_epoch,sensor_type=getTypeString(self),sensor_id=self.host.simulation_id,target_id=target_agent.simulation_id,sensor_eci=self.host.eci_state,reason="Line of Sight")
Sensor.attemptObservation=attempt
# schedule: random completion order
fakeray.SCHED[0]=lambda refs: rng.randrange(len(refs))
# ---- tracer wrappers (linearization point = method return) ----
def wrap(cls,name,after):
    orig=getattr(cls,name)
    def w(self,*a,**k):
        r=orig(self,*a,**k); after(self,a,k,r); return r
    setattr(cls,name,w)
def miss_bag():
    jd=float(app.clock.julian_date_epoch)
    c=Counter((m.target_id,m.sensor_id) for m in eng._saved_missed_observations if float(m.julian_date)==jd)
    return [[T(t),S(s),n] for (t,s),n in sorted(c.items())]
def changes_proj():
    outp=[]
    for s,ch in sorted(eng.sensor_changes.items()):
        outp.append([S(s), int(round(float(ch["time_last_tasked"])/float(app.clock.dt_step)))])
    return outp
_assess=CentralizedTaskingEngine.assess
def assess(self,*a,**k):
    K[0]+=1; emit(ev="StepBegin",k=K[0]); return _assess(self,*a,**k)
CentralizedTaskingEngine.assess=assess
wrap(trg.TaskingRewardRegistration,"processResults",lambda self,a,k,r: emit(ev="CompleteReward",t=T(a[0].estimate_id),row=[S(s) for s,v in zip(eng.sensor_list,a[0].visibility) if v]))
def after_decide(self,a,k,r):
    d=[[T(t),S(s)] for ti,t in enumerate(self.target_list) for si,s in enumerate(self.sensor_list) if self.decision_matrix[ti,si]]
    emit(ev="Decide",decision=d)
wrap(CentralizedTaskingEngine,"generateTasking",after_decide)
def after_exec(self,a,k,r):
    res=a[0]; now=float(app.clock.time)
    hits=[S(o.sensor_id) for o in res.observations if o.target_id==res.target_id]
    slew=[S(i["sensor_id"]) for i in res.sensor_info_list if float(i["time_last_tasked"])==now]
    emit(ev="CompleteExec",t=T(res.target_id),slew=slew,hit=hits,
         nobs=len(eng._observations),miss=miss_bag(),changes=changes_proj())
wrap(tex.TaskExecutionRegistration,"processResults",after_exec)
def after_reset(self,a,k,r):
    if K[0]==0: return
    pts=[]
    for sid in self.sensor_list:
        sa=app.sensor_agents[sid]; tgt="none"
        for tid,est in app.estimate_agents.items():
            sez=getSlantRangeVector(sa.eci_state,est.eci_state,sa.datetime_epoch)
            u=sez[:3]/np.linalg.norm(sez[:3])
            if np.allclose(u,sa.sensors.boresight,rtol=0,atol=1e-12): tgt=T(tid)
        pts.append([S(sid),int(round(float(sa.sensors.time_last_tasked)/float(app.clock.dt_step))),tgt])
    emit(ev="Apply",pointing=pts)
wrap(TaskingEngine,"resetHandles",after_reset)
def after_save(self,a,k,r):
    if K[0]==0: return
    db=self.database
    from sqlalchemy.orm import Query
    jd=float(self.clock.julian_date_epoch)
    mo=Counter((m.target_id,m.sensor_id) for m in db.getData(Query(MissedObservation).filter(MissedObservation.julian_date==jd)))
    ob=Counter((m.target_id,m.sensor_id) for m in db.getData(Query(Observation).filter(Observation.julian_date==jd)))
    emit(ev="SaveOutput",k=K[0],missRows=[[T(t),S(s),n] for (t,s),n in sorted(mo.items())],obsRows=[[T(t),S(s),n] for (t,s),n in sorted(ob.items())])
wrap(Scenario,"saveDatabaseOutput",after_save)
for i in range(nsteps):
    app.stepForward(); app.saveDatabaseOutput()
with open(out,"w") as f:
    for e in EV: f.write(json.dumps(e)+"\n")
print("events",len(EV), Counter(e["ev"] for e in EV))
