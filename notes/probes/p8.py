import sys, warnings
warnings.filterwarnings("ignore")
sys.path.insert(0,"/repo/src")
import numpy as np
from resonaate.estimation.kalman.unscented_kalman_filter import UnscentedKalmanFilter
from resonaate.dynamics.dynamics_base import Dynamics
from resonaate.physics.measurements import Measurement, MeasurementType, IsAngle
from resonaate.data.observation import Observation
from resonaate.physics.time.stardate import ScenarioTime
class LinDyn(Dynamics):
    def __init__(s,F): s.F=F
    def propagate(s,t0,t1,x,station_keeping=None,scheduled_events=None,error_flags=None): return s.F@x
class LinMeas(MeasurementType):
    def __init__(s,h,label): s.h=h; s.LABEL=label
    def calculate(s,sen,tgt,utc): return float(s.h@tgt)
    @property
    def is_angular(s): return IsAngle.NOT_ANGLE
def run(resample):
    n=2
    F=np.array([[1.,1],[0,1]]); P=np.diag([4.,1.]); Q=np.diag([1.,1.]); x=np.array([1.,2.])
    f=UnscentedKalmanFilter(1,ScenarioTime(0),x,P,LinDyn(F),Q,resample=resample,alpha=1.0,beta=2.0,kappa=1.0)
    f.predict(ScenarioTime(1))
    Pp=F@P@F.T+Q; xp=F@x
    print(" pred ok", np.allclose(f.pred_x,xp), np.allclose(f.pred_p,Pp))
    H=np.array([[1.,0],[1.,1.]]); R=np.diag([1.,4.])
    meas=Measurement([LinMeas(H[0],"range_km"),LinMeas(H[1],"range_rate_km_p_sec")],R)
    y=np.array([3.5,6.0])
    ob=Observation(julian_date=2458454.0,target_id=1,sensor_id=2,sensor_type="x",sensor_eci=np.zeros(6),measurement=meas,range_km=y[0],range_rate_km_p_sec=y[1])
    f.update([ob])
    S=H@Pp@H.T+R; K=Pp@H.T@np.linalg.inv(S); xe=xp+K@(y-H@xp); Pe=Pp-K@S@K.T
    print(" resample",resample,"gain ok",np.allclose(f.kalman_gain,K),"est_x ok",np.allclose(f.est_x,xe),"est_p ok",np.allclose(f.est_p,Pe))
    if not np.allclose(f.kalman_gain,K): print(f.kalman_gain,"\n",K)
run(False); run(True)
