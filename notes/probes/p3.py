import sys
sys.path.insert(0,"/repo/src")
from datetime import datetime, timedelta
from resonaate.physics.time.stardate import datetimeToJulianDate, JulianDate, ScenarioTime
from resonaate.physics.constants import SEC2DAYS
import random
random.seed(1)
def run(start, dt, nsteps, evk):
    jd0=datetimeToJulianDate(start)
    ev=float(datetimeToJulianDate(start+timedelta(seconds=evk*dt)))
    cur=jd0; t=ScenarioTime(0); hits=[]
    for k in range(nsteps):
        prior=cur
        nxt=float(prior)+dt*SEC2DAYS
        if ev<=nxt and ev>float(prior): hits.append(k+1)
        t=t+ScenarioTime(dt)
        cur=t.convertToJulianDate(jd0)
    return hits
stats={}
for trial in range(3000):
    start=datetime(2021,3,30,16,0,0)+timedelta(seconds=random.randrange(0,86400*300,60))
    dt=random.choice([30,60,120,300,600])
    n=12
    k=random.randrange(1,n+1)
    h=run(start,dt,n,k)
    key = "ok" if h==[k] else ("dropped" if h==[] else ("dup" if len(h)>1 else "wrongstep"))
    stats[key]=stats.get(key,0)+1
    if key!="ok" and stats[key]<3: print(key,start,dt,k,h)
print(stats)
