---------------------------- MODULE TraceTasking ----------------------------
EXTENDS Tasking, Json, IOUtils
Trace == ndJsonDeserialize(IOEnv.TRACE_FILE)
Cfg == Trace[1]
ToSet(seq) == {seq[i] : i \in DOMAIN seq}
TSensors == ToSet(Cfg.sensors)
TTargets == ToSet(Cfg.targets)
TPolicy == Cfg.policy
TNSteps == Cfg.nsteps
VARIABLE l
tvars == <<vars, l>>
Ev == Trace[l]
IsEvent(e) == l <= Len(Trace) /\ Ev.ev = e /\ l' = l + 1
PairSet(seq) == {<<seq[i][1], seq[i][2]>> : i \in DOMAIN seq}
BagCount(seq, p) == LET i == CHOOSE j \in DOMAIN seq : <<seq[j][1], seq[j][2]>> = p IN seq[i][3]
SameBag(b, seq) == /\ DOMAIN b = PairSet(seq)
                   /\ \A p \in DOMAIN b : b[p] = BagCount(seq, p)
TraceInit == Init /\ l = 2
TStepBegin == IsEvent("StepBegin") /\ StepBegin /\ k' = Ev.k
TCompleteReward == IsEvent("CompleteReward") /\ CompleteReward(Ev.t, ToSet(Ev.row))
TDecide == IsEvent("Decide") /\ Decide /\ decision' = PairSet(Ev.decision)
ChangesMatch(ch, seq, kk) ==
   LET logged == {seq[i][1] : i \in DOMAIN seq}
       kt(s) == LET i == CHOOSE j \in DOMAIN seq : seq[j][1] = s IN seq[i][2]
   IN /\ {s \in Sensors : ch[s] # NoChange} = logged
      /\ \A s \in logged : IF ch[s] = Keep THEN kt(s) < kk ELSE kt(s) = ch[s][1]
TCompleteExec == /\ IsEvent("CompleteExec")
                 /\ CompleteExec(Ev.t, ToSet(Ev.slew), ToSet(Ev.hit))
                 /\ Cardinality(obsStep') = Ev.nobs
                 /\ SameBag(missStep', Ev.miss)
                 /\ ChangesMatch(changes', Ev.changes, k)
PointingMatch(pt, seq, kk) ==
   \A i \in DOMAIN seq : LET s == seq[i][1] IN
        /\ pt[s][1] = seq[i][2]
        /\ (pt[s][1] = kk => pt[s][2] = seq[i][3])
TApply == IsEvent("Apply") /\ Apply /\ PointingMatch(pointing', Ev.pointing, k)
RowsOfStep(b, kk) == [p \in {<<key[2], key[3]>> : key \in {q \in DOMAIN b : q[1] = kk}} |-> b[<<kk, p[1], p[2]>>]]
TSaveOutput == /\ IsEvent("SaveOutput") /\ SaveOutput
               /\ SameBag(RowsOfStep(rowsMiss', k), Ev.missRows)
               /\ SameBag(RowsOfStep(rowsObs', k), Ev.obsRows)
TraceNext == TStepBegin \/ TCompleteReward \/ TDecide \/ TCompleteExec \/ TApply \/ TSaveOutput
TraceSpec == TraceInit /\ [][TraceNext]_tvars
TraceAccepted == LET d == TLCGet("stats").diameter IN
   IF d = Len(Trace) THEN TRUE
   ELSE Print(<<"TRACE-REJECTED after line", d, "next", Trace[d + 1]>>, FALSE)
=============================================================================
