"""Probe: tracer wrappers under the REAL ray."""
import sys, warnings, logging, json, time
warnings.filterwarnings("ignore")
sys.path.insert(0,"/repo/src"); logging.disable(logging.CRITICAL)
import ray
t0=time.time()
ray.init(num_cpus=4, include_dashboard=False, logging_level=logging.ERROR)
print("ray init %.1fs"%(time.time()-t0))
from resonaate.scenario.config import ScenarioConfig
from resonaate.scenario.scenario_builder import ScenarioBuilder
from resonaate.scenario.scenario import Scenario
from resonaate.data import setDBPath
import resonaate.parallel.tasking_reward_generation as trg
import resonaate.parallel.tasking_execution as tex
import resonaate.parallel.agent_propagation as ap
setDBPath("sqlite://")
cfg=ScenarioConfig.fromConfigFile("/repo/tests/datafiles/json/config/init_messages/main_init.json")
e=cfg.engines[0]; e.targets=e.targets[:4]; e.sensors=e.sensors[:6]; cfg.engines=[e]
b=ScenarioBuilder(cfg)
app=Scenario(b.config,b.clock,b.target_agents,b.estimate_agents,b.sensor_agents,b.tasking_engines,logger=b.logger)
EV=[]
def wrap(cls,name,f):
    o=getattr(cls,name)
    def w(self,*a,**k):
        r=o(self,*a,**k); f(self,a); return r
    setattr(cls,name,w)
wrap(ap.PropagateRegistration,"processResults",lambda s,a: EV.append(("prop",a[0].agent_id)))
wrap(trg.TaskingRewardRegistration,"processResults",lambda s,a: EV.append(("reward",a[0].estimate_id)))
wrap(tex.TaskExecutionRegistration,"processResults",lambda s,a: EV.append(("exec",a[0].target_id,len(a[0].observations),len(a[0].missed_observations))))
t0=time.time()
for i in range(3): app.stepForward(); app.saveDatabaseOutput()
print("3 steps real ray %.1fs"%(time.time()-t0))
print(EV[:14]); print(len(EV))
ray.shutdown()
