import sys, warnings, itertools
warnings.filterwarnings("ignore")
sys.path.insert(0,"/repo/src")
import numpy as np
from resonaate.physics.orbits.conversions import eci2coe, coe2eci, eci2eqe, eqe2eci, coe2eqe, eqe2coe
from resonaate.physics.orbit_determination.lambert import lambertUniversal, lambertBattin
from resonaate.physics.orbits.kepler import solveKeplerProblemUniversal
# cube rotation group
def rots():
    out=[]
    for perm in itertools.permutations(range(3)):
        for signs in itertools.product([1,-1],repeat=3):
            M=np.zeros((3,3),int)
            for i,(p,s) in enumerate(zip(perm,signs)): M[i,p]=s
            if round(np.linalg.det(M))==1: out.append(M)
    return out
R=rots(); print(len(R))
# perifocal lattice orbit: a=25, e=3/5, mu=100: p=16; nu in quarter turns
def pqw(a,e,mu,q):
    p=a*(1-e*e); c,s=[(1,0),(0,1),(-1,0),(0,-1)][q]
    r=p/(1+e*c)*np.array([c,s,0.]); v=np.sqrt(mu/p)*np.array([-s,e+c,0.])
    return r,v
bad=0; n=0; worst=0
for (a,e,mu) in [(25.,0.6,100.),(4.,0.0,4.)]:
  for M in R:
    for q in range(4):
        r,v=pqw(a,e,mu,q); x=np.concatenate([M@r,M@v]); n+=1
        try:
            coe=eci2coe(x,mu=mu); x2=coe2eci(*coe,mu=mu)
            err=np.abs(x2-x).max(); worst=max(worst,err)
            inc=coe[2]
            retro = inc>np.pi/2
            eqe=eci2eqe(x,mu=mu,retro=bool(abs(inc-np.pi)<1e-9)); x3=eqe2eci(*eqe,mu=mu,retro=bool(abs(inc-np.pi)<1e-9))
            err2=np.abs(x3-x).max()
            if err>1e-9 or err2>1e-9 or not np.isfinite(err+err2):
                bad+=1
                if bad<8: print("BAD",a,e,M.tolist(),q,"coe",np.round(coe,4),"err",err,"eqe err",err2)
        except Exception as ex:
            bad+=1
            if bad<8: print("EXC",a,e,M.tolist(),q,repr(ex)[:100])
print("orbits",n,"bad",bad,"worst coe rt",worst)
# Lambert on lattice arcs: nu 0 -> 90deg
bad=0;n=0
for (a,e,mu) in [(25.,0.6,100.),(4.,0.0,4.)]:
  for M in R:
    for q0,q1 in [(0,1),(1,2),(0,3),(3,0)]:
        r0,v0=pqw(a,e,mu,q0); r1,v1=pqw(a,e,mu,q1)
        # time of flight via Kepler's equation
        def Mean(q):
            nu=[0,np.pi/2,np.pi,3*np.pi/2][q]; E=2*np.arctan2(np.sqrt(1-e)*np.sin(nu/2),np.sqrt(1+e)*np.cos(nu/2)); E%=2*np.pi
            return E-e*np.sin(E)
        nmo=np.sqrt(mu/a**3); tof=((Mean(q1)-Mean(q0))%(2*np.pi))/nmo
        dnu=((q1-q0)%4)*90
        tm=1 if dnu<180 else -1
        for name,f in [("univ",lambertUniversal),("battin",lambertBattin)]:
            n+=1
            try:
                va,vb=f(M@r0,M@r1,tof,tm,mu=mu)
                err=max(np.abs(va-M@v0).max(),np.abs(vb-M@v1).max())
                if not err<1e-7:
                    bad+=1
                    if bad<8: print("LAMBERT BAD",name,a,e,q0,q1,tm,err)
            except Exception as ex:
                bad+=1
                if bad<8: print("LAMBERT EXC",name,a,e,q0,q1,repr(ex)[:120])
print("lambert cases",n,"bad",bad)
