"""Probe: independent evaluation of base visibility constraints vs Sensor.isVisible on real agents."""
import sys, os, warnings, logging, math
warnings.filterwarnings("ignore")
sys.path.insert(0,"/tmp/probe"); import fakeray; fakeray.install()
sys.path.insert(0,os.environ.get("RSRC","/repo/src")); logging.disable(logging.CRITICAL)
import numpy as np
from collections import Counter
from resonaate.scenario.config import ScenarioConfig
from resonaate.scenario.scenario_builder import ScenarioBuilder
from resonaate.scenario.scenario import Scenario
from resonaate.data import setDBPath
from resonaate.common.labels import Explanation
from resonaate.physics.transforms.methods import getSlantRangeVector, eci2ecef
from resonaate.physics.bodies import Earth
setDBPath("sqlite://")
cfgd=ScenarioConfig.parseConfigFile("/repo/tests/datafiles/json/config/init_messages/main_init.json")
cfgd["propagation"]["truth_simulation_only"]=True
cfg=ScenarioConfig(**cfgd)
b=ScenarioBuilder(cfg)
app=Scenario(b.config,b.clock,b.target_agents,b.estimate_agents,b.sensor_agents,b.tasking_engines,logger=b.logger)
print("sensors",len(app.sensor_agents),Counter(type(s.sensors).__name__+"/"+s.agent_type for s in app.sensor_agents.values()),"targets",len(app.target_agents))
A=Earth.radius; E2=Earth.eccentricity**2
def geodetic(r):   # iterative (Bowring-style fixed point), independent of the closed form in the code
    x,y,z=r; lon=math.atan2(y,x); p=math.hypot(x,y); lat=math.atan2(z,p*(1-E2))
    for _ in range(30):
        N=A/math.sqrt(1-E2*math.sin(lat)**2); h=p/math.cos(lat)-N if abs(math.cos(lat))>1e-12 else abs(z)-N*(1-E2)
        lat=math.atan2(z,p*(1-E2*N/(N+h)))
    return lat,lon
def azel(sensor_ecef,target_ecef):
    lat,lon=geodetic(sensor_ecef[:3]); rho=target_ecef[:3]-sensor_ecef[:3]
    up=np.array([math.cos(lat)*math.cos(lon),math.cos(lat)*math.sin(lon),math.sin(lat)])
    east=np.array([-math.sin(lon),math.cos(lon),0.0]); north=np.cross(up,east)
    rng=np.linalg.norm(rho); el=math.asin(rho@up/rng); az=math.atan2(rho@east,rho@north)%(2*math.pi)
    return rng,az,el
def los(r1,r2):  # distance from origin to the segment
    d=r2-r1; t=-(r1@d)/(d@d)
    if t<=0 or t>=1: return True   # closest approach of the line is not interior to the segment
    return np.linalg.norm(r1+t*d)>=A
def az_in(mask,az): lo,hi=mask; return (lo<=az<=hi) if lo<=hi else (az>=lo or az<=hi)
mism=Counter(); n=0; reasons=Counter()
for step in range(4):
    app.stepForward()
    for sa in app.sensor_agents.values():
        s=sa.sensors; dt=sa.datetime_epoch; se=eci2ecef(sa.eci_state,dt)
        for ta in app.target_agents.values():
            n+=1
            sez=getSlantRangeVector(sa.eci_state,ta.eci_state,dt)
            vis,why=s.isVisible(ta.eci_state,ta.visual_cross_section,ta.reflectivity,sez)
            reasons[why.name]+=1
            rng,az,el=azel(se,eci2ecef(ta.eci_state,dt))
            C={"MINIMUM_RANGE":not (s.minimum_range is not None and rng<s.minimum_range),
               "MAXIMUM_RANGE":not (s.maximum_range is not None and rng>s.maximum_range),
               "LINE_OF_SIGHT":los(ta.eci_state[:3],sa.eci_state[:3]),
               "ELEVATION_MASK":s.el_mask[0]<=el<=s.el_mask[1],
               "AZIMUTH_MASK":az_in(s.az_mask,az)}
            base_ok=all(C.values())
            if vis and not base_ok: mism[("visible-but",tuple(k for k,v in C.items() if not v),type(s).__name__)]+=1
            if (not vis) and why.name in C and C[why.name]: mism[("reason-not-true",why.name,type(s).__name__)]+=1
print("pairs",n,"reasons",dict(reasons)); print("mismatches",dict(mism))
