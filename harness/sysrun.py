"""Run REAL scenarios under tracer + scheduler and validate the traces with TraceResonaate.tla."""
from __future__ import annotations

import itertools
import json
import random
from pathlib import Path

import numpy as np

from . import scenario_util as su
from . import sched, tlc, tracer

POLICY = {"MunkresDecision": "munkres", "MyopicNaiveGreedyDecision": "greedy",
          "RandomDecision": "random", "AllVisibleDecision": "allvisible"}


class Schedule:
    """Completion order per ray.wait batch.

    mode "fifo" | "lifo" | "random" | explicit: dict batch_kind -> permutation (list of ranks);
    batch kinds are told apart by the tag of the pending refs (remote function name).
    """

    def __init__(self, mode="fifo", rng=None, perms=None):
        self.mode = mode
        self.rng = rng or random.Random(0)
        self.perms = perms or {}
        self._batch_key = None
        self._order = None

    def __call__(self, refs):
        n = len(refs)
        if self.mode == "fifo":
            return 0
        if self.mode == "lifo":
            return n - 1
        if self.mode == "random":
            return self.rng.randrange(n)
        # explicit permutation for this batch kind: perms[tag] is a list of original positions in
        # completion order; we track original positions through the ids of the refs
        tag = refs[0].tag
        ids = sorted(r.id for r in refs)
        key = (tag, ids[-1])
        if self._batch_key is None or self._batch_key[0] != tag or ids[-1] != self._batch_key[1]:
            # new batch (largest id identifies it)
            self._batch_key = key
            self._orig = ids
            perm = self.perms.get(tag)
            self._order = [self._orig[p] for p in perm if p < len(self._orig)] if perm else list(self._orig)
            for i in self._orig:
                if i not in self._order:
                    self._order.append(i)
            self._pos = 0
        want = self._order[self._pos]
        self._pos += 1
        for i, r in enumerate(refs):
            if r.id == want:
                return i
        return 0


REF_KEY: dict = {}          # ref id -> real agent id the job is about (filled by the enqueueJob wrapper)
_ENQ_WRAPPED = [False]


def wrap_enqueue():
    """Remember which agent every enqueued job is about (needed to replay completion orders by identity)."""
    if _ENQ_WRAPPED[0]:
        return
    _ENQ_WRAPPED[0] = True
    from resonaate.parallel import JobExecutor
    orig = JobExecutor.enqueueJob

    def enqueue(self, registration):
        res = orig(self, registration)
        ref = sched.LAST_REF[0]                  # the reference the stand-in handed out for this job
        reg = getattr(registration, "_registrant", None)
        if ref is None:
            return res
        if hasattr(reg, "simulation_id"):
            REF_KEY[ref.id] = reg.simulation_id
        else:
            h = getattr(registration, "_estimate_handle", None)
            if h is not None:
                REF_KEY[ref.id] = sched.get(h).simulation_id
        return res

    JobExecutor.enqueueJob = enqueue


TAG_OF_PC = {"propagate": "asyncPropagate", "predict": "asyncPredict", "reward": "asyncCalculateReward",
             "exec": "asyncExecuteTasking", "update": "asyncUpdateEstimate"}


class IdSchedule:
    """Completion orders by job identity: orders[(step, tag)] = [real agent ids in completion order].

    Jobs not mentioned complete afterwards in FIFO order (the real decision may task other targets
    than the TLC behaviour did)."""

    def __init__(self, orders, step_fn):
        self.orders = orders
        self.step_fn = step_fn

    def __call__(self, refs):
        want = self.orders.get((self.step_fn(), refs[0].tag), [])
        ids = [REF_KEY.get(r.id) for r in refs]
        for w in want:
            if w in ids:
                return ids.index(w)
        return 0


def behaviours_from_sim(states, tmap, smap):
    """Split the SIM records of a `-simulate` run into behaviours and extract, per behaviour,
    the completion order of every batch and the environment outcomes (spec ids -> real ids)."""
    behs, cur, prev, init = [], None, None, None
    for st in states:
        if st["lvl"] == 1:
            init = st          # TLC evaluates the invariant on the initial state only once
            continue
        if prev is None or st["lvl"] <= prev["lvl"]:
            cur = {"orders": {}, "env": {}, "steps": 0}
            behs.append(cur)
            prev = init
        if prev is not None:
            pc, k = prev["pc"], prev["k"]
            if pc in TAG_OF_PC and st["pc"] == pc and len(st["pend"]) == len(prev["pend"]) - 1:
                done = (set(prev["pend"]) - set(st["pend"])).pop()
                rid = tmap.get(done, smap.get(done))
                cur["orders"].setdefault((k, TAG_OF_PC[pc]), []).append(rid)
                if pc == "reward":
                    for s_, sid in smap.items():
                        cur["env"][("vis", k, tmap[done], sid)] = s_ in st["visM"][done]
                if pc == "exec":
                    for t_, s_ in st["decision"]:
                        if t_ == done:
                            cur["env"][("slew", k, tmap[t_], smap[s_])] = [t_, s_] in st["slewOK"]
                            cur["env"][("hit", k, tmap[t_], smap[s_])] = [t_, s_] in st["hit"]
            cur["steps"] = max(cur["steps"], st["k"])
        prev = st
    return behs


def numeric_digest(app):
    """Per-step numeric results that must not depend on the completion order."""
    d = {}
    for tid, est in sorted(app.estimate_agents.items()):
        d[f"est{tid}"] = np.concatenate([np.asarray(est.state_estimate, float).ravel(),
                                         np.asarray(est.error_covariance, float).ravel()])
    for tid, tg in sorted(app.target_agents.items()):
        d[f"tgt{tid}"] = np.asarray(tg.eci_state, float).ravel()
    for sid, sa in sorted(app.sensor_agents.items()):
        d[f"sen{sid}"] = np.concatenate([np.asarray(sa.eci_state, float).ravel(),
                                         np.asarray(sa.sensors.boresight, float).ravel(),
                                         [float(sa.sensors.time_last_tasked)]])
    for eid, eng in sorted(app.tasking_engines.items()):
        d[f"vis{eid}"] = np.asarray(eng.visibility_matrix, float).ravel()
        d[f"rew{eid}"] = np.asarray(eng.reward_matrix, float).ravel()
        d[f"dec{eid}"] = np.asarray(eng.decision_matrix, float).ravel()
        # the BAG of observations is the result: one (target, sensor) pair can occur twice in a step (tasked and
        # serendipitous under the all-visible policy), so the values take part in the canonical order
        rows = sorted([o.target_id, o.sensor_id] + [float(x) for x in
                                                     (o.azimuth_rad, o.elevation_rad, o.range_km, o.range_rate_km_p_sec)
                                                     if x is not None] for o in eng.observations)
        vals = [v for row in rows for v in row]
        d[f"obs{eid}"] = np.asarray(vals, float)
    return d


def digests_equal(a, b, rtol=1e-9):
    if a.keys() != b.keys():
        return False, "keys"
    for key in a:
        if a[key].shape != b[key].shape:
            return False, key
        if not np.allclose(a[key], b[key], rtol=rtol, atol=1e-12):
            return False, key
    return True, ""


def run_traced(cfg: dict, n_steps: int, schedule: Schedule | None = None, env: tracer.TableEnv | None = None,
               ref_digests=None, split=None, db_path="sqlite://", events_meta=None, catch_crash=False,
               after_build=None):
    """Build the real scenario, run it with propagateTo, return (events, per-step digests, app)."""
    if env is not None:
        tracer.install_table_env()
    wrap_enqueue()
    REF_KEY.clear()
    app = su.build(cfg, db_path=db_path)
    if after_build is not None:
        after_build(app)
    sched.set_chooser(schedule)
    rec = tracer.start(app, env, events_meta)
    digests = []
    dt = float(app.clock.dt_step)
    try:
        calls = split or [n_steps]
        for c in calls:
            # one propagateTo call per run split; digest after every step via the step wrapper
            _propagate_with_digests(app, c * dt, rec, digests, ref_digests)
    except Exception as ex:  # noqa: BLE001
        if not catch_crash:
            raise
        import traceback
        rec.emit("Crash", error=f"{type(ex).__name__}: {ex}"[:300], tb=traceback.format_exc()[-1200:])
        rec.saved_this_step = True
    finally:
        tracer.stop()
        sched.set_chooser(None)
    if not rec.saved_this_step:
        rec.emit("SkipOutput")
    return rec.events, digests, app


def _propagate_with_digests(app, seconds, rec, digests, ref):
    """Scenario.propagateTo with a digest taken after each stepForward (wrapper on the instance)."""
    orig = app.stepForward

    def step():
        orig()
        d = numeric_digest(app)
        digests.append(d)
        if ref is not None:
            i = len(digests) - 1
            same, where = digests_equal(ref[i], d) if i < len(ref) else (False, "length")
            rec.emit("EndStep", same=bool(same), where=where)

    app.stepForward = step
    try:
        su.run_for(app, seconds)
    finally:
        del app.stepForward


def group_constants(app, cfg, n_span_steps, out_every, flags=None, events_meta=None):
    """Constants of Resonaate.tla for one scenario configuration (from the CONFIG, not the final state)."""
    events_meta = events_meta or []
    engs = {}
    init_t, init_s = [], []
    for e in cfg["engines"]:
        ts = [tracer.T(t["id"]) for t in e["targets"]]
        ss = [tracer.S(x["id"]) for x in e["sensors"]]
        engs[tracer.E(e["unique_id"])] = {"targets": sorted(ts), "sensors": sorted(ss),
                                          "policy": POLICY[e["decision"]["name"]]}
        init_t += ts
        init_s += ss
    uni_t = set(init_t) | {m["who"] for m in events_meta if m["kind"] == "addTarget"}
    uni_s = set(init_s) | {m["who"] for m in events_meta if m["kind"] == "addSensor"}
    return {
        "targets": sorted(uni_t), "sensors": sorted(uni_s),
        "init_targets": sorted(set(init_t)), "init_sensors": sorted(set(init_s)),
        "engines": engs,
        "nsteps": n_span_steps, "dt": int(cfg["time"]["physics_step_sec"]),
        "out_every": out_every,
        "events": [{k: m[k] for k in ("id", "kind", "t0", "t1", "who", "eng", "tgt", "planned")} for m in events_meta],
        "estimation": not cfg["propagation"].get("truth_simulation_only", False),
        "serendipity": True, "faults": True,
        "flags": flags or {},
    }


def _tla_set(xs):
    return "{" + ", ".join(json.dumps(x) for x in xs) + "}"


FLAGS = ["ResetChangesPerJob", "MissListSquared", "KeepMissedAcrossSteps", "PriorityToAllEngines", "PruneKeepsEqual",
         "PartialCommit", "UpdateTouchesTruth", "LastMergeWins"]


def trace_module(g: dict) -> tuple[str, str]:
    """(module text, cfg text) binding Resonaate's constants to one group's literal values."""
    engs = g["engines"]
    B = lambda b: "TRUE" if b else "FALSE"  # noqa: E731

    def fn(field):
        if not engs:
            return "[e \\in cE |-> {}]"
        cases = " [] ".join(f'e = {json.dumps(e)} -> {_tla_set(v[field])}' for e, v in engs.items())
        return f"[e \\in cE |-> CASE {cases}]"
    pol = " [] ".join(f'e = {json.dumps(e)} -> {json.dumps(v["policy"])}' for e, v in engs.items())
    evs = ", ".join(
        f'[id |-> {json.dumps(m["id"])}, kind |-> {json.dumps(m["kind"])}, t0 |-> {m["t0"]}, t1 |-> {m["t1"]}, '
        f'who |-> {json.dumps(m["who"])}, eng |-> {json.dumps(m["eng"])}, tgt |-> {json.dumps(m["tgt"])}, '
        f'planned |-> {B(m["planned"])}]' for m in g["events"])
    rank = " [] ".join(f't = {json.dumps(t)} -> {i + 1}' for i, t in enumerate(sorted(g['targets'], key=lambda x: int(x[1:])))) or 't = "" -> 0'
    mod = f"""---- MODULE TraceMC ----
EXTENDS TraceResonaate
cT == {_tla_set(g['targets'])}
cS == {_tla_set(g['sensors'])}
cIT == {_tla_set(g['init_targets'])}
cIS == {_tla_set(g['init_sensors'])}
cE == {_tla_set(list(engs))}
cET == {fn('targets')}
cES == {fn('sensors')}
cPol == [e \\in cE |-> {('CASE ' + pol) if engs else '"none"'}]
cEvents == {{{evs}}}
cRank == [t \\in cT |-> CASE {rank} [] OTHER -> 0]
====
"""
    f = g.get("flags") or {}
    cfg = f"""SPECIFICATION TraceSpec
CONSTANTS
  Targets <- cT
  Sensors <- cS
  InitTargets <- cIT
  InitSensors <- cIS
  Engines <- cE
  EngTargets <- cET
  EngSensors <- cES
  Policy <- cPol
  Events <- cEvents
  TRank <- cRank
  NSteps = {g['nsteps']}
  SpanSteps = {g.get('span', g['nsteps'])}
  Dt = {g['dt']}
  OutDt = {g.get('out_dt', g['out_every'] * g['dt'])}
  WithEstimation = {B(g['estimation'])}
  WithSerendipity = {B(g['serendipity'])}
  WithFaults = {B(g.get('faults', True))}
""" + "".join(f"  {name} = {B(f.get(name, False))}\n" for name in FLAGS) + "INVARIANT Accept\n"
    return mod, cfg


SYSTEM_INVARIANTS = ["OneRecordPerTasking", "NoRecordWithoutTasking", "PointingReflectsTasking",
                     "LastStepMissesOnly", "RowsExact", "StepResultIsCanonical", "OnlyVisibleTasked",
                     "TruthAtClock", "EstimatesAtClock", "DbComplete", "DbNoDup", "DbRefs",
                     "ExactlyOnceInstant", "DurationActiveExactly", "OnlyAddressee", "DvOnce", "NeverTwice",
                     "BiasActiveExactly"]
SYSTEM_PROPERTIES = ["NonInterference", "CommitAtomic"]


def validate(ctx, g: dict, traces: list, name: str, invariants=None, skip_invariants=()):
    """Validate a group of traces. Returns list of verdict dicts (one per trace):
       {"ok": bool, "kind": "accepted"|"rejected"|"invariant", "at": line, "event": ev, "invariant": name}"""
    import re
    d = ctx.sub(name)
    mod, cfg = trace_module(g)
    invs = [i for i in (invariants or SYSTEM_INVARIANTS) if i not in skip_invariants]
    cfg += "".join(f"INVARIANT {i}\n" for i in invs)
    cfg += "".join(f"PROPERTY {p}\n" for p in SYSTEM_PROPERTIES)
    (d / "TraceMC.tla").write_text(mod)
    (d / "traces.json").write_text(json.dumps(traces))
    res = tlc.run_tlc("TraceMC", cfg, d, workers=min(ctx.cpus, max(1, len(traces))), cont=True,
                      env={"TRACE_FILE": "traces.json"}, timeout=1800)
    tlc.require_ok(res, f"trace validation {name}")
    ctx.add_tlc(res, f"trace validation: {len(traces)} traces ({name})")
    reached = {}
    for t_id, pos, end in res.tuples("AT"):
        reached[t_id] = max(reached.get(t_id, 0), pos)
    accepted = {t for t, pos in reached.items() if pos == len(traces[t - 1]) + 1}
    verdicts = [None] * len(traces)
    for inv, states in res.invariant_violations:
        if inv == "Accept":
            continue
        txt = "\n".join(states)
        m_t = re.findall(r"/\\ tid = (\d+)", txt)
        m_l = re.findall(r"/\\ l = (\d+)", txt)
        if m_t:
            i = int(m_t[-1]) - 1
            if verdicts[i] is None:
                line = int(m_l[-1]) - 1 if m_l else 0
                ev = traces[i][line - 1] if 0 < line <= len(traces[i]) else None
                verdicts[i] = {"ok": False, "kind": "invariant", "invariant": inv, "at": line, "event": ev,
                               "state": states[-1] if states else ""}
    for i in range(len(traces)):
        if verdicts[i] is not None:
            continue
        if (i + 1) in accepted:
            verdicts[i] = {"ok": True, "kind": "accepted"}
        else:
            pos = reached.get(i + 1, 1)      # first event that no action of the spec explains
            ev = traces[i][pos - 1] if pos <= len(traces[i]) else None
            verdicts[i] = {"ok": False, "kind": "rejected", "at": pos, "event": ev}
    ctx.traces_validated += len(traces)
    return verdicts


def all_perms(n, cap=None, rng=None):
    perms = list(itertools.permutations(range(n)))
    if cap and len(perms) > cap:
        rng = rng or random.Random(0)
        perms = rng.sample(perms, cap)
    return perms
