"""Record traces of REAL scenarios under the REAL ray (thorough tier of C08).

Run as a separate process:  python -m harness.realray_run <out.json> <seed> <n_scenarios>

The completion order of every job batch is whatever Ray produces; only driver-side method
boundaries are traced (job bodies run in worker processes), so scenarios carry no events and
use real geometry (no stubs).  The traces are validated by TLC like all others.
"""
from __future__ import annotations

import json
import os
import sys


def main() -> int:
    out, seed, n = sys.argv[1], int(sys.argv[2]), int(sys.argv[3])
    os.environ.setdefault("RAY_memory_monitor_refresh_ms", "0")
    os.environ.setdefault("RAY_DEDUP_LOGS", "0")
    import logging

    import ray
    logging.disable(logging.CRITICAL)
    ray.init(num_cpus=4, include_dashboard=False, logging_level=logging.ERROR, log_to_driver=False)
    import copy

    from resonaate.data import clearDBPath, getDBConnection, setDBPath
    from resonaate.scenario.config import ScenarioConfig
    from resonaate.scenario.scenario import Scenario
    from resonaate.scenario.scenario_builder import ScenarioBuilder

    from harness import scenario_util as su   # NOTE: installs nothing here because `ray` is already the real module
    from harness import sysrun, tracer
    assert not getattr(sys.modules["ray"], "__verif_stand_in__", False), "real ray expected"
    policies = ["MunkresDecision", "MyopicNaiveGreedyDecision", "RandomDecision"]
    results = []
    for i in range(n):
        pol = policies[(seed + i) % 3]
        step = [60, 300][i % 2]
        cfg = su.base_config(start="2018-12-01T12:00:00", step=step, n_steps=3, n_targets=3 + i % 2, n_sensors=5, decision=pol,
                             seed=seed + i + 1)
        clearDBPath()
        setDBPath("sqlite://")
        db = getDBConnection()
        db.resetData(tuple(db.VALID_DATA_TYPES.keys()))
        b = ScenarioBuilder(ScenarioConfig(**copy.deepcopy(cfg)))
        app = Scenario(b.config, b.clock, b.target_agents, b.estimate_agents, b.sensor_agents, b.tasking_engines, logger=b.logger)
        rec = tracer.start(app, None)
        try:
            su.run_for(app, 3 * step)
        finally:
            tracer.stop()
        if not rec.saved_this_step:
            rec.emit("SkipOutput")
        results.append({"group": sysrun.group_constants(app, cfg, 3, 1), "events": rec.events, "policy": pol, "step": step})
    ray.shutdown()
    with open(out, "w") as f:
        json.dump(results, f)
    return 0


if __name__ == "__main__":
    sys.exit(main())
