"""C01 - every scheduled event takes effect exactly once, at its configured time.

1. TLC checks Resonaate.tla exhaustively for event families on a tick lattice (an impulse on
   every tick of the span - on and off step boundaries -, two impulses in one step, agent
   addition/removal, priority / time-bias / burn durations, two engines): ExactlyOnceInstant,
   DurationActiveExactly, OnlyAddressee, DvOnce, NeverTwice, BiasActiveExactly; the as-coded
   deviations (PruneKeepsEqual = D3, PriorityToAllEngines = D1) must yield counterexamples.
   Windows.tla (rounding noise of the three date paths made explicit) shows which repairs
   are sufficient for every noise assignment.
2. impl -> spec: REAL scenarios over a sweep of (start instant, step size, event time) triples
   - aligned event times start + j*step for every j, interior times, first/last step - for
   every event kind, added through the public config, run with the real propagateTo; every
   handler call (Deliver), the impulse applications seen by the propagation / prediction jobs,
   agent membership and DB rows are validated by TLC against TraceResonaate.tla.
   Real times are mapped to the spec's tick lattice by their ORDER relative to the step
   boundaries (boundary j -> 4j, interior -> 4(j-1)+rank), computed with integer arithmetic
   from the configured datetimes (never from the code's Julian dates).
"""
from __future__ import annotations

import copy
import json
import random
from concurrent.futures import ProcessPoolExecutor, ThreadPoolExecutor
from datetime import datetime, timedelta

from .. import tlc
from ..core import Ctx

LEVEL = "model_checking"
DT_SPEC = 4
NEW_TARGET_ID = 50001
NEW_SENSOR_ID = 60001

STARTS = ["2018-12-01T12:00:00", "2018-12-01T12:00:07", "2018-12-01T12:00:59", "2018-12-01T23:59:30",
          "2019-02-28T23:58:13", "2020-02-29T12:34:56", "2019-12-31T23:59:01", "2021-06-15T03:17:41",
          "2016-12-31T23:59:59", "2018-03-11T06:30:29", "2020-07-04T18:45:43", "2021-11-07T00:00:11"]
STEPS_Q = [2, 7, 60, 300]
STEPS_T = [2, 7, 30, 60, 120, 300, 600, 900]


def canon_times(times, step):
    """Map integer second offsets to spec ticks by their order relative to the step grid."""
    interior = {}
    for t in sorted(set(times)):
        if t % step != 0:
            interior.setdefault(int(t // step), []).append(t)
    out = {}
    for t in set(times):
        if t % step == 0:
            out[t] = DT_SPEC * int(t // step)
        else:
            j = int(t // step)
            rank = interior[j].index(t) + 1
            if rank > DT_SPEC - 1:
                raise ValueError("too many distinct interior times in one step")
            out[t] = DT_SPEC * j + rank
    return out


def build_case(case):
    """Real config dict + events meta for one case description."""
    from harness import scenario_util as su
    from harness.tracer import E, S, T
    step, n = case["step"], case["nsteps"]
    cfg = su.base_config(start=case["start"], step=step, n_steps=n, n_targets=2, n_sensors=2,
                         decision=case.get("policy", "MyopicNaiveGreedyDecision"), seed=case["seed"] + 1)
    eng = cfg["engines"][0]
    if case.get("two_engines"):
        e2 = copy.deepcopy(eng)
        e2["unique_id"] = eng["unique_id"] + 1
        e2["targets"], e2["sensors"] = eng["targets"][1:], eng["sensors"][1:]
        eng["targets"], eng["sensors"] = eng["targets"][:1], eng["sensors"][:1]
        if case.get("engine_ids"):          # e.g. an engine whose unique id is 0 (a falsy id must still be an id)
            eng["unique_id"], e2["unique_id"] = case["engine_ids"]
        cfg["engines"] = [eng, e2]
    t0 = su.parse_iso(case["start"])
    engines = cfg["engines"]
    tgt_ids = [t["id"] for e in engines for t in e["targets"]]
    sen_ids = [s["id"] for e in engines for s in e["sensors"]]
    times = [x for ev in case["events"] for x in (ev["t0"], ev.get("t1", ev["t0"]))]
    cmap = canon_times(times, step)
    events, meta = [], []
    for i, ev in enumerate(case["events"]):
        kind = ev["kind"]
        st = t0 + timedelta(seconds=ev["t0"])
        # "cfg_t1": an INSTANTANEOUS event (impulse, addition, removal) whose configuration carries a later end time -
        # the specification's event is still the instant t0 (exactly one delivery, one application)
        en = t0 + timedelta(seconds=ev.get("cfg_t1", ev.get("t1", ev["t0"])))
        eid = f"ev{i}"
        eng_idx = ev.get("engine", 0)
        eng_id = engines[eng_idx]["unique_id"]
        base = {"start_time": su.iso(st), "end_time": su.iso(en)}
        m = {"id": eid, "t0": cmap[ev["t0"]], "t1": cmap[ev.get("t1", ev["t0"])], "eng": E(eng_id),
             "planned": bool(ev.get("planned", False)), "real_t0": ev["t0"], "real_t1": ev.get("t1", ev["t0"])}
        if kind == "impulse":
            tid = NEW_TARGET_ID if ev.get("target") == "added" else tgt_ids[ev.get("target", 0)]
            dv = [x * ev.get("dv_scale", 1.0) for x in ([0.0, 0.0, 1e-4] if ev.get("frame", "eci") == "eci" else [1e-4, 0.0, 0.0])]
            events.append({**base, "scope": "agent_propagation", "scope_instance_id": tid, "event_type": "impulse",
                           "thrust_vector": dv, "thrust_frame": ev.get("frame", "eci"), "planned": m["planned"]})
            m.update(kind="impulse", etype="impulse", ident=tid, who=T(tid), tgt=T(tid), dv=dv)
        elif kind == "burn":
            tid = tgt_ids[ev.get("target", 0)]
            events.append({**base, "scope": "agent_propagation", "scope_instance_id": tid, "event_type": "finite_burn",
                           "acc_vector": [0.0, 0.0, 1e-6], "thrust_frame": "ntw", "planned": m["planned"]})
            m.update(kind="burn", etype="finite_burn", ident=tid, who=T(tid), tgt=T(tid))
        elif kind == "addTarget":
            spec = su.target_cfg(NEW_TARGET_ID, sma_km=7200.0, inc_deg=40.0, ta_deg=30.0)
            events.append({**base, "scope": "scenario_step", "scope_instance_id": 0, "event_type": "target_addition",
                           "target_agent": spec, "tasking_engine_id": eng_id})
            m.update(kind="addTarget", etype="target_addition", ident=NEW_TARGET_ID, who=T(NEW_TARGET_ID), tgt=T(NEW_TARGET_ID))
        elif kind == "addSensor":
            # a space-based sensor, as in the repository's own sensor-addition test (the event stores an ECI
            # state, so ground facilities cannot be added this way - see DESIGN.md, observations)
            spec = {"name": "Geo Space Sensor 1", "id": NEW_SENSOR_ID,
                    "state": {"type": "eci", "position": [42499.60206485572, 184.76309877864716, 4.838191959393135],
                              "velocity": [-0.013241150121066223, 3.0793657899539326, 0.08063602923669937]},
                    "platform": {"type": "spacecraft"},
                    "sensor": {"type": "optical", "covariance": [[9.869604401089358e-14, 0.0], [0.0, 9.869604401089358e-14]],
                               "slew_rate": 0.03490658503988659, "azimuth_range": [0.0, 6.283185132646661],
                               "elevation_range": [-1.5707961522619713, 1.5707961522619713], "efficiency": 0.99,
                               "aperture_diameter": 0.5, "field_of_view": {"fov_shape": "conic"},
                               "background_observations": False, "detectable_vismag": 25.0,
                               "minimum_range": 0.0, "maximum_range": 99000}}
            events.append({**base, "scope": "scenario_step", "scope_instance_id": 0, "event_type": "sensor_addition",
                           "sensor_agent": spec, "tasking_engine_id": eng_id})
            m.update(kind="addSensor", etype="sensor_addition", ident=NEW_SENSOR_ID, who=S(NEW_SENSOR_ID), tgt=S(NEW_SENSOR_ID))
        elif kind in ("removeTarget", "removeSensor"):
            is_t = kind == "removeTarget"
            aid = (engines[eng_idx]["targets"] if is_t else engines[eng_idx]["sensors"])[ev.get("index", -1)]["id"]
            events.append({**base, "scope": "scenario_step", "scope_instance_id": 0, "event_type": "agent_removal",
                           "tasking_engine_id": eng_id, "agent_id": aid, "agent_type": "target" if is_t else "sensor"})
            m.update(kind=kind, etype="agent_removal", ident=aid, who=(T if is_t else S)(aid), tgt=(T if is_t else S)(aid))
        elif kind == "priority":
            tcfg = engines[eng_idx]["targets"][ev.get("target_index", 0)]
            events.append({**base, "scope": "task_reward_generation", "scope_instance_id": eng_id,
                           "event_type": "task_priority", "target_id": tcfg["id"], "target_name": tcfg["name"],
                           "priority": 2.0, "is_dynamic": False})
            m.update(kind="priority", etype="task_priority", ident=eng_id, who=E(eng_id), tgt=T(tcfg["id"]))
        elif kind == "bias":
            sid = sen_ids[ev.get("sensor", 0)]
            events.append({**base, "scope": "observation_generation", "scope_instance_id": sid,
                           "event_type": "sensor_time_bias", "applied_bias": 0.5})
            m.update(kind="bias", etype="sensor_time_bias", ident=sid, who=S(sid), tgt=S(sid))
        else:
            raise ValueError(kind)
        meta.append(m)
    cfg["events"] = events
    return cfg, meta


def _run_case(case):
    import random as _r

    import numpy as np
    from harness import sysrun, tracer
    cfg, meta = build_case(case)
    # event ids in the tracer are resolved from (type, start tick in REAL seconds, ident)
    tmeta = [dict(m, t0=int(round(m["real_t0"])), t1=int(round(m["real_t1"])), t0f=float(m["real_t0"])) for m in meta]
    env = tracer.TableEnv(_r.Random(case["seed"]), serendipity=False)
    np.random.seed(case["seed"] % (2 ** 31))
    sch = sysrun.Schedule("random", rng=_r.Random(case["seed"])) if case.get("random_schedule") else sysrun.Schedule("fifo")
    events, _dig, app = sysrun.run_traced(cfg, case["nsteps"], sch, env, events_meta=tmeta, catch_crash=True,
                                          split=case.get("split"))
    err = next((e["error"] for e in events if e["ev"] == "Crash"), None)
    g = sysrun.group_constants(None, cfg, case["nsteps"], 1, events_meta=meta)
    g["dt"] = DT_SPEC
    return {"case": case, "group": g, "events": events, "error": err}


def make_cases(ctx: Ctx, rng):
    steps = STEPS_Q if ctx.quick else STEPS_T
    starts = STARTS[:4] if ctx.quick else STARTS
    n = 4
    cases = []

    def add(start, step, evs, **kw):
        cases.append({"start": start, "step": step, "nsteps": n, "events": evs, "seed": len(cases) + ctx.seed * 100000, **kw})

    for si, start in enumerate(starts):
        for step in steps:
            # aligned impulses: every boundary, incl. the last step
            for j in range(1, n + 1):
                if ctx.quick and (si + j + step) % 2:
                    continue
                add(start, step, [{"kind": "impulse", "t0": j * step, "planned": (j + si) % 2 == 0,
                                   "frame": "eci" if j % 2 else "ntw"}])
            # interior impulses
            for j in range(0, n):
                if ctx.quick and (si + j) % 3:
                    continue
                off = rng.choice([1, step - 1, max(1, step // 2)])
                add(start, step, [{"kind": "impulse", "t0": j * step + off, "planned": j % 2 == 0}])
            # two impulses in one step (boundary + interior), different targets / same target
            j = rng.randint(1, n)
            add(start, step, [{"kind": "impulse", "t0": j * step, "planned": True},
                              {"kind": "impulse", "t0": (j - 1) * step + 1, "planned": False, "target": 1}])
            # event times with fractional seconds just after / before a step boundary and mid-step
            j = rng.randint(1, n - 1)
            # (0.0004 s and 0.00006 s: inside the millisecond / the 1-2 ulp band of a Julian date after a boundary)
            for frac in ((0.4, -0.3, 0.0004, 0.00006) if ctx.quick else (0.4, 0.25, -0.3, 0.5, 0.0004, 0.00006, -0.0004, 0.002)):
                add(start, step, [{"kind": "impulse", "t0": j * step + frac, "planned": frac > 0}])
            # overlapping duration events on one sensor / one engine, and an impulse on a target added earlier in the run
            a = rng.randint(1, n - 1)
            add(start, step, [{"kind": "bias", "t0": a * step, "t1": (a + 1) * step, "sensor": 0},
                              {"kind": "bias", "t0": (a - 1) * step + 1, "t1": n * step, "sensor": 0},
                              {"kind": "priority", "t0": a * step, "t1": (n + 1) * step, "engine": 0}])
            if not ctx.quick or si % 2 == 0:
                add(start, step, [{"kind": "addTarget", "t0": a * step},
                                  {"kind": "impulse", "t0": min(n, a + 1) * step, "planned": True, "target": "added"}])
            # a target that joins and maneuvers IN THE SAME STEP (addition inside the step, impulse later in it / on its end):
            # the roster the maneuver is checked against is the one AFTER the step's additions (seed C01/13)
            add(start, step, [{"kind": "addTarget", "t0": (a - 1) * step + 1},
                              {"kind": "impulse", "t0": a * step, "planned": si % 2 == 0, "target": "added"},
                              {"kind": "impulse", "t0": min(n, a + 1) * step, "planned": True, "target": "added", "dv_scale": 2.0}])
            # a maneuver addressed to a target that is NOT YET in the scenario (skipped), the target joins, a later maneuver
            # of it must be applied; and a maneuver still scheduled for a target that has been removed (skipped)
            if a + 2 <= n:      # step a: maneuver of the absent target; step a+1: it joins; step a+2: its next maneuver
                add(start, step, [{"kind": "impulse", "t0": (a - 1) * step + 1, "planned": True, "target": "added"},
                                  {"kind": "addTarget", "t0": (a + 1) * step},
                                  {"kind": "impulse", "t0": (a + 1) * step + 1, "planned": True, "target": "added"}])
            add(start, step, [{"kind": "removeTarget", "t0": a * step, "index": 1},
                              {"kind": "impulse", "t0": min(n, a + 1) * step, "planned": False, "target": 1}])
            # duration events whose addressee leaves the scenario while they are active: a time bias of a sensor that is
            # removed, a priority for a target that is removed (skipped from then on; the run goes on)
            add(start, step, [{"kind": "bias", "t0": (a - 1) * step + 1, "t1": (n + 2) * step, "sensor": 1},
                              {"kind": "removeSensor", "t0": (a + 1) * step if a + 1 <= n else a * step, "index": 1}])
            add(start, step, [{"kind": "priority", "t0": (a - 1) * step + 1, "t1": (n + 1) * step, "engine": 0, "target_index": 1},
                              {"kind": "removeTarget", "t0": (a + 1) * step if a + 1 <= n else a * step, "index": 1}])
            # the run is performed in two propagateTo calls that meet exactly at an event's epoch
            j = rng.randint(1, n - 1)
            add(start, step, [{"kind": "impulse", "t0": j * step, "planned": (si + j) % 2 == 0}], split=[j, n - j])
            add(start, step, [{"kind": "addTarget", "t0": j * step}, {"kind": "impulse", "t0": j * step + 1, "planned": True}],
                split=[j, n - j], random_schedule=True)
            # several impulses of the SAME target in one step: interior ones followed by one exactly on the step's end
            j = rng.randint(1, n)
            evs = [{"kind": "impulse", "t0": (j - 1) * step + 1, "planned": False},
                   {"kind": "impulse", "t0": j * step, "planned": True}]
            if step > 3:
                evs.insert(1, {"kind": "impulse", "t0": (j - 1) * step + 2, "planned": True, "frame": "ntw"})
            add(start, step, evs)
            # two impulses of ONE target at the SAME instant (different delta-v; same and different frames), on a boundary
            # and inside a step: both must be delivered and applied once
            j = rng.randint(1, n)
            add(start, step, [{"kind": "impulse", "t0": j * step, "planned": True},
                              {"kind": "impulse", "t0": j * step, "planned": True, "dv_scale": 2.0}])
            add(start, step, [{"kind": "impulse", "t0": (j - 1) * step + 1, "planned": False, "dv_scale": 3.0},
                              {"kind": "impulse", "t0": (j - 1) * step + 1, "planned": (si + j) % 2 == 0, "frame": "ntw"},
                              {"kind": "impulse", "t0": (j - 1) * step + 1, "planned": False}])
            # an impulse on each of two consecutive boundaries plus one in between (queue holds expired neighbours)
            if n >= 3:
                j = rng.randint(1, n - 1)
                add(start, step, [{"kind": "impulse", "t0": j * step, "planned": False},
                                  {"kind": "impulse", "t0": j * step + 1, "planned": False},
                                  {"kind": "impulse", "t0": (j + 1) * step, "planned": True}])
            # agent set changes, aligned and interior
            j = rng.randint(1, n)
            add(start, step, [{"kind": "addTarget", "t0": j * step}])
            add(start, step, [{"kind": "addSensor", "t0": (j - 1) * step + 1}, {"kind": "removeTarget", "t0": min(n, j + 1) * step, "index": 1}])
            add(start, step, [{"kind": "removeSensor", "t0": j * step, "index": 1}])
            # instantaneous events configured with a LATER end time (D51, D53, D56): delivered and applied exactly once, the
            # run goes on - starting on a boundary and inside a step, ending inside the span and beyond it
            j = rng.randint(1, n - 1)
            k = rng.choice([(j + 1) * step, n * step + 1, j * step + 1, (n + 2) * step])
            add(start, step, [{"kind": "impulse", "t0": j * step, "cfg_t1": k, "planned": si % 2 == 0}])
            add(start, step, [{"kind": "impulse", "t0": (j - 1) * step + 1, "cfg_t1": k, "planned": si % 2 == 1, "frame": "ntw"}])
            if not ctx.quick or (si + step) % 2 == 0:
                add(start, step, [{"kind": "addTarget", "t0": j * step, "cfg_t1": k},
                                  {"kind": "removeSensor", "t0": (j - 1) * step + 1, "cfg_t1": (n + 1) * step, "index": 1}])
                add(start, step, [{"kind": "addSensor", "t0": (j - 1) * step + 1, "cfg_t1": k},
                                  {"kind": "removeTarget", "t0": j * step, "cfg_t1": n * step, "index": 1}])
            # durations: priority for the second engine, bias on a sensor, burn on a target
            a = rng.randint(1, n - 1)
            b = rng.randint(a + 1, n + 1)
            add(start, step, [{"kind": "priority", "t0": a * step, "t1": b * step, "engine": 1}], two_engines=True)
            add(start, step, [{"kind": "priority", "t0": (a - 1) * step + 1, "t1": b * step, "engine": 0}], two_engines=True,
                random_schedule=True)
            # one of the two engines has the unique id 0: the other engine's priority must not reach it, its own must
            if not ctx.quick or (si + step) % 2 == 0:
                add(start, step, [{"kind": "priority", "t0": a * step, "t1": b * step, "engine": 1}], two_engines=True,
                    engine_ids=[0, 5])
                add(start, step, [{"kind": "priority", "t0": (a - 1) * step + 1, "t1": b * step, "engine": 0},
                                  {"kind": "priority", "t0": a * step, "t1": (n + 1) * step, "engine": 1}], two_engines=True,
                    engine_ids=[7, 0])
            add(start, step, [{"kind": "bias", "t0": a * step, "t1": b * step, "sensor": 0}])
            add(start, step, [{"kind": "bias", "t0": (a - 1) * step + 1, "t1": (n + 2) * step, "sensor": 1},
                              {"kind": "burn", "t0": a * step, "t1": b * step, "planned": True}])
    return cases


def spec_level(ctx: Ctx):
    names = [f"ev_imp{t}" for t in range(1, 10)] + ["ev_imppair", "ev_addremove", "ev_durations",
                                                     "live_events", "live_addremove", "live_faults"]
    # coded_prio_stuck: as coded, an engine is handed a priority event for a target it does not own and can never
    # handle it - the step loop gets stuck, which the liveness property RunCompletes (fair spec) exposes
    mutants = {"coded_prune": "NeverTwice", "coded_prio": "OnlyAddressee", "coded_prio_stuck": "RunCompletes"}

    def one(name):
        return name, tlc.run_tlc("MCResonaate", f"MCResonaate_{name}.cfg", ctx.sub("mc_" + name),
                                 workers=max(2, ctx.cpus // 4), timeout=3000)

    with ThreadPoolExecutor(4) as ex:
        results = list(ex.map(one, names + list(mutants)))
    killed = 0
    for name, res in results:
        tlc.require_ok(res, name)
        ctx.add_tlc(res, f"Resonaate.tla exhaustive, config {name}")
        viol = [v[0] for v in res.invariant_violations] + [v[0] for v in res.property_violations]
        if name in mutants:
            if mutants[name] not in viol:
                raise tlc.MachineryError(f"spec mutant {name} not killed (expected {mutants[name]}, got {viol})")
            killed += 1
        elif viol:
            raise tlc.MachineryError(f"as-designed model {name} violates {viol}")
    ctx.extra["spec_mutants_killed"] = killed
    # Windows.tla: the date-path noise model (design check of the repair)
    expect = {"Windows_repaired.cfg": False, "Windows_ascoded.cfg": True, "Windows_sharedpath_only.cfg": True}
    for cfgname, should_fail in expect.items():
        res = tlc.run_tlc("Windows", cfgname, ctx.sub("win_" + cfgname[:-4]), workers=4, timeout=600, cont=True)
        tlc.require_ok(res, cfgname)
        ctx.add_tlc(res, f"Windows.tla {cfgname}")
        failed = bool(res.invariant_violations)
        if failed != should_fail:
            raise tlc.MachineryError(f"Windows.tla {cfgname}: expected violation={should_fail}, got {failed}")
    ctx.extra["windows_model"] = "as coded: violations; shared path only: violations; shared path + prune + rounding: none"


def signature(case, verdict):
    kinds = "+".join(sorted({e["kind"] for e in case["events"]}))
    aligned = any(e["t0"] % case["step"] == 0 for e in case["events"])
    if any(e["t0"] != int(e["t0"]) for e in case["events"]):
        kinds += "(fractional-second)"
    ev = verdict.get("event") or {}
    if verdict["kind"] == "invariant":
        what = verdict["invariant"]
    elif ev.get("ev") == "Crash":
        what = "crash-" + ev.get("error", "").split(":")[0]
    else:
        what = "unexplained-" + str(ev.get("ev", "end"))
    return f"{kinds}:{'aligned' if aligned else 'interior'}:{what}"


def run(ctx: Ctx):
    rng = random.Random(ctx.seed + 101)
    ctx.rule = ("one case = one real scenario (start instant, step size, event list with times in whole seconds from the start); "
                "aligned = some event time is an exact multiple of the step; non-trivial = aligned or >= 2 events; "
                "distinct by (start, step, events)")
    ctx.assumptions = ["event times are mapped to the spec lattice by their order relative to the step boundaries, "
                       "computed from the configured datetimes with integer arithmetic",
                       "duration events end on a step boundary or beyond the span (DESIGN.md 5 C01 scope note)",
                       "impulse application is observed at ScheduledImpulse.getStateChange inside the propagation / prediction job"]
    cases = make_cases(ctx, rng)
    with ThreadPoolExecutor(1) as bg:
        fut = bg.submit(spec_level, ctx)
        with ProcessPoolExecutor(max_workers=min(ctx.cpus, 10)) as ex:
            results = list(ex.map(_run_case, cases, chunksize=4))
        fut.result()
    groups = {}
    for r in results:
        groups.setdefault(json.dumps(r["group"], sort_keys=True), []).append(r)
    from .. import sysrun

    def validate_group(item):
        idx, (key, rs) = item
        return rs, sysrun.validate(ctx, json.loads(key), [r["events"] for r in rs], f"grp{idx}")

    with ThreadPoolExecutor(6) as ex:
        out = list(ex.map(validate_group, enumerate(sorted(groups.items()))))
    rejected = 0
    for rs, verdicts in out:
        for r, v in zip(rs, verdicts):
            case = r["case"]
            key = (case["start"], case["step"], json.dumps(case["events"], sort_keys=True))
            aligned = any(e["t0"] % case["step"] == 0 for e in case["events"])
            ctx.case(key, nontrivial=aligned or len(case["events"]) > 1,
                     sample={"start": case["start"], "step": case["step"], "events": case["events"]} if len(ctx.samples) < 4 else None)
            if not v["ok"]:
                rejected += 1
                sig = signature(case, v)
                ctx.violation(sig, f"{sig}: start={case['start']} step={case['step']} events={json.dumps(case['events'])} "
                                   f"at trace line {v.get('at')}: {json.dumps(v.get('event'))[:260]}",
                              {"case": case, "verdict": {k: x for k, x in v.items() if k != "state"}, "events": r["events"]})
    ctx.extra["groups"] = len(groups)
    ctx.extra["traces_rejected"] = rejected


def replay(ctx: Ctx, rp: dict):
    from .. import sysrun
    case = rp["replay"]["case"]
    r = _run_case(case)
    v = sysrun.validate(ctx, r["group"], [r["events"]], "replay")[0]
    ctx.case(("replay", json.dumps(case, sort_keys=True)))
    ctx.case(("replay-done",))
    if not v["ok"]:
        sig = signature(case, v)
        ctx.violation(sig, f"{sig} (replay) at {v.get('at')}: {json.dumps(v.get('event'))[:260]}", {"case": case})
