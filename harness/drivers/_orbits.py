"""Shared helpers of the C12 / C20 drivers: reading OrbitLattice.tla output, scaling lattice
orbits to kilometres, generating (never judging) seeded inputs.

Scaling (documented in spec/OrbitLattice.tla): for a target semi-major axis A km, L = A / a,
    r_km = L r          v_km/s = sqrt(mu_E / (mu L)) v          t_s = sqrt(L^3 mu / mu_E) t
with mu_E the repository's Earth.mu; angles, e and (h, k, p, q) are scale free.  With L = 1 and
mu_E := mu the lattice orbit is used unscaled (the conversion functions take ``mu=``).

The lattice oracle is exact (TLC, rationals); the only floating point ingredients added here are
math.pi and math.acos(e) for the transcendental coefficient triples <<c_pi, c_acos, c_1>> and one
division per rational.
"""
from __future__ import annotations

import math

import numpy as np

from .. import tlc

TWOPI = 2.0 * math.pi

SPEC_INVARIANTS = ("VisViva", "EnergyConst", "HConstant", "EccVector", "KeplerGeometry", "OnLattice",
                   "ElementRoundTrip", "EquatorialSplit", "EquinoctialRoundTrip", "EqeMatchesCoe", "ArcSameOrbit",
                   "ArcLagrange", "ArcMinimumEnergy", "NoOverflow")
ACTIONS = ("PoseFamily", "PoseOrient", "PoseAnomaly", "Perifocal1", "Rotate", "Vectors", "Classify",
           "Elements", "Equinoctial", "PoseArc", "ComputeArc")


def lattice_cfg(families: str, kinds: str = "KindsAll", arcs: bool = True, convention: str = "motion",
                emit: bool = True) -> str:
    """cfg text for OrbitLattice.tla (families / kinds are names of sets defined in the module)."""
    inv = list(SPEC_INVARIANTS)
    if emit:
        inv += ["Emit", "EmitCases"] + (["EmitArc"] if arcs else [])
    return ("SPECIFICATION Spec\n"
            f"CONSTANT Families <- {families}\nCONSTANT OrientKinds <- {kinds}\n"
            f"CONSTANT WithArcs = {'TRUE' if arcs else 'FALSE'}\n"
            f'CONSTANT RetroConvention = "{convention}"\n'
            + "".join(f"INVARIANT {i}\n" for i in inv))


def run_lattice(ctx, cfg: str, name: str, purpose: str, coverage: bool = False, arcs: bool = True):
    """Run TLC on OrbitLattice.tla; spec-level theorem failures are machinery errors."""
    res = tlc.require_ok(tlc.run_tlc("OrbitLattice", cfg, ctx.sub(name), workers=min(ctx.cpus, 8),
                                     timeout=1500, coverage=coverage), name)
    ctx.add_tlc(res, purpose)
    for inv, states in res.invariant_violations:
        raise tlc.MachineryError(f"OrbitLattice.tla theorem {inv} fails at specification level:\n"
                                 + "\n".join(states[-1:])[:3000])
    if not res.ok:
        raise tlc.MachineryError("OrbitLattice.tla run failed:\n" + res.stdout[-3000:])
    orbits, arcs, cases = res.tagged("ORBIT"), res.tagged("ARC"), res.tagged("CASES")
    # TLC's workers print in a run-dependent order: fix it so that a seed determines everything
    orbits.sort(key=lambda o: (o["fam"], str(o["rot"]), o["q"]))
    arcs.sort(key=lambda a: (a["fam"], str(a["rot"]), a["q"], a["kind"]))
    if not orbits or len(cases) != 1:
        raise tlc.MachineryError("OrbitLattice.tla emitted no orbits / case table")
    if coverage:
        acts = [a for a in ACTIONS if arcs or a not in ("PoseArc", "ComputeArc")]
        for a in acts:
            hit = res.coverage.get(f"OrbitLattice!{a}")
            if not hit or hit[1] == 0:
                raise tlc.MachineryError(f"OrbitLattice.tla action {a} never taken (coverage {hit})")
        ctx.extra["spec_actions_covered"] = {a: res.coverage[f"OrbitLattice!{a}"][1] for a in acts}
    return res, orbits, arcs, cases[0]


def spec_mutant_killed(ctx) -> bool:
    """RetroConvention = "ccw" (the code as written, D14) must be refuted by TLC."""
    cfg = lattice_cfg("FamMutant", "KindsCube", arcs=False, convention="ccw", emit=False)
    res = tlc.run_tlc("OrbitLattice", cfg, ctx.sub("specmutant"), workers=1, timeout=900)
    ctx.add_tlc(res, 'spec mutant RetroConvention="ccw" (D14 as coded): ElementRoundTrip must be refuted')
    killed = any(n in ("ElementRoundTrip", "EquatorialSplit") for n, _ in res.invariant_violations)
    if not killed:
        raise tlc.MachineryError("spec mutant RetroConvention=ccw was not refuted by ElementRoundTrip:\n"
                                 + res.stdout[-2000:])
    return killed


# ---------------------------------------------------------------- rationals -> floats
def qf(x) -> float:
    return x[0] / x[1]


def vf(v) -> np.ndarray:
    return np.array([c[0] / c[1] for c in v], dtype=float)


def triple(t, ecc: float) -> float:
    """<<c_pi, c_acos, c_1>> -> c_pi pi + c_acos acos(e) + c_1 (radians)."""
    return qf(t[0]) * math.pi + qf(t[1]) * math.acos(ecc) + qf(t[2])


def quarter(k: int) -> float:
    return (k % 4) * 0.5 * math.pi


def ang_diff(a: float, b: float) -> float:
    """Distance of two angles on the circle."""
    d = math.fmod(a - b, TWOPI)
    if d > math.pi:
        d -= TWOPI
    elif d < -math.pi:
        d += TWOPI
    return abs(d)


class Scaled:
    """A lattice orbit record scaled to a target size (see module docstring)."""

    def __init__(self, rec: dict, a_km: float | None, mu_earth: float):
        self.rec = rec
        mu, a = float(rec["mu"]), float(rec["a"])
        if a_km is None:                      # unscaled: use the lattice's own mu
            self.L, self.mu, self.vs, self.ts = 1.0, mu, 1.0, 1.0
        else:
            self.L = a_km / a
            self.mu = mu_earth
            self.vs = math.sqrt(mu_earth / (mu * self.L))
            self.ts = math.sqrt(self.L ** 3 * mu / mu_earth)
        self.sma = a * self.L
        self.ecc = qf(rec["e"])
        self.time_unit = qf(rec["tu"]) * self.ts          # sqrt(a^3/mu) in seconds = 1 / mean motion
        self.period = TWOPI * self.time_unit

    def pos(self, v) -> np.ndarray:
        return self.L * vf(v)

    def vel(self, v) -> np.ndarray:
        return self.vs * vf(v)

    def state(self, r, v) -> np.ndarray:
        return np.concatenate([self.pos(r), self.vel(v)])


def sizes_for(ecc: float, quick: bool) -> list:
    """Target semi-major axes (km) in 6600..50000 with the perigee above the Earth's surface
    (StateConfig validators reject positions inside the Earth); None = unscaled."""
    lo = max(6700.0, 6800.0 / (1.0 - ecc))
    out = [None, lo]
    if lo < 42164.0:
        out.append(42164.0)
    if not quick:
        out.append(50000.0)
        mid = 0.5 * (lo + 50000.0)
        out.append(round(mid, 3))
    return out


# ---------------------------------------------------------------- input generation only
def rot3a(t):
    c, s = math.cos(t), math.sin(t)
    return np.array([[c, -s, 0.0], [s, c, 0.0], [0.0, 0.0, 1.0]])


def rot1a(t):
    c, s = math.cos(t), math.sin(t)
    return np.array([[1.0, 0.0, 0.0], [0.0, c, -s], [0.0, s, c]])


def kep2cart(sma, ecc, inc, raan, argp, nu, mu) -> np.ndarray:
    """Textbook elements -> Cartesian state; used to GENERATE inputs (never as the judge of a
    value except for the class of a threshold-straddling variant, which is known by construction)."""
    p = sma * (1.0 - ecc * ecc)
    c, s = math.cos(nu), math.sin(nu)
    r = p / (1.0 + ecc * c) * np.array([c, s, 0.0])
    v = math.sqrt(mu / p) * np.array([-s, ecc + c, 0.0])
    m = rot3a(raan) @ rot1a(inc) @ rot3a(argp)
    return np.concatenate([m @ r, m @ v])


def true2mean(nu, ecc):
    e_anom = math.atan2(math.sqrt(1 - ecc * ecc) * math.sin(nu), ecc + math.cos(nu))
    return math.fmod(e_anom - ecc * math.sin(e_anom) + TWOPI, TWOPI)


def propagate_elliptic(x0: np.ndarray, tof: float, mu: float) -> np.ndarray:
    """Independent Kepler propagation of a bound orbit (eccentric-anomaly f and g series); only a
    fall-back when the repository's own solver raises."""
    r0, v0 = x0[:3], x0[3:]
    r0m = float(np.linalg.norm(r0))
    sma = 1.0 / (2.0 / r0m - float(v0 @ v0) / mu)
    n = math.sqrt(mu / sma ** 3)
    sig0 = float(r0 @ v0) / math.sqrt(mu)
    big_m = n * tof
    de = big_m
    for _ in range(200):
        f_ = de - (1 - r0m / sma) * math.sin(de) + sig0 / math.sqrt(sma) * (1 - math.cos(de)) - big_m
        fp = 1 - (1 - r0m / sma) * math.cos(de) + sig0 / math.sqrt(sma) * math.sin(de)
        step = f_ / fp
        de -= step
        if abs(step) < 1e-15:
            break
    c, s = math.cos(de), math.sin(de)
    r = sma + (r0m - sma) * c + sig0 * math.sqrt(sma) * s
    f = 1 - sma / r0m * (1 - c)
    g = tof + (s - de) / n
    fd = -math.sqrt(mu * sma) / (r * r0m) * s
    gd = 1 - sma / r * (1 - c)
    return np.concatenate([f * r0 + g * v0, fd * r0 + gd * v0])
